(* Simulation between the observer of ServerMon.v and the model of Server.v, part 1: list and
   observer-table lemmas, the invariant, and its preservation by the micro-steps of a poll. *)
From Coq Require Import List Bool Arith NArith Lia.
Import ListNotations.
From TarpcV Require Import Base Transport TimerWheel Server ServerMon ServerFuel.

(* ------------------------------------------------------------------------------------------ *)
(* lists *)
Lemma nth_error_app_l : forall A (l l' : list A) k, k < length l -> nth_error (l ++ l') k = nth_error l k.
Proof. intros; apply nth_error_app1; assumption. Qed.

Lemma nth_error_app_last : forall A (l : list A) x, nth_error (l ++ [x]) (length l) = Some x.
Proof. intros. rewrite nth_error_app2 by lia. rewrite Nat.sub_diag. reflexivity. Qed.

Lemma NoDup_app_one : forall A (l : list A) x, NoDup l -> ~ In x l -> NoDup (l ++ [x]).
Proof.
  induction l as [|y l IH]; cbn; intros x Hn Hx; [constructor; [tauto|constructor]|].
  inversion Hn; subst. constructor.
  - intros Hin. apply in_app_or in Hin. destruct Hin as [Hin|[Hin|[]]]; [tauto|subst; tauto].
  - apply IH; tauto.
Qed.

Lemma upd_nth_length : forall f k l, length (upd_nth k f l) = length l.
Proof. intros f k l; revert k; induction l; destruct k; cbn; auto. Qed.

Lemma upd_nth_same : forall f k l x, nth_error l k = Some x -> nth_error (upd_nth k f l) k = Some (f x).
Proof.
  intros f k l; revert k; induction l; destruct k; cbn; intros; try discriminate.
  - inversion H; reflexivity.
  - auto.
Qed.

Lemma upd_nth_other : forall f k k' l, k <> k' -> nth_error (upd_nth k f l) k' = nth_error l k'.
Proof.
  intros f k k' l; revert k k'; induction l; destruct k, k'; cbn; intros; auto; try congruence.
Qed.

Lemma upd_nth_none : forall f k l, nth_error l k = None -> upd_nth k f l = l.
Proof.
  intros f k l; revert k; induction l; destruct k; cbn; intros; auto; try discriminate.
  rewrite IHl; auto.
Qed.

Lemma set_hst_length : forall k st l, length (set_hst k st l) = length l.
Proof. intros k st l; revert k; induction l; destruct k; cbn; auto. Qed.

Lemma set_hst_same : forall k st l x, nth_error l k = Some x ->
  nth_error (set_hst k st l) k = Some {| h_h := h_h x; h_id := h_id x; h_st := st |}.
Proof.
  intros k st l; revert k; induction l; destruct k; cbn; intros; try discriminate.
  - inversion H; reflexivity.
  - auto.
Qed.

Lemma set_hst_other : forall k k' st l, k <> k' -> nth_error (set_hst k st l) k' = nth_error l k'.
Proof.
  intros k k' st l; revert k k'; induction l; destruct k, k'; cbn; intros; auto; try congruence.
Qed.

Lemma set_hst_map_h : forall k st l, map h_h (set_hst k st l) = map h_h l.
Proof. intros k st l; revert k; induction l; destruct k; cbn; intros; auto; f_equal; auto. Qed.

(* ------------------------------------------------------------------------------------------ *)
(* the observer's table *)
Definition has_id (id : N) (i : oinc) : bool := N.eqb (oi_id i) id.
Definition open_id (id : N) (i : oinc) : bool := N.eqb (oi_id i) id && is_open (oi_wire i).

Lemma last_open_from_spec : forall id l k0 acc r,
  last_open_from id k0 l acc = r ->
  (r = acc /\ forall j x, nth_error l j = Some x -> open_id id x = false)
  \/ (exists j x, r = Some (k0 + j) /\ nth_error l j = Some x /\ open_id id x = true
                  /\ forall j' x', j < j' -> nth_error l j' = Some x' -> open_id id x' = false).
Proof.
  induction l as [|y l IH]; intros k0 acc r H; cbn in H.
  - left. split; [auto|]. intros j x Hn. destruct j; discriminate.
  - destruct (IH _ _ _ H) as [[Hr Hall]|(j & x & Hr & Hn & Ho & Hlast)].
    + fold (open_id id y) in Hr. destruct (open_id id y) eqn:Ey.
      * right. exists 0, y. rewrite Nat.add_0_r. repeat split; auto.
        intros j' x' Hj Hn. destruct j'; [lia|]. cbn in Hn. eauto.
      * left. split; [auto|]. intros j x Hn. destruct j; cbn in Hn; [inversion Hn; subst; auto|eauto].
    + right. exists (S j), x. rewrite Nat.add_succ_r. cbn. repeat split; auto.
      intros j' x' Hj Hn'. destruct j'; [lia|]. cbn in Hn'. apply (Hlast j' x'); auto; lia.
Qed.

Lemma last_open_some : forall id l k,
  last_open id l = Some k ->
  exists x, nth_error l k = Some x /\ open_id id x = true
            /\ forall j' x', k < j' -> nth_error l j' = Some x' -> open_id id x' = false.
Proof.
  intros id l k H. unfold last_open in H.
  destruct (last_open_from_spec _ _ _ _ _ H) as [[Hr _]|(j & x & Hr & Hn & Ho & Hl)]; [discriminate|].
  inversion Hr; subst. cbn. eauto.
Qed.

Lemma last_open_none : forall id l,
  last_open id l = None -> forall j x, nth_error l j = Some x -> open_id id x = false.
Proof.
  intros id l H. unfold last_open in H.
  destruct (last_open_from_spec _ _ _ _ _ H) as [[_ Hall]|(j & x & Hr & _)]; [exact Hall|discriminate].
Qed.

Lemma last_any_from_spec : forall id l acc r,
  last_any_from id l acc = r ->
  (r = acc /\ forall j x, nth_error l j = Some x -> has_id id x = false)
  \/ (exists j x, r = Some x /\ nth_error l j = Some x /\ has_id id x = true
                  /\ forall j' x', j < j' -> nth_error l j' = Some x' -> has_id id x' = false).
Proof.
  induction l as [|y l IH]; intros acc r H; cbn in H.
  - left. split; [auto|]. intros j x Hn. destruct j; discriminate.
  - destruct (IH _ _ H) as [[Hr Hall]|(j & x & Hr & Hn & Ho & Hlast)].
    + fold (has_id id y) in Hr. destruct (has_id id y) eqn:Ey.
      * right. exists 0, y. repeat split; auto.
        intros j' x' Hj Hn. destruct j'; [lia|]. cbn in Hn. eauto.
      * left. split; [auto|]. intros j x Hn. destruct j; cbn in Hn; [inversion Hn; subst; auto|eauto].
    + right. exists (S j), x. cbn. repeat split; auto.
      intros j' x' Hj Hn'. destruct j'; [lia|]. cbn in Hn'. apply (Hlast j' x'); auto; lia.
Qed.

Lemma count_open_app : forall l x, count_open (l ++ [x]) = count_open l + (if is_open (oi_wire x) then 1 else 0).
Proof.
  intros. unfold count_open. rewrite filter_app, app_length. cbn. destruct (is_open (oi_wire x)); reflexivity.
Qed.

(* ------------------------------------------------------------------------------------------ *)
(* The invariant, unconditional part: what links the observer's table to the model's state
   whatever the peer does. *)
Definition phase_ok (st : hstate) (p : ophase) : Prop :=
  match st, p with
  | HYielded, PFresh => True
  | HRunning, PStarted | HWait _, PStarted | HPermit _, PStarted => True
  | HDone, PEnded | HGone, PEnded => True
  | _, _ => False
  end.
Definition done_ok (st : hstate) (d : option rbody) : Prop :=
  match st with
  | HYielded | HRunning => d = None
  | HWait b | HPermit b => d = Some b
  | _ => True
  end.

Section Inv.
  Context {T : Type}.
  Notation st := (@sstate T).

  (* entry e is owned by incarnation k *)
  Definition owns (o : ostate) (s : st) (k : nat) (e : sentry) : Prop :=
    exists hr oi, nth_error (s_handlers s) k = Some hr /\ nth_error (o_incs o) k = Some oi
                  /\ h_h hr = e_h e /\ oi_id oi = e_id e /\ is_open (oi_wire oi) = true
                  /\ In (e_id e, oi_when oi) (s_timers s)
                  (* k is the last incarnation with that id *)
                  /\ (forall k' oi', k < k' -> nth_error (o_incs o) k' = Some oi' -> oi_id oi' <> e_id e).

  Definition pend_id (o : ostate) : option N :=
    match o_pend o with Some (id, _, _, _) => Some id | None => None end.

  Record InvU (o : ostate) (s : st) : Prop := {
    u_len : length (o_incs o) = length (s_handlers s);
    u_now : o_now o = s_now s;
    u_dropped : o_dropped o = s_dropped s;
    u_eof : s_fused s = true -> o_eof o = true;
    u_hand : forall k hr oi, nth_error (s_handlers s) k = Some hr -> nth_error (o_incs o) k = Some oi ->
               oi_id oi = h_id hr /\ phase_ok (h_st hr) (oi_ph oi) /\ done_ok (h_st hr) (oi_done oi)
               /\ h_h hr < s_next_h s;
    u_hnodup : NoDup (map h_h (s_handlers s));
    u_enodup : NoDup (map e_h (s_inflight s));
    u_idnodup : NoDup (map e_id (s_inflight s));
    u_efresh : forall e, In e (s_inflight s) -> e_h e < s_next_h s;
    u_timers : map fst (s_timers s) = map e_id (s_inflight s);
    u_one_open : forall k1 k2 o1 o2, nth_error (o_incs o) k1 = Some o1 -> nth_error (o_incs o) k2 = Some o2 ->
                   oi_id o1 = oi_id o2 -> is_open (oi_wire o1) = true -> is_open (oi_wire o2) = true -> k1 = k2;
    u_open_young : forall k oi, nth_error (o_incs o) k = Some oi -> oi_wire oi = WOpen ->
                     (s_now s < oi_when oi)%N;
    (* every tracked entry has an owner, except the request accepted by the current poll and not
       yet yielded (its id is in o_pend), or after the poll that failed *)
    u_owner : forall e, In e (s_inflight s) ->
                (exists k, owns o s k e)
                \/ ((pend_id o = Some (e_id e) \/ c_err (o_v o) = true)
                    /\ forall hr, In hr (s_handlers s) -> h_h hr <> e_h e);
    u_aborted : forall k hr oi, nth_error (s_handlers s) k = Some hr -> nth_error (o_incs o) k = Some oi ->
                  In (h_h hr) (s_aborted s) -> oi_wire oi <> WOpen \/ s_dropped s = true;
    u_maybe : forall k e oi, In e (s_inflight s) -> owns o s k e ->
                nth_error (o_incs o) k = Some oi -> oi_wire oi = WMaybe ->
                (oi_when oi <= s_now s)%N \/ In (oi_id oi) (s_cancels s);
    (* the timer of an entry that has no owner yet is the one start_request armed *)
    u_pend_timer : c_err (o_v o) = false ->
                   forall e, In e (s_inflight s) -> (forall hr, In hr (s_handlers s) -> h_h hr <> e_h e) ->
                     In (e_id e, when_of (s_now s) (e_dl e)) (s_timers s);
    u_abfresh : forall h, In h (s_aborted s) -> h < s_next_h s
  }.
End Inv.

(* ------------------------------------------------------------------------------------------ *)
Section Steps.
  Context {T : Type}.
  Notation st := (@sstate T).

  (* the parts of the model state the invariant talks about *)
  Definition same_core (s s' : st) : Prop :=
    s_handlers s' = s_handlers s /\ s_next_h s' = s_next_h s /\ s_inflight s' = s_inflight s
    /\ s_timers s' = s_timers s /\ s_aborted s' = s_aborted s /\ s_cancels s' = s_cancels s
    /\ s_now s' = s_now s /\ s_dropped s' = s_dropped s.
  Definition same_core_but_handlers (s s' : st) : Prop :=
    s_next_h s' = s_next_h s /\ s_inflight s' = s_inflight s
    /\ s_timers s' = s_timers s /\ s_aborted s' = s_aborted s /\ s_cancels s' = s_cancels s
    /\ s_now s' = s_now s /\ s_dropped s' = s_dropped s.
  Definition same_core_but_now (s s' : st) : Prop :=
    s_handlers s' = s_handlers s /\ s_next_h s' = s_next_h s /\ s_inflight s' = s_inflight s
    /\ s_timers s' = s_timers s /\ s_aborted s' = s_aborted s /\ s_cancels s' = s_cancels s
    /\ s_dropped s' = s_dropped s.
  Definition same_tab_but_incs (o o' : ostate) : Prop :=
    o_dropped o' = o_dropped o /\ pend_id o' = pend_id o /\ c_err (o_v o') = c_err (o_v o).
  Definition same_tab (o o' : ostate) : Prop :=
    o_incs o' = o_incs o /\ o_now o' = o_now o /\ o_dropped o' = o_dropped o
    /\ pend_id o' = pend_id o /\ c_err (o_v o') = c_err (o_v o).

  Lemma owns_frame : forall o o' (s s' : st) k e,
    o_incs o' = o_incs o -> s_handlers s' = s_handlers s -> s_timers s' = s_timers s ->
    owns o s k e -> owns o' s' k e.
  Proof.
    intros o o' s s' k e Hi Hh Ht (hr & oi & A & B & C & D & E & F & G).
    exists hr, oi. rewrite Hi, Hh, Ht. repeat split; auto.
  Qed.

  Lemma InvU_frame : forall o o' (s s' : st),
    InvU o s -> same_tab o o' -> same_core s s' ->
    (s_fused s' = true -> o_eof o' = true) -> InvU o' s'.
  Proof.
    intros o o' s s' HI (T1 & T2 & T3 & T4 & T5) (C1 & C2 & C3 & C4 & C5 & C6 & C7 & C8) He.
    destruct HI. constructor; rewrite ?T1, ?T2, ?T3, ?T4, ?T5, ?C1, ?C2, ?C3, ?C4, ?C5, ?C6, ?C7, ?C8; auto.
    - intros e He'. destruct (u_owner0 e He') as [[k Hk]|Hx]; [left; exists k|right; exact Hx].
      eapply owns_frame; eauto.
    - intros k e oi Hin Ho. apply (u_maybe0 k e oi); auto. eapply owns_frame; [| | |exact Ho]; auto.
  Qed.

  (* ---- removing the entry (and timer) of one id ------------------------------------------- *)
  Lemma NoDup_map_filter : forall A B (f : A -> B) (p : A -> bool) l,
    NoDup (map f l) -> NoDup (map f (filter p l)).
  Proof.
    induction l as [|x l IH]; cbn; intros H; [constructor|]. inversion H; subst.
    destruct (p x); cbn; auto. constructor; auto.
    intros Hin. apply H2. apply in_map_iff in Hin. destruct Hin as (y & Hy & Hin).
    apply filter_In in Hin. apply in_map_iff. exists y. tauto.
  Qed.

  Lemma drop_sync : forall id (ts : list (N * N)) (es : list sentry),
    map fst ts = map e_id es -> map fst (drop_timer id ts) = map e_id (drop_entry id es).
  Proof.
    induction ts as [|[i w] ts IH]; destruct es as [|e es]; cbn; intros H; try discriminate; auto.
    inversion H; subst. unfold drop_timer, drop_entry in *. cbn.
    destruct (N.eqb (e_id e) id); cbn; [apply IH|f_equal; apply IH]; assumption.
  Qed.

  Lemma in_drop_entry : forall id e l, In e (drop_entry id l) <-> In e l /\ e_id e <> id.
  Proof.
    intros. unfold drop_entry. rewrite filter_In. split; intros [A B]; split; auto.
    - intro; subst. rewrite N.eqb_refl in B. discriminate.
    - apply negb_true_iff. apply N.eqb_neq. exact B.
  Qed.
  Lemma in_drop_timer : forall id p l, In p (drop_timer id l) <-> In p l /\ fst p <> id.
  Proof.
    intros. unfold drop_timer. rewrite filter_In. split; intros [A B]; split; auto.
    - intro; subst. rewrite N.eqb_refl in B. discriminate.
    - apply negb_true_iff. apply N.eqb_neq. exact B.
  Qed.

  Lemma InvU_remove : forall o (s s' : st) id,
    InvU o s ->
    s_inflight s' = drop_entry id (s_inflight s) -> s_timers s' = drop_timer id (s_timers s) ->
    (forall id', id' <> id -> In id' (s_cancels s) -> In id' (s_cancels s')) ->
    s_handlers s' = s_handlers s -> s_next_h s' = s_next_h s -> s_aborted s' = s_aborted s ->
    s_now s' = s_now s -> s_dropped s' = s_dropped s -> s_fused s' = s_fused s ->
    InvU o s'.
  Proof.
    intros o s s' id HI Hi Ht Hc Hh Hn Ha Hw Hd Hf. destruct HI.
    constructor; rewrite ?Hi, ?Ht, ?Hh, ?Hn, ?Ha, ?Hw, ?Hd, ?Hf; auto.
    - apply NoDup_map_filter; auto.
    - apply NoDup_map_filter; auto.
    - intros e He. apply in_drop_entry in He. destruct He; auto.
    - apply drop_sync; auto.
    - intros e He. apply in_drop_entry in He. destruct He as [He Hne].
      destruct (u_owner0 e He) as [[k (hr & oi & A & B & C & D & E & F & G)]|Hx]; [left|right; exact Hx].
      exists k, hr, oi. rewrite Hh, Ht. repeat split; auto.
      apply in_drop_timer. split; auto.
    - intros k e oi Hin (hr & oi' & A & B & C & D & E & F & G) Hoi Hm.
      apply in_drop_entry in Hin. destruct Hin as [Hin Hne0].
      rewrite Ht in F. apply in_drop_timer in F. destruct F as [F Hne]. cbn in Hne.
      rewrite Hh in A.
      assert (Ho : owns o s k e) by (exists hr, oi'; repeat split; auto).
      destruct (u_maybe0 k e oi Hin Ho Hoi Hm) as [L|R]; [left; exact L|right].
      apply Hc; auto. rewrite B in Hoi. inversion Hoi; subst. congruence.
    - intros Hce e He Hno. apply in_drop_entry in He. destruct He as [He Hne].
      apply in_drop_timer. split; [apply u_pend_timer0; auto|exact Hne].
  Qed.

  (* ---- aborting a handle -------------------------------------------------------------------- *)
  Lemma InvU_abort : forall o (s s' : st) h,
    InvU o s -> s_aborted s' = h :: s_aborted s ->
    (forall k hr oi, nth_error (s_handlers s) k = Some hr -> nth_error (o_incs o) k = Some oi ->
                     h_h hr = h -> oi_wire oi <> WOpen \/ s_dropped s = true) ->
    h < s_next_h s ->
    s_handlers s' = s_handlers s -> s_next_h s' = s_next_h s -> s_inflight s' = s_inflight s ->
    s_timers s' = s_timers s -> s_cancels s' = s_cancels s ->
    s_now s' = s_now s -> s_dropped s' = s_dropped s -> s_fused s' = s_fused s ->
    InvU o s'.
  Proof.
    intros o s s' h HI Ha Hlic Hlt Hh Hn Hi Ht Hc Hw Hd Hf. destruct HI.
    constructor; rewrite ?Hi, ?Ht, ?Hh, ?Hn, ?Hc, ?Hw, ?Hd, ?Hf; auto.
    - intros e He. destruct (u_owner0 e He) as [[k Hk]|Hx]; [left; exists k|right; exact Hx].
      eapply owns_frame; eauto.
    - intros k hr oi A B Hin. rewrite Ha in Hin. destruct Hin as [Heq|Hin]; [eapply Hlic; eauto|eauto].
    - intros k e oi Hin Ho. apply (u_maybe0 k e oi); auto. eapply owns_frame; [| | |exact Ho]; auto.
    - intros h0 Hin. rewrite Ha in Hin. destruct Hin as [<-|Hin]; auto.
  Qed.

  (* ---- shapes of the table operations ------------------------------------------------------ *)
  Lemma find_entry_some : forall id (s : st) e, find_entry id s = Some e -> In e (s_inflight s) /\ e_id e = id.
  Proof.
    intros id s e H. unfold find_entry in H. apply find_some in H. destruct H as [A B].
    apply N.eqb_eq in B. auto.
  Qed.
  Lemma find_entry_none : forall id (s : st), find_entry id s = None ->
    forall e, In e (s_inflight s) -> e_id e <> id.
  Proof.
    intros id s H e He Heq. unfold find_entry in H. apply (find_none _ _ H) in He.
    rewrite Heq, N.eqb_refl in He. discriminate.
  Qed.
  Lemma tracked_find : forall id (s : st), tracked id s = true <-> exists e, find_entry id s = Some e.
  Proof.
    intros id s. unfold tracked, find_entry. split.
    - intros H. apply existsb_exists in H. destruct H as (x & Hx & Hb).
      destruct (find (fun e => N.eqb (e_id e) id) (s_inflight s)) eqn:EF; eauto.
      apply (find_none _ _ EF) in Hx. congruence.
    - intros (e & H). apply find_some in H. apply existsb_exists. exists e. exact H.
  Qed.

  Lemma drop_entry_none : forall id (s : st), find_entry id s = None ->
    drop_entry id (s_inflight s) = s_inflight s.
  Proof.
    intros id s H. unfold find_entry in H. unfold drop_entry.
    induction (s_inflight s) as [|e l IH]; cbn in *; auto.
    destruct (N.eqb (e_id e) id); [discriminate|]. cbn. f_equal. auto.
  Qed.

  Lemma remove_request_shape : forall id (s : st),
    let s' := snd (remove_request id s) in
    (fst (remove_request id s) = false /\ s' = s /\ find_entry id s = None)
    \/ (fst (remove_request id s) = true /\ (exists e, find_entry id s = Some e)
        /\ s_inflight s' = drop_entry id (s_inflight s) /\ s_timers s' = drop_timer id (s_timers s)
        /\ s_handlers s' = s_handlers s /\ s_next_h s' = s_next_h s /\ s_aborted s' = s_aborted s
        /\ s_cancels s' = s_cancels s /\ s_now s' = s_now s /\ s_dropped s' = s_dropped s
        /\ s_fused s' = s_fused s /\ s_respq s' = s_respq s /\ s_permits s' = s_permits s
        /\ s_waiters s' = s_waiters s /\ s_log s' = s_log s /\ s_t s' = s_t s).
  Proof.
    intros id s. unfold remove_request. destruct (find_entry id s) eqn:EF; cbn.
    - right. repeat split; eauto.
    - left. auto.
  Qed.

  Lemma cancel_request_shape : forall id (s : st),
    let s' := cancel_request id s in
    (s' = s /\ find_entry id s = None)
    \/ (exists e, find_entry id s = Some e
        /\ s_inflight s' = drop_entry id (s_inflight s) /\ s_timers s' = drop_timer id (s_timers s)
        /\ s_aborted s' = e_h e :: s_aborted s
        /\ s_handlers s' = s_handlers s /\ s_next_h s' = s_next_h s
        /\ s_cancels s' = s_cancels s /\ s_now s' = s_now s /\ s_dropped s' = s_dropped s
        /\ s_fused s' = s_fused s /\ s_respq s' = s_respq s /\ s_permits s' = s_permits s
        /\ s_waiters s' = s_waiters s /\ s_log s' = s_log s /\ s_t s' = s_t s).
  Proof.
    intros id s. unfold cancel_request. destruct (find_entry id s) eqn:EF; cbn.
    - right. exists s0. repeat split; eauto.
    - left. auto.
  Qed.

  Lemma poll_expired_shape : forall (s : st) r s',
    poll_expired s = (r, s') ->
    s_handlers s' = s_handlers s /\ s_next_h s' = s_next_h s /\ s_cancels s' = s_cancels s
    /\ s_now s' = s_now s /\ s_dropped s' = s_dropped s /\ s_fused s' = s_fused s
    /\ s_respq s' = s_respq s /\ s_permits s' = s_permits s /\ s_waiters s' = s_waiters s
    /\ s_log s' = s_log s /\ s_t s' = s_t s
    /\ ((r <> RSReady /\ s_inflight s' = s_inflight s /\ s_timers s' = s_timers s
         /\ s_aborted s' = s_aborted s
         /\ (r = RSClosed -> s_timers s = []) /\ (r = RSPending -> due s = []))
        \/ (r = RSReady /\ exists id w, In (id, w) (s_timers s) /\ (w <= s_now s)%N
            /\ s_timers s' = drop_timer id (s_timers s)
            /\ s_inflight s' = drop_entry id (s_inflight s)
            /\ s_aborted s' = match find_entry id s with
                              | Some e => e_h e :: s_aborted s | None => s_aborted s end)).
  Proof.
    intros s r s' H. unfold poll_expired in H.
    destruct (s_timers s) eqn:ET.
    { injection H as <- <-. repeat split; auto. left. repeat split; auto; try discriminate. }
    rewrite <- ET in *. clear ET.
    destruct (dq_poll (s_now s) (s_dq s)) as [choice dq'].
    destruct (due s) as [|[id0 w0] rest] eqn:ED.
    { injection H as <- <-. destruct choice; sproj; repeat split; auto; left; repeat split; auto;
        try discriminate; intros; discriminate. }
    assert (Hin0 : In (id0, w0) (due s)) by (rewrite ED; left; reflexivity).
    set (pick := match choice with
                 | DQSome i => if existsb (fun p => N.eqb (fst p) i) ((id0, w0) :: rest)
                               then (i, true) else (id0, false)
                 | _ => (id0, false) end) in *.
    assert (Hv : exists w, In (fst pick, w) (due s)).
    { subst pick. destruct choice as [i| |]; try (exists w0; exact Hin0).
      destruct (existsb _ _) eqn:EX; [|exists w0; exact Hin0].
      apply existsb_exists in EX. destruct EX as [[i' w'] [Hin Heq]]. cbn in Heq.
      apply N.eqb_eq in Heq; subst. exists w'. rewrite ED. exact Hin. }
    destruct pick as [victim agree]. cbn [fst] in Hv. destruct Hv as [w Hw].
    unfold due in Hw. apply filter_In in Hw. destruct Hw as [Hw1 Hw2]. cbn in Hw2.
    apply N.leb_le in Hw2.
    assert (Hfe : forall sx : st, s_inflight sx = s_inflight s -> find_entry victim sx = find_entry victim s).
    { intros sx Hx. unfold find_entry. rewrite Hx. reflexivity. }
    destruct agree.
    - match type of H with (_, match ?F with _ => _ end) = _ =>
        replace F with (find_entry victim s) in H by (symmetry; apply Hfe; reflexivity) end.
      destruct (find_entry victim s) eqn:EF; injection H as <- <-; sproj; repeat split; auto;
        right; split; auto; exists victim, w; repeat split; auto; rewrite ?EF; auto;
        symmetry; apply drop_entry_none; exact EF.
    - match type of H with (_, match ?F with _ => _ end) = _ =>
        replace F with (find_entry victim s) in H by (symmetry; apply Hfe; reflexivity) end.
      destruct (find_entry victim s) eqn:EF; injection H as <- <-; sproj; repeat split; auto;
        right; split; auto; exists victim, w; repeat split; auto; rewrite ?EF; auto;
        symmetry; apply drop_entry_none; exact EF.
  Qed.

  Lemma NoDup_map_nth_inj : forall A B (f : A -> B) l k1 k2 x y,
    NoDup (map f l) -> nth_error l k1 = Some x -> nth_error l k2 = Some y -> f x = f y -> k1 = k2.
  Proof.
    intros A B f l k1 k2 x y Hnd H1 H2 Hf.
    assert (E1 : nth_error (map f l) k1 = Some (f x)) by (rewrite nth_error_map, H1; reflexivity).
    assert (E2 : nth_error (map f l) k2 = Some (f y)) by (rewrite nth_error_map, H2; reflexivity).
    rewrite <- Hf in E2. rewrite NoDup_nth_error in Hnd. apply Hnd.
    - apply nth_error_Some. rewrite E1. discriminate.
    - congruence.
  Qed.

  Lemma NoDup_map_fst_in : forall (l : list (N * N)) a b c,
    NoDup (map fst l) -> In (a, b) l -> In (a, c) l -> b = c.
  Proof.
    induction l as [|[x y] l IH]; cbn; intros a b c Hnd H1 H2; [contradiction|].
    inversion Hnd; subst.
    destruct H1 as [H1|H1], H2 as [H2|H2].
    - congruence.
    - inversion H1; subst. exfalso. apply H3. apply in_map_iff. exists (a, c). auto.
    - inversion H2; subst. exfalso. apply H3. apply in_map_iff. exists (a, b). auto.
    - eauto.
  Qed.

  Lemma NoDup_map_in_inj : forall A B (f : A -> B) l x y,
    NoDup (map f l) -> In x l -> In y l -> f x = f y -> x = y.
  Proof.
    induction l as [|z l IH]; cbn; intros x y Hnd H1 H2 Hf; [contradiction|]. inversion Hnd; subst.
    destruct H1 as [H1|H1], H2 as [H2|H2]; subst; auto.
    - exfalso. apply H3. rewrite Hf. apply in_map; auto.
    - exfalso. apply H3. rewrite <- Hf. apply in_map; auto.
  Qed.

  (* the owner of an entry whose timer is due is not surely-open *)
  Lemma due_owner_not_open : forall o (s : st) id w e k hr oi,
    InvU o s -> In (id, w) (s_timers s) -> (w <= s_now s)%N -> find_entry id s = Some e ->
    nth_error (s_handlers s) k = Some hr -> nth_error (o_incs o) k = Some oi -> h_h hr = e_h e ->
    oi_wire oi <> WOpen.
  Proof.
    intros o s id w e k hr oi HI Hin Hw Hf Hk Ho Hh Hopen.
    destruct (find_entry_some _ _ _ Hf) as [He Hid].
    destruct (u_owner _ _ HI e He) as [[k' (hr' & oi' & A & B & C & D & E & F & G)]|[_ Hx]].
    - assert (k' = k) by (eapply NoDup_map_nth_inj; [exact (u_hnodup _ _ HI)|exact A|exact Hk|congruence]).
      subst k'. rewrite Ho in B. inversion B; subst oi'.
      assert (oi_when oi = w).
      { eapply NoDup_map_fst_in; [|exact F|rewrite Hid; exact Hin].
        rewrite (u_timers _ _ HI). exact (u_idnodup _ _ HI). }
      pose proof (u_open_young _ _ HI k oi Ho Hopen). lia.
    - apply (Hx hr); [eapply nth_error_In; eauto|exact Hh].
  Qed.

  Lemma InvU_poll_expired : forall o (s : st) r s',
    InvU o s -> poll_expired s = (r, s') -> InvU o s'.
  Proof.
    intros o s r s' HI H.
    destruct (poll_expired_shape _ _ _ H) as (A1 & A2 & A3 & A4 & A5 & A6 & _ & _ & _ & _ & _ & HH).
    destruct HH as [(Hr & B1 & B2 & B3 & _)|(Hr & id & w & C1 & C2 & C3 & C4 & C5)].
    - eapply InvU_frame; [exact HI| |repeat split; auto|].
      + repeat split; reflexivity.
      + rewrite A6. exact (u_eof _ _ HI).
    - destruct (find_entry id s) as [e|] eqn:EF.
      + set (sm := set_aborted s (e_h e :: s_aborted s)).
        assert (HIm : InvU o sm).
        { eapply (InvU_abort o s sm (e_h e)); try reflexivity; [exact HI| |].
          - intros k hr oi Hk Ho Hh. left. eapply due_owner_not_open; eauto.
          - apply (u_efresh _ _ HI). apply (find_entry_some _ _ _ EF). }
        apply (InvU_remove o sm s' id); [exact HIm|..]; try (subst sm; sproj; congruence).
      + apply (InvU_remove o s s' id); [exact HI|..]; try congruence.
  Qed.

  (* the server-side cancel queue hands out one id *)
  Lemma InvU_server_cancel : forall o (s : st) id r,
    InvU o s -> s_cancels s = id :: r ->
    InvU o (snd (remove_request id (set_cancels s r))).
  Proof.
    intros o s id r HI Hc.
    set (s0 := set_cancels s r).
    destruct (remove_request_shape id s0) as [(_ & Heq & Hnone)|(_ & (e & He) & B1 & B2 & B3 & B4 & B5 & B6 & B7 & B8 & B9 & _)].
    - cbv zeta in Heq. rewrite Heq.
      (* nothing tracked under that id: only the queue shrinks *)
      assert (Hnone' : find_entry id s = None) by exact Hnone.
      destruct HI. subst s0. constructor; sproj; auto.
      intros k e0 oi Hin (hr & oi' & X1 & X2 & X3 & X4 & X5 & X6 & X7) Hoi Hm.
      assert (Ho : owns o s k e0) by (exists hr, oi'; repeat split; auto).
      destruct (u_maybe0 k e0 oi Hin Ho Hoi Hm) as [L|R]; [left; exact L|right].
      rewrite Hc in R. destruct R as [R|R]; [|exact R]. exfalso.
      rewrite X2 in Hoi. inversion Hoi; subst oi'.
      apply (find_entry_none _ _ Hnone' e0 Hin). congruence.
    - cbv zeta in *. apply (InvU_remove o s _ id); [exact HI|..]; try (subst s0; sproj; congruence).
      intros id' Hne Hin. rewrite B6. subst s0; sproj. rewrite Hc in Hin. destruct Hin; [congruence|auto].
  Qed.

  (* ---- closing one incarnation together with untracking its id ------------------------------- *)
  Lemma open_id_true : forall id x, open_id id x = true <-> oi_id x = id /\ is_open (oi_wire x) = true.
  Proof.
    intros. unfold open_id. rewrite andb_true_iff, N.eqb_eq. tauto.
  Qed.

  Definition close_at (kopt : option nat) (w : wstate) (l : list oinc) : list oinc :=
    match kopt with Some k => upd_nth k (fun i => set_wire i w) l | None => l end.

  Lemma close_at_length : forall kopt w l, length (close_at kopt w l) = length l.
  Proof. intros [k|] w l; cbn; [apply upd_nth_length|reflexivity]. Qed.

  Lemma close_at_nth : forall kopt w l j x,
    nth_error (close_at kopt w l) j = Some x ->
    exists y, nth_error l j = Some y /\ oi_id x = oi_id y /\ oi_dl x = oi_dl y /\ oi_when x = oi_when y
              /\ oi_done x = oi_done y /\ oi_ph x = oi_ph y
              /\ ((kopt = Some j /\ oi_wire x = w) \/ (kopt <> Some j /\ oi_wire x = oi_wire y)).
  Proof.
    intros [k|] w l j x H; cbn in H.
    - destruct (Nat.eq_dec k j) as [->|Hne].
      + destruct (nth_error l j) as [y|] eqn:E.
        * rewrite (upd_nth_same _ _ _ _ E) in H. inversion H; subst. exists y. cbn. repeat split; auto.
        * rewrite (upd_nth_none _ _ _ E) in H. congruence.
      + rewrite (upd_nth_other _ _ _ _ Hne) in H. exists x. repeat split; auto. right. split; congruence.
    - exists x. repeat split; auto. right. split; [discriminate|reflexivity].
  Qed.

  Lemma close_at_nth_fwd : forall kopt w l j y,
    nth_error l j = Some y ->
    exists x, nth_error (close_at kopt w l) j = Some x /\ oi_id x = oi_id y /\ oi_when x = oi_when y
              /\ oi_done x = oi_done y /\ oi_ph x = oi_ph y
              /\ ((kopt = Some j /\ oi_wire x = w) \/ (kopt <> Some j /\ oi_wire x = oi_wire y)).
  Proof.
    intros [k|] w l j y H; cbn.
    - destruct (Nat.eq_dec k j) as [->|Hne].
      + rewrite (upd_nth_same _ _ _ _ H). eexists; repeat split; eauto.
      + rewrite (upd_nth_other _ _ _ _ Hne). exists y. repeat split; auto. right. split; congruence.
    - exists y. repeat split; auto. right. split; [discriminate|reflexivity].
  Qed.

  Lemma InvU_untrack : forall o o' (s s' : st) id w,
    InvU o s ->
    o_incs o' = close_at (last_open id (o_incs o)) w (o_incs o) -> is_open w = false ->
    o_now o' = o_now o -> o_dropped o' = o_dropped o -> (o_eof o = true -> o_eof o' = true) ->
    (forall e, In e (s_inflight s) -> e_id e <> id ->
       (forall hr, In hr (s_handlers s) -> h_h hr <> e_h e) ->
       (pend_id o = Some (e_id e) \/ c_err (o_v o) = true) ->
       (pend_id o' = Some (e_id e) \/ c_err (o_v o') = true)) ->
    (c_err (o_v o') = false -> c_err (o_v o) = false) ->
    s_inflight s' = drop_entry id (s_inflight s) -> s_timers s' = drop_timer id (s_timers s) ->
    (s_aborted s' = s_aborted s
     \/ exists e, find_entry id s = Some e /\ s_aborted s' = e_h e :: s_aborted s) ->
    (forall id', id' <> id -> In id' (s_cancels s) -> In id' (s_cancels s')) ->
    s_handlers s' = s_handlers s -> s_next_h s' = s_next_h s ->
    s_now s' = s_now s -> s_dropped s' = s_dropped s -> s_fused s' = s_fused s ->
    InvU o' s'.
  Proof.
    intros o o' s s' id w HI Hincs Hw Hnow Hdr Heof Hpend Hcerr Hi Ht Hab Hc Hh Hn Hnw Hd Hf.
    set (kopt := last_open id (o_incs o)) in *.
    constructor.
    - rewrite Hincs, close_at_length, Hh. exact (u_len _ _ HI).
    - rewrite Hnow, Hnw. exact (u_now _ _ HI).
    - rewrite Hdr, Hd. exact (u_dropped _ _ HI).
    - rewrite Hf. intros F. apply Heof. exact (u_eof _ _ HI F).
    - intros k hr oi Hk Hoi. rewrite Hh in Hk. rewrite Hincs in Hoi.
      destruct (close_at_nth _ _ _ _ _ Hoi) as (y & Hy & E1 & E2 & E3 & E4 & E5 & _).
      destruct (u_hand _ _ HI k hr y Hk Hy) as (A & B & C & D).
      rewrite E1, E4, E5, Hn. auto.
    - rewrite Hh. exact (u_hnodup _ _ HI).
    - rewrite Hi. apply NoDup_map_filter. exact (u_enodup _ _ HI).
    - rewrite Hi. apply NoDup_map_filter. exact (u_idnodup _ _ HI).
    - intros e He. rewrite Hi in He. apply in_drop_entry in He. rewrite Hn. apply (u_efresh _ _ HI). tauto.
    - rewrite Hi, Ht. apply drop_sync. exact (u_timers _ _ HI).
    - intros k1 k2 o1 o2 H1 H2 Hid Ho1 Ho2. rewrite Hincs in H1, H2.
      destruct (close_at_nth _ _ _ _ _ H1) as (y1 & Hy1 & E1 & _ & _ & _ & _ & W1).
      destruct (close_at_nth _ _ _ _ _ H2) as (y2 & Hy2 & F1 & _ & _ & _ & _ & W2).
      destruct W1 as [[_ W1]|[_ W1]]; [rewrite W1, Hw in Ho1; discriminate|].
      destruct W2 as [[_ W2]|[_ W2]]; [rewrite W2, Hw in Ho2; discriminate|].
      apply (u_one_open _ _ HI k1 k2 y1 y2); auto; congruence.
    - intros k oi Hoi Hop. rewrite Hincs in Hoi.
      destruct (close_at_nth _ _ _ _ _ Hoi) as (y & Hy & _ & _ & E3 & _ & _ & W).
      destruct W as [[_ W]|[_ W]]; [rewrite W in Hop; rewrite Hop in Hw; discriminate Hw|].
      rewrite E3, Hnw. apply (u_open_young _ _ HI k y Hy). congruence.
    - (* owners *)
      intros e He. rewrite Hi in He. apply in_drop_entry in He. destruct He as [He Hne].
      destruct (u_owner _ _ HI e He) as [[k (hr & oi & A & B & C & D & E & F & G)]|[Hx Hy]].
      + left. exists k.
        destruct (close_at_nth_fwd kopt w _ _ _ B) as (x & Hx & X1 & X2 & X3 & X4 & W).
        assert (Hk : kopt <> Some k).
        { intros Hk. subst kopt. destruct (last_open_some _ _ _ Hk) as (z & Hz & Hopen & _).
          rewrite B in Hz. inversion Hz; subst z. apply open_id_true in Hopen. destruct Hopen. congruence. }
        destruct W as [[W _]|[_ W]]; [contradiction|].
        exists hr, x. rewrite Hh, Hincs, Ht. repeat split; auto; try congruence.
        * apply in_drop_timer. split; [congruence|]. cbn. exact Hne.
        * intros k' oi' Hlt Hoi'. destruct (close_at_nth _ _ _ _ _ Hoi') as (y' & Hy' & Y1 & _).
          rewrite Y1. eapply G; eauto.
      + right. split; [apply Hpend; auto|]. rewrite Hh. exact Hy.
    - (* aborted handles *)
      intros k hr oi Hk Hoi Hin. rewrite Hh in Hk. rewrite Hincs in Hoi. rewrite Hd.
      destruct (close_at_nth _ _ _ _ _ Hoi) as (y & Hy & _ & _ & _ & _ & _ & W).
      destruct W as [[_ W]|[Hk' W]]; [left; rewrite W; intro Heq; rewrite Heq in Hw; discriminate Hw|].
      rewrite W.
      destruct Hab as [Hab|(e & Hfe & Hab)]; rewrite Hab in Hin.
      + exact (u_aborted _ _ HI k hr y Hk Hy Hin).
      + destruct Hin as [Heq|Hin]; [|exact (u_aborted _ _ HI k hr y Hk Hy Hin)].
        (* the aborted handle belongs to the removed entry, whose owner is the closed incarnation *)
        exfalso. destruct (find_entry_some _ _ _ Hfe) as [He Hid].
        destruct (u_owner _ _ HI e He) as [[k' (hr' & oi' & A & B & C & D & E & F & G)]|[_ Hy']].
        * assert (k' = k) by (eapply NoDup_map_nth_inj; [exact (u_hnodup _ _ HI)|exact A|exact Hk|congruence]).
          subst k'. rewrite Hy in B. inversion B; subst oi'.
          (* k is an open incarnation of id, hence the last open one *)
          destruct (last_open id (o_incs o)) as [k0|] eqn:EL.
          -- destruct (last_open_some _ _ _ EL) as (z & Hz & Hopen & _). apply open_id_true in Hopen.
             destruct Hopen as [Z1 Z2].
             assert (k = k0) by (apply (u_one_open _ _ HI k k0 y z); auto; congruence).
             subst k0. apply Hk'. reflexivity.
          -- pose proof (last_open_none _ _ EL k y Hy) as Hno. unfold open_id in Hno.
             rewrite D, Hid, N.eqb_refl, E in Hno. discriminate.
        * apply (Hy' hr); [eapply nth_error_In; eauto|congruence].
    - (* maybe *)
      intros k e oi He (hr & oi' & A & B & C & D & E & F & G) Hoi Hm.
      rewrite Hi in He. apply in_drop_entry in He. destruct He as [He Hne].
      rewrite Hincs in Hoi, B. rewrite Hh in A. rewrite Ht in F. apply in_drop_timer in F. destruct F as [F _].
      rewrite B in Hoi. inversion Hoi; subst oi'.
      destruct (close_at_nth _ _ _ _ _ B) as (y & Hy & Y1 & _ & Y3 & _ & _ & W).
      destruct W as [[_ W]|[_ W]]; [rewrite W in Hm; rewrite Hm in Hw; discriminate Hw|].
      assert (Ho : owns o s k e).
      { exists hr, y. repeat split; auto; try congruence.
        intros k' oi'' Hlt Hoi''. destruct (close_at_nth_fwd kopt w _ _ _ Hoi'') as (x' & Hx' & X1 & _).
        rewrite <- X1, <- Hincs in *. eapply G; eauto. }
      rewrite Y3, Y1, Hnw.
      destruct (u_maybe _ _ HI k e y He Ho Hy) as [L|R]; [congruence|left; exact L|right].
      apply Hc; auto. congruence.
    - intros Hce' e He Hno. rewrite Hi in He. apply in_drop_entry in He. destruct He as [He Hne].
      rewrite Ht, Hnw. apply in_drop_timer. split; [|exact Hne].
      apply (u_pend_timer _ _ HI (Hcerr Hce') e He). rewrite <- Hh. exact Hno.
    - intros h Hin. rewrite Hn.
      destruct Hab as [Hab|(e & Hfe & Hab)]; rewrite Hab in Hin.
      + exact (u_abfresh _ _ HI h Hin).
      + destruct Hin as [<-|Hin]; [|exact (u_abfresh _ _ HI h Hin)].
        apply (u_efresh _ _ HI). apply (find_entry_some _ _ _ Hfe).
  Qed.

  (* closing the last open incarnation of an id that owns nothing (an older incarnation, when a new
     request with that id has just been accepted) *)
  Lemma InvU_close : forall o o' (s : st) id w,
    InvU o s ->
    o_incs o' = close_at (last_open id (o_incs o)) w (o_incs o) -> is_open w = false ->
    o_now o' = o_now o -> o_dropped o' = o_dropped o -> (o_eof o = true -> o_eof o' = true) ->
    pend_id o' = pend_id o -> c_err (o_v o') = c_err (o_v o) ->
    (forall e k, In e (s_inflight s) -> owns o s k e -> last_open id (o_incs o) <> Some k) ->
    InvU o' s.
  Proof.
    intros o o' s id w HI Hincs Hw Hnow Hdr Heof Hp Hce Hfree.
    set (kopt := last_open id (o_incs o)) in *.
    constructor.
    - rewrite Hincs, close_at_length. exact (u_len _ _ HI).
    - rewrite Hnow. exact (u_now _ _ HI).
    - rewrite Hdr. exact (u_dropped _ _ HI).
    - intros F. apply Heof. exact (u_eof _ _ HI F).
    - intros k hr oi Hk Hoi. rewrite Hincs in Hoi.
      destruct (close_at_nth _ _ _ _ _ Hoi) as (y & Hy & E1 & E2 & E3 & E4 & E5 & _).
      destruct (u_hand _ _ HI k hr y Hk Hy) as (A & B & C & D).
      rewrite E1, E4, E5. auto.
    - exact (u_hnodup _ _ HI).
    - exact (u_enodup _ _ HI).
    - exact (u_idnodup _ _ HI).
    - exact (u_efresh _ _ HI).
    - exact (u_timers _ _ HI).
    - intros k1 k2 o1 o2 H1 H2 Hid Ho1 Ho2. rewrite Hincs in H1, H2.
      destruct (close_at_nth _ _ _ _ _ H1) as (y1 & Hy1 & E1 & _ & _ & _ & _ & W1).
      destruct (close_at_nth _ _ _ _ _ H2) as (y2 & Hy2 & F1 & _ & _ & _ & _ & W2).
      destruct W1 as [[_ W1]|[_ W1]]; [rewrite W1, Hw in Ho1; discriminate|].
      destruct W2 as [[_ W2]|[_ W2]]; [rewrite W2, Hw in Ho2; discriminate|].
      apply (u_one_open _ _ HI k1 k2 y1 y2); auto; congruence.
    - intros k oi Hoi Hop. rewrite Hincs in Hoi.
      destruct (close_at_nth _ _ _ _ _ Hoi) as (y & Hy & _ & _ & E3 & _ & _ & W).
      destruct W as [[_ W]|[_ W]]; [rewrite W in Hop; rewrite Hop in Hw; discriminate Hw|].
      rewrite E3. apply (u_open_young _ _ HI k y Hy). congruence.
    - intros e He.
      destruct (u_owner _ _ HI e He) as [[k Hown]|[Hx Hy]].
      + left. exists k. pose proof (Hfree e k He Hown) as Hk.
        destruct Hown as (hr & oi & A & B & C & D & E & F & G).
        destruct (close_at_nth_fwd kopt w _ _ _ B) as (x & Hx & X1 & X2 & X3 & X4 & W).
        destruct W as [[W _]|[_ W]]; [contradiction|].
        exists hr, x. rewrite Hincs. repeat split; auto; try congruence.
        intros k' oi' Hlt Hoi'. destruct (close_at_nth _ _ _ _ _ Hoi') as (y' & Hy' & Y1 & _).
        rewrite Y1. eapply G; eauto.
      + right. rewrite Hp, Hce. auto.
    - intros k hr oi Hk Hoi Hin. rewrite Hincs in Hoi.
      destruct (close_at_nth _ _ _ _ _ Hoi) as (y & Hy & _ & _ & _ & _ & _ & W).
      destruct W as [[_ W]|[Hk' W]]; [left; rewrite W; intro Heq; rewrite Heq in Hw; discriminate Hw|].
      rewrite W. exact (u_aborted _ _ HI k hr y Hk Hy Hin).
    - intros k e oi He (hr & oi' & A & B & C & D & E & F & G) Hoi Hm.
      rewrite Hincs in Hoi, B. rewrite B in Hoi. inversion Hoi; subst oi'.
      destruct (close_at_nth _ _ _ _ _ B) as (y & Hy & Y1 & _ & Y3 & _ & _ & W).
      destruct W as [[_ W]|[_ W]]; [rewrite W in Hm; rewrite Hm in Hw; discriminate Hw|].
      assert (Ho : owns o s k e).
      { exists hr, y. repeat split; auto; try congruence.
        intros k' oi'' Hlt Hoi''. destruct (close_at_nth_fwd kopt w _ _ _ Hoi'') as (x' & Hx' & X1 & _).
        rewrite <- X1, <- Hincs in *. eapply G; eauto. }
      rewrite Y3, Y1.
      destruct (u_maybe _ _ HI k e y He Ho Hy) as [L|R]; [congruence|left; exact L|right; congruence].
    - rewrite Hce. exact (u_pend_timer _ _ HI).
    - exact (u_abfresh _ _ HI).
  Qed.

  (* ---- a request is accepted: start_request ------------------------------------------------ *)
  Definition all_owned (o : ostate) (s : st) : Prop :=
    c_err (o_v o) = false -> forall e, In e (s_inflight s) -> exists k, owns o s k e.

  Lemma start_request_shape : forall id dl (s : st) h s',
    start_request id dl s = Some (h, s') ->
    tracked id s = false /\ h = s_next_h s
    /\ s_inflight s' = s_inflight s ++ [{| e_id := id; e_h := h; e_dl := dl |}]
    /\ s_timers s' = s_timers s ++ [(id, (s_now s + N.min (dl - s_now s) MAX_TIMEOUT)%N)]
    /\ s_next_h s' = S (s_next_h s)
    /\ s_handlers s' = s_handlers s /\ s_aborted s' = s_aborted s /\ s_cancels s' = s_cancels s
    /\ s_now s' = s_now s /\ s_dropped s' = s_dropped s /\ s_fused s' = s_fused s
    /\ s_respq s' = s_respq s /\ s_permits s' = s_permits s /\ s_waiters s' = s_waiters s
    /\ s_log s' = s_log s /\ s_t s' = s_t s.
  Proof.
    intros id dl s h s' H. unfold start_request in H. destruct (tracked id s) eqn:ET; [discriminate|].
    injection H as <- <-. sproj. repeat split; reflexivity.
  Qed.

  Lemma tracked_false_not_in : forall id (s : st), tracked id s = false ->
    forall e, In e (s_inflight s) -> e_id e <> id.
  Proof.
    intros id s H e He Heq. unfold tracked in H.
    assert (existsb (fun e0 => N.eqb (e_id e0) id) (s_inflight s) = true).
    { apply existsb_exists. exists e. rewrite Heq, N.eqb_refl. auto. }
    congruence.
  Qed.

  Lemma InvU_accept : forall o o' (s s' : st) id dl h,
    InvU o s -> all_owned o s -> c_err (o_v o) = false ->
    start_request id dl s = Some (h, s') ->
    o_incs o' = o_incs o -> o_now o' = o_now o -> o_dropped o' = o_dropped o ->
    (o_eof o = true -> o_eof o' = true) -> c_err (o_v o') = false ->
    pend_id o' = Some id ->
    InvU o' s'.
  Proof.
    intros o o' s s' id dl h HI Hall Hce H Hincs Hnow Hdr Heof Hce' Hp.
    destruct (start_request_shape _ _ _ _ _ H) as (Htr & Hh & Hi & Ht & Hn & Hha & Hab & Hc & Hw & Hd & Hf & _).
    pose proof (tracked_false_not_in _ _ Htr) as Hfresh.
    constructor.
    - rewrite Hincs, Hha. exact (u_len _ _ HI).
    - rewrite Hnow, Hw. exact (u_now _ _ HI).
    - rewrite Hdr, Hd. exact (u_dropped _ _ HI).
    - rewrite Hf. intros F. apply Heof. exact (u_eof _ _ HI F).
    - intros k hr oi Hk Hoi. rewrite Hha in Hk. rewrite Hincs in Hoi.
      destruct (u_hand _ _ HI k hr oi Hk Hoi) as (A & B & C & D). rewrite Hn. repeat split; auto.
    - rewrite Hha. exact (u_hnodup _ _ HI).
    - rewrite Hi, map_app. cbn. apply NoDup_app_one; [exact (u_enodup _ _ HI)|].
      intros Hin. apply in_map_iff in Hin. destruct Hin as (e & He1 & He2).
      pose proof (u_efresh _ _ HI e He2). subst h. lia.
    - rewrite Hi, map_app. cbn. apply NoDup_app_one; [exact (u_idnodup _ _ HI)|].
      intros Hin. apply in_map_iff in Hin. destruct Hin as (e & He1 & He2). exact (Hfresh e He2 He1).
    - intros e He. rewrite Hi in He. apply in_app_or in He. rewrite Hn. destruct He as [He|[<-|[]]].
      + pose proof (u_efresh _ _ HI e He). lia.
      + cbn. subst h. lia.
    - rewrite Hi, Ht, !map_app. cbn. rewrite (u_timers _ _ HI). reflexivity.
    - rewrite Hincs. exact (u_one_open _ _ HI).
    - intros k oi Hoi Hop. rewrite Hincs in Hoi. rewrite Hw. exact (u_open_young _ _ HI k oi Hoi Hop).
    - intros e He. rewrite Hi in He. apply in_app_or in He. destruct He as [He|[<-|[]]].
      + left. destruct (Hall Hce e He) as (k & hr & oi & A & B & C & D & E & F & G).
        exists k, hr, oi. rewrite Hha, Hincs, Ht. repeat split; auto. apply in_or_app. left. exact F.
      + right. cbn. split; [left; exact Hp|]. rewrite Hha. intros hr Hhr Heq.
        apply In_nth_error in Hhr. destruct Hhr as (k & Hk).
        assert (Hlt : k < length (o_incs o)).
        { rewrite (u_len _ _ HI). apply nth_error_Some. congruence. }
        apply nth_error_Some in Hlt. destruct (nth_error (o_incs o) k) as [oi|] eqn:Eoi; [|congruence].
        destruct (u_hand _ _ HI k hr oi Hk Eoi) as (_ & _ & _ & D). subst h. lia.
    - intros k hr oi Hk Hoi Hin. rewrite Hha in Hk. rewrite Hincs in Hoi. rewrite Hab in Hin. rewrite Hd.
      exact (u_aborted _ _ HI k hr oi Hk Hoi Hin).
    - intros k e oi He (hr & oi' & A & B & C & D & E & F & G) Hoi Hm.
      rewrite Hincs in *. rewrite Hha in A. rewrite Hw, Hc.
      rewrite Hi in He. apply in_app_or in He. destruct He as [He|[<-|[]]].
      + rewrite Ht in F. apply in_app_or in F. destruct F as [F|[F|[]]].
        * apply (u_maybe _ _ HI k e oi He); auto. exists hr, oi'. repeat split; auto.
        * inversion F. exfalso. apply (Hfresh e He). congruence.
      + (* the new entry has no owner yet *)
        exfalso. cbn in C.
        destruct (u_hand _ _ HI k hr oi' A B) as (_ & _ & _ & Dlt). subst h. lia.
    - intros _ e He Hno. rewrite Hi in He. rewrite Hha in Hno. rewrite Ht, Hw.
      apply in_app_or in He. apply in_or_app. destruct He as [He|[<-|[]]].
      + left. exact (u_pend_timer _ _ HI Hce e He Hno).
      + right. left. reflexivity.
    - intros h0 Hin. rewrite Hab in Hin. rewrite Hn. pose proof (u_abfresh _ _ HI h0 Hin). lia.
  Qed.

  (* ---- the accepted request is yielded to the application ------------------------------------ *)
  Lemma InvU_yield : forall o1 o' (s s' : st) qid qh qdl,
    InvU o1 s -> c_err (o_v o1) = false ->
    (forall j x, nth_error (o_incs o1) j = Some x -> open_id qid x = false) ->
    (forall e, In e (s_inflight s) -> (forall hr, In hr (s_handlers s) -> h_h hr <> e_h e) ->
               e = {| e_id := qid; e_h := qh; e_dl := qdl |}) ->
    (forall hr, In hr (s_handlers s) -> h_h hr <> qh) -> qh < s_next_h s -> ~ In qh (s_aborted s) ->
    (forall e, In e (s_inflight s) -> e_h e = qh -> e = {| e_id := qid; e_h := qh; e_dl := qdl |}) ->
    o_incs o' = o_incs o1 ++ [mkoi qid qdl (when_of (o_now o1) qdl) None PFresh
                                   (if N.leb (when_of (o_now o1) qdl) (o_now o1) then WMaybe else WOpen)
                                   false] ->
    pend_id o' = None -> c_err (o_v o') = false ->
    o_now o' = o_now o1 -> o_dropped o' = o_dropped o1 -> (o_eof o1 = true -> o_eof o' = true) ->
    s_handlers s' = s_handlers s ++ [{| h_h := qh; h_id := qid; h_st := HYielded |}] ->
    same_core_but_handlers s s' -> s_fused s' = s_fused s ->
    InvU o' s'.
  Proof.
    intros o1 o' s s' qid qh qdl HI Hce Hnoopen Hless Hfresh Hlt Hnab Huniq Hincs Hp Hce' Hnow Hdr Heof Hha
           (Hn & Hi & Ht & Hab & Hc & Hw & Hd) Hf.
    pose proof (u_len _ _ HI) as Hlen.
    set (w := when_of (o_now o1) qdl) in *.
    set (newoi := mkoi qid qdl w None PFresh (if N.leb w (o_now o1) then WMaybe else WOpen) false) in *.
    assert (Hnew_open : is_open (oi_wire newoi) = true) by (subst newoi; cbn; destruct (N.leb w (o_now o1)); reflexivity).
    assert (Hold : forall k x, nth_error (o_incs o1) k = Some x -> nth_error (o_incs o') k = Some x).
    { intros k x Hx. rewrite Hincs, nth_error_app1; auto. apply nth_error_Some. congruence. }
    assert (Hsplit : forall k x, nth_error (o_incs o') k = Some x ->
               (nth_error (o_incs o1) k = Some x /\ k < length (o_incs o1))
               \/ (k = length (o_incs o1) /\ x = newoi)).
    { intros k x Hx. rewrite Hincs in Hx.
      destruct (Nat.lt_ge_cases k (length (o_incs o1))) as [L|G].
      - rewrite nth_error_app1 in Hx by exact L. auto.
      - rewrite nth_error_app2 in Hx by exact G. right.
        destruct (k - length (o_incs o1)) as [|m] eqn:Em; cbn in Hx.
        + inversion Hx. split; [lia|reflexivity].
        + destruct m; discriminate. }
    assert (HsplitH : forall k hr, nth_error (s_handlers s') k = Some hr ->
               (nth_error (s_handlers s) k = Some hr /\ k < length (s_handlers s))
               \/ (k = length (s_handlers s) /\ hr = {| h_h := qh; h_id := qid; h_st := HYielded |})).
    { intros k hr Hx. rewrite Hha in Hx.
      destruct (Nat.lt_ge_cases k (length (s_handlers s))) as [L|G].
      - rewrite nth_error_app1 in Hx by exact L. auto.
      - rewrite nth_error_app2 in Hx by exact G. right.
        destruct (k - length (s_handlers s)) as [|m] eqn:Em; cbn in Hx.
        + inversion Hx. split; [lia|reflexivity].
        + destruct m; discriminate. }
    constructor.
    - rewrite Hincs, Hha, !app_length. cbn. lia.
    - rewrite Hnow, Hw. exact (u_now _ _ HI).
    - rewrite Hdr, Hd. exact (u_dropped _ _ HI).
    - rewrite Hf. intros F. apply Heof. exact (u_eof _ _ HI F).
    - intros k hr oi Hk Hoi. rewrite Hn.
      destruct (HsplitH _ _ Hk) as [[Hk' L]|[-> ->]]; destruct (Hsplit _ _ Hoi) as [[Hoi' L']|[E ->]]; try lia.
      + exact (u_hand _ _ HI k hr oi Hk' Hoi').
      + subst newoi. cbn. repeat split; auto.
    - rewrite Hha, map_app. cbn. apply NoDup_app_one; [exact (u_hnodup _ _ HI)|].
      intros Hin. apply in_map_iff in Hin. destruct Hin as (hr & E & Hin). exact (Hfresh hr Hin E).
    - rewrite Hi. exact (u_enodup _ _ HI).
    - rewrite Hi. exact (u_idnodup _ _ HI).
    - rewrite Hi, Hn. exact (u_efresh _ _ HI).
    - rewrite Hi, Ht. exact (u_timers _ _ HI).
    - intros k1 k2 x1 x2 H1 H2 Hid Ho1 Ho2.
      destruct (Hsplit _ _ H1) as [[H1' L1]|[E1 ->]]; destruct (Hsplit _ _ H2) as [[H2' L2]|[E2 ->]].
      + exact (u_one_open _ _ HI k1 k2 x1 x2 H1' H2' Hid Ho1 Ho2).
      + exfalso. pose proof (Hnoopen k1 x1 H1') as Hno. unfold open_id in Hno.
        rewrite Hid in Hno. subst newoi. cbn in Hno. rewrite N.eqb_refl, Ho1 in Hno. discriminate.
      + exfalso. pose proof (Hnoopen k2 x2 H2') as Hno. unfold open_id in Hno.
        rewrite <- Hid in Hno. subst newoi. cbn in Hno. rewrite N.eqb_refl, Ho2 in Hno. discriminate.
      + congruence.
    - intros k oi Hoi Hop. rewrite Hw.
      destruct (Hsplit _ _ Hoi) as [[Hoi' L]|[E ->]].
      + exact (u_open_young _ _ HI k oi Hoi' Hop).
      + subst newoi. cbn in *. destruct (N.leb w (o_now o1)) eqn:EL; [discriminate|].
        apply N.leb_gt in EL. rewrite <- (u_now _ _ HI). exact EL.
    - (* owners *)
      intros e He. rewrite Hi in He.
      destruct (u_owner _ _ HI e He) as [[k (hr & oi & A & B & C & D & E & F & G)]|[_ Hy]].
      + left. exists k, hr, oi. rewrite Hha, Ht.
        assert (Lk : k < length (s_handlers s)) by (apply nth_error_Some; congruence).
        repeat split; auto.
        * rewrite nth_error_app1; auto.
        * intros k' oi' Hlt' Hoi'. destruct (Hsplit _ _ Hoi') as [[Hoi'' L]|[E' ->]].
          -- eapply G; eauto.
          -- subst newoi. cbn. intros Heq.
             pose proof (Hnoopen k oi B) as Hno. unfold open_id in Hno.
             rewrite D, <- Heq, N.eqb_refl, E in Hno. discriminate.
      + left. pose proof (Hless e He Hy) as ->. cbn in *.
        exists (length (s_handlers s)), {| h_h := qh; h_id := qid; h_st := HYielded |}, newoi.
        rewrite Hha, Hincs, Ht. rewrite <- Hlen at 2.
        rewrite !nth_error_app_last. repeat split; auto.
        * pose proof (u_pend_timer _ _ HI Hce _ He Hy) as Htm. cbn in Htm.
          subst newoi w. cbn. rewrite (u_now _ _ HI). exact Htm.
        * intros k' oi' Hlt' Hoi'. exfalso.
          assert (Hk' : k' < length (o_incs o1 ++ [newoi])) by (apply nth_error_Some; congruence).
          rewrite app_length in Hk'. cbn in Hk'. lia.
    - intros k hr oi Hk Hoi Hin. rewrite Hab in Hin. rewrite Hd.
      destruct (HsplitH _ _ Hk) as [[Hk' L]|[-> ->]]; destruct (Hsplit _ _ Hoi) as [[Hoi' L']|[E ->]]; try lia.
      + exact (u_aborted _ _ HI k hr oi Hk' Hoi' Hin).
      + cbn in Hin. contradiction.
    - intros k e oi He (hr & oi' & A & B & C & D & E & F & G) Hoi Hm. rewrite Hw, Hc.
      rewrite Hi in He. rewrite B in Hoi. inversion Hoi; subst oi'.
      destruct (Hsplit _ _ B) as [[B' L]|[Ek ->]].
      + destruct (HsplitH _ _ A) as [[A' LA]|[Ek' _]]; [|lia].
        apply (u_maybe _ _ HI k e oi He); auto.
        exists hr, oi. rewrite Ht in F. repeat split; auto.
        intros k' oi'' Hlt' Hoi''. eapply G; eauto.
      + left. subst newoi. cbn in *. destruct (N.leb w (o_now o1)) eqn:EL; [|discriminate].
        apply N.leb_le in EL. rewrite <- (u_now _ _ HI). exact EL.
    - intros _ e He Hno. rewrite Hi in He. exfalso.
      assert (Hno' : forall hr, In hr (s_handlers s) -> h_h hr <> e_h e).
      { intros hr Hhr. apply Hno. rewrite Hha. apply in_or_app. left. exact Hhr. }
      pose proof (Hless e He Hno') as ->. cbn in Hno.
      apply (Hno {| h_h := qh; h_id := qid; h_st := HYielded |}); [|reflexivity].
      rewrite Hha. apply in_or_app. right. left. reflexivity.
    - rewrite Hab, Hn. exact (u_abfresh _ _ HI).
  Qed.

  (* ---- rewriting the whole table: settle, mark_late, age --------------------------------------- *)
  Lemma InvU_map : forall o o' (s s' : st) (f : oinc -> oinc),
    InvU o s -> o_incs o' = map f (o_incs o) ->
    (forall i, oi_id (f i) = oi_id i /\ oi_when (f i) = oi_when i /\ oi_done (f i) = oi_done i
               /\ oi_ph (f i) = oi_ph i) ->
    (* wires only move towards closed; surely-open ones stay so only while their timer is not due *)
    (forall i, In i (o_incs o) -> is_open (oi_wire (f i)) = true -> is_open (oi_wire i) = true) ->
    (forall i, In i (o_incs o) -> oi_wire (f i) = WOpen -> oi_wire i = WOpen /\ (s_now s' < oi_when i)%N) ->
    (forall i, In i (o_incs o) -> oi_wire (f i) = WMaybe ->
               (oi_wire i = WMaybe \/ (oi_when i <= s_now s')%N)) ->
    (* owners keep an open wire *)
    (forall k e oi, In e (s_inflight s) -> owns o s k e -> nth_error (o_incs o) k = Some oi ->
                    is_open (oi_wire (f oi)) = true) ->
    same_tab_but_incs o o' -> same_core_but_now s s' -> (s_now s <= s_now s')%N -> o_now o' = s_now s' ->
    (c_err (o_v o) = false -> s_now s' <> s_now s -> all_owned o s) ->
    (s_fused s' = true -> o_eof o' = true) ->
    InvU o' s'.
  Proof.
    intros o o' s s' f HI Hincs Hf Hop Hopen Hmaybe Hown (T3 & T4 & T5)
           (C1 & C2 & C3 & C4 & C5 & C6 & C8) Hle Hnow Hall Heof.
    assert (Hnth : forall k x, nth_error (o_incs o') k = Some x ->
               exists y, nth_error (o_incs o) k = Some y /\ x = f y /\ In y (o_incs o)).
    { intros k x Hx. rewrite Hincs, nth_error_map in Hx.
      destruct (nth_error (o_incs o) k) as [y|] eqn:Ey; cbn in Hx; [|discriminate]. inversion Hx.
      exists y. repeat split; auto. eapply nth_error_In; eauto. }
    constructor.
    - rewrite Hincs, map_length, C1. exact (u_len _ _ HI).
    - exact Hnow.
    - rewrite T3, C8. exact (u_dropped _ _ HI).
    - exact Heof.
    - intros k hr oi Hk Hoi. rewrite C1 in Hk. destruct (Hnth _ _ Hoi) as (y & Hy & -> & Hiny).
      destruct (Hf y) as (F1 & F2 & F3 & F4). rewrite F1, F3, F4, C2. exact (u_hand _ _ HI k hr y Hk Hy).
    - rewrite C1. exact (u_hnodup _ _ HI).
    - rewrite C3. exact (u_enodup _ _ HI).
    - rewrite C3. exact (u_idnodup _ _ HI).
    - rewrite C3, C2. exact (u_efresh _ _ HI).
    - rewrite C3, C4. exact (u_timers _ _ HI).
    - intros k1 k2 x1 x2 H1 H2 Hid Ho1 Ho2.
      destruct (Hnth _ _ H1) as (y1 & Hy1 & -> & Hin1). destruct (Hnth _ _ H2) as (y2 & Hy2 & -> & Hin2).
      destruct (Hf y1) as (F1 & _). destruct (Hf y2) as (G1 & _).
      apply (u_one_open _ _ HI k1 k2 y1 y2); auto; congruence.
    - intros k oi Hoi Hw. destruct (Hnth _ _ Hoi) as (y & Hy & -> & Hiny).
      destruct (Hf y) as (_ & F2 & _). rewrite F2. apply Hopen; auto.
    - intros e He. rewrite C3 in He.
      destruct (u_owner _ _ HI e He) as [[k Hk]|[Hx Hy]].
      + left. exists k. pose proof Hk as (hr & oi & A & B & C & D & E & F & G).
        exists hr, (f oi). destruct (Hf oi) as (F1 & F2 & _).
        rewrite C1, C4, Hincs, nth_error_map, B. cbn. rewrite F1, F2. repeat split; auto.
        * eapply Hown; eauto.
        * intros k' oi' Hlt Hoi'. rewrite nth_error_map in Hoi'.
          destruct (nth_error (o_incs o) k') as [y'|] eqn:Ey; cbn in Hoi'; [|discriminate].
          inversion Hoi'. destruct (Hf y') as (Y1 & _). rewrite Y1. eapply G; eauto.
      + right. rewrite T4, T5, C1. auto.
    - intros k hr oi Hk Hoi Hin. rewrite C1 in Hk. rewrite C5 in Hin. rewrite C8.
      destruct (Hnth _ _ Hoi) as (y & Hy & -> & Hiny).
      destruct (u_aborted _ _ HI k hr y Hk Hy Hin) as [L|R]; [left|right; exact R].
      intros Hw. apply L. apply Hopen; auto.
    - intros k e oi He (hr & oi' & A & B & C & D & E & F & G) Hoi Hm.
      rewrite C3 in He. rewrite B in Hoi. inversion Hoi; subst oi'.
      destruct (Hnth _ _ B) as (y & Hy & -> & Hiny). destruct (Hf y) as (F1 & F2 & _).
      rewrite F1, F2, C6.
      assert (Ho : owns o s k e).
      { exists hr, y. rewrite C1 in A. rewrite C4 in F. rewrite F1 in D. rewrite F2 in F.
        repeat split; auto.
        intros k' oi'' Hlt Hoi''.
        assert (nth_error (o_incs o') k' = Some (f oi'')) by (rewrite Hincs, nth_error_map, Hoi''; reflexivity).
        destruct (Hf oi'') as (Z1 & _). rewrite <- Z1. eapply G; eauto. }
      destruct (Hmaybe y Hiny Hm) as [L|R]; [|left; exact R].
      destruct (u_maybe _ _ HI k e y He Ho Hy L) as [L'|R']; [left; lia|right; exact R'].
    - intros Hce e He Hno. rewrite T5 in Hce. rewrite C3 in He. rewrite C1 in Hno. rewrite C4.
      destruct (N.eq_dec (s_now s') (s_now s)) as [Heq|Hne].
      + rewrite Heq. exact (u_pend_timer _ _ HI Hce e He Hno).
      + exfalso. destruct (Hall Hce Hne Hce e He) as (k & hr & oi & A & B & C & _).
        apply (Hno hr); [eapply nth_error_In; eauto|exact C].
    - rewrite C5, C2. exact (u_abfresh _ _ HI).
  Qed.

  (* ---- the application side: one handler changes state, one incarnation's phase/done change -- *)
  Lemma InvU_hupd : forall o o' (s s' : st) k g,
    InvU o s ->
    map h_h (s_handlers s') = map h_h (s_handlers s) ->
    o_incs o' = upd_nth k g (o_incs o) ->
    (forall i, nth_error (o_incs o) k = Some i ->
               oi_id (g i) = oi_id i /\ oi_when (g i) = oi_when i
               /\ (oi_wire (g i) = oi_wire i
                   \/ (oi_wire i = WOpen /\ oi_wire (g i) = WMaybe /\ In (oi_id i) (s_cancels s')))) ->
    (forall j hr' oi', nth_error (s_handlers s') j = Some hr' -> nth_error (o_incs o') j = Some oi' ->
                       oi_id oi' = h_id hr' /\ phase_ok (h_st hr') (oi_ph oi') /\ done_ok (h_st hr') (oi_done oi')) ->
    (forall id, In id (s_cancels s) -> In id (s_cancels s')) ->
    o_now o' = o_now o -> o_dropped o' = o_dropped o -> (o_eof o = true -> o_eof o' = true) ->
    pend_id o' = pend_id o -> c_err (o_v o') = c_err (o_v o) ->
    s_next_h s' = s_next_h s -> s_inflight s' = s_inflight s -> s_timers s' = s_timers s ->
    s_aborted s' = s_aborted s -> s_now s' = s_now s -> s_dropped s' = s_dropped s ->
    s_fused s' = s_fused s ->
    InvU o' s'.
  Proof.
    intros o o' s s' k g HI Hmap Hincs Hg Hhand Hcan Hnow Hdr Heof Hp Hce Hn Hi Ht Hab Hw Hd Hf.
    assert (Hlen : length (s_handlers s') = length (s_handlers s)).
    { rewrite <- (map_length h_h), Hmap, map_length. reflexivity. }
    assert (HnthH : forall j hr', nth_error (s_handlers s') j = Some hr' ->
               exists hr, nth_error (s_handlers s) j = Some hr /\ h_h hr = h_h hr').
    { intros j hr' Hj.
      assert (E : nth_error (map h_h (s_handlers s')) j = Some (h_h hr')) by (rewrite nth_error_map, Hj; reflexivity).
      rewrite Hmap, nth_error_map in E. destruct (nth_error (s_handlers s) j) as [hr|]; cbn in E; [|discriminate].
      inversion E. eauto. }
    assert (HnthH' : forall j hr, nth_error (s_handlers s) j = Some hr ->
               exists hr', nth_error (s_handlers s') j = Some hr' /\ h_h hr = h_h hr').
    { intros j hr Hj.
      assert (E : nth_error (map h_h (s_handlers s)) j = Some (h_h hr)) by (rewrite nth_error_map, Hj; reflexivity).
      rewrite <- Hmap, nth_error_map in E. destruct (nth_error (s_handlers s') j) as [hr'|]; cbn in E; [|discriminate].
      inversion E. eauto. }
    assert (HinH : forall hr', In hr' (s_handlers s') -> exists hr, In hr (s_handlers s) /\ h_h hr = h_h hr').
    { intros hr' Hin. apply In_nth_error in Hin. destruct Hin as (j & Hj).
      destruct (HnthH _ _ Hj) as (hr & A & B). exists hr. split; [eapply nth_error_In; eauto|exact B]. }
    assert (HinH' : forall hr, In hr (s_handlers s) -> exists hr', In hr' (s_handlers s') /\ h_h hr = h_h hr').
    { intros hr Hin. apply In_nth_error in Hin. destruct Hin as (j & Hj).
      destruct (HnthH' _ _ Hj) as (hr' & A & B). exists hr'. split; [eapply nth_error_In; eauto|exact B]. }
    assert (HnthO : forall j x, nth_error (o_incs o') j = Some x ->
               exists y, nth_error (o_incs o) j = Some y
                         /\ oi_id x = oi_id y /\ oi_when x = oi_when y
                         /\ (oi_wire x = oi_wire y
                             \/ (oi_wire y = WOpen /\ oi_wire x = WMaybe /\ In (oi_id y) (s_cancels s')))).
    { intros j x Hx. rewrite Hincs in Hx. destruct (Nat.eq_dec k j) as [->|Hne].
      - destruct (nth_error (o_incs o) j) as [y|] eqn:Ey.
        + rewrite (upd_nth_same _ _ _ _ Ey) in Hx. inversion Hx; subst x. exists y.
          destruct (Hg y eq_refl) as (G1 & G2 & G3). auto.
        + rewrite (upd_nth_none _ _ _ Ey) in Hx. congruence.
      - rewrite (upd_nth_other _ _ _ _ Hne) in Hx. exists x. auto. }
    assert (HnthO' : forall j y, nth_error (o_incs o) j = Some y ->
               exists x, nth_error (o_incs o') j = Some x
                         /\ oi_id x = oi_id y /\ oi_when x = oi_when y
                         /\ (oi_wire x = oi_wire y
                             \/ (oi_wire y = WOpen /\ oi_wire x = WMaybe /\ In (oi_id y) (s_cancels s')))).
    { intros j y Hy. rewrite Hincs. destruct (Nat.eq_dec k j) as [->|Hne].
      - rewrite (upd_nth_same _ _ _ _ Hy). exists (g y). destruct (Hg y Hy) as (G1 & G2 & G3). auto.
      - rewrite (upd_nth_other _ _ _ _ Hne). exists y. auto. }
    assert (Hopen_eq : forall x y, (oi_wire x = oi_wire y
                             \/ (oi_wire y = WOpen /\ oi_wire x = WMaybe /\ In (oi_id y) (s_cancels s'))) ->
                       is_open (oi_wire x) = is_open (oi_wire y)).
    { intros x y [E|(E1 & E2 & _)]; [rewrite E; reflexivity|rewrite E1, E2; reflexivity]. }
    constructor.
    - rewrite Hincs, upd_nth_length, Hlen. exact (u_len _ _ HI).
    - rewrite Hnow, Hw. exact (u_now _ _ HI).
    - rewrite Hdr, Hd. exact (u_dropped _ _ HI).
    - rewrite Hf. intros F. apply Heof. exact (u_eof _ _ HI F).
    - intros j hr' oi' Hj Hoi'. destruct (Hhand j hr' oi' Hj Hoi') as (A & B & C).
      repeat split; auto. rewrite Hn.
      destruct (HnthH _ _ Hj) as (hr & Hhr & E). destruct (HnthO _ _ Hoi') as (y & Hy & _).
      destruct (u_hand _ _ HI j hr y Hhr Hy) as (_ & _ & _ & D). congruence.
    - rewrite Hmap. exact (u_hnodup _ _ HI).
    - rewrite Hi. exact (u_enodup _ _ HI).
    - rewrite Hi. exact (u_idnodup _ _ HI).
    - rewrite Hi, Hn. exact (u_efresh _ _ HI).
    - rewrite Hi, Ht. exact (u_timers _ _ HI).
    - intros k1 k2 x1 x2 H1 H2 Hid Ho1 Ho2.
      destruct (HnthO _ _ H1) as (y1 & Hy1 & I1 & _ & W1). destruct (HnthO _ _ H2) as (y2 & Hy2 & I2 & _ & W2).
      rewrite (Hopen_eq _ _ W1) in Ho1. rewrite (Hopen_eq _ _ W2) in Ho2.
      apply (u_one_open _ _ HI k1 k2 y1 y2); auto; congruence.
    - intros j x Hx Hwx. destruct (HnthO _ _ Hx) as (y & Hy & _ & E2 & W). rewrite E2, Hw.
      destruct W as [W|(_ & W & _)]; [|congruence].
      apply (u_open_young _ _ HI j y Hy). congruence.
    - intros e He. rewrite Hi in He.
      destruct (u_owner _ _ HI e He) as [[j (hr & oi & A & B & C & D & E & F & G)]|[Hx Hy]].
      + left. exists j. destruct (HnthH' _ _ A) as (hr' & A' & Eh). destruct (HnthO' _ _ B) as (x & B' & I & Wn & W).
        exists hr', x. rewrite Ht. repeat split; auto; try congruence.
        * rewrite (Hopen_eq _ _ W). exact E.
        * intros k' oi' Hlt Hoi'. destruct (HnthO _ _ Hoi') as (y' & Hy' & I' & _). rewrite I'. eapply G; eauto.
      + right. rewrite Hp, Hce. split; [exact Hx|].
        intros hr' Hin'. destruct (HinH _ Hin') as (hr & Hin & E). rewrite <- E. apply Hy. exact Hin.
    - intros j hr' x Hj Hx Hin. rewrite Hab in Hin. rewrite Hd.
      destruct (HnthH _ _ Hj) as (hr & Hhr & E). destruct (HnthO _ _ Hx) as (y & Hy & _ & _ & W).
      rewrite <- E in Hin.
      destruct (u_aborted _ _ HI j hr y Hhr Hy Hin) as [L|R]; [left|right; exact R].
      destruct W as [W|(_ & W & _)]; congruence.
    - intros j e x He (hr' & x' & A & B & C & D & E & F & G) Hx Hm. rewrite Hw.
      rewrite Hi in He. rewrite B in Hx. inversion Hx; subst x'.
      destruct (HnthH _ _ A) as (hr & Hhr & Eh). destruct (HnthO _ _ B) as (y & Hy & I & Wn & W).
      rewrite Wn, I.
      destruct W as [W|(W1 & W2 & W3)]; [|right; exact W3].
      assert (Ho : owns o s j e).
      { exists hr, y. rewrite Ht in F. repeat split; auto; try congruence.
        intros k' oi'' Hlt Hoi''. destruct (HnthO' _ _ Hoi'') as (x'' & Hx'' & I'' & _).
        rewrite <- I''. eapply G; eauto. }
      destruct (u_maybe _ _ HI j e y He Ho Hy) as [L|R]; [congruence|left; exact L|right; auto].
    - intros Hce' e He Hno. rewrite Hce in Hce'. rewrite Hi in He. rewrite Ht, Hw.
      apply (u_pend_timer _ _ HI Hce' e He).
      intros hr Hin. destruct (HinH' _ Hin) as (hr' & Hin' & E). rewrite E. apply Hno. exact Hin'.
    - rewrite Hab, Hn. exact (u_abfresh _ _ HI).
  Qed.

  (* dropping the channel aborts everything tracked *)
  Lemma InvU_drop_channel : forall o o' (s s' : st),
    InvU o s ->
    s_aborted s' = map e_h (s_inflight s) ++ s_aborted s -> s_dropped s' = true -> o_dropped o' = true ->
    o_incs o' = o_incs o -> o_now o' = o_now o -> (o_eof o = true -> o_eof o' = true) ->
    pend_id o' = pend_id o -> c_err (o_v o') = c_err (o_v o) ->
    s_handlers s' = s_handlers s -> s_next_h s' = s_next_h s -> s_inflight s' = s_inflight s ->
    s_timers s' = s_timers s -> s_cancels s' = s_cancels s -> s_now s' = s_now s ->
    s_fused s' = s_fused s ->
    InvU o' s'.
  Proof.
    intros o o' s s' HI Hab Hd Hdr Hincs Hnow Heof Hp Hce Hh Hn Hi Ht Hc Hw Hf. destruct HI.
    constructor; rewrite ?Hincs, ?Hnow, ?Hp, ?Hce, ?Hh, ?Hn, ?Hi, ?Ht, ?Hc, ?Hw, ?Hf; auto.
    - congruence.
    - intros e He. destruct (u_owner0 e He) as [[k Hk]|Hx]; [left; exists k|right; exact Hx].
      eapply owns_frame; eauto.
    - intros k e oi Hin Ho. apply (u_maybe0 k e oi); auto. eapply owns_frame; [| | |exact Ho]; auto.
    - intros h Hin. rewrite Hab in Hin. apply in_app_or in Hin. destruct Hin as [Hin|Hin]; auto.
      apply in_map_iff in Hin. destruct Hin as (e & <- & He). auto.
  Qed.
End Steps.
