(* Correspondence only (no property monitor): model vs real server on one scripted case. *)
From Coq Require Import List NArith.
Import ListNotations.
From TarpcV Require Import Base Transport Server.

Definition case := ((cfg * stransport cmsg) * list sop * list (list obs))%type.
Definition model (c : case) : list (list obs) :=
  let '((cf, t0), ops, _) := c in fst (srun cf t0 ops).
Definition check (c : case) : N :=
  let '((cf, t0), ops, tr) := c in
  verdict (list_eqb (list_eqb obs_eqb) (fst (srun cf t0 ops)) tr) true.
