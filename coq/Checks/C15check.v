(* Evaluated by the correspondence check on every case the harness produced:
   (configuration, ops, observations of the real transports). *)
From Coq Require Import String Ascii.
From Coq Require Import List NArith ZArith Bool.
Import ListNotations.
From TarpcV Require Import Base Schema Wire JsonText Framing Shipped.

Definition case := (cfg * list op * list (list obs))%type.
Definition model (c : case) : list (list obs) := let '(cf, ops, _) := c in fst (run cf ops).
(* two independent parsers of the JSON subset must agree on every hand-written Json payload: the
   Gallina parser (JsonText.json_parse, which the model decodes with) and the harness's own small
   parser, whose tree is the second argument of SendRaw *)
Fixpoint jv_eqb (a b : jv) {struct a} : bool :=
  match a, b with
  | JNull, JNull => true
  | JBool x, JBool y => Bool.eqb x y
  | JNum x, JNum y => Z.eqb x y
  | JStr x, JStr y => bytes_eqb x y
  | JArr x, JArr y =>
    (fix go (x y : list jv) : bool :=
       match x, y with
       | [], [] => true
       | p :: x', q :: y' => jv_eqb p q && go x' y'
       | _, _ => false
       end) x y
  | JObj x, JObj y =>
    (fix go (x y : list (string * jv)) : bool :=
       match x, y with
       | [], [] => true
       | (k, p) :: x', (k', q) :: y' => String.eqb k k' && jv_eqb p q && go x' y'
       | _, _ => false
       end) x y
  | _, _ => false
  end.
Definition parsers_agree (cf : cfg) (ops : list op) : bool :=
  match codec cf with
  | TJson =>
    forallb (fun o => match o with
                      | SendRaw p t => option_eqb jv_eqb (json_parse p) t
                      | _ => true end) ops
  | _ => true
  end.
Definition check (c : case) : N :=
  let '(cf, ops, tr) := c in
  verdict (list_eqb (list_eqb obs_eqb) (fst (run cf ops)) tr && parsers_agree cf ops) (c15_ok cf ops tr).
