(* Evaluated by the correspondence check on every case the harness produced:
   (configuration, ops, observations of the real transports). *)
From Coq Require Import String Ascii.
From Coq Require Import List NArith ZArith Bool.
Import ListNotations.
From TarpcV Require Import Base Schema Wire Framing Shipped.

Definition case := (cfg * list op * list (list obs))%type.
Definition model (c : case) : list (list obs) := let '(cf, ops, _) := c in fst (run cf ops).
Definition check (c : case) : N :=
  let '(cf, ops, tr) := c in
  verdict (list_eqb (list_eqb obs_eqb) (fst (run cf ops)) tr) (c15_ok cf ops tr).
