(* Evaluated by the correspondence check on every case the harness produced with the server
   driver (harness/src/srv.rs): ((cfg, initial scripted transport), ops, observations of the real
   BaseChannel -> [MaxRequests] -> Requests -> InFlightRequest::execute).  The trace number of a
   request is 2 * trace_id + (1 if Sampled), on the wire and as seen by the handler.
   Verdict: bit 0 model <> implementation, bit 1 the monitor c18s_ok rejects the implementation's
   trace. *)
From Coq Require Import List Bool NArith.
Import ListNotations.
From TarpcV Require Import Base Transport Server ServerMon.

Definition case := ((cfg * stransport cmsg) * list sop * list (list obs))%type.
Definition model (c : case) : list (list obs) :=
  let '((cf, t0), ops, _) := c in fst (srun cf t0 ops).
Definition check (c : case) : N :=
  let '((cf, t0), ops, tr) := c in
  (verdict (list_eqb (list_eqb obs_eqb) (fst (srun cf t0 ops)) tr) (c18s_ok tr))%N.
