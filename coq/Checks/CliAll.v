(* Developer check: correspondence plus ALL client monitors on the implementation's trace.
   code = bit0 (model <> impl) + 2 * (bitmask of rejecting monitors: 1=C01 2=C03 4=C05 8=C09
   16=C10 32=C11 64=C14 128=C18) *)
From Coq Require Import List NArith Bool.
Import ListNotations.
From TarpcV Require Import Base Transport Client ClientS ClientMon.
Local Open Scope N_scope.

Definition case := (ccfg * list sop * list (list obs))%type.
Definition model (c : case) : list (list obs) := let '(cfg, ops, _) := c in crun cfg ops.
Definition bit (b : bool) (w : N) : N := if b then 0 else w.
Definition check (c : case) : N :=
  let '(cfg, ops, tr) := c in
  let v := monitors (cf_maxif cfg) (map to_op ops) tr in
  (if trace_eqb (crun cfg ops) tr then 0 else 1)
  + 2 * (bit (v01 v) 1 + bit (v03 v) 2 + bit (v05 v) 4 + bit (v09 v) 8 + bit (v10 v) 16
         + bit (v11 v) 32 + bit (v14 v) 64 + bit (v18 v) 128).
