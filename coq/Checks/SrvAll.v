(* Development aid: all server monitors at once on one case.  Verdict bits:
   0 model<>impl, then one bit per monitor that REJECTS the implementation's trace. *)
From Coq Require Import List NArith.
Import ListNotations.
From TarpcV Require Import Base Transport Server ServerMon.

Definition case := ((cfg * stransport cmsg) * list sop * list (list obs))%type.
Definition model (c : case) : list (list obs) :=
  let '((cf, t0), ops, _) := c in fst (srun cf t0 ops).
Definition bit (b : bool) (n : N) : N := if b then 0%N else n.
Definition check (c : case) : N :=
  let '((cf, t0), ops, tr) := c in
  (bit (list_eqb (list_eqb obs_eqb) (fst (srun cf t0 ops)) tr) 1
   + bit (c08_ok cf ops tr) 2 + bit (c04_ok cf ops tr) 4 + bit (c06_ok cf ops tr) 8
   + bit (c06_rel_ok cf ops tr) 16 + bit (c12_ok cf ops tr) 32 + bit (c12_rel_ok cf ops tr) 64
   + bit (c11s_ok cf ops tr) 128 + bit (c11s_rel_ok cf ops tr) 256 + bit (c09s_ok cf ops tr) 512
   + bit (c10s_ok cf ops tr) 1024 + bit (c14s_ok ops tr) 2048
   + bit (reuse_only_after_completion cf ops tr) 4096)%N.
