(* Wake-driven correspondence (C02): the real client, polled only where its real wakers fired,
   against the model polled to a fixpoint. *)
From Coq Require Import List NArith Bool.
Import ListNotations.
From TarpcV Require Import Base Transport Client ClientS ClientWake.

Definition case := (ccfg * list wop * list wobs)%type.
Definition model (c : case) : list wobs := let '(cfg, ops, _) := c in wrun cfg ops.
Definition check (c : case) : N :=
  let '(cfg, ops, tr) := c in verdict (list_eqb wobs_eqb (wrun cfg ops) tr) true.
