(* Developer check: the response-integrity monitor (ChainRespSpec.c01c_ok) on the cases of the
   chain driver.  Verdict: bit 0 model <> implementation, bit 1 = c01c_ok rejects the
   implementation's trace. *)
From Coq Require Import List Bool NArith.
Import ListNotations.
From TarpcV Require Import Base Transport Chain ChainRespSpec.
From TarpcV Require Client Server.

Definition case := (nat * list cop * list (list cobs))%type.
Definition model (c : case) : list (list cobs) :=
  let '(d, ops, _) := c in fst (run d ops).
Definition check (c : case) : N :=
  let '(d, ops, tr) := c in
  verdict (trace_eqb (fst (run d ops)) tr) (c01c_ok d ops tr).
