(* C02: wake-driven correspondence (the real client polled only where its real wakers fired vs.
   the model polled to a fixpoint) + the C02 monitor on the implementation's trace. *)
From Coq Require Import List NArith Bool.
Import ListNotations.
From TarpcV Require Import Base Transport Client ClientS ClientWake.

Definition case := (ccfg * list wop * list wobs)%type.
Definition model (c : case) : list wobs := let '(cfg, ops, _) := c in wrun cfg ops.
Definition check (c : case) : N :=
  let '(cfg, ops, tr) := c in verdict (list_eqb wobs_eqb (wrun cfg ops) tr) (c02_ok cfg ops tr).
