(* C18, part `threads`: monitor only (verdict bit 0 is never set). *)
From Coq Require Import List NArith Bool.
Import ListNotations.
From TarpcV Require Import Base SpanThreads.

Definition case := (unit * list (N * N) * list (N * N * N))%type.
Definition model (c : case) : list (N * N * N) := let '(_, _, tr) := c in tr.
Definition check (c : case) : N :=
  let '(_, calls, tr) := c in verdict true (c18t_ok calls tr).
