(* Development aid: sanity test of the statements pinned in ServerWakeSpec.v on the MODEL's own
   wake-driven trace.  bit 1: a settle ran out of rounds; bit 2: c02s_ok rejects the model's trace;
   bit 4 (information only, masked by the test driver): the script left the hypothesis
   reuse_only_after_completion. *)
From Coq Require Import List Bool NArith.
Import ListNotations.
From TarpcV Require Import Base Transport Server ServerWake ServerWakeSpec.

Definition case := ((cfg * stransport cmsg) * list swop * list wobs)%type.
Definition model (c : case) : list wobs :=
  let '((cf, t0), ops, _) := c in swrun cf t0 ops.
Definition bit (b : bool) (n : N) : N := if b then 0%N else n.
Definition check (c : case) : N :=
  let '((cf, t0), ops, _) := c in
  let tr := swrun cf t0 ops in
  (bit (no_wfuel tr) 1 + bit (c02s_ok cf t0 ops tr) 2 + bit (reuse_only_after_completion_w ops tr) 4)%N.
