(* Evaluated by the correspondence check of C09's part `ioerr` on every case the harness produced:
   (kind of the byte-stream failure, ids of the messages that arrived in full, items the real
   serde transport's Stream yielded). *)
From Coq Require Import List NArith Bool.
Import ListNotations.
From TarpcV Require Import Base ReadFault.

Definition case := (N * list N * list iobs)%type.
Definition model (c : case) : list iobs := let '(k, ids, _) := c in rf_model ids k.
Definition check (c : case) : N :=
  let '(k, ids, tr) := c in
  verdict (list_eqb iobs_eqb (rf_model ids k) tr) (rf_ok ids k tr).
