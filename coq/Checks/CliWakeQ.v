(* Developer test of the C02 statements on generated scripts: 0 = premises false, 1 = holds,
   2 = FAILS (quiescent), 4 = FAILS (dead), 8 = dead premises hold and conclusion holds *)
From Coq Require Import List NArith Bool Arith.
Import ListNotations.
From TarpcV Require Import Base Transport Client ClientS ClientWake ClientWakeSpec.
Local Open Scope N_scope.

Definition case := (ccfg * list wop * list wobs)%type.
Definition model (c : case) : list wobs := let '(cfg, ops, _) := c in wrun cfg ops.
Definition check (c : case) : N :=
  let '(cfg, ops, _) := c in
  let s := wfinal cfg (ops ++ [WSettle]) in
  let settled_b := match last (wrun cfg (ops ++ [WSettle])) WFuel with WFuel => false | _ => true end in
  let live := filter (fun k => is_live (c_phase k)) (calls s) in
  let prem := settled_b && writable (tr s) && (Nat.eqb (length (st_inbox (tr s))) 0) && negb (st_eof (tr s))
              && match finished s with None => true | _ => false end && negb (dropped s)
              && (1 <=? cf_qcap cfg)%nat && (1 <=? cf_maxif cfg)%nat in
  let concl := forallb (fun k =>
      negb (Nat.eqb (length (inflight s)) 0)
      && forallb (fun p => now s <? snd p) (timers s)
      && (existsb (fun p => fst p =? c_id k) (inflight s) || Nat.eqb (length (inflight s)) (max_if s))) live in
  let dprem := settled_b && (match finished s with Some (DErr _) => true | _ => false end || dropped s) in
  let dconcl := Nat.eqb (length live) 0 in
  (if prem then (if concl then (if Nat.eqb (length live) 0 then 0 else 1) else 2) else 0)
  + (if dprem then (if dconcl then 8 else 4) else 0).
