(* Evaluated by the correspondence check on every case the harness produced:
   (configuration, ops, observations of the real chain of clients and servers). *)
From Coq Require Import List NArith ZArith Bool.
Import ListNotations.
From TarpcV Require Import Base Time Hops.

Definition case := (ccfg * list cop * list (list cobs))%type.
Definition model (c : case) : list (list cobs) := let '(cf, ops, _) := c in fst (crun cf ops).
Definition check (c : case) : N :=
  let '(cf, ops, tr) := c in
  verdict (list_eqb (list_eqb cobs_eqb) (fst (crun cf ops)) tr) (c07_ok cf ops tr).
