(* C14, part `seq` (monitor only; verdict bit 0 is never set): the per-poll call log of the REAL
   client dispatch over a transport whose answers are scripted per call (harness/src/seqt.rs),
   judged by the contract monitor Transport.contract_ok.  C14_client_contract proves that the
   client model satisfies this monitor over EVERY transport, this one included; the part reaches
   answer sequences inside one dispatch poll that the remote-controlled transport of part `client`
   cannot produce (poll_ready: Pending, then Err after the flush; ...).
   A written item is represented by `true` when it is a cancellation: a failed write of a
   cancellation is fatal to the dispatch, a failed write of a request fails only that call. *)
From Coq Require Import List NArith Bool.
Import ListNotations.
From TarpcV Require Import Base Transport.

Definition case := (unit * unit * list (list (tcall bool unit) * bool))%type.
Definition model (c : case) : list (list (tcall bool unit) * bool) := let '(_, _, ps) := c in ps.
Definition check (c : case) : N :=
  let '(_, _, ps) := c in verdict true (contract_ok (fun is_cancel : bool => is_cancel) ps).
