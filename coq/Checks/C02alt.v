(* C02, second schedule: the real client driven by its real wakers under ANOTHER fair order (woken
   calls in descending index order first, the dispatch last).  The model's settle uses one fixed
   order, and the quiet state legitimately depends on the order (which queued call gets the free
   slot), so nothing is compared with the model here: the C02 monitor alone - which only looks at
   what a schedule-independent observer sees (who resolved, is something in flight, was every
   delivered response read) - decides on the implementation's trace. *)
From Coq Require Import List NArith Bool.
Import ListNotations.
From TarpcV Require Import Base Transport Client ClientS ClientWake.

Definition case := (ccfg * list wop * list wobs)%type.
Definition model (c : case) : list wobs := let '(_, _, tr) := c in tr.
Definition check (c : case) : N :=
  let '(cfg, ops, tr) := c in verdict true (c02_ok cfg ops tr).
