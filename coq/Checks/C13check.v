(* Evaluated by the correspondence check on every case the harness produced:
   (n, ops, observations of the real MaxChannelsPerKey). *)
From Coq Require Import List NArith.
Import ListNotations.
From TarpcV Require Import Base PerKey.

Definition case := (nat * list op * list (list obs))%type.
Definition model (c : case) : list (list obs) := let '(n, ops, _) := c in fst (run true n ops).
Definition check (c : case) : N :=
  let '(n, ops, tr) := c in
  verdict (list_eqb (list_eqb obs_eqb) (fst (run true n ops)) tr) (c13_ok n ops tr).
