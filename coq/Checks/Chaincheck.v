(* Evaluated by the correspondence check on every case the chain driver produced
   (harness/src/chain.rs): (depth, ops, observations of the REAL chain: client::new +
   BaseChannel::with_defaults(..).requests() per node over transport::channel::unbounded(), real
   async-block handlers making the nested calls, real InFlightRequest::execute, every component
   polled by hand under virtual time).
   Verdict: bit 0 model <> implementation, bit 1 = a chain monitor (C04 cascade, C18 trace,
   C07 deadline, fuel) rejects the implementation's trace. *)
From Coq Require Import List Bool NArith.
Import ListNotations.
From TarpcV Require Import Base Transport Chain ChainRespSpec.
From TarpcV Require Client Server.

Definition case := (nat * list cop * list (list cobs))%type.
Definition model (c : case) : list (list cobs) :=
  let '(d, ops, _) := c in fst (run d ops).
Definition monitors_ok (d : nat) (ops : list cop) (tr : list (list cobs)) : bool :=
  c04c_ok d ops tr && c18c_ok d ops tr && c07c_ok d ops tr && c18w_ok d ops tr && cfuel_ok d ops tr
  && c01c_ok d ops tr.   (* response integrity across hops, ChainRespSpec.v *)
Definition check (c : case) : N :=
  let '(d, ops, tr) := c in
  verdict (trace_eqb (fst (run d ops)) tr) (monitors_ok d ops tr).
