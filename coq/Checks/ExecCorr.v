(* Evaluated by the correspondence check on every case the harness produced with the execute()
   driver (harness/src/srvx.rs): ((cfg, initial scripted transport), eops, what the application saw
   of the REAL Channel::execute(serve) = Requests::execute = take_while(is_ok).filter_map(ok)
   .map(execute) over the real Requests stream).  This ties ServerExec.v's transcription of
   futures-util's TakeWhile / FilterMap / Map to the code.
   Verdict: bit 0 model (ServerExec.exec_run) <> implementation; bit 1 the monitor exec_ok rejects
   the implementation's trace. *)
From Coq Require Import List Bool NArith.
Import ListNotations.
From TarpcV Require Import Base Transport Server ServerMon ServerExec ServerExecMon.

Definition case := ((cfg * stransport cmsg) * list (eop (trop cmsg)) * list eobs)%type.
Definition model (c : case) : list eobs :=
  let '((cf, t0), eops, _) := c in sexec_run cf t0 eops.
Definition check (c : case) : N :=
  let '((cf, t0), eops, tr) := c in
  verdict (list_eqb eobs_eqb (sexec_run cf t0 eops) tr) (exec_ok cf eops tr).
