(* Evaluated by the correspondence check of C15's part `sock` on every case the harness produced:
   (unit, the messages of the exchange, what the two real socket transports read). *)
From Coq Require Import List NArith Bool.
Import ListNotations.
From TarpcV Require Import Base SockFront.

Definition case := (unit * list smsg * list kobs)%type.
Definition model (c : case) : list kobs := let '(_, ms, _) := c in sk_model ms.
Definition check (c : case) : N :=
  let '(_, ms, tr) := c in verdict (list_eqb kobs_eqb (sk_model ms) tr) (sk_ok ms tr).
