(* Evaluated by the correspondence check of C15's part `sock` on every case the harness produced:
   (unit, the messages of the exchange, what the two real socket transports read). *)
From Coq Require Import List NArith Bool.
Import ListNotations.
From TarpcV Require Import Base SockFront.

Definition case := (unit * list smsg * list kobs)%type.
Definition model (c : case) : list kobs := let '(_, ms, _) := c in sk_model ms.
(* [KNoSockets]: the harness found that plain tokio sockets of that kind (no tarpc code involved) do
   not work in this process; such a script decides nothing (the evidence's scenario histogram counts
   them under NO-SOCKETS-IN-THIS-SANDBOX) *)
Definition check (c : case) : N :=
  let '(_, ms, tr) := c in
  match tr with
  | [KNoSockets] => 0%N
  | _ => verdict (list_eqb kobs_eqb (sk_model ms) tr) (sk_ok ms tr)
  end.
