(* Evaluated by the correspondence check on every case the harness produced:
   (configuration, ops, observations of the real endpoint). The environment is the harness's
   virtual clock (Hostile.std_env). *)
From Coq Require Import List NArith ZArith Bool.
Import ListNotations.
From TarpcV Require Import Base Schema Time Framing Hostile.

Definition case := (hcfg * list hop * list (list hobs))%type.
Definition rep (n b : N) : bytes := repeat b (N.to_nat n).
Definition model (c : case) : list (list hobs) := let '(cf, ops, _) := c in fst (hrun cf std_env ops).
Definition check (c : case) : N :=
  let '(cf, ops, tr) := c in
  verdict (list_eqb (list_eqb hobs_eqb) (fst (hrun cf std_env ops)) tr) (c16_ok cf std_env ops tr).
