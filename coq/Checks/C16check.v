(* Evaluated by the correspondence check on every case the harness produced:
   (configuration, ops, observations of the real endpoint). The environment is the harness's
   virtual clock (Hostile.std_env). *)
From Coq Require Import List NArith ZArith Bool.
Import ListNotations.
From TarpcV Require Import Base Schema Time Framing Hostile.

Definition case := (hcfg * list hop * list (list hobs))%type.
Definition rep (n b : N) : bytes := repeat b (N.to_nat n).
Definition model (c : case) : list (list hobs) := let '(cf, ops, _) := c in fst (hrun cf std_env ops).
(* bit 2 (value 4): the monitor's rejection is of the recorded class "a stream cut exactly after
   a 4-byte length header ends cleanly" (KNOWN_FINDINGS: eof-after-length-header): the trace is
   accepted once that clean end is read as an error.  Other rejections are shrunk first. *)
Definition as_error_end (tr : list (list hobs)) : list (list hobs) :=
  map (map (fun o => match o with OEndClean => OEndErr | _ => o end)) tr.
Definition check (c : case) : N :=
  let '(cf, ops, tr) := c in
  let ok := c16_ok cf std_env ops tr in
  let known := negb ok && Nat.eqb (hcut cf) 4 &&
               match mode cf with MStream => c16_ok cf std_env ops (as_error_end tr) | _ => false end in
  (verdict (list_eqb (list_eqb hobs_eqb) (fst (hrun cf std_env ops)) tr) ok + (if known then 4 else 0))%N.
