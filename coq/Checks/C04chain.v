(* C04, cascade clause on REAL chains of depth 1..3 (harness/src/srv.rs run_chain): the monitor
   c04_chain_ok alone decides (no model of the client here, so bit 0 is never set). *)
From Coq Require Import List Bool NArith.
Import ListNotations.
From TarpcV Require Import Base ServerChain.

Definition case := (nat * list cop * list (list cev))%type.
Definition model (c : case) : list (list cev) := let '(_, _, tr) := c in tr.
Definition check (c : case) : N :=
  let '(n, ops, tr) := c in verdict true (c04_chain_ok n ops tr).
