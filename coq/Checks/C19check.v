(* Evaluated by the correspondence check on every case the harness produced:
   ((tree, ctx, req), unit op list, (events, result) observed on the real tarpc wrappers). *)
From Coq Require Import List NArith.
Import ListNotations.
From TarpcV Require Import Base Hooks.

Definition case := ((serveT * ctx * req) * (list event * result))%type.
Definition model (c : case) : list event * result :=
  let '((s, c0, r), _) := c in serve s c0 r.
Definition check (c : case) : N :=
  let '((s, c0, r), obs) := c in
  verdict (obs_eqb (serve s c0 r) obs) (c19_ok (s, c0, r) obs).
