(* C02, server side, second schedule: the real Requests stream and execute() futures driven by
   their real wakers under ANOTHER fair order (woken execute() futures first, in descending index
   order, the stream last).  The model's settle uses one fixed order and the order of the events
   inside a settle legitimately depends on the schedule, so nothing is compared with the model here
   (verdict bit 0 is never set): the monitor c02s_ok - which looks at what holds once nothing is
   woken any more (no execute() left running after its cancel / deadline / the channel's drop, no
   finished handler or buffered response stuck while the sink is writable, every delivered message
   read) - decides on the implementation's trace. *)
From Coq Require Import List Bool NArith.
Import ListNotations.
From TarpcV Require Import Base Transport Server ServerWake.

Definition case := ((cfg * stransport cmsg) * list swop * list wobs)%type.
Definition model (c : case) : list wobs := let '(_, _, tr) := c in tr.
Definition check (c : case) : N :=
  let '((cf, t0), ops, tr) := c in verdict true (c02s_ok cf t0 ops tr).
