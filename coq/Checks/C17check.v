(* Evaluated by the correspondence check on every case the harness produced:
   (service definition, scripted calls, observation of the real macro: the items read from
   rustc's expansion, whether rustc compiled the definition, the macro's error classes, what the
   compiled glue did on each call, the wrong-variant probe). *)
From Coq Require Import List NArith.
Import ListNotations.
From TarpcV Require Import Base Macro.

Definition case := (service * list call * obs)%type.
(* the macro is built with its serde1 feature (tarpc's `full`); the fallback arm is whatever
   this version of the macro emits *)
Definition model (c : case) : obs :=
  let '(s, calls, o) := c in Macro.model true (fallback_seen o) s calls.
Definition check (c : case) : N :=
  let '(s, calls, o) := c in
  verdict (obs_agree (Macro.model true (fallback_seen o) s calls) o) (c17_ok s calls o).
