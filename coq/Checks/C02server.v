(* Evaluated by the correspondence check on every case the harness produced with the wake-driven
   server driver (harness/src/srvw.rs): ((cfg, initial scripted transport), wake ops, observations
   of the real BaseChannel -> [MaxRequests] -> Requests -> InFlightRequest::execute with every task
   polled only after its real waker fired).  The model (ServerWake.v) polls every live task until
   nothing changes.  Verdict: bit 0 model <> implementation, bit 1 the monitor c02s_ok rejects the
   implementation's trace. *)
From Coq Require Import List Bool NArith.
Import ListNotations.
From TarpcV Require Import Base Transport Server ServerWake.

Definition case := ((cfg * stransport cmsg) * list swop * list wobs)%type.
Definition model (c : case) : list wobs :=
  let '((cf, t0), ops, _) := c in swrun cf t0 ops.
Definition check (c : case) : N :=
  let '((cf, t0), ops, tr) := c in
  verdict (list_eqb wobs_eqb (swrun cf t0 ops) tr) (c02s_ok cf t0 ops tr).
