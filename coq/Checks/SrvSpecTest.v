(* Development aid: sanity test of the statements pinned in ServerSpec.v.  On one case the
   flag-level statements are evaluated on the MODEL's trace for the scripted transport (bits
   1..4096) and the monitor-level statements likewise (bits 8192..); 0 = no pinned statement is
   false on this run.  (Bit 0 is not used: correspondence is not the subject here.) *)
From Coq Require Import List Bool NArith.
Import ListNotations.
From TarpcV Require Import Base Transport Server ServerMon.

Definition case := ((cfg * stransport cmsg) * list sop * list (list obs))%type.
Definition model (c : case) : list (list obs) :=
  let '((cf, t0), ops, _) := c in fst (srun cf t0 ops).
Definition bit (b : bool) (n : N) : N := if b then 0%N else n.
Definition check (c : case) : N :=
  let '((cf, t0), ops, _) := c in
  let tr := fst (srun cf t0 ops) in
  let v := observe cf ops tr in
  let hyp := h_b1 v && h_stop v in
  (bit (implb hyp (v08 v)) 2 + bit (implb hyp (v04 v)) 4 + bit (implb hyp (v06l_rel v)) 8
   + bit (implb (hyp && negb (c_k2 v)) (v06l v)) 16 + bit (v12a v) 32 + bit (v12b v) 64
   + bit (implb (h_b1 v) (v12c_rel v)) 128 + bit (implb (h_b1 v && negb (c_k1 v)) (v12c v)) 256
   + bit (implb hyp (v11_rel v)) 512 + bit (implb (hyp && negb (c_k2 v)) (v11 v)) 1024
   + bit (implb hyp (v09 v)) 2048 + bit (v10 v) 4096
   + bit (c08_ok cf ops tr && c04_ok cf ops tr && c06_rel_ok cf ops tr && c12_rel_ok cf ops tr
          && c11s_rel_ok cf ops tr && c09s_ok cf ops tr && c10s_ok cf ops tr) 8192
   + bit (implb (negb (limiter_blocked_on_sink cf ops tr)) (c06_ok cf ops tr && c11s_ok cf ops tr)) 16384
   + bit (implb (negb (freed_in_same_poll cf ops tr)) (c12_ok cf ops tr)) 32768)%N.
