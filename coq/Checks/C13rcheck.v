(* Evaluated by the correspondence check of C13's part `race` on every case the harness produced:
   (n, the flat list of PerKeyRace.rop the real run amounted to, (decision-view observations of the
   real MaxChannelsPerKey per op, program counter after every op: 0 idle, 1 loop, 2 before
   upgrade, 3 before recv, 4 before the entry check, 9 not compared)).  The yield points of hook H5
   are exactly the boundaries between the atomic actions `listen`, `upgrade`, `receive`, `check` of
   PerKeyRace.v; what another thread does between two actions is done by the yield callback. *)
From Coq Require Import List NArith Bool.
Import ListNotations.
From TarpcV Require Import Base PerKey PerKeyRace.

Definition pck (p : rpc) : N :=
  match p with PcIdle => 0 | PcLoop => 1 | PcUpgrade _ _ => 2 | PcClosed _ => 3 | PcCheck _ _ => 4 end%N.

Fixpoint rrun_pcs (s : rst) (ops : list rop) : list N :=
  match ops with
  | [] => []
  | o :: r => let s1 := fst (rstep s o) in pck (pc s1) :: rrun_pcs s1 r
  end.

Definition pcs_agree (m i : list N) : bool :=
  list_eqb (fun a b => N.eqb b 9 || N.eqb a b) m i.

Definition case := (nat * list rop * (list (list obs) * list N))%type.
Definition model (c : case) : list (list obs) * list N :=
  let '(n, ops, _) := c in (decision_view (fst (rrun n ops)), rrun_pcs (rinit n) ops).
Definition check (c : case) : N :=
  let '(n, ops, (tr, pcs)) := c in
  verdict (list_eqb (list_eqb obs_eqb) (decision_view (fst (rrun n ops))) tr
           && pcs_agree (rrun_pcs (rinit n) ops) pcs)
          (c13_ok n (map to_op ops) tr).
