(* Evaluated by the correspondence check on every case the harness produced with the server
   driver (harness/src/srv.rs): ((cfg, initial scripted transport), ops, observations of the real
   BaseChannel -> [MaxRequests] -> Requests -> InFlightRequest::execute).
   Verdict: bit 0 model <> implementation, bit 1 the monitor c08_ok rejects the implementation's
   trace. *)
From Coq Require Import List Bool NArith.
Import ListNotations.
From TarpcV Require Import Base Transport Server ServerMon.

Definition case := ((cfg * stransport cmsg) * list sop * list (list obs))%type.
Definition model (c : case) : list (list obs) :=
  let '((cf, t0), ops, _) := c in fst (srun cf t0 ops).
Definition check (c : case) : N :=
  let '((cf, t0), ops, tr) := c in
  (verdict (list_eqb (list_eqb obs_eqb) (fst (srun cf t0 ops)) tr) (c08_ok cf ops tr)
   )%N.
