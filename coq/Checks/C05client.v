(* C05, client side: correspondence + the C05 monitor (verdict v05) on the implementation's trace. *)
From Coq Require Import List NArith Bool.
Import ListNotations.
From TarpcV Require Import Base Transport Client ClientS ClientMon ClientMon2.

Definition case := (ccfg * list sop * list (list obs))%type.
Definition model (c : case) : list (list obs) := let '(cfg, ops, _) := c in crun cfg ops.
Definition check (c : case) : N :=
  let '(cfg, ops, tr) := c in
  let v := monitors (cf_maxif cfg) (map to_op ops) tr in
  verdict (trace_eqb (crun cfg ops) tr) (v05 v && c05p_ok (cf_maxif cfg) (map to_op ops) tr).
