(* Correspondence of the client model with the real client (no property monitor). *)
From Coq Require Import List NArith Bool.
Import ListNotations.
From TarpcV Require Import Base Transport Client ClientS.

Definition case := (ccfg * list sop * list (list obs))%type.
Definition model (c : case) : list (list obs) := let '(cfg, ops, _) := c in crun cfg ops.
Definition check (c : case) : N :=
  let '(cfg, ops, tr) := c in verdict (trace_eqb (crun cfg ops) tr) true.
