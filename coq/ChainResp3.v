(* Chain proofs: C08 across the hop, a request id is yielded at most once per link
   (stmt_resp_uniq), on untainted runs of fewer than 2^64 - 1 ops.  While the run is untainted the
   cascade invariant holds (ChainQuiet.GU), in particular ChainInv.cross: the request ids in the
   link and the ids of ALL handler incarnations of the node are pairwise distinct (x_nodup).  A
   yielded request comes out of the link (ChainResp2Srv.P_step_poll), and every id the monitor
   has seen yielded on the node is the id of a handler incarnation (ChainResp2.ny_ids). *)
From Coq Require Import List Bool Arith NArith Lia.
Import ListNotations.
From TarpcV Require Import Base Transport TimerWheel Chain ChainSpec ChainBase ChainRespSpec.
From TarpcV Require Import ChainInv ChainGood ChainQuiet ChainProofs ChainResp2.
From TarpcV Require Client Server ChainSrv ChainResp2Cli ChainResp2Srv.

(* ------------------------------------------------------------------------------------------ *)
(* projections of the monitor *)
Lemma rm_mon_fold d l : forall x, rm_mon (fold_left (rm_obs d) l x) = fold_left mon_obs l (rm_mon x).
Proof. induction l as [|e r IH]; intro x; cbn [fold_left]; [reflexivity|]. rewrite IH. reflexivity. Qed.

Definition noyield (e : cobs) : bool := match e with KYield _ _ _ _ _ _ => false | _ => true end.
Lemma uniq_noyield d l : forall x,
  forallb noyield l = true -> rm_uniq (fold_left (rm_obs d) l x) = rm_uniq x.
Proof.
  induction l as [|e r IH]; intros x H; cbn [fold_left]; [reflexivity|].
  cbn [forallb] in H. apply andb_true_iff in H. destruct H as [H1 H2]. rewrite IH by exact H2.
  cbn [rm_obs rm_uniq]. destruct e; try discriminate; cbn [uniq_chk]; apply andb_true_r.
Qed.
Lemma yneutral_noyield l : forallb yneutral l = true -> forallb noyield l = true.
Proof.
  intro H. apply forallb_forall. intros e He. rewrite forallb_forall in H. specialize (H e He).
  destruct e; try reflexivity. discriminate.
Qed.

Definition nocall (e : cobs) : bool := match e with KCall _ _ => false | _ => true end.
Lemma once_nocall d l : forall x,
  forallb nocall l = true -> rm_once (fold_left (rm_obs d) l x) = rm_once x.
Proof.
  induction l as [|e r IH]; intros x H; cbn [fold_left]; [reflexivity|].
  cbn [forallb] in H. apply andb_true_iff in H. destruct H as [H1 H2]. rewrite IH by exact H2.
  cbn [rm_obs rm_once]. destruct e; try discriminate; cbn [once_chk]; apply andb_true_r.
Qed.
Lemma nocall_tr_sobs i l : forallb nocall (flat_map (tr_sobs i) l) = true.
Proof.
  apply forallb_forall. intros e H. apply in_flat_map in H. destruct H as (o & _ & H).
  destruct o; cbn in H; try contradiction; destruct H as [<-|[]]; reflexivity.
Qed.
Lemma nocall_tr_cobs i l : forallb nocall (flat_map (tr_cobs i) l) = true.
Proof.
  apply forallb_forall. intros e H. apply in_flat_map in H. destruct H as (o & _ & H).
  destruct o; cbn in H; try contradiction; destruct H as [<-|[]]; reflexivity.
Qed.
(* the once flag over observations without a head-call resolution, taint or not *)
Lemma once_keep d l x :
  (mo_tainted (rm_mon x) = false -> rm_once x = true) -> forallb nocall l = true ->
  mo_tainted (rm_mon (fold_left (rm_obs d) l x)) = false -> rm_once (fold_left (rm_obs d) l x) = true.
Proof.
  intros O N T. rewrite once_nocall by exact N. apply O.
  destruct (mo_tainted (rm_mon x)) eqn:ET; [|reflexivity].
  rewrite rm_mon_fold, (fold_taint_mono l _ ET) in T. discriminate.
Qed.

Lemma rm_obs_nonevent d x e : is_event e = false -> rm_obs d x e = x.
Proof.
  intro E. unfold rm_obs. rewrite (mon_obs_nonevent _ e E). destruct x.
  destruct e; cbn in E; try discriminate; cbn; rewrite ?andb_true_r; try reflexivity.
  - destruct r as [|o|]; try discriminate; cbn; rewrite ?andb_true_r; reflexivity.
  - destruct l; [|discriminate]. cbn. reflexivity.
Qed.
Lemma rm_fold_filter d l : forall x,
  fold_left (rm_obs d) (filter is_event l) x = fold_left (rm_obs d) l x.
Proof.
  induction l as [|e r IH]; intro x; cbn; [reflexivity|]. destruct (is_event e) eqn:E; cbn.
  - apply IH.
  - rewrite (rm_obs_nonevent d x e E). apply IH.
Qed.

(* ------------------------------------------------------------------------------------------ *)
(* the joint invariant *)
Record J (x : rmon) (ch : chain) : Prop := {
  j_gu : GU (rm_mon x) ch;
  j_small : small (rm_mon x);
  j_ys : YS (ymof x) ch;
  j_uniq : rm_uniq x = true;
  j_once : mo_tainted (rm_mon x) = false -> rm_once x = true }.

Lemma j_comp d x ch' l :
  small (rm_mon x) -> rm_uniq x = true -> (mo_tainted (rm_mon x) = false -> rm_once x = true) ->
  GU (fold_left mon_obs l (rm_mon x)) ch' -> YS (fold_left ystep l (ymof x)) ch' ->
  forallb noyield l = true -> forallb nocall l = true -> J (fold_left (rm_obs d) l x) ch'.
Proof.
  intros S U O G Y N NC. constructor; [| | | |apply once_keep; assumption].
  - rewrite rm_mon_fold. exact G.
  - rewrite rm_mon_fold. apply small_fold, S.
  - rewrite fold_ymof. exact Y.
  - rewrite uniq_noyield by exact N. exact U.
Qed.

Lemma poll_call_over (c : Client.cstate (T := link)) j :
  ChainCasc1u.ph_over c j = true -> fst (Client.poll_call c j) = Client.CNothing.
Proof.
  unfold ChainCasc1u.ph_over, ClientProofsG1Rec.ph, Client.poll_call.
  destruct (nth_error (Client.calls c) j) as [k|]; cbn; [|reflexivity].
  destruct (Client.c_phase k); cbn; intro H; try discriminate; reflexivity.
Qed.

Lemma j_poll_head d x j ch ch' l :
  J x ch -> poll_head j ch = (ch', l) -> J (fold_left (rm_obs d) l x) ch'.
Proof.
  intros [G S Y U O] E.
  assert (NY : forallb noyield l = true).
  { unfold poll_head in E. destruct (nth_error ch 0); [|pinj E; reflexivity].
    destruct (cstep _ _) as [nd1 l1]. pinj E. apply forallb_forall. intros e H.
    apply in_flat_map in H. destruct H as (o & _ & H). destruct o; cbn in H; try contradiction.
    destruct H as [<-|[]]. reflexivity. }
  constructor.
  - rewrite rm_mon_fold. eapply gu_poll_head; eassumption.
  - rewrite rm_mon_fold. apply small_fold, S.
  - rewrite fold_ymof. eapply ys_poll_head; eassumption.
  - rewrite uniq_noyield by exact NY. exact U.
  - intro T. assert (T0 : mo_tainted (rm_mon x) = false).
    { destruct (mo_tainted (rm_mon x)) eqn:ET; [|reflexivity].
      rewrite rm_mon_fold, (fold_taint_mono l _ ET) in T. discriminate. }
    specialize (O T0). destruct G as [T1|G]; [congruence|].
    unfold poll_head in E. destruct (nth_error ch 0) as [nd|] eqn:E0; [|pinj E; exact O].
    destruct (cstep nd (Client.PollCall j)) as [nd1 l1] eqn:ES. pinj E.
    unfold cstep in ES. set (c0 := Client.upd_tr _ _ _ _) in ES. cbn [Client.step] in ES.
    destruct (Client.poll_call c0 j) as [r c1] eqn:EP. pinj ES.
    destruct r as [|o|]; cbn [flat_map app fold_left]; [cbn [rm_obs rm_once once_chk]; rewrite O; reflexivity| |exact O].
    cbn [rm_obs rm_once once_chk]. rewrite O. cbn [andb].
    pose proof (mk_calls _ _ (gd_mon _ _ G) _ E0) as EL.
    destruct (nth_error (mo_calls (rm_mon x)) j) as [h|] eqn:EJ.
    + destruct (hc_over h) eqn:EO; [|reflexivity]. exfalso.
      pose proof (mk_over _ _ (gd_mon _ _ G) _ _ _ E0 EJ EO) as PO.
      assert (PO0 : ChainCasc1u.ph_over c0 j = true) by exact PO.
      apply poll_call_over in PO0. rewrite EP in PO0. discriminate.
    + exfalso. apply nth_error_None in EJ. rewrite EL in EJ.
      unfold Client.poll_call in EP. assert (EN : nth_error (Client.calls c0) j = None) by (apply nth_error_None; exact EJ).
      rewrite EN in EP. discriminate.
Qed.
Lemma j_poll_dispatch d x i ch ch' l :
  J x ch -> Chain.poll_dispatch i ch = (ch', l) -> J (fold_left (rm_obs d) l x) ch'.
Proof.
  intros [G S Y U O] E. apply j_comp; try assumption.
  - eapply gu_poll_dispatch; eassumption.
  - eapply ys_poll_dispatch; eassumption.
  - unfold Chain.poll_dispatch in E. destruct (nth_error ch i); [|pinj E; reflexivity].
    destruct (cstep _ _) as [nd1 l1]. pinj E. apply forallb_forall. intros e H.
    apply in_flat_map in H. destruct H as (o & _ & H).
    destruct o; cbn in H; try contradiction; destruct H as [<-|[]]; reflexivity.
  - unfold Chain.poll_dispatch in E. destruct (nth_error ch i); [|pinj E; reflexivity].
    destruct (cstep _ _) as [nd1 l1]. pinj E. apply nocall_tr_cobs.
Qed.

Lemma noyield_poll_handler i k st ch : forallb noyield (snd (poll_handler i k st ch)) = true.
Proof.
  unfold poll_handler. destruct (nth_error ch i) as [nd|]; [|reflexivity].
  destruct (nth_error (Server.s_handlers (n_srv nd)) k) as [hr|]; [|reflexivity].
  assert (T : forall ndx o ndy l0, sstep ndx o = (ndy, l0) ->
              (match o with Server.OPoll | Server.OCtl _ => False | _ => True end) ->
              forall first : list cobs, forallb noyield first = true ->
              forallb noyield (first ++ flat_map (tr_sobs i) l0) = true).
  { intros ndx o ndy l0 ES HO first NF. rewrite forallb_app, NF.
    apply yneutral_noyield. eapply neutral_tr_sobs_other; eassumption. }
  destruct (Server.h_st hr).
  1,2: destruct (is_aborted _ _);
    [destruct (sstep nd _) as [nd1 l1] eqn:ES; cbn [snd]; apply (T _ _ _ _ ES I []); reflexivity|];
    destruct (nth_error ch (S i)) as [nx|];
    [destruct (inner_poll k nd nx) as [[nd1 nx1] st1]; destruct (sstep nd1 _) as [nd2 l0] eqn:ES
    |destruct (sstep nd _) as [nd1 l0] eqn:ES];
    cbn [snd]; apply (T _ _ _ _ ES I); reflexivity.
  1,2: destruct (sstep nd _) as [nd1 l1] eqn:ES; cbn [snd]; apply (T _ _ _ _ ES I []); reflexivity.
  all: reflexivity.
Qed.
Lemma nocall_poll_handler i k st ch : forallb nocall (snd (poll_handler i k st ch)) = true.
Proof.
  unfold poll_handler. destruct (nth_error ch i) as [nd|]; [|reflexivity].
  destruct (nth_error (Server.s_handlers (n_srv nd)) k) as [hr|]; [|reflexivity].
  destruct (Server.h_st hr).
  1,2: destruct (is_aborted _ _);
    [destruct (sstep nd _) as [nd1 l1]; cbn [snd]; apply nocall_tr_sobs|];
    destruct (nth_error ch (S i)) as [nx|];
    [destruct (inner_poll k nd nx) as [[nd1 nx1] st1]; destruct (sstep nd1 _) as [nd2 l0]
    |destruct (sstep nd _) as [nd1 l0]];
    cbn [snd]; rewrite forallb_app, nocall_tr_sobs; reflexivity.
  1,2: destruct (sstep nd _) as [nd1 l1]; cbn [snd]; apply nocall_tr_sobs.
  all: reflexivity.
Qed.
Lemma j_poll_handler d x i k st ch ch' l :
  J x ch -> poll_handler i k st ch = (ch', l) -> J (fold_left (rm_obs d) l x) ch'.
Proof.
  intros [G S Y U O] E. apply j_comp; try assumption.
  - eapply gu_poll_handler; eassumption.
  - eapply ys_poll_handler; eassumption.
  - pose proof (noyield_poll_handler i k st ch) as H. rewrite E in H. exact H.
  - pose proof (nocall_poll_handler i k st ch) as H. rewrite E in H. exact H.
Qed.

(* the request stream: the one place a request is yielded *)
Lemma NoDup_app_disj {A} (a b : list A) x : NoDup (a ++ b) -> In x a -> In x b -> False.
Proof.
  induction a as [|y r IH]; intros N Ha Hb; [destruct Ha|]. cbn in N. inversion N as [|? ? N1 N2]; subst.
  destruct Ha as [->|Ha]; [apply N1, in_or_app; right; exact Hb|exact (IH N2 Ha Hb)].
Qed.

Lemma j_poll_requests d x i ch ch' l :
  J x ch -> poll_requests i ch = (ch', l) -> J (fold_left (rm_obs d) l x) ch'.
Proof.
  intros [G S Y U O] E.
  assert (G' : GU (fold_left mon_obs l (rm_mon x)) ch') by (eapply gu_poll_requests; eassumption).
  assert (Y' : YS (fold_left ystep l (ymof x)) ch') by (eapply ys_poll_requests; eassumption).
  assert (NC : forallb nocall l = true).
  { unfold poll_requests in E. destruct (nth_error ch i); [|pinj E; reflexivity].
    destruct (n_over _ || _); [pinj E; reflexivity|]. destruct (sstep _ _). pinj E. apply nocall_tr_sobs. }
  constructor; [rewrite rm_mon_fold; exact G'|rewrite rm_mon_fold; apply small_fold, S|rewrite fold_ymof; exact Y'|
                |apply once_keep; assumption].
  clear G' Y' NC. unfold poll_requests in E. destruct (nth_error ch i) as [nd|] eqn:E0; [|pinj E; exact U].
  destruct (n_over nd || _); [pinj E; exact U|].
  destruct (sstep nd Server.OPoll) as [nd1 l1] eqn:ES. pinj E.
  unfold sstep in ES. set (s0 := Server.set_t (n_srv nd) (n_link nd)) in ES.
  destruct (Server.step stp _ _ scfg s0 Server.OPoll) as [s1 os] eqn:EP. pinj ES.
  set (R0 := flat_map (fun m => match m with Server.MReq id _ _ b => [(i, id, b)] | _ => [] end)
                      (l_c2s (n_link nd))).
  assert (P0 : ChainResp2Srv.P i R0 (length (Server.s_handlers s0)) [] (map Server.h_id (Server.s_handlers s0)) s0).
  { split; [|split; [reflexivity|split; [intros k []|reflexivity]]].
    intros id dl tr b Hin. unfold R0. apply in_flat_map. eexists. split; [exact Hin|]. left. reflexivity. }
  destruct (ChainResp2Srv.P_step_poll _ _ i R0 [] _ _ _ EP P0)
    as [[NY0 _]|(lg & id & dl & tr & b & hh & hs2 & -> & IR & _)].
  - rewrite uniq_noyield; [exact U|]. apply forallb_forall. intros e H.
    apply in_flat_map in H. destruct H as (o & Ho & H).
    destruct o; cbn in H; try contradiction; destruct H as [<-|[]]; try reflexivity.
    exfalso. eapply NY0, Ho.
  - cbn [flat_map tr_sobs app fold_left].
    rewrite uniq_noyield.
    2: { unfold Server.gauges. destruct (Server.s_dropped s1); [reflexivity|]. destruct (Server.s_bad s1); reflexivity. }
    cbn [rm_obs rm_uniq uniq_chk]. rewrite U. cbn [andb].
    destruct (mo_tainted (rm_mon x)) eqn:ET; [reflexivity|]. cbn [orb].
    destruct (ys_has_id (rm_ys x) i id) eqn:EH; [|reflexivity]. exfalso.
    destruct G as [T|G]; [congruence|].
    pose proof (no_x _ _ (gd_node _ _ G _ _ E0)) as X. pose proof (x_nodup _ _ _ _ _ X) as ND.
    rewrite app_nil_r in ND.
    apply (NoDup_app_disj _ _ id ND).
    + unfold R0 in IR. apply in_flat_map in IR. destruct IR as (m & Hm & Hi).
      destruct m as [id' dl' tr' b'|]; [|destruct Hi]. destruct Hi as [[= <- <-]|[]].
      unfold req_ids. apply in_flat_map. eexists. split; [exact Hm|]. left. reflexivity.
    + apply (ny_ids _ _ _ (ys_n _ _ Y _ _ E0)). exact EH.
Qed.

(* ------------------------------------------------------------------------------------------ *)
(* SettleAll *)
Lemma j_poll_heads d n : forall j ch acc ch' l x,
  J (fold_left (rm_obs d) acc x) ch -> poll_heads j n ch acc = (ch', l) -> J (fold_left (rm_obs d) l x) ch'.
Proof.
  induction n as [|n IH]; intros j ch acc ch' l x H E; cbn [poll_heads] in E; [pinj E; exact H|].
  match type of E with (if ?b then _ else _) = _ => destruct b end.
  - destruct (poll_head j ch) as [ch1 l1] eqn:EP.
    eapply IH; [|exact E]. rewrite fold_left_app. eapply j_poll_head; eassumption.
  - eapply IH; eassumption.
Qed.
Lemma j_poll_handlers d i n : forall k ch acc ch' l x,
  J (fold_left (rm_obs d) acc x) ch -> poll_handlers i k n ch acc = (ch', l) -> J (fold_left (rm_obs d) l x) ch'.
Proof.
  induction n as [|n IH]; intros k ch acc ch' l x H E; cbn [poll_handlers] in E; [pinj E; exact H|].
  destruct (poll_handler i k Server.SRun ch) as [ch1 l1] eqn:EP.
  eapply IH; [|exact E]. rewrite fold_left_app. eapply j_poll_handler; eassumption.
Qed.
Lemma j_settle_node d x i ch ch' l :
  J x ch -> settle_node i ch = (ch', l) -> J (fold_left (rm_obs d) l x) ch'.
Proof.
  intros H E. unfold settle_node in E.
  destruct (Chain.poll_dispatch i ch) as [ch1 l1] eqn:E1.
  destruct (poll_requests i ch1) as [ch2 l2] eqn:E2.
  destruct (poll_handlers i 0 _ ch2 []) as [ch3 l3] eqn:E3. pinj E.
  rewrite !fold_left_app.
  eapply (j_poll_handlers d i _ 0 ch2 [] ch3 l3); [|exact E3]. cbn [fold_left].
  eapply j_poll_requests; [|exact E2]. eapply j_poll_dispatch; eassumption.
Qed.
Lemma j_settle_nodes d n : forall i ch acc ch' l x,
  J (fold_left (rm_obs d) acc x) ch -> settle_nodes i n ch acc = (ch', l) -> J (fold_left (rm_obs d) l x) ch'.
Proof.
  induction n as [|n IH]; intros i ch acc ch' l x H E; cbn [settle_nodes] in E; [pinj E; exact H|].
  destruct (settle_node i ch) as [ch1 l1] eqn:EP.
  eapply IH; [|exact E]. rewrite fold_left_app. eapply j_settle_node; eassumption.
Qed.
Lemma j_round d x ch ch' ev : J x ch -> round ch = (ch', ev) -> J (fold_left (rm_obs d) ev x) ch'.
Proof.
  intros H E. unfold round in E.
  destruct (poll_heads 0 _ ch []) as [ch1 l1] eqn:E1.
  destruct (settle_nodes 0 _ ch1 []) as [ch2 l2] eqn:E2. pinj E.
  rewrite rm_fold_filter, fold_left_app.
  eapply (j_settle_nodes d _ 0 ch1 [] ch2 l2); [|exact E2]. cbn [fold_left].
  eapply (j_poll_heads d _ 0 ch [] ch1 l1); [exact H|exact E1].
Qed.
Lemma j_settle d n : forall ch acc ch' evs q x,
  J (fold_left (rm_obs d) acc x) ch -> settle n ch acc = (ch', evs, q) -> J (fold_left (rm_obs d) evs x) ch'.
Proof.
  induction n as [|n IH]; intros ch acc ch' evs q x H E; cbn [settle] in E.
  - pinj E. match goal with H : (_, _) = (_, _) |- _ => pinj H end. exact H.
  - destruct (round ch) as [ch1 ev] eqn:ER.
    pose proof (j_round d _ _ _ _ H ER) as H1.
    match type of E with (if ?b then _ else _) = _ => destruct b eqn:EB end.
    + pinj E. match goal with H : (_, _) = (_, _) |- _ => pinj H end.
      apply andb_true_iff in EB. destruct EB as [_ EB]. destruct ev; [|discriminate]. exact H1.
    + eapply IH; [|exact E]. rewrite fold_left_app. exact H1.
Qed.

Lemma nocall_gauges ch : forall i, forallb nocall (all_gauges i ch) = true.
Proof.
  induction ch as [|nd r IH]; intro i; cbn [all_gauges]; [reflexivity|].
  rewrite !forallb_app, IH. unfold cgauge, sgauge.
  destruct (Server.s_dropped _); [reflexivity|]. destruct (Server.s_bad _); reflexivity.
Qed.

(* the flags along SettleAll *)
Lemma flags_settle_all d x ch ch' l :
  J x ch -> settle_all ch = (ch', l) ->
  rm_uniq (fold_left (rm_obs d) l x) = true
  /\ (mo_tainted (rm_mon (fold_left (rm_obs d) l x)) = false -> rm_once (fold_left (rm_obs d) l x) = true).
Proof.
  intros H E. unfold settle_all in E. destruct (settle _ ch []) as [[ch1 ev] q] eqn:ES. pinj E.
  pose proof (j_settle d _ ch [] ch1 ev q x H ES) as H1.
  rewrite fold_left_app. split.
  - rewrite uniq_noyield; [apply H1|].
    rewrite forallb_app. apply andb_true_iff. split; [destruct q; reflexivity|].
    apply yneutral_noyield, yneutral_gauges.
  - apply once_keep; [apply H1|].
    rewrite forallb_app. apply andb_true_iff. split; [destruct q; reflexivity|].
    apply nocall_gauges.
Qed.

(* ------------------------------------------------------------------------------------------ *)
(* one op, a run *)
Lemma rm_mon_step d x o l : rm_mon (rm_step d x o l) = mon_step (rm_mon x) o l.
Proof.
  unfold rm_step, mon_step.
  assert (E : rm_mon (fold_left (rm_obs d) l (rm_set_mon x (mon_op (rm_mon x) o)))
              = fold_left mon_obs l (mon_op (rm_mon x) o)) by apply rm_mon_fold.
  destruct o; cbn [rm_set_mon rm_mon]; rewrite ?E; try exact E; reflexivity.
Qed.
Lemma rm_flags_step d x o l :
  let x1 := fold_left (rm_obs d) l (rm_set_mon x (mon_op (rm_mon x) o)) in
  rm_uniq (rm_step d x o l) = rm_uniq x1 /\ rm_once (rm_step d x o l) = rm_once x1
  /\ mo_tainted (rm_mon (rm_step d x o l)) = mo_tainted (rm_mon x1).
Proof. unfold rm_step. destruct o; repeat split; reflexivity. Qed.

Lemma mon_op_taint_mono m o : mo_tainted m = true -> mo_tainted (mon_op m o) = true.
Proof. intro H. destruct o; cbn [mon_op mo_tainted]; rewrite ?H; reflexivity. Qed.

Record JS (x : rmon) (ch : chain) : Prop := {
  js_c04 : mo_c04 (rm_mon x) = true;
  js_gu : GU (rm_mon x) ch;
  js_ys : YS (ymof x) ch;
  js_uniq : rm_uniq x = true;
  js_once : mo_tainted (rm_mon x) = false -> rm_once x = true }.

Lemma js_step d x ch o ch' l :
  JS x ch -> small (mon_op (rm_mon x) o) -> step ch o = (ch', l) -> JS (rm_step d x o l) ch'.
Proof.
  intros [C G Y U O] S E.
  destruct (gu_step _ _ _ _ _ C G S E) as [C1 G1].
  destruct (rm_flags_step d x o l) as (F1 & F2 & F3).
  set (x0 := rm_set_mon x (mon_op (rm_mon x) o)) in *.
  assert (K : rm_uniq (fold_left (rm_obs d) l x0) = true
              /\ (mo_tainted (rm_mon (fold_left (rm_obs d) l x0)) = false ->
                  rm_once (fold_left (rm_obs d) l x0) = true)).
  { assert (U0 : rm_uniq x0 = true) by exact U.
    assert (O0 : mo_tainted (rm_mon x0) = false -> rm_once x0 = true).
    { intro T. apply O. destruct (mo_tainted (rm_mon x)) eqn:ET; [|reflexivity].
      unfold x0 in T. cbn [rm_set_mon rm_mon] in T. rewrite (mon_op_taint_mono _ o ET) in T. discriminate. }
    assert (NOP : mon_op (rm_mon x) o = rm_mon x -> J x0 ch).
    { intro EM. constructor; unfold x0; cbn [rm_set_mon rm_mon rm_once rm_uniq]; try assumption;
        rewrite EM; try assumption. }
    assert (JK : forall y c, J y c -> rm_uniq y = true /\ (mo_tainted (rm_mon y) = false -> rm_once y = true))
      by (intros y c HJ; split; apply HJ).
    destruct o; cbn [step] in E.
    + destruct (nth_error ch 0); pinj E; split; assumption.
    + apply (JK _ _ (j_poll_head d x0 _ _ _ _ (NOP eq_refl) E)).
    + destruct (nth_error ch 0); pinj E; split; assumption.
    + apply (JK _ _ (j_poll_dispatch d x0 _ _ _ _ (NOP eq_refl) E)).
    + apply (JK _ _ (j_poll_requests d x0 _ _ _ _ (NOP eq_refl) E)).
    + apply (JK _ _ (j_poll_handler d x0 _ _ _ _ _ _ (NOP eq_refl) E)).
    + destruct (nth_error ch i); [|pinj E; split; assumption]. destruct (Client.dropped _); [pinj E; split; assumption|].
      destruct (cstep _ _). pinj E. split; assumption.
    + destruct (nth_error ch i); [|pinj E; split; assumption]. destruct (Server.s_dropped _); [pinj E; split; assumption|].
      destruct (sstep _ _). pinj E. split; assumption.
    + pinj E. split; assumption.
    + apply (flags_settle_all d x0 _ _ _ (NOP eq_refl) E). }
  destruct K as [K1 K2]. constructor.
  - rewrite rm_mon_step. exact C1.
  - rewrite rm_mon_step. exact G1.
  - rewrite ymof_step. eapply ys_step; eassumption.
  - rewrite F1. exact K1.
  - rewrite F2, F3. exact K2.
Qed.

Lemma js_run d : forall ops x ch,
  JS x ch -> (N.of_nat (length (mo_calls (rm_mon x)) + length ops) + 1 < two64)%N ->
  exists x', rm_run d x ops (fst (run_from ch ops)) = Some x' /\ rm_uniq x' = true
             /\ (mo_tainted (rm_mon x') = false -> rm_once x' = true).
Proof.
  induction ops as [|o r IH]; intros x ch H B; cbn [run_from].
  - exists x. split; [reflexivity|]. split; apply H.
  - destruct (step ch o) as [ch1 l] eqn:ES. destruct (run_from ch1 r) as [ls ch2] eqn:ER.
    cbn [fst rm_run].
    assert (S0 : small (mon_op (rm_mon x) o)).
    { unfold small. pose proof (mon_op_calls_len (rm_mon x) o). cbn [length] in B. lia. }
    specialize (IH (rm_step d x o l) ch1 (js_step d _ _ _ _ _ H S0 ES)). rewrite ER in IH. apply IH.
    rewrite rm_mon_step. pose proof (mon_step_calls_len (rm_mon x) o l). cbn [length] in B. lia.
Qed.

Lemma js_init d : JS rmon0 (init d).
Proof. constructor; [reflexivity|right; apply init_good|apply ys_init|reflexivity|reflexivity]. Qed.

Theorem chain_resp_uniq : stmt_resp_uniq.
Proof.
  intros d ops Hw. unfold c01c_uniq, rm_flag, run.
  destruct (js_run d ops rmon0 (init d) (js_init d)) as (x' & -> & A & _); [|exact A].
  unfold chain_no_wrap in Hw. cbn. unfold two64, ClientSimBase.two64. lia.
Qed.
Print Assumptions chain_resp_uniq.

(* (ii), a head call resolves at most once and never after it was abandoned: proved for runs
   that end untainted (the taint flag only rises, so such a run was untainted throughout).  The
   pinned stmt_resp_once has no such restriction; for tainted runs it needs the permit-waiter
   invariant of the client (ClientSimBase.winv) in all states, which is not done. *)
Theorem chain_resp_once_untainted : forall d ops, chain_no_wrap ops ->
  match rm_run d rmon0 ops (fst (run d ops)) with
  | Some x => mo_tainted (rm_mon x) = false -> rm_once x = true
  | None => False
  end.
Proof.
  intros d ops Hw. unfold run.
  destruct (js_run d ops rmon0 (init d) (js_init d)) as (x' & -> & _ & B); [|exact B].
  unfold chain_no_wrap in Hw. cbn. unfold two64, ClientSimBase.two64. lia.
Qed.
Print Assumptions chain_resp_once_untainted.
