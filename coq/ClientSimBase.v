(* Shared base of the client proofs (groups G2, G3): the simulation relation between the
   observer state `mst` of ClientMon.v and the model state `cstate` of Client.v that identifies
   calls with request ids, the model invariants it needs, and its preservation by every op.

   Layout
     1. lists, `mem_nat`, `index_of`, `id_of`, `call_with_id`
     2. the observer over a call log: `mrun`, `chk_calls` over `++`, `rec_call` frame lemmas
     3. the relation: `simC` (calls / phases / ids), `winv` (permit waiters), `simD` (queue, sent,
        in flight, timers, slots), `sim` = all three
     4. normal forms of the state functions (`set_phase`, slot functions, ...)
     5. preservation: one lemma per op; for `PollDispatch` one lemma per micro-function in the
        shape  `dsim maxif mb s -> dsim maxif mb (snd (f s))`  where `dsim mb s` says: `sim` holds
        between `mrun mb (plog s)` (the observer after the calls logged so far in this poll) and
        `s`, and the C18 verdict of `chk_calls` over `plog s` from `mb` is true. *)
From Coq Require Import List Bool Arith NArith Lia ZifyBool ZifyNat ZifyN.
Import ListNotations.
From TarpcV Require Import Base Transport Client ClientMon ClientLemmas.
Local Open Scope N_scope.

Definition two64 : N := 18446744073709551616.

(* ------------------------------------------------------------------------------------------ *)
(* 1. lists *)

Lemma mem_nat_In x l : mem_nat x l = true <-> In x l.
Proof.
  unfold mem_nat. rewrite existsb_exists. split.
  - intros [y [Hin He]]. apply Nat.eqb_eq in He. subst. exact Hin.
  - intro H. exists x. split; [exact H|apply Nat.eqb_refl].
Qed.

Lemma mem_nat_false x l : mem_nat x l = false <-> ~ In x l.
Proof.
  rewrite <- mem_nat_In. destruct (mem_nat x l); split; intro H; congruence.
Qed.

Lemma mem_nat_app x l1 l2 : mem_nat x (l1 ++ l2) = mem_nat x l1 || mem_nat x l2.
Proof. unfold mem_nat. apply existsb_app. Qed.

Lemma mem_nat_single x y : mem_nat x [y] = Nat.eqb x y.
Proof. unfold mem_nat; cbn. apply orb_false_r. Qed.

Lemma mem_nat_filter_neq x i l :
  mem_nat x (filter (fun j => negb (Nat.eqb j i)) l) = mem_nat x l && negb (Nat.eqb x i).
Proof.
  unfold mem_nat. induction l as [|y r IH]; cbn [filter existsb]; [reflexivity|].
  destruct (Nat.eqb y i) eqn:E; cbn [negb existsb].
  - rewrite IH. apply Nat.eqb_eq in E; subst y.
    destruct (Nat.eqb x i) eqn:E2; cbn; [rewrite andb_false_r; reflexivity|reflexivity].
  - rewrite IH. destruct (Nat.eqb x y) eqn:E2; cbn; [|reflexivity].
    apply Nat.eqb_eq in E2; subst y. rewrite E. reflexivity.
Qed.

Lemma done_idx_In (m : mst) i : done_idx m i = true <-> exists o, In (i, o) (m_done m).
Proof.
  unfold done_idx. rewrite existsb_exists. split.
  - intros [[j o] [Hin He]]. cbn in He. apply Nat.eqb_eq in He. subst. exists o; exact Hin.
  - intros [o H]. exists (i, o). split; [exact H|cbn; apply Nat.eqb_refl].
Qed.

Lemma nth_error_app_last {A} (l : list A) (x : A) : nth_error (l ++ [x]) (length l) = Some x.
Proof. rewrite nth_error_app2 by lia. rewrite Nat.sub_diag. reflexivity. Qed.

Lemma nth_error_app_inv {A} (l : list A) (x y : A) i :
  nth_error (l ++ [x]) i = Some y ->
  (nth_error l i = Some y /\ (i < length l)%nat) \/ (i = length l /\ y = x).
Proof.
  intro H. destruct (Nat.lt_ge_cases i (length l)) as [Hlt|Hge].
  - left. rewrite nth_error_app1 in H by exact Hlt. split; assumption.
  - right. rewrite nth_error_app2 in H by exact Hge.
    destruct (i - length l)%nat as [|n] eqn:E; cbn in H.
    + injection H as <-. split; [lia|reflexivity].
    + destruct n; discriminate.
Qed.

Lemma In_aremove {A} (k k' : N) (v : A) m : In (k, v) (aremove k' m) -> In (k, v) m /\ k <> k'.
Proof.
  induction m as [|[k2 v2] r IH]; cbn; [tauto|].
  destruct (N.eqb k' k2) eqn:E.
  - intro H. destruct (IH H) as [H1 H2]. split; [right; exact H1|exact H2].
  - intros [H|H].
    + injection H as -> ->. split; [left; reflexivity|]. apply N.eqb_neq in E. congruence.
    + destruct (IH H) as [H1 H2]. split; [right; exact H1|exact H2].
Qed.

Lemma In_aset {A} (k k' : N) (v v' : A) m :
  In (k, v) (aset k' v' m) -> (k = k' /\ v = v') \/ (In (k, v) m /\ k <> k').
Proof.
  unfold aset. intros [H|H].
  - injection H as -> ->. left; split; reflexivity.
  - right. apply In_aremove, H.
Qed.

Lemma In_aremove_intro {A} (k k' : N) (v : A) m : In (k, v) m -> k <> k' -> In (k, v) (aremove k' m).
Proof.
  intros H Hne. induction m as [|[k2 v2] r IH]; cbn; [exact H|].
  destruct H as [H|H].
  - injection H as -> ->. destruct (N.eqb k' k) eqn:E; [apply N.eqb_eq in E; congruence|left; reflexivity].
  - destruct (N.eqb k' k2); [apply IH, H|right; apply IH, H].
Qed.

(* ---- index_of / id_of / call_with_id *)

Lemma index_of_bounds i l k n : index_of i l k = Some n -> In i l /\ k <= n < k + N.of_nat (length l).
Proof.
  revert k. induction l as [|x r IH]; intro k; cbn [index_of]; [discriminate|].
  destruct (Nat.eqb x i) eqn:E.
  - intros [= <-]. apply Nat.eqb_eq in E. split; [left; exact E|cbn [length]; lia].
  - intro H. destruct (IH _ H) as [H1 H2]. split; [right; exact H1|cbn [length]; lia].
Qed.

Lemma index_of_In i l k : In i l -> exists n, index_of i l k = Some n.
Proof.
  revert k. induction l as [|x r IH]; intros k H; [destruct H|]. cbn [index_of].
  destruct (Nat.eqb x i) eqn:E; [eexists; reflexivity|].
  destruct H as [H|H]; [subst; rewrite Nat.eqb_refl in E; discriminate|apply IH, H].
Qed.

Lemma index_of_notin i l k : ~ In i l -> index_of i l k = None.
Proof.
  intro H. destruct (index_of i l k) eqn:E; [|reflexivity].
  apply index_of_bounds in E. tauto.
Qed.

Lemma index_of_inj i j l k n : index_of i l k = Some n -> index_of j l k = Some n -> i = j.
Proof.
  revert k. induction l as [|x r IH]; intro k; cbn [index_of]; [discriminate|].
  destruct (Nat.eqb x i) eqn:E1; destruct (Nat.eqb x j) eqn:E2.
  - apply Nat.eqb_eq in E1, E2. congruence.
  - intros [= <-] H. apply index_of_bounds in H. lia.
  - intros H [= <-]. apply index_of_bounds in H. lia.
  - apply IH.
Qed.

Lemma index_of_app i l l' k :
  index_of i (l ++ l') k =
  match index_of i l k with Some n => Some n | None => index_of i l' (k + N.of_nat (length l)) end.
Proof.
  revert k. induction l as [|x r IH]; intro k; cbn [index_of app length].
  - f_equal. lia.
  - destruct (Nat.eqb x i); [reflexivity|]. rewrite IH. destruct (index_of i r (k + 1)); [reflexivity|].
    f_equal. lia.
Qed.

Lemma id_of_some (m : mst) i id :
  N.of_nat (length (m_polled m)) < two64 ->
  (id_of m i = Some id <-> index_of i (m_polled m) 0 = Some id).
Proof.
  intro Hw. unfold id_of. destruct (index_of i (m_polled m) 0) as [n|] eqn:E; cbn [option_map].
  - apply index_of_bounds in E. destruct E as [_ E].
    rewrite N.mod_small by (unfold two64 in Hw; lia). reflexivity.
  - split; discriminate.
Qed.

Lemma id_of_bound (m : mst) i id :
  N.of_nat (length (m_polled m)) < two64 -> id_of m i = Some id ->
  In i (m_polled m) /\ id < N.of_nat (length (m_polled m)).
Proof.
  intros Hw H. apply id_of_some in H; [|exact Hw]. apply index_of_bounds in H. split; [tauto|lia].
Qed.

Lemma id_of_In (m : mst) i : In i (m_polled m) -> exists id, id_of m i = Some id.
Proof.
  intro H. destruct (index_of_In i _ 0 H) as [n Hn]. unfold id_of. rewrite Hn. eexists; reflexivity.
Qed.

(* request ids of distinct polled calls are distinct *)
Lemma id_of_inj (m : mst) i j id :
  N.of_nat (length (m_polled m)) < two64 -> id_of m i = Some id -> id_of m j = Some id -> i = j.
Proof.
  intros Hw Hi Hj. apply id_of_some in Hi, Hj; try exact Hw. eapply index_of_inj; eassumption.
Qed.

Lemma call_with_id_inv (m : mst) id i k :
  call_with_id m id = Some (i, k) ->
  In i (m_polled m) /\ id_of m i = Some id /\ nth_error (m_calls m) i = Some k.
Proof.
  unfold call_with_id.
  destruct (find _ (m_polled m)) as [j|] eqn:E; [|discriminate].
  apply find_some in E. destruct E as [Hin Hid].
  destruct (nth_error (m_calls m) j) as [k'|] eqn:Ek; cbn [option_map]; [|discriminate].
  intros [= <- <-]. split; [exact Hin|]. split; [|exact Ek].
  destruct (id_of m j) as [x|]; [|discriminate]. apply N.eqb_eq in Hid. congruence.
Qed.

Lemma call_with_id_intro (m : mst) id i k :
  N.of_nat (length (m_polled m)) < two64 ->
  id_of m i = Some id -> nth_error (m_calls m) i = Some k -> call_with_id m id = Some (i, k).
Proof.
  intros Hw Hid Hk. unfold call_with_id.
  destruct (find _ (m_polled m)) as [j|] eqn:E.
  - apply find_some in E. destruct E as [Hin Hj].
    destruct (id_of m j) as [x|] eqn:Ej; [|discriminate]. apply N.eqb_eq in Hj. subst x.
    assert (j = i) by (eapply id_of_inj; eassumption). subst j. rewrite Hk. reflexivity.
  - exfalso. destruct (id_of_bound m i id Hw Hid) as [Hin _].
    pose proof (find_none _ _ E i Hin) as Hn. cbn in Hn. rewrite Hid, N.eqb_refl in Hn. discriminate.
Qed.

Lemma call_with_id_bound (m : mst) id i k :
  N.of_nat (length (m_polled m)) < two64 -> call_with_id m id = Some (i, k) ->
  id < N.of_nat (length (m_polled m)).
Proof.
  intros Hw H. apply call_with_id_inv in H. destruct H as [_ [H _]].
  apply (id_of_bound m i id Hw H).
Qed.

(* the observer only ever appends to m_polled and m_calls: ownership of an id is stable *)
Definition mgrow (m m' : mst) : Prop :=
  (exists l, m_polled m' = m_polled m ++ l) /\ (exists l, m_calls m' = m_calls m ++ l).

Lemma mgrow_refl_eq (m m' : mst) : m_polled m' = m_polled m -> m_calls m' = m_calls m -> mgrow m m'.
Proof. intros H1 H2. split; exists []; rewrite app_nil_r; assumption. Qed.

Lemma id_of_grow (m m' : mst) i id :
  mgrow m m' -> N.of_nat (length (m_polled m')) < two64 -> id_of m i = Some id -> id_of m' i = Some id.
Proof.
  intros [[l Hl] _] Hw H.
  assert (Hw0 : N.of_nat (length (m_polled m)) < two64).
  { rewrite Hl, app_length in Hw. lia. }
  apply id_of_some in H; [|exact Hw0]. apply id_of_some; [exact Hw|].
  rewrite Hl, index_of_app, H. reflexivity.
Qed.

Lemma call_with_id_grow (m m' : mst) id i k :
  mgrow m m' -> N.of_nat (length (m_polled m')) < two64 ->
  call_with_id m id = Some (i, k) -> call_with_id m' id = Some (i, k).
Proof.
  intros G Hw H. apply call_with_id_inv in H. destruct H as [_ [Hid Hk]].
  apply call_with_id_intro; [exact Hw|eapply id_of_grow; eassumption|].
  destruct G as [_ [l Hl]]. rewrite Hl. rewrite nth_error_app1; [exact Hk|].
  apply nth_error_Some. congruence.
Qed.

Lemma call_with_id_eq (m m' : mst) id :
  m_polled m' = m_polled m -> m_calls m' = m_calls m -> call_with_id m' id = call_with_id m id.
Proof. intros H1 H2. unfold call_with_id, id_of. rewrite H1, H2. reflexivity. Qed.

Lemma id_of_eq (m m' : mst) i : m_polled m' = m_polled m -> id_of m' i = id_of m i.
Proof. intros H1. unfold id_of. rewrite H1. reflexivity. Qed.

(* ------------------------------------------------------------------------------------------ *)
(* 2. the observer over a call log *)

Definition mrun (m : mst) (l : list (tcall cmsg resp)) : mst := fold_left rec_call l m.

Lemma mrun_app m l1 l2 : mrun m (l1 ++ l2) = mrun (mrun m l1) l2.
Proof. apply fold_left_app. Qed.

Lemma mrun_snoc m l c : mrun m (l ++ [c]) = rec_call (mrun m l) c.
Proof. rewrite mrun_app. reflexivity. Qed.

Lemma chk_calls_snd maxif m l : snd (chk_calls maxif m l) = mrun m l.
Proof.
  revert m. induction l as [|c r IH]; intro m; cbn [chk_calls mrun fold_left]; [reflexivity|].
  specialize (IH (rec_call m c)). destruct (chk_calls maxif (rec_call m c) r). exact IH.
Qed.

Lemma vand_vtrue_r v : vand v vtrue = v.
Proof. destruct v; unfold vand; cbn. rewrite !andb_true_r. reflexivity. Qed.

Lemma vand_assoc a b c : vand (vand a b) c = vand a (vand b c).
Proof. unfold vand; cbn. rewrite !andb_assoc. reflexivity. Qed.

Lemma chk_calls_app maxif m l1 l2 :
  fst (chk_calls maxif m (l1 ++ l2)) =
  vand (fst (chk_calls maxif m l1)) (fst (chk_calls maxif (mrun m l1) l2)).
Proof.
  revert m. induction l1 as [|c r IH]; intro m; cbn [app chk_calls mrun fold_left].
  - destruct (chk_calls maxif m l2) as [v m']. cbn. destruct v; unfold vand; reflexivity.
  - specialize (IH (rec_call m c)).
    destruct (chk_calls maxif (rec_call m c) (r ++ l2)) as [v1 m1].
    destruct (chk_calls maxif (rec_call m c) r) as [v2 m2]. cbn [fst] in *.
    rewrite IH. unfold mrun. rewrite vand_assoc. reflexivity.
Qed.

Lemma chk_calls_snoc maxif m l c :
  fst (chk_calls maxif m (l ++ [c])) = vand (fst (chk_calls maxif m l)) (chk_call maxif (mrun m l) c).
Proof.
  rewrite chk_calls_app. cbn [chk_calls fst]. rewrite vand_vtrue_r. reflexivity.
Qed.

(* only v03, v09, v10 and v18 are ever false in chk_call *)
Lemma chk_call_v01 maxif m c : v01 (chk_call maxif m c) = true.
Proof. destruct c as [r|[id dl tc b|id tc] r|r|r|r]; reflexivity. Qed.
Lemma chk_call_v05 maxif m c : v05 (chk_call maxif m c) = true.
Proof. destruct c as [r|[id dl tc b|id tc] r|r|r|r]; reflexivity. Qed.

Lemma chk_calls_v01 maxif m l : v01 (fst (chk_calls maxif m l)) = true.
Proof.
  revert m. induction l as [|c r IH]; intro m; cbn [chk_calls]; [reflexivity|].
  specialize (IH (rec_call m c)). destruct (chk_calls maxif (rec_call m c) r). cbn in *.
  rewrite chk_call_v01, IH. reflexivity.
Qed.
Lemma chk_calls_v05 maxif m l : v05 (fst (chk_calls maxif m l)) = true.
Proof.
  revert m. induction l as [|c r IH]; intro m; cbn [chk_calls]; [reflexivity|].
  specialize (IH (rec_call m c)). destruct (chk_calls maxif (rec_call m c) r). cbn in *.
  rewrite chk_call_v05, IH. reflexivity.
Qed.

(* what rec_call leaves alone *)
Lemma rec_call_now m c : m_now (rec_call m c) = m_now m.
Proof. destruct c as [r|[id dl tc b|id tc] r|r|r|[x| | |]]; reflexivity. Qed.
Lemma rec_call_calls m c : m_calls (rec_call m c) = m_calls m.
Proof. destruct c as [r|[id dl tc b|id tc] r|r|r|[x| | |]]; reflexivity. Qed.
Lemma rec_call_polled m c : m_polled (rec_call m c) = m_polled m.
Proof. destruct c as [r|[id dl tc b|id tc] r|r|r|[x| | |]]; reflexivity. Qed.
Lemma rec_call_abandoned m c : m_abandoned (rec_call m c) = m_abandoned m.
Proof. destruct c as [r|[id dl tc b|id tc] r|r|r|[x| | |]]; reflexivity. Qed.
Lemma rec_call_closing m c : m_closing (rec_call m c) = m_closing m.
Proof. destruct c as [r|[id dl tc b|id tc] r|r|r|[x| | |]]; reflexivity. Qed.
Lemma rec_call_done m c : m_done (rec_call m c) = m_done m.
Proof. destruct c as [r|[id dl tc b|id tc] r|r|r|[x| | |]]; reflexivity. Qed.
Lemma rec_call_handles m c : m_handles (rec_call m c) = m_handles m.
Proof. destruct c as [r|[id dl tc b|id tc] r|r|r|[x| | |]]; reflexivity. Qed.
Lemma rec_call_disp m c : m_disp (rec_call m c) = m_disp m.
Proof. destruct c as [r|[id dl tc b|id tc] r|r|r|[x| | |]]; reflexivity. Qed.
Lemma rec_call_disp_dropped m c : m_disp_dropped (rec_call m c) = m_disp_dropped m.
Proof. destruct c as [r|[id dl tc b|id tc] r|r|r|[x| | |]]; reflexivity. Qed.
Lemma rec_call_contract m c : m_contract (rec_call m c) = m_contract m.
Proof. destruct c as [r|[id dl tc b|id tc] r|r|r|[x| | |]]; reflexivity. Qed.
Lemma rec_call_seq m c : m_seq (rec_call m c) = S (m_seq m).
Proof. destruct c as [r|[id dl tc b|id tc] r|r|r|[x| | |]]; reflexivity. Qed.

Definition sent_of (m : mst) (c : tcall cmsg resp) : list sentrec :=
  match c with
  | CSend (MReq id dl tc body) r =>
    [{| s_id := id; s_deadline := dl; s_tc := tc; s_body := body;
        s_ok := match r with SOk => true | SErr => false end;
        s_seq := S (m_seq m); s_time := m_now m |}]
  | _ => []
  end.
Definition cancel_of (c : tcall cmsg resp) : list (N * tctx) :=
  match c with CSend (MCancel id tc) _ => [(id, tc)] | _ => [] end.
Definition read_of (m : mst) (c : tcall cmsg resp) : list (N * rbody * N * nat) :=
  match c with CNext (RItem x) => [(r_id x, r_body x, m_now m, S (m_seq m))] | _ => [] end.

Lemma rec_call_sent m c : m_sent (rec_call m c) = m_sent m ++ sent_of m c.
Proof. destruct c as [r|[id dl tc b|id tc] r|r|r|[x| | |]]; cbn; rewrite ?app_nil_r; reflexivity. Qed.
Lemma rec_call_cancels m c : m_cancels (rec_call m c) = m_cancels m ++ cancel_of c.
Proof. destruct c as [r|[id dl tc b|id tc] r|r|r|[x| | |]]; cbn; rewrite ?app_nil_r; reflexivity. Qed.
Lemma rec_call_read m c : m_read (rec_call m c) = m_read m ++ read_of m c.
Proof. destruct c as [r|[id dl tc b|id tc] r|r|r|[x| | |]]; cbn; rewrite ?app_nil_r; reflexivity. Qed.

Lemma mrun_now m l : m_now (mrun m l) = m_now m.
Proof. revert m; induction l as [|c r IH]; intro m; cbn; [reflexivity|]. unfold mrun in IH. rewrite IH. apply rec_call_now. Qed.
Lemma mrun_calls m l : m_calls (mrun m l) = m_calls m.
Proof. revert m; induction l as [|c r IH]; intro m; cbn; [reflexivity|]. unfold mrun in IH. rewrite IH. apply rec_call_calls. Qed.
Lemma mrun_polled m l : m_polled (mrun m l) = m_polled m.
Proof. revert m; induction l as [|c r IH]; intro m; cbn; [reflexivity|]. unfold mrun in IH. rewrite IH. apply rec_call_polled. Qed.
Lemma mrun_abandoned m l : m_abandoned (mrun m l) = m_abandoned m.
Proof. revert m; induction l as [|c r IH]; intro m; cbn; [reflexivity|]. unfold mrun in IH. rewrite IH. apply rec_call_abandoned. Qed.
Lemma mrun_closing m l : m_closing (mrun m l) = m_closing m.
Proof. revert m; induction l as [|c r IH]; intro m; cbn; [reflexivity|]. unfold mrun in IH. rewrite IH. apply rec_call_closing. Qed.
Lemma mrun_done m l : m_done (mrun m l) = m_done m.
Proof. revert m; induction l as [|c r IH]; intro m; cbn; [reflexivity|]. unfold mrun in IH. rewrite IH. apply rec_call_done. Qed.
Lemma mrun_handles m l : m_handles (mrun m l) = m_handles m.
Proof. revert m; induction l as [|c r IH]; intro m; cbn; [reflexivity|]. unfold mrun in IH. rewrite IH. apply rec_call_handles. Qed.
Lemma mrun_disp m l : m_disp (mrun m l) = m_disp m.
Proof. revert m; induction l as [|c r IH]; intro m; cbn; [reflexivity|]. unfold mrun in IH. rewrite IH. apply rec_call_disp. Qed.
Lemma mrun_disp_dropped m l : m_disp_dropped (mrun m l) = m_disp_dropped m.
Proof. revert m; induction l as [|c r IH]; intro m; cbn; [reflexivity|]. unfold mrun in IH. rewrite IH. apply rec_call_disp_dropped. Qed.
Lemma mrun_contract m l : m_contract (mrun m l) = m_contract m.
Proof. revert m; induction l as [|c r IH]; intro m; cbn; [reflexivity|]. unfold mrun in IH. rewrite IH. apply rec_call_contract. Qed.
Lemma mrun_seq m l : m_seq (mrun m l) = (m_seq m + length l)%nat.
Proof.
  revert m; induction l as [|c r IH]; intro m; cbn [mrun fold_left length]; [lia|].
  unfold mrun in IH. rewrite IH, rec_call_seq. lia.
Qed.

Lemma rec_call_call_with_id m c id : call_with_id (rec_call m c) id = call_with_id m id.
Proof. apply call_with_id_eq; [apply rec_call_polled|apply rec_call_calls]. Qed.
Lemma rec_call_id_of m c i : id_of (rec_call m c) i = id_of m i.
Proof. apply id_of_eq, rec_call_polled. Qed.
Lemma rec_call_done_idx m c i : done_idx (rec_call m c) i = done_idx m i.
Proof. unfold done_idx. rewrite rec_call_done. reflexivity. Qed.
