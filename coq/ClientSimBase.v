(* Shared base of the client proofs (groups G2, G3): the simulation relation between the
   observer state `mst` of ClientMon.v and the model state `cstate` of Client.v that identifies
   calls with request ids, the model invariants it needs, and its preservation by every op.

   Layout
     1. lists, `mem_nat`, `index_of`, `id_of`, `call_with_id`
     2. the observer over a call log: `mrun`, `chk_calls` over `++`, `rec_call` frame lemmas
     3. the relation: `simC` (calls / phases / ids), `winv` (permit waiters), `simD` (queue, sent,
        in flight, timers, slots), `sim` = all three
     4. normal forms of the state functions (`set_phase`, slot functions, ...)
     5. preservation: one lemma per op; for `PollDispatch` one lemma per micro-function in the
        shape  `dsim maxif mb s -> dsim maxif mb (snd (f s))`  where `dsim mb s` says: `sim` holds
        between `mrun mb (plog s)` (the observer after the calls logged so far in this poll) and
        `s`, and the C18 verdict of `chk_calls` over `plog s` from `mb` is true. *)
From Coq Require Import List Bool Arith NArith Lia ZifyBool ZifyNat ZifyN.
Import ListNotations.
From TarpcV Require Import Base Transport Client ClientMon ClientLemmas.
Local Open Scope N_scope.

Definition two64 : N := 18446744073709551616.

(* ------------------------------------------------------------------------------------------ *)
(* 1. lists *)

Lemma mem_nat_In x l : mem_nat x l = true <-> In x l.
Proof.
  unfold mem_nat. rewrite existsb_exists. split.
  - intros [y [Hin He]]. apply Nat.eqb_eq in He. subst. exact Hin.
  - intro H. exists x. split; [exact H|apply Nat.eqb_refl].
Qed.

Lemma mem_nat_false x l : mem_nat x l = false <-> ~ In x l.
Proof.
  rewrite <- mem_nat_In. destruct (mem_nat x l); split; intro H; congruence.
Qed.

Lemma mem_nat_app x l1 l2 : mem_nat x (l1 ++ l2) = mem_nat x l1 || mem_nat x l2.
Proof. unfold mem_nat. apply existsb_app. Qed.

Lemma mem_nat_single x y : mem_nat x [y] = Nat.eqb x y.
Proof. unfold mem_nat; cbn. apply orb_false_r. Qed.

Lemma mem_nat_filter_neq x i l :
  mem_nat x (filter (fun j => negb (Nat.eqb j i)) l) = mem_nat x l && negb (Nat.eqb x i).
Proof.
  unfold mem_nat. induction l as [|y r IH]; cbn [filter existsb]; [reflexivity|].
  destruct (Nat.eqb y i) eqn:E; cbn [negb existsb].
  - rewrite IH. apply Nat.eqb_eq in E; subst y.
    destruct (Nat.eqb x i) eqn:E2; cbn; [rewrite andb_false_r; reflexivity|reflexivity].
  - rewrite IH. destruct (Nat.eqb x y) eqn:E2; cbn; [|reflexivity].
    apply Nat.eqb_eq in E2; subst y. rewrite E. reflexivity.
Qed.

Lemma done_idx_In (m : mst) i : done_idx m i = true <-> exists o, In (i, o) (m_done m).
Proof.
  unfold done_idx. rewrite existsb_exists. split.
  - intros [[j o] [Hin He]]. cbn in He. apply Nat.eqb_eq in He. subst. exists o; exact Hin.
  - intros [o H]. exists (i, o). split; [exact H|cbn; apply Nat.eqb_refl].
Qed.

Lemma nth_error_app_last {A} (l : list A) (x : A) : nth_error (l ++ [x]) (length l) = Some x.
Proof. rewrite nth_error_app2 by lia. rewrite Nat.sub_diag. reflexivity. Qed.

Lemma nth_error_app_inv {A} (l : list A) (x y : A) i :
  nth_error (l ++ [x]) i = Some y ->
  (nth_error l i = Some y /\ (i < length l)%nat) \/ (i = length l /\ y = x).
Proof.
  intro H. destruct (Nat.lt_ge_cases i (length l)) as [Hlt|Hge].
  - left. rewrite nth_error_app1 in H by exact Hlt. split; assumption.
  - right. rewrite nth_error_app2 in H by exact Hge.
    destruct (i - length l)%nat as [|n] eqn:E; cbn in H.
    + injection H as <-. split; [lia|reflexivity].
    + destruct n; discriminate.
Qed.

Lemma nth_error_ext' {A} (l l' : list A) : (forall n, nth_error l n = nth_error l' n) -> l = l'.
Proof.
  revert l'. induction l as [|x r IH]; intros [|y r'] H.
  - reflexivity.
  - specialize (H O). discriminate.
  - specialize (H O). discriminate.
  - pose proof (H O) as H0. cbn in H0. injection H0 as ->. f_equal. apply IH.
    intro n. apply (H (S n)).
Qed.

Lemma In_aremove {A} (k k' : N) (v : A) m : In (k, v) (aremove k' m) -> In (k, v) m /\ k <> k'.
Proof.
  induction m as [|[k2 v2] r IH]; cbn; [tauto|].
  destruct (N.eqb k' k2) eqn:E.
  - intro H. destruct (IH H) as [H1 H2]. split; [right; exact H1|exact H2].
  - intros [H|H].
    + injection H as -> ->. split; [left; reflexivity|]. apply N.eqb_neq in E. congruence.
    + destruct (IH H) as [H1 H2]. split; [right; exact H1|exact H2].
Qed.

Lemma In_aset {A} (k k' : N) (v v' : A) m :
  In (k, v) (aset k' v' m) -> (k = k' /\ v = v') \/ (In (k, v) m /\ k <> k').
Proof.
  unfold aset. intros [H|H].
  - injection H as -> ->. left; split; reflexivity.
  - right. apply In_aremove, H.
Qed.

Lemma In_aremove_intro {A} (k k' : N) (v : A) m : In (k, v) m -> k <> k' -> In (k, v) (aremove k' m).
Proof.
  intros H Hne. induction m as [|[k2 v2] r IH]; cbn; [exact H|].
  destruct H as [H|H].
  - injection H as -> ->. destruct (N.eqb k' k) eqn:E; [apply N.eqb_eq in E; congruence|left; reflexivity].
  - destruct (N.eqb k' k2); [apply IH, H|right; apply IH, H].
Qed.

(* ---- index_of / id_of / call_with_id *)

Lemma index_of_bounds i l k n : index_of i l k = Some n -> In i l /\ k <= n < k + N.of_nat (length l).
Proof.
  revert k. induction l as [|x r IH]; intro k; cbn [index_of]; [discriminate|].
  destruct (Nat.eqb x i) eqn:E.
  - intros [= <-]. apply Nat.eqb_eq in E. split; [left; exact E|cbn [length]; lia].
  - intro H. destruct (IH _ H) as [H1 H2]. split; [right; exact H1|cbn [length]; lia].
Qed.

Lemma index_of_In i l k : In i l -> exists n, index_of i l k = Some n.
Proof.
  revert k. induction l as [|x r IH]; intros k H; [destruct H|]. cbn [index_of].
  destruct (Nat.eqb x i) eqn:E; [eexists; reflexivity|].
  destruct H as [H|H]; [subst; rewrite Nat.eqb_refl in E; discriminate|apply IH, H].
Qed.

Lemma index_of_notin i l k : ~ In i l -> index_of i l k = None.
Proof.
  intro H. destruct (index_of i l k) eqn:E; [|reflexivity].
  apply index_of_bounds in E. tauto.
Qed.

Lemma index_of_inj i j l k n : index_of i l k = Some n -> index_of j l k = Some n -> i = j.
Proof.
  revert k. induction l as [|x r IH]; intro k; cbn [index_of]; [discriminate|].
  destruct (Nat.eqb x i) eqn:E1; destruct (Nat.eqb x j) eqn:E2.
  - apply Nat.eqb_eq in E1, E2. congruence.
  - intros [= <-] H. apply index_of_bounds in H. lia.
  - intros H [= <-]. apply index_of_bounds in H. lia.
  - apply IH.
Qed.

Lemma index_of_app i l l' k :
  index_of i (l ++ l') k =
  match index_of i l k with Some n => Some n | None => index_of i l' (k + N.of_nat (length l)) end.
Proof.
  revert k. induction l as [|x r IH]; intro k; cbn [index_of app length].
  - f_equal. lia.
  - destruct (Nat.eqb x i); [reflexivity|]. rewrite IH. destruct (index_of i r (k + 1)); [reflexivity|].
    f_equal. lia.
Qed.

Lemma id_of_some (m : mst) i id :
  N.of_nat (length (m_polled m)) < two64 ->
  (id_of m i = Some id <-> index_of i (m_polled m) 0 = Some id).
Proof.
  intro Hw. unfold id_of. destruct (index_of i (m_polled m) 0) as [n|] eqn:E; cbn [option_map].
  - apply index_of_bounds in E. destruct E as [_ E].
    rewrite N.mod_small by (unfold two64 in Hw; lia). reflexivity.
  - split; discriminate.
Qed.

Lemma id_of_bound (m : mst) i id :
  N.of_nat (length (m_polled m)) < two64 -> id_of m i = Some id ->
  In i (m_polled m) /\ id < N.of_nat (length (m_polled m)).
Proof.
  intros Hw H. apply id_of_some in H; [|exact Hw]. apply index_of_bounds in H. split; [tauto|lia].
Qed.

Lemma id_of_In (m : mst) i : In i (m_polled m) -> exists id, id_of m i = Some id.
Proof.
  intro H. destruct (index_of_In i _ 0 H) as [n Hn]. unfold id_of. rewrite Hn. eexists; reflexivity.
Qed.

(* request ids of distinct polled calls are distinct *)
Lemma id_of_inj (m : mst) i j id :
  N.of_nat (length (m_polled m)) < two64 -> id_of m i = Some id -> id_of m j = Some id -> i = j.
Proof.
  intros Hw Hi Hj. apply id_of_some in Hi, Hj; try exact Hw. eapply index_of_inj; eassumption.
Qed.

Lemma call_with_id_inv (m : mst) id i k :
  call_with_id m id = Some (i, k) ->
  In i (m_polled m) /\ id_of m i = Some id /\ nth_error (m_calls m) i = Some k.
Proof.
  unfold call_with_id.
  destruct (find _ (m_polled m)) as [j|] eqn:E; [|discriminate].
  apply find_some in E. destruct E as [Hin Hid].
  destruct (nth_error (m_calls m) j) as [k'|] eqn:Ek; cbn [option_map]; [|discriminate].
  intros [= <- <-]. split; [exact Hin|]. split; [|exact Ek].
  destruct (id_of m j) as [x|]; [|discriminate]. apply N.eqb_eq in Hid. congruence.
Qed.

Lemma call_with_id_intro (m : mst) id i k :
  N.of_nat (length (m_polled m)) < two64 ->
  id_of m i = Some id -> nth_error (m_calls m) i = Some k -> call_with_id m id = Some (i, k).
Proof.
  intros Hw Hid Hk. unfold call_with_id.
  destruct (find _ (m_polled m)) as [j|] eqn:E.
  - apply find_some in E. destruct E as [Hin Hj].
    destruct (id_of m j) as [x|] eqn:Ej; [|discriminate]. apply N.eqb_eq in Hj. subst x.
    assert (j = i) by (eapply id_of_inj; eassumption). subst j. rewrite Hk. reflexivity.
  - exfalso. destruct (id_of_bound m i id Hw Hid) as [Hin _].
    pose proof (find_none _ _ E i Hin) as Hn. cbn in Hn. rewrite Hid, N.eqb_refl in Hn. discriminate.
Qed.

Lemma call_with_id_bound (m : mst) id i k :
  N.of_nat (length (m_polled m)) < two64 -> call_with_id m id = Some (i, k) ->
  id < N.of_nat (length (m_polled m)).
Proof.
  intros Hw H. apply call_with_id_inv in H. destruct H as [_ [H _]].
  apply (id_of_bound m i id Hw H).
Qed.

(* the observer only ever appends to m_polled and m_calls: ownership of an id is stable *)
Definition mgrow (m m' : mst) : Prop :=
  (exists l, m_polled m' = m_polled m ++ l) /\ (exists l, m_calls m' = m_calls m ++ l).

Lemma mgrow_refl_eq (m m' : mst) : m_polled m' = m_polled m -> m_calls m' = m_calls m -> mgrow m m'.
Proof. intros H1 H2. split; exists []; rewrite app_nil_r; assumption. Qed.

Lemma id_of_grow (m m' : mst) i id :
  mgrow m m' -> N.of_nat (length (m_polled m')) < two64 -> id_of m i = Some id -> id_of m' i = Some id.
Proof.
  intros [[l Hl] _] Hw H.
  assert (Hw0 : N.of_nat (length (m_polled m)) < two64).
  { rewrite Hl, app_length in Hw. lia. }
  apply id_of_some in H; [|exact Hw0]. apply id_of_some; [exact Hw|].
  rewrite Hl, index_of_app, H. reflexivity.
Qed.

Lemma call_with_id_grow (m m' : mst) id i k :
  mgrow m m' -> N.of_nat (length (m_polled m')) < two64 ->
  call_with_id m id = Some (i, k) -> call_with_id m' id = Some (i, k).
Proof.
  intros G Hw H. apply call_with_id_inv in H. destruct H as [_ [Hid Hk]].
  apply call_with_id_intro; [exact Hw|eapply id_of_grow; eassumption|].
  destruct G as [_ [l Hl]]. rewrite Hl. rewrite nth_error_app1; [exact Hk|].
  apply nth_error_Some. congruence.
Qed.

Lemma call_with_id_eq (m m' : mst) id :
  m_polled m' = m_polled m -> m_calls m' = m_calls m -> call_with_id m' id = call_with_id m id.
Proof. intros H1 H2. unfold call_with_id, id_of. rewrite H1, H2. reflexivity. Qed.

Lemma id_of_eq (m m' : mst) i : m_polled m' = m_polled m -> id_of m' i = id_of m i.
Proof. intros H1. unfold id_of. rewrite H1. reflexivity. Qed.

(* ------------------------------------------------------------------------------------------ *)
(* 2. the observer over a call log *)

Definition mrun (m : mst) (l : list (tcall cmsg resp)) : mst := fold_left rec_call l m.

Lemma mrun_app m l1 l2 : mrun m (l1 ++ l2) = mrun (mrun m l1) l2.
Proof. apply fold_left_app. Qed.

Lemma mrun_snoc m l c : mrun m (l ++ [c]) = rec_call (mrun m l) c.
Proof. rewrite mrun_app. reflexivity. Qed.

Lemma chk_calls_snd maxif m l : snd (chk_calls maxif m l) = mrun m l.
Proof.
  revert m. induction l as [|c r IH]; intro m; cbn [chk_calls mrun fold_left]; [reflexivity|].
  specialize (IH (rec_call m c)). destruct (chk_calls maxif (rec_call m c) r). exact IH.
Qed.

Lemma vand_vtrue_r v : vand v vtrue = v.
Proof. destruct v; unfold vand; cbn. rewrite !andb_true_r. reflexivity. Qed.

Lemma vand_assoc a b c : vand (vand a b) c = vand a (vand b c).
Proof. unfold vand; cbn. rewrite !andb_assoc. reflexivity. Qed.

Lemma chk_calls_app maxif m l1 l2 :
  fst (chk_calls maxif m (l1 ++ l2)) =
  vand (fst (chk_calls maxif m l1)) (fst (chk_calls maxif (mrun m l1) l2)).
Proof.
  revert m. induction l1 as [|c r IH]; intro m; cbn [app chk_calls mrun fold_left].
  - destruct (chk_calls maxif m l2) as [v m']. cbn. destruct v; unfold vand; reflexivity.
  - specialize (IH (rec_call m c)).
    destruct (chk_calls maxif (rec_call m c) (r ++ l2)) as [v1 m1].
    destruct (chk_calls maxif (rec_call m c) r) as [v2 m2]. cbn [fst] in *.
    rewrite IH. unfold mrun. rewrite vand_assoc. reflexivity.
Qed.

Lemma chk_calls_snoc maxif m l c :
  fst (chk_calls maxif m (l ++ [c])) = vand (fst (chk_calls maxif m l)) (chk_call maxif (mrun m l) c).
Proof.
  rewrite chk_calls_app. cbn [chk_calls fst]. rewrite vand_vtrue_r. reflexivity.
Qed.

(* only v03, v09, v10 and v18 are ever false in chk_call *)
Lemma chk_call_v01 maxif m c : v01 (chk_call maxif m c) = true.
Proof. destruct c as [r|[id dl tc b|id tc] r|r|r|r]; reflexivity. Qed.
Lemma chk_call_v05 maxif m c : v05 (chk_call maxif m c) = true.
Proof. destruct c as [r|[id dl tc b|id tc] r|r|r|r]; reflexivity. Qed.

Lemma chk_calls_v01 maxif m l : v01 (fst (chk_calls maxif m l)) = true.
Proof.
  revert m. induction l as [|c r IH]; intro m; cbn [chk_calls]; [reflexivity|].
  specialize (IH (rec_call m c)). destruct (chk_calls maxif (rec_call m c) r). cbn in *.
  rewrite chk_call_v01, IH. reflexivity.
Qed.
Lemma chk_calls_v05 maxif m l : v05 (fst (chk_calls maxif m l)) = true.
Proof.
  revert m. induction l as [|c r IH]; intro m; cbn [chk_calls]; [reflexivity|].
  specialize (IH (rec_call m c)). destruct (chk_calls maxif (rec_call m c) r). cbn in *.
  rewrite chk_call_v05, IH. reflexivity.
Qed.

(* what rec_call leaves alone *)
Lemma rec_call_now m c : m_now (rec_call m c) = m_now m.
Proof. destruct c as [r|[id dl tc b|id tc] r|r|r|[x| | |]]; reflexivity. Qed.
Lemma rec_call_calls m c : m_calls (rec_call m c) = m_calls m.
Proof. destruct c as [r|[id dl tc b|id tc] r|r|r|[x| | |]]; reflexivity. Qed.
Lemma rec_call_polled m c : m_polled (rec_call m c) = m_polled m.
Proof. destruct c as [r|[id dl tc b|id tc] r|r|r|[x| | |]]; reflexivity. Qed.
Lemma rec_call_abandoned m c : m_abandoned (rec_call m c) = m_abandoned m.
Proof. destruct c as [r|[id dl tc b|id tc] r|r|r|[x| | |]]; reflexivity. Qed.
Lemma rec_call_closing m c : m_closing (rec_call m c) = m_closing m.
Proof. destruct c as [r|[id dl tc b|id tc] r|r|r|[x| | |]]; reflexivity. Qed.
Lemma rec_call_done m c : m_done (rec_call m c) = m_done m.
Proof. destruct c as [r|[id dl tc b|id tc] r|r|r|[x| | |]]; reflexivity. Qed.
Lemma rec_call_handles m c : m_handles (rec_call m c) = m_handles m.
Proof. destruct c as [r|[id dl tc b|id tc] r|r|r|[x| | |]]; reflexivity. Qed.
Lemma rec_call_disp m c : m_disp (rec_call m c) = m_disp m.
Proof. destruct c as [r|[id dl tc b|id tc] r|r|r|[x| | |]]; reflexivity. Qed.
Lemma rec_call_disp_dropped m c : m_disp_dropped (rec_call m c) = m_disp_dropped m.
Proof. destruct c as [r|[id dl tc b|id tc] r|r|r|[x| | |]]; reflexivity. Qed.
Lemma rec_call_contract m c : m_contract (rec_call m c) = m_contract m.
Proof. destruct c as [r|[id dl tc b|id tc] r|r|r|[x| | |]]; reflexivity. Qed.
Lemma rec_call_seq m c : m_seq (rec_call m c) = S (m_seq m).
Proof. destruct c as [r|[id dl tc b|id tc] r|r|r|[x| | |]]; reflexivity. Qed.

Definition sent_of (m : mst) (c : tcall cmsg resp) : list sentrec :=
  match c with
  | CSend (MReq id dl tc body) r =>
    [{| s_id := id; s_deadline := dl; s_tc := tc; s_body := body;
        s_ok := match r with SOk => true | SErr => false end;
        s_seq := S (m_seq m); s_time := m_now m |}]
  | _ => []
  end.
Definition cancel_of (c : tcall cmsg resp) : list (N * tctx) :=
  match c with CSend (MCancel id tc) _ => [(id, tc)] | _ => [] end.
Definition read_of (m : mst) (c : tcall cmsg resp) : list (N * rbody * N * nat) :=
  match c with CNext (RItem x) => [(r_id x, r_body x, m_now m, S (m_seq m))] | _ => [] end.

Lemma rec_call_sent m c : m_sent (rec_call m c) = m_sent m ++ sent_of m c.
Proof. destruct c as [r|[id dl tc b|id tc] r|r|r|[x| | |]]; cbn; rewrite ?app_nil_r; reflexivity. Qed.
Lemma rec_call_cancels m c : m_cancels (rec_call m c) = m_cancels m ++ cancel_of c.
Proof. destruct c as [r|[id dl tc b|id tc] r|r|r|[x| | |]]; cbn; rewrite ?app_nil_r; reflexivity. Qed.
Lemma rec_call_read m c : m_read (rec_call m c) = m_read m ++ read_of m c.
Proof. destruct c as [r|[id dl tc b|id tc] r|r|r|[x| | |]]; cbn; rewrite ?app_nil_r; reflexivity. Qed.

Lemma mrun_now m l : m_now (mrun m l) = m_now m.
Proof. revert m; induction l as [|c r IH]; intro m; cbn; [reflexivity|]. unfold mrun in IH. rewrite IH. apply rec_call_now. Qed.
Lemma mrun_calls m l : m_calls (mrun m l) = m_calls m.
Proof. revert m; induction l as [|c r IH]; intro m; cbn; [reflexivity|]. unfold mrun in IH. rewrite IH. apply rec_call_calls. Qed.
Lemma mrun_polled m l : m_polled (mrun m l) = m_polled m.
Proof. revert m; induction l as [|c r IH]; intro m; cbn; [reflexivity|]. unfold mrun in IH. rewrite IH. apply rec_call_polled. Qed.
Lemma mrun_abandoned m l : m_abandoned (mrun m l) = m_abandoned m.
Proof. revert m; induction l as [|c r IH]; intro m; cbn; [reflexivity|]. unfold mrun in IH. rewrite IH. apply rec_call_abandoned. Qed.
Lemma mrun_closing m l : m_closing (mrun m l) = m_closing m.
Proof. revert m; induction l as [|c r IH]; intro m; cbn; [reflexivity|]. unfold mrun in IH. rewrite IH. apply rec_call_closing. Qed.
Lemma mrun_done m l : m_done (mrun m l) = m_done m.
Proof. revert m; induction l as [|c r IH]; intro m; cbn; [reflexivity|]. unfold mrun in IH. rewrite IH. apply rec_call_done. Qed.
Lemma mrun_handles m l : m_handles (mrun m l) = m_handles m.
Proof. revert m; induction l as [|c r IH]; intro m; cbn; [reflexivity|]. unfold mrun in IH. rewrite IH. apply rec_call_handles. Qed.
Lemma mrun_disp m l : m_disp (mrun m l) = m_disp m.
Proof. revert m; induction l as [|c r IH]; intro m; cbn; [reflexivity|]. unfold mrun in IH. rewrite IH. apply rec_call_disp. Qed.
Lemma mrun_disp_dropped m l : m_disp_dropped (mrun m l) = m_disp_dropped m.
Proof. revert m; induction l as [|c r IH]; intro m; cbn; [reflexivity|]. unfold mrun in IH. rewrite IH. apply rec_call_disp_dropped. Qed.
Lemma mrun_contract m l : m_contract (mrun m l) = m_contract m.
Proof. revert m; induction l as [|c r IH]; intro m; cbn; [reflexivity|]. unfold mrun in IH. rewrite IH. apply rec_call_contract. Qed.
Lemma mrun_seq m l : m_seq (mrun m l) = (m_seq m + length l)%nat.
Proof.
  revert m; induction l as [|c r IH]; intro m; cbn [mrun fold_left length]; [lia|].
  unfold mrun in IH. rewrite IH, rec_call_seq. lia.
Qed.

Lemma rec_call_call_with_id m c id : call_with_id (rec_call m c) id = call_with_id m id.
Proof. apply call_with_id_eq; [apply rec_call_polled|apply rec_call_calls]. Qed.
Lemma rec_call_id_of m c i : id_of (rec_call m c) i = id_of m i.
Proof. apply id_of_eq, rec_call_polled. Qed.
Lemma rec_call_done_idx m c i : done_idx (rec_call m c) i = done_idx m i.
Proof. unfold done_idx. rewrite rec_call_done. reflexivity. Qed.

(* ------------------------------------------------------------------------------------------ *)
(* 3. the relation *)

(* which observer lists call i belongs to, by phase (None: either) *)
Definition ph_polled (p : phase) : option bool :=
  match p with PNew => Some false | PGone => None | _ => Some true end.
Definition ph_aband (p : phase) : bool := match p with PGone => true | _ => false end.
Definition ph_closing (p : phase) : bool := match p with PClosing => true | _ => false end.
Definition ph_done (p : phase) : bool := match p with PDone => true | _ => false end.
(* id handed out, request not yet queued *)
Definition staged (p : phase) : bool := match p with PAcquiring | PAssigned => true | _ => false end.

Record disc (m : mst) (i : nat) (p : phase) : Prop := {
  d_polled : forall b, ph_polled p = Some b -> mem_nat i (m_polled m) = b;
  d_aband : mem_nat i (m_abandoned m) = ph_aband p;
  d_closing : mem_nat i (m_closing m) = ph_closing p;
  d_done : done_idx m i = ph_done p }.

Record crec_ok (k : crec) (c : call) : Prop := {
  ck_body : k_body k = c_body c;
  ck_tid : k_tid k = tc_tid (c_tc c);
  ck_smp : k_sampled k = tc_sampled (c_tc c);
  ck_rel : k_rel k = c_rel c;
  ck_dl : k_created k + k_rel k = c_deadline c }.

(* request `id` with this deadline / trace context / body is the request of the call that owns
   the id (the observer's view: `call_with_id`) *)
Definition req_of (m : mst) (id dl : N) (tc : tctx) (body : N) : Prop :=
  exists i k, call_with_id m id = Some (i, k) /\ k_body k = body /\ k_tid k = tc_tid tc /\
              k_sampled k = tc_sampled tc /\ k_created k + k_rel k = dl /\ tc_sid tc = id.

(* why the oneshot of `id` may hold outcome `o` *)
Definition just (m : mst) (id : N) (o : outcome) : Prop :=
  match o with
  | OReply v => exists sr tm q, In sr (m_sent m) /\ s_id sr = id /\
                                In (id, BOk v, tm, q) (m_read m) /\ (s_seq sr < q)%nat
  | OSrvErr e => exists sr tm q, In sr (m_sent m) /\ s_id sr = id /\
                                 In (id, BErr e, tm, q) (m_read m) /\ (s_seq sr < q)%nat
  | ODeadline =>
    exists sr i k, In sr (m_sent m) /\ s_id sr = id /\ call_with_id m id = Some (i, k) /\
      (max_timeout_ms < k_rel k \/
       (s_deadline sr <= m_now m /\
        forall b tm q, In (id, b, tm, q) (m_read m) -> (s_seq sr < q)%nat -> s_deadline sr <= tm))
  | _ => True
  end.

Section Sim.
  Context {T : Type}.
  Notation cstate := (@cstate T).
  Implicit Types (s : cstate) (m : mst).

  (* calls, phases, ids *)
  Record simC m s : Prop := {
    sc_now : m_now m = now s;
    sc_handles : m_handles m = handles s;
    sc_len : length (m_calls m) = length (calls s);
    sc_crec : forall i k c, nth_error (m_calls m) i = Some k -> nth_error (calls s) i = Some c ->
                            crec_ok k c;
    sc_created : forall i k, nth_error (m_calls m) i = Some k -> k_created k <= m_now m;
    sc_phase : forall i c, nth_error (calls s) i = Some c -> disc m i (c_phase c);
    sc_range_p : forall i, In i (m_polled m) -> (i < length (m_calls m))%nat;
    sc_range_a : forall i, In i (m_abandoned m) -> (i < length (m_calls m))%nat;
    sc_range_c : forall i, In i (m_closing m) -> (i < length (m_calls m))%nat;
    sc_range_d : forall i o, In (i, o) (m_done m) -> (i < length (m_calls m))%nat;
    sc_nodup : NoDup (m_polled m);
    sc_nowrap : N.of_nat (length (m_polled m)) < two64;
    sc_next : next_id s = N.of_nat (length (m_polled m));
    sc_id : forall i c, nth_error (calls s) i = Some c -> In i (m_polled m) ->
                        id_of m i = Some (c_id c) }.

  (* permit waiters (model only) *)
  Record winv s : Prop := {
    w_acq : forall w, In w (waiters s) ->
                      exists c, nth_error (calls s) w = Some c /\ c_phase c = PAcquiring;
    w_nodup : NoDup (waiters s) }.

  (* queue, written requests, in flight, timers, oneshots *)
  Record simD m s : Prop := {
    sd_queue : forall q, In q (queue s) -> req_of m (q_id q) (q_deadline q) (q_tc q) (q_body q);
    sd_queue_nodup : NoDup (map q_id (queue s));
    sd_queue_unsent : forall q sr, In q (queue s) -> In sr (m_sent m) -> s_id sr <> q_id q;
    sd_staged : forall i c, nth_error (calls s) i = Some c -> staged (c_phase c) = true ->
                  (forall q, In q (queue s) -> q_id q <> c_id c) /\
                  (forall sr, In sr (m_sent m) -> s_id sr <> c_id c);
    sd_sent : forall sr, In sr (m_sent m) ->
                req_of m (s_id sr) (s_deadline sr) (s_tc sr) (s_body sr);
    sd_sent_nodup : NoDup (map s_id (m_sent m));
    sd_sent_seq : forall sr, In sr (m_sent m) -> (s_seq sr <= m_seq m)%nat /\ s_time sr <= m_now m;
    sd_read_seq : forall id b tm q, In (id, b, tm, q) (m_read m) -> (q <= m_seq m)%nat /\ tm <= m_now m;
    sd_inflight : forall id e, In (id, e) (inflight s) ->
                    exists sr, In sr (m_sent m) /\ s_id sr = id /\ s_tc sr = if_tc e /\
                               s_deadline sr = if_deadline e /\
                               forall b tm q, In (id, b, tm, q) (m_read m) -> (q <= s_seq sr)%nat;
    sd_timers : forall id w, In (id, w) (timers s) ->
                  exists i k, call_with_id m id = Some (i, k) /\
                              (max_timeout_ms < k_rel k \/ k_created k + k_rel k <= w);
    sd_slots : forall id o, sl_val (get_slot s id) = Some o -> just m id o }.

  Record sim m s : Prop := { sim_c : simC m s; sim_w : winv s; sim_d : simD m s }.

  (* ---- consequences *)
  Lemma req_of_bound m id dl tc b :
    N.of_nat (length (m_polled m)) < two64 -> req_of m id dl tc b -> id < N.of_nat (length (m_polled m)).
  Proof. intros Hw (i & k & H & _). eapply call_with_id_bound; eassumption. Qed.

  Lemma sim_queue_lt m s q : sim m s -> In q (queue s) -> q_id q < next_id s.
  Proof.
    intros [C _ D] H. rewrite (sc_next _ _ C). eapply req_of_bound; [apply C|apply (sd_queue _ _ D), H].
  Qed.

  Lemma sim_inflight_lt m s id e : sim m s -> In (id, e) (inflight s) -> id < next_id s.
  Proof.
    intros [C _ D] H. rewrite (sc_next _ _ C).
    destruct (sd_inflight _ _ D _ _ H) as (sr & Hin & <- & _).
    eapply req_of_bound; [apply C|apply (sd_sent _ _ D), Hin].
  Qed.

  (* request ids of distinct polled calls are distinct *)
  Lemma sim_ids_unique m s i j ci cj :
    simC m s -> nth_error (calls s) i = Some ci -> nth_error (calls s) j = Some cj ->
    In i (m_polled m) -> In j (m_polled m) -> c_id ci = c_id cj -> i = j.
  Proof.
    intros C Hi Hj Pi Pj He.
    pose proof (sc_id _ _ C _ _ Hi Pi) as H1. pose proof (sc_id _ _ C _ _ Hj Pj) as H2.
    rewrite He in H1. eapply id_of_inj; [apply C|eassumption|eassumption].
  Qed.

  Lemma sim_owner m s i c k :
    simC m s -> nth_error (calls s) i = Some c -> In i (m_polled m) ->
    nth_error (m_calls m) i = Some k -> call_with_id m (c_id c) = Some (i, k).
  Proof.
    intros C Hc Hp Hk. apply call_with_id_intro; [apply C| |exact Hk].
    apply (sc_id _ _ C _ _ Hc Hp).
  Qed.

  Lemma simC_crec_ex m s i c : simC m s -> nth_error (calls s) i = Some c ->
    exists k, nth_error (m_calls m) i = Some k /\ crec_ok k c.
  Proof.
    intros C Hc. destruct (nth_error (m_calls m) i) as [k|] eqn:E.
    - exists k. split; [reflexivity|]. eapply sc_crec; eassumption.
    - exfalso. apply nth_error_None in E. rewrite (sc_len _ _ C) in E.
      assert (nth_error (calls s) i <> None) by congruence. apply nth_error_Some in H. lia.
  Qed.

  (* ---- frames: which parts of the model state / observer state each piece reads *)
  Lemma simC_frame m s s' :
    simC m s -> now s' = now s -> handles s' = handles s -> calls s' = calls s ->
    next_id s' = next_id s -> simC m s'.
  Proof. intros [] E1 E2 E3 E4. constructor; rewrite ?E1, ?E2, ?E3, ?E4; assumption. Qed.

  Lemma winv_frame s s' : winv s -> calls s' = calls s -> waiters s' = waiters s -> winv s'.
  Proof. intros [] E1 E2. constructor; rewrite ?E1, ?E2; assumption. Qed.

  Lemma simD_frame m s s' :
    simD m s -> calls s' = calls s -> queue s' = queue s -> inflight s' = inflight s ->
    timers s' = timers s -> slots s' = slots s -> simD m s'.
  Proof.
    intros [] E1 E2 E3 E4 E5. constructor; unfold get_slot; rewrite ?E1, ?E2, ?E3, ?E4, ?E5; assumption.
  Qed.

  Lemma sim_frame m s s' :
    sim m s -> now s' = now s -> handles s' = handles s -> calls s' = calls s ->
    next_id s' = next_id s -> waiters s' = waiters s -> queue s' = queue s ->
    inflight s' = inflight s -> timers s' = timers s -> slots s' = slots s -> sim m s'.
  Proof.
    intros [C W D] **. constructor;
      [eapply simC_frame|eapply winv_frame|eapply simD_frame]; eassumption.
  Qed.

  Lemma disc_meq m m' i p :
    disc m i p -> m_polled m' = m_polled m -> m_abandoned m' = m_abandoned m ->
    m_closing m' = m_closing m -> m_done m' = m_done m -> disc m' i p.
  Proof. intros [] E1 E2 E3 E4. constructor; unfold done_idx; rewrite ?E1, ?E2, ?E3, ?E4; assumption. Qed.

  Lemma simC_meq m m' s :
    simC m s -> m_now m' = m_now m -> m_handles m' = m_handles m -> m_calls m' = m_calls m ->
    m_polled m' = m_polled m -> m_abandoned m' = m_abandoned m -> m_closing m' = m_closing m ->
    m_done m' = m_done m -> simC m' s.
  Proof.
    intros [] E1 E2 E3 E4 E5 E6 E7.
    constructor; rewrite ?E1, ?E2, ?E3, ?E4, ?E5, ?E6, ?E7; try assumption.
    - intros i c Hc. eapply disc_meq; [apply sc_phase0, Hc|assumption..].
    - intros i c Hc Hp. rewrite (id_of_eq m m' i E4). apply sc_id0; assumption.
  Qed.

  Lemma req_of_grow m m' id dl tc b :
    mgrow m m' -> N.of_nat (length (m_polled m')) < two64 -> req_of m id dl tc b -> req_of m' id dl tc b.
  Proof.
    intros G Hw (i & k & H & R). exists i, k. split; [eapply call_with_id_grow; eassumption|exact R].
  Qed.

  Lemma just_mono m m' id o :
    mgrow m m' -> N.of_nat (length (m_polled m')) < two64 ->
    (forall x, In x (m_sent m) -> In x (m_sent m')) -> m_read m' = m_read m -> m_now m <= m_now m' ->
    just m id o -> just m' id o.
  Proof.
    intros G Hw Hs Hr Hn. destruct o; cbn [just]; try exact (fun x => x).
    - intros (sr & tm & q & H1 & H2 & H3 & H4). exists sr, tm, q. rewrite Hr. auto.
    - intros (sr & tm & q & H1 & H2 & H3 & H4). exists sr, tm, q. rewrite Hr. auto.
    - intros (sr & i & k & H1 & H2 & H3 & H4). exists sr, i, k. rewrite Hr.
      split; [auto|]. split; [exact H2|]. split; [eapply call_with_id_grow; eassumption|].
      destruct H4 as [H4|[H4 H5]]; [left; exact H4|right; split; [lia|exact H5]].
  Qed.

  (* the observer moves on without a new request / response record *)
  Lemma simD_mono m m' s :
    simD m s -> mgrow m m' -> N.of_nat (length (m_polled m')) < two64 ->
    m_sent m' = m_sent m -> m_read m' = m_read m -> (m_seq m <= m_seq m')%nat ->
    m_now m <= m_now m' -> simD m' s.
  Proof.
    intros [] G Hw Es Er Hq Hn. constructor; rewrite ?Es, ?Er; try assumption.
    - intros q Hq'. eapply req_of_grow; eauto.
    - intros sr Hsr. eapply req_of_grow; eauto.
    - intros sr Hsr. destruct (sd_sent_seq0 sr Hsr). split; lia.
    - intros id b tm q Hr. destruct (sd_read_seq0 id b tm q Hr). split; lia.
    - intros id w Hin. destruct (sd_timers0 id w Hin) as (i & k & H1 & H2).
      exists i, k. split; [eapply call_with_id_grow; eassumption|exact H2].
    - intros id o Hv. eapply just_mono; try eassumption; [rewrite Es; auto|apply sd_slots0, Hv].
  Qed.

  Lemma simD_rec_other m s c :
    simD m s -> N.of_nat (length (m_polled m)) < two64 ->
    sent_of m c = [] -> read_of m c = [] -> simD (rec_call m c) s.
  Proof.
    intros D Hw Es Er. eapply simD_mono; [exact D| | | | | |].
    - apply mgrow_refl_eq; [apply rec_call_polled|apply rec_call_calls].
    - rewrite rec_call_polled. exact Hw.
    - rewrite rec_call_sent, Es, app_nil_r. reflexivity.
    - rewrite rec_call_read, Er, app_nil_r. reflexivity.
    - rewrite rec_call_seq. lia.
    - rewrite rec_call_now. lia.
  Qed.

  Lemma simC_rec_call m s c : simC m s -> simC (rec_call m c) s.
  Proof.
    intro C. eapply simC_meq; [exact C|apply rec_call_now|apply rec_call_handles|apply rec_call_calls|
      apply rec_call_polled|apply rec_call_abandoned|apply rec_call_closing|apply rec_call_done].
  Qed.

  Lemma sim_rec_other m s c :
    sim m s -> sent_of m c = [] -> read_of m c = [] -> sim (rec_call m c) s.
  Proof.
    intros [C W D] Es Er. constructor; [apply simC_rec_call, C|exact W|].
    apply simD_rec_other; [exact D|apply C|exact Es|exact Er].
  Qed.
End Sim.

(* ------------------------------------------------------------------------------------------ *)
(* 4. normal forms of the state functions: everything becomes an `upd_*` of the old state, so
   that `cbn` computes every projection *)
Section Normal.
  Context {T : Type}.
  Notation cstate := (@cstate T).
  Implicit Types (s : cstate) (m : mst).

  Definition with_phase (c : call) (p : phase) : call :=
    {| c_handle := c_handle c; c_phase := p; c_id := c_id c; c_rel := c_rel c;
       c_deadline := c_deadline c; c_tc := c_tc c; c_body := c_body c |}.
  Definition phase_calls (l : list call) (i : nat) (p : phase) : list call :=
    match nth_error l i with Some c => set_nth i (with_phase c p) l | None => l end.

  Lemma upd_calls_same s : upd_calls s (calls s) = s.
  Proof. destruct s; reflexivity. Qed.
  Lemma upd_cancels_same s : upd_cancels s (cancels s) = s.
  Proof. destruct s; reflexivity. Qed.
  Lemma upd_if_same s : upd_if s (inflight s) (timers s) = s.
  Proof. destruct s; reflexivity. Qed.
  Lemma upd_q_same s : upd_q s (permits s) (queue s) (waiters s) (rx_closed s) = s.
  Proof. destruct s; reflexivity. Qed.

  Lemma set_phase_alt s i p : set_phase s i p = upd_calls s (phase_calls (calls s) i p).
  Proof.
    unfold set_phase, phase_calls. destruct (nth_error (calls s) i); [reflexivity|].
    symmetry; apply upd_calls_same.
  Qed.

  Lemma phase_calls_length l i p : length (phase_calls l i p) = length l.
  Proof. unfold phase_calls. destruct (nth_error l i); [apply set_nth_length|reflexivity]. Qed.

  Lemma nth_error_phase_calls l i p j :
    nth_error (phase_calls l i p) j =
    if Nat.eqb i j then option_map (fun c => with_phase c p) (nth_error l j) else nth_error l j.
  Proof.
    unfold phase_calls. destruct (Nat.eqb i j) eqn:E.
    - apply Nat.eqb_eq in E. subst j. destruct (nth_error l i) as [c|] eqn:Ec; cbn [option_map].
      + apply nth_error_set_nth_same. apply nth_error_Some. congruence.
      + exact Ec.
    - apply Nat.eqb_neq in E. destruct (nth_error l i); [apply nth_error_set_nth_other, E|reflexivity].
  Qed.

  Lemma nth_error_phase_calls_inv l i p j c' :
    nth_error (phase_calls l i p) j = Some c' ->
    (j = i /\ exists c, nth_error l i = Some c /\ c' = with_phase c p) \/
    (j <> i /\ nth_error l j = Some c').
  Proof.
    rewrite nth_error_phase_calls. destruct (Nat.eqb i j) eqn:E.
    - apply Nat.eqb_eq in E. subst j. destruct (nth_error l i) as [c|]; cbn; [|discriminate].
      intros [= <-]. left. split; [reflexivity|]. exists c. split; reflexivity.
    - apply Nat.eqb_neq in E. intro H. right. split; [congruence|exact H].
  Qed.

  Lemma phase_calls_same_phase l i c :
    nth_error l i = Some c -> phase_calls l i (c_phase c) = l.
  Proof.
    intro H. apply nth_error_ext'. intro j. rewrite nth_error_phase_calls.
    destruct (Nat.eqb i j) eqn:E; [|reflexivity]. apply Nat.eqb_eq in E. subst j.
    rewrite H. cbn. destruct c; reflexivity.
  Qed.

  (* slots *)
  Definition send_val (x : slot) (o : outcome) : slot :=
    if sl_rx_closed x then {| sl_rx_closed := true; sl_val := sl_val x; sl_tx_gone := true |}
    else {| sl_rx_closed := false; sl_val := Some o; sl_tx_gone := true |}.

  Lemma slot_send_alt s id o : slot_send s id o = set_slot s id (send_val (get_slot s id) o).
  Proof. unfold slot_send, send_val. destruct (sl_rx_closed (get_slot s id)); reflexivity. Qed.

  Lemma get_set_slot s id x id' :
    get_slot (set_slot s id x) id' = if N.eqb id' id then x else get_slot s id'.
  Proof.
    unfold get_slot, set_slot. cbn [slots upd_slots]. rewrite alookup_aset.
    destruct (N.eqb id' id); reflexivity.
  Qed.

  Lemma push_cancel_alt s id :
    push_cancel s id = upd_cancels s (if dropped s then cancels s else cancels s ++ [id]).
  Proof. unfold push_cancel. destruct (dropped s); [symmetry; apply upd_cancels_same|reflexivity]. Qed.

  (* the oneshot values are all that the relation reads from the slots *)
  Definition same_vals s s' : Prop := forall id, sl_val (get_slot s' id) = sl_val (get_slot s id).

  Lemma same_vals_refl s : same_vals s s.
  Proof. intro; reflexivity. Qed.
  Lemma same_vals_trans s1 s2 s3 : same_vals s1 s2 -> same_vals s2 s3 -> same_vals s1 s3.
  Proof. intros H1 H2 id. rewrite H2. apply H1. Qed.
  Lemma same_vals_slots s s' : slots s' = slots s -> same_vals s s'.
  Proof. intros E id. unfold get_slot. rewrite E. reflexivity. Qed.

  Lemma same_vals_set s id x : sl_val x = sl_val (get_slot s id) -> same_vals s (set_slot s id x).
  Proof.
    intros E id'. rewrite get_set_slot. destruct (N.eqb id' id) eqn:E1; [|reflexivity].
    apply N.eqb_eq in E1. subst. exact E.
  Qed.
  Lemma same_vals_tx_drop s id : same_vals s (slot_tx_drop s id).
  Proof. apply same_vals_set. reflexivity. Qed.
  Lemma same_vals_rx_close s id : same_vals s (slot_rx_close s id).
  Proof. apply same_vals_set. reflexivity. Qed.

  Lemma slot_send_val s id o id' v :
    sl_val (get_slot (slot_send s id o) id') = Some v ->
    sl_val (get_slot s id') = Some v \/ (id' = id /\ v = o).
  Proof.
    rewrite slot_send_alt, get_set_slot. destruct (N.eqb id' id) eqn:E; [|left; assumption].
    apply N.eqb_eq in E. subst id'. unfold send_val.
    destruct (sl_rx_closed (get_slot s id)); cbn [sl_val]; [left; assumption|].
    intros [= <-]. right. split; reflexivity.
  Qed.
End Normal.

Ltac norm_state :=
  rewrite ?set_phase_alt, ?slot_send_alt, ?push_cancel_alt;
  unfold slot_tx_drop, slot_rx_close, set_slot;
  cbn [next_id handles calls q_cap permits queue waiters rx_closed cancels inflight timers slots
       max_if tr fused terminal finished dropped now plog
       upd_calls upd_slots upd_cancels upd_if upd_q upd_tr upd_term upd_fin upd_misc].

(* ------------------------------------------------------------------------------------------ *)
(* 5. preservation, generic steps *)
Section Steps.
  Context {T : Type}.
  Notation cstate := (@cstate T).
  Implicit Types (s : cstate) (m : mst).

  Definition agree_except m m' (i : nat) : Prop :=
    forall j, j <> i ->
      mem_nat j (m_abandoned m') = mem_nat j (m_abandoned m) /\
      mem_nat j (m_closing m') = mem_nat j (m_closing m) /\
      done_idx m' j = done_idx m j.

  Lemma agree_except_refl m i : agree_except m m i.
  Proof. intros j _. repeat split. Qed.

  (* call i moves to phase p'; the observer's abandoned / closing / done lists change at i only *)
  Lemma simC_phase_step m m' s s' i c p' :
    simC m s -> nth_error (calls s) i = Some c ->
    calls s' = phase_calls (calls s) i p' -> now s' = now s -> handles s' = handles s ->
    next_id s' = next_id s ->
    m_now m' = m_now m -> m_handles m' = m_handles m -> m_calls m' = m_calls m ->
    m_polled m' = m_polled m -> agree_except m m' i -> disc m' i p' -> simC m' s'.
  Proof.
    intros C Hc Ec En Eh Ei Mn Mh Mc Mp Ag Di.
    assert (Hi : (i < length (m_calls m))%nat).
    { rewrite (sc_len _ _ C). apply nth_error_Some. congruence. }
    constructor; rewrite ?Ec, ?En, ?Eh, ?Ei, ?Mn, ?Mh, ?Mc, ?Mp, ?phase_calls_length; try apply C.
    - intros j k c' Hk Hc'. apply nth_error_phase_calls_inv in Hc'.
      destruct Hc' as [[-> (c0 & H0 & ->)]|[_ Hc']]; [|eapply sc_crec; eassumption].
      pose proof (sc_crec _ _ C _ _ _ Hk H0) as []. constructor; cbn; assumption.
    - intros j c' Hc'. apply nth_error_phase_calls_inv in Hc'.
      destruct Hc' as [[-> (c0 & H0 & ->)]|[Hne Hc']]; [exact Di|].
      pose proof (sc_phase _ _ C _ _ Hc') as []. destruct (Ag j Hne) as (A1 & A2 & A3).
      constructor; rewrite ?Mp, ?A1, ?A2, ?A3; assumption.
    - intros j Hj. destruct (Nat.eq_dec j i) as [->|Hne]; [exact Hi|].
      destruct (Ag j Hne) as (A1 & _). apply mem_nat_In in Hj. rewrite A1 in Hj.
      apply mem_nat_In in Hj. apply (sc_range_a _ _ C), Hj.
    - intros j Hj. destruct (Nat.eq_dec j i) as [->|Hne]; [exact Hi|].
      destruct (Ag j Hne) as (_ & A2 & _). apply mem_nat_In in Hj. rewrite A2 in Hj.
      apply mem_nat_In in Hj. apply (sc_range_c _ _ C), Hj.
    - intros j o Hj. destruct (Nat.eq_dec j i) as [->|Hne]; [exact Hi|].
      destruct (Ag j Hne) as (_ & _ & A3).
      assert (H : done_idx m' j = true) by (apply done_idx_In; exists o; exact Hj).
      rewrite A3 in H. apply done_idx_In in H. destruct H as [o' H].
      apply (sc_range_d _ _ C _ _ H).
    - intros j c' Hc' Hp. rewrite (id_of_eq m m' j Mp). apply nth_error_phase_calls_inv in Hc'.
      destruct Hc' as [[-> (c0 & H0 & ->)]|[Hne Hc']]; [|apply (sc_id _ _ C _ _ Hc' Hp)].
      cbn [c_id with_phase]. apply (sc_id _ _ C _ _ H0 Hp).
  Qed.

  (* ... with the observer unchanged: only between phases with the same discipline *)
  Lemma simC_phase_same m s s' i c p' :
    simC m s -> nth_error (calls s) i = Some c ->
    calls s' = phase_calls (calls s) i p' -> now s' = now s -> handles s' = handles s ->
    next_id s' = next_id s ->
    ph_polled p' = ph_polled (c_phase c) -> ph_aband p' = ph_aband (c_phase c) ->
    ph_closing p' = ph_closing (c_phase c) -> ph_done p' = ph_done (c_phase c) -> simC m s'.
  Proof.
    intros C Hc Ec En Eh Ei P1 P2 P3 P4.
    eapply simC_phase_step; try eassumption; try reflexivity; [apply agree_except_refl|].
    pose proof (sc_phase _ _ C _ _ Hc) as []. constructor; rewrite ?P1, ?P2, ?P3, ?P4; assumption.
  Qed.

  Lemma simC_phase_none m s s' i p' :
    simC m s -> nth_error (calls s) i = None ->
    calls s' = phase_calls (calls s) i p' -> now s' = now s -> handles s' = handles s ->
    next_id s' = next_id s -> simC m s'.
  Proof.
    intros C Hc Ec En Eh Ei. eapply simC_frame; try eassumption.
    rewrite Ec. unfold phase_calls. rewrite Hc. reflexivity.
  Qed.

  Lemma simD_phase_step m s s' i p' :
    simD m s -> calls s' = phase_calls (calls s) i p' ->
    (forall c, nth_error (calls s) i = Some c -> staged p' = true -> staged (c_phase c) = true) ->
    queue s' = queue s -> inflight s' = inflight s -> timers s' = timers s -> same_vals s s' ->
    simD m s'.
  Proof.
    intros D Ec Hst Eq Ef Et Ev. constructor; rewrite ?Eq, ?Ef, ?Et; try apply D.
    - rewrite Ec. intros j c' Hc' Hs. apply nth_error_phase_calls_inv in Hc'.
      destruct Hc' as [[-> (c0 & H0 & ->)]|[Hne Hc']]; [|apply (sd_staged _ _ D _ _ Hc' Hs)].
      cbn [c_phase c_id with_phase] in *. apply (sd_staged _ _ D _ _ H0). apply Hst; assumption.
    - intros id o. rewrite Ev. apply D.
  Qed.

  Lemma simD_slots_gen m s s' :
    simD m s -> calls s' = calls s -> queue s' = queue s -> inflight s' = inflight s ->
    timers s' = timers s ->
    (forall id v, sl_val (get_slot s' id) = Some v -> sl_val (get_slot s id) = Some v \/ just m id v) ->
    simD m s'.
  Proof.
    intros D Ec Eq Ef Et Ev. constructor; rewrite ?Ec, ?Eq, ?Ef, ?Et; try apply D.
    intros id o Hv. destruct (Ev id o Hv) as [H|H]; [apply D, H|exact H].
  Qed.

  Lemma simD_vals m s s' :
    simD m s -> calls s' = calls s -> queue s' = queue s -> inflight s' = inflight s ->
    timers s' = timers s -> same_vals s s' -> simD m s'.
  Proof.
    intros D Ec Eq Ef Et Ev. eapply simD_slots_gen; try eassumption.
    intros id v Hv. left. rewrite <- Ev. exact Hv.
  Qed.

  (* a oneshot receives a justified value *)
  Lemma simD_slot_send m s id o : simD m s -> just m id o -> simD m (slot_send s id o).
  Proof.
    intros D J. eapply simD_slots_gen; [exact D|rewrite slot_send_alt; reflexivity..|].
    intros id' v Hv. apply slot_send_val in Hv. destruct Hv as [Hv|[-> ->]]; [left; exact Hv|right; exact J].
  Qed.

  Lemma winv_phase_other s s' i p' :
    winv s -> calls s' = phase_calls (calls s) i p' -> waiters s' = waiters s ->
    ~ In i (waiters s) -> winv s'.
  Proof.
    intros [A N] Ec Ew Hni. constructor; rewrite Ew; [|exact N].
    intros w Hw. destruct (A w Hw) as (c & Hc & Hp). exists c. split; [|exact Hp].
    rewrite Ec, nth_error_phase_calls. destruct (Nat.eqb i w) eqn:E; [|exact Hc].
    apply Nat.eqb_eq in E. subst. contradiction.
  Qed.

  Lemma winv_not_acq s i c : winv s -> nth_error (calls s) i = Some c -> c_phase c <> PAcquiring ->
    ~ In i (waiters s).
  Proof. intros [A _] Hc Hp Hin. destruct (A i Hin) as (c' & Hc' & Hp'). congruence. Qed.
End Steps.

Lemma NoDup_app_single {A} (l : list A) (x : A) : NoDup l -> ~ In x l -> NoDup (l ++ [x]).
Proof.
  intros H Hn. induction l as [|y r IH]; cbn; [constructor; [tauto|constructor]|].
  inversion H as [|? ? Hy Hr]; subst. constructor.
  - intro Hin. apply in_app_or in Hin. destruct Hin as [Hin|[<-|[]]]; [tauto|apply Hn; left; reflexivity].
  - apply IH; [exact Hr|]. intro; apply Hn; right; assumption.
Qed.

Section Blocks.
  Context {T : Type}.
  Notation cstate := (@cstate T).
  Implicit Types (s : cstate) (m : mst).

  (* same model state as far as the relation reads it, except for `calls`, `waiters`, `queue` *)
  Record sbc s s' : Prop := {
    sbc_now : now s' = now s; sbc_handles : handles s' = handles s;
    sbc_next : next_id s' = next_id s;
    sbc_inflight : inflight s' = inflight s; sbc_timers : timers s' = timers s;
    sbc_vals : same_vals s s' }.

  Lemma sbc_refl s : sbc s s.
  Proof. constructor; try reflexivity. apply same_vals_refl. Qed.
  Lemma sbc_trans s1 s2 s3 : sbc s1 s2 -> sbc s2 s3 -> sbc s1 s3.
  Proof.
    intros [] []. constructor; try congruence; try (eapply same_vals_trans; eassumption).
  Qed.
  Lemma sbc_set_phase s x i p : sbc s x -> sbc s (set_phase x i p).
  Proof. intros []. rewrite set_phase_alt. constructor; try assumption. Qed.
  Lemma sbc_upd_calls s x v : sbc s x -> sbc s (upd_calls x v).
  Proof. intros []. constructor; assumption. Qed.
  Lemma sbc_upd_cancels s x v : sbc s x -> sbc s (upd_cancels x v).
  Proof. intros []. constructor; assumption. Qed.
  Lemma sbc_push_cancel s x id : sbc s x -> sbc s (push_cancel x id).
  Proof. intros H. rewrite push_cancel_alt. apply sbc_upd_cancels, H. Qed.
  Lemma sbc_upd_q s x p q w c : sbc s x -> sbc s (upd_q x p q w c).
  Proof. intros []. constructor; assumption. Qed.
  Lemma sbc_upd_tr s x t f l : sbc s x -> sbc s (upd_tr x t f l).
  Proof. intros []. constructor; assumption. Qed.
  Lemma sbc_upd_fin s x f d : sbc s x -> sbc s (upd_fin x f d).
  Proof. intros []. constructor; assumption. Qed.
  Lemma sbc_upd_term s x t : sbc s x -> sbc s (upd_term x t).
  Proof. intros []. constructor; assumption. Qed.
  Lemma sbc_tx_drop s x id : sbc s x -> sbc s (slot_tx_drop x id).
  Proof.
    intros []. constructor; try assumption.
    eapply same_vals_trans; [eassumption|apply same_vals_tx_drop].
  Qed.
  Lemma sbc_rx_close s x id : sbc s x -> sbc s (slot_rx_close x id).
  Proof.
    intros []. constructor; try assumption.
    eapply same_vals_trans; [eassumption|apply same_vals_rx_close].
  Qed.

  (* G1 *)
  Lemma sim_sbc m s s' :
    sim m s -> sbc s s' -> calls s' = calls s -> waiters s' = waiters s -> queue s' = queue s ->
    sim m s'.
  Proof.
    intros [C W D] [] Ec Ew Eq. constructor.
    - eapply simC_frame; eassumption.
    - eapply winv_frame; eassumption.
    - eapply simD_vals; eassumption.
  Qed.

  Definition active (p : phase) : bool :=
    match p with PAcquiring | PAssigned | PAcqClosed | PAwaiting => true | _ => false end.

  (* G2: an active call moves to another active phase; nothing observable *)
  Lemma sim_active_step m s s' i c p' :
    sim m s -> nth_error (calls s) i = Some c -> active (c_phase c) = true -> active p' = true ->
    (staged p' = true -> staged (c_phase c) = true) ->
    calls s' = phase_calls (calls s) i p' -> sbc s s' -> queue s' = queue s ->
    (forall w, In w (waiters s') -> In w (waiters s) /\ (w = i -> p' = PAcquiring)) ->
    NoDup (waiters s') -> sim m s'.
  Proof.
    intros [C W D] Hc Ha Ha' Hst Ec [] Eq Hw Hnd. constructor.
    - eapply simC_phase_same; try eassumption;
        destruct (c_phase c); try discriminate; destruct p'; try discriminate; reflexivity.
    - constructor; [|exact Hnd]. intros w Hin. destruct (Hw w Hin) as [Hin0 Hp].
      destruct (w_acq _ W w Hin0) as (c0 & Hc0 & Hp0). rewrite Ec, nth_error_phase_calls.
      destruct (Nat.eqb i w) eqn:E.
      + apply Nat.eqb_eq in E. subst w. rewrite Hc0. cbn. eexists. split; [reflexivity|].
        cbn. apply Hp. reflexivity.
      + exists c0. split; assumption.
    - eapply simD_phase_step; try eassumption. intros c0 Hc0. rewrite Hc in Hc0.
      injection Hc0 as <-. exact Hst.
  Qed.

  (* the observer fields that do not record call life-cycle events *)
  Record mcore m m' : Prop := {
    mc_now : m_now m' = m_now m; mc_handles : m_handles m' = m_handles m;
    mc_calls : m_calls m' = m_calls m; mc_sent : m_sent m' = m_sent m;
    mc_read : m_read m' = m_read m; mc_seq : m_seq m' = m_seq m }.

  Lemma simD_mcore m m' s :
    simD m s -> mcore m m' -> m_polled m' = m_polled m -> N.of_nat (length (m_polled m)) < two64 ->
    simD m' s.
  Proof.
    intros D [] Ep Hw. eapply simD_mono; try eassumption; try lia.
    - apply mgrow_refl_eq; assumption.
    - rewrite Ep. exact Hw.
  Qed.

  (* an observable life-cycle step of call i (drop, guard close / cancel, completion) *)
  Lemma sim_phase_obs m m' s s' i c p' :
    sim m s -> nth_error (calls s) i = Some c -> staged p' = false ->
    calls s' = phase_calls (calls s) i p' -> sbc s s' -> queue s' = queue s ->
    (forall w, In w (waiters s') -> In w (waiters s) /\ w <> i) -> NoDup (waiters s') ->
    mcore m m' -> m_polled m' = m_polled m -> agree_except m m' i -> disc m' i p' -> sim m' s'.
  Proof.
    intros [C W D] Hc Hst Ec B Eq Hw Hnd M Ep Ag Di. constructor.
    - destruct B, M. eapply simC_phase_step; eassumption.
    - constructor; [|exact Hnd]. intros w Hin. destruct (Hw w Hin) as [Hin0 Hne].
      destruct (w_acq _ W w Hin0) as (c0 & Hc0 & Hp0). exists c0. split; [|exact Hp0].
      rewrite Ec, nth_error_phase_calls. destruct (Nat.eqb i w) eqn:E; [|exact Hc0].
      apply Nat.eqb_eq in E. congruence.
    - destruct B. eapply simD_phase_step; try eassumption.
      + eapply simD_mcore; try eassumption. apply C.
      + intros c0 _ H. congruence.
  Qed.

  (* G4: an assigned permit is used: the request is queued *)
  Lemma sim_enqueue m s s' i c :
    sim m s -> nth_error (calls s) i = Some c -> c_phase c = PAssigned ->
    calls s' = phase_calls (calls s) i PAwaiting -> sbc s s' -> waiters s' = waiters s ->
    queue s' = queue s ++ [{| q_id := c_id c; q_deadline := c_deadline c;
                             q_tc := {| tc_tid := tc_tid (c_tc c); tc_sid := c_id c;
                                        tc_sampled := tc_sampled (c_tc c) |};
                             q_body := c_body c |}] ->
    sim m s'.
  Proof.
    intros [C W D] Hc Hp Ec B Ew Eq.
    assert (Hpol : In i (m_polled m)).
    { apply mem_nat_In. apply (d_polled _ _ _ (sc_phase _ _ C _ _ Hc)). rewrite Hp. reflexivity. }
    destruct (sd_staged _ _ D _ _ Hc) as [Hq Hs]; [rewrite Hp; reflexivity|].
    constructor.
    - destruct B. eapply simC_phase_same; try eassumption; rewrite Hp; reflexivity.
    - eapply winv_phase_other; try eassumption. eapply winv_not_acq; try eassumption. congruence.
    - destruct B. constructor; rewrite ?Eq, ?sbc_inflight0, ?sbc_timers0; try apply D.
      + intros q Hin. apply in_app_or in Hin. destruct Hin as [Hin|[<-|[]]]; [apply D, Hin|].
        cbn [q_id q_deadline q_tc q_body].
        destruct (simC_crec_ex _ _ _ _ C Hc) as (k & Hk & []).
        exists i, k. cbn. repeat split; try assumption. eapply sim_owner; eassumption.
      + rewrite map_app. cbn [map q_id]. apply NoDup_app_single; [apply D|].
        intro Hin. apply in_map_iff in Hin. destruct Hin as (q & He & Hin). apply (Hq q Hin He).
      + intros q sr Hin Hsr. apply in_app_or in Hin.
        destruct Hin as [Hin|[<-|[]]]; [eapply sd_queue_unsent; eassumption|]. cbn. apply Hs, Hsr.
      + rewrite Ec. intros j cj Hcj Hst. apply nth_error_phase_calls_inv in Hcj.
        destruct Hcj as [[-> (c0 & H0 & ->)]|[Hne Hcj]]; [discriminate|].
        destruct (sd_staged _ _ D _ _ Hcj Hst) as [Hq' Hs']. split; [|exact Hs'].
        intros q Hin. apply in_app_or in Hin. destruct Hin as [Hin|[<-|[]]]; [apply Hq', Hin|].
        cbn. intro He. apply Hne. symmetry.
        eapply (sim_ids_unique _ _ i j c cj C); try eassumption.
        apply mem_nat_In. apply (d_polled _ _ _ (sc_phase _ _ C _ _ Hcj)).
        destruct (c_phase cj); try discriminate; reflexivity.
      + intros id o. rewrite sbc_vals0. apply D.
  Qed.

  Definition with_id_phase (c : call) (id : N) (p : phase) : call :=
    {| c_handle := c_handle c; c_phase := p; c_id := id; c_rel := c_rel c;
       c_deadline := c_deadline c; c_tc := c_tc c; c_body := c_body c |}.

  (* G5: the first poll of call i: the observer appends i to m_polled, the model hands out
     next_id; p' is the (active) phase the call is left in *)
  Lemma sim_first_poll m m' s s' i c p' :
    sim m s -> nth_error (calls s) i = Some c -> c_phase c = PNew -> active p' = true ->
    N.of_nat (S (length (m_polled m))) < two64 ->
    calls s' = set_nth i (with_id_phase c (next_id s) p') (calls s) ->
    next_id s' = N.modulo (next_id s + 1) 18446744073709551616 ->
    now s' = now s -> handles s' = handles s -> queue s' = queue s -> inflight s' = inflight s ->
    timers s' = timers s -> waiters s' = waiters s ->
    (forall id v, sl_val (get_slot s' id) = Some v -> sl_val (get_slot s id) = Some v) ->
    mcore m m' -> m_polled m' = m_polled m ++ [i] -> m_abandoned m' = m_abandoned m ->
    m_closing m' = m_closing m -> m_done m' = m_done m -> sim m' s'.
  Proof.
    intros [C W D] Hc Hp Ha Hw Ec En Eno Eh Eq Ef Et Ew Ev [] Mp Ma Mcl Md.
    pose proof (sc_phase _ _ C _ _ Hc) as Di. rewrite Hp in Di. destruct Di as [Dp Dab Dcl Ddn].
    specialize (Dp false eq_refl). cbn in Dab, Dcl, Ddn.
    assert (Hi : (i < length (calls s))%nat) by (apply nth_error_Some; congruence).
    assert (Hnp : ~ In i (m_polled m)) by (apply mem_nat_false; exact Dp).
    assert (Hw0 : N.of_nat (length (m_polled m)) < two64) by apply C.
    assert (Hw' : N.of_nat (length (m_polled m')) < two64).
    { rewrite Mp, app_length. cbn [length]. rewrite Nat.add_1_r. exact Hw. }
    assert (G : mgrow m m').
    { split; [exists [i]; exact Mp|exists []; rewrite app_nil_r; exact mc_calls0]. }
    assert (Hmem : forall j, j <> i -> mem_nat j (m_polled m') = mem_nat j (m_polled m)).
    { intros j Hne. rewrite Mp, mem_nat_app, mem_nat_single.
      destruct (Nat.eqb j i) eqn:E; [apply Nat.eqb_eq in E; contradiction|apply orb_false_r]. }
    constructor.
    - constructor; rewrite ?Ec, ?En, ?Eno, ?Eh, ?mc_now0, ?mc_handles0, ?mc_calls0, ?Ma, ?Mcl, ?Md,
        ?set_nth_length; try apply C.
      + intros j k c' Hk Hc'. destruct (Nat.eq_dec i j) as [<-|Hne].
        * rewrite nth_error_set_nth_same in Hc' by exact Hi. injection Hc' as <-.
          pose proof (sc_crec _ _ C _ _ _ Hk Hc) as []. constructor; cbn; assumption.
        * rewrite nth_error_set_nth_other in Hc' by exact Hne. eapply sc_crec; eassumption.
      + intros j c' Hc'. destruct (Nat.eq_dec i j) as [<-|Hne].
        * rewrite nth_error_set_nth_same in Hc' by exact Hi. injection Hc' as <-. cbn [c_phase with_id_phase].
          constructor; unfold done_idx; rewrite ?Ma, ?Mcl, ?Md.
          -- intros b Hb. rewrite Mp, mem_nat_app, mem_nat_single, Nat.eqb_refl, orb_true_r.
             destruct p'; try discriminate; cbn in Hb; congruence.
          -- rewrite Dab. destruct p'; try discriminate; reflexivity.
          -- rewrite Dcl. destruct p'; try discriminate; reflexivity.
          -- unfold done_idx in Ddn. rewrite Ddn. destruct p'; try discriminate; reflexivity.
        * rewrite nth_error_set_nth_other in Hc' by exact Hne.
          pose proof (sc_phase _ _ C _ _ Hc') as [].
          constructor; unfold done_idx; rewrite ?Ma, ?Mcl, ?Md; try assumption.
          rewrite Hmem by congruence. assumption.
      + intros j Hj. rewrite Mp in Hj. apply in_app_or in Hj.
        destruct Hj as [Hj|[<-|[]]]; [apply C, Hj|]. rewrite (sc_len _ _ C). exact Hi.
      + rewrite Mp. apply NoDup_app_single; [apply C|exact Hnp].
      + exact Hw'.
      + rewrite (sc_next _ _ C), Mp, app_length. cbn [length].
        rewrite N.mod_small by (unfold two64 in Hw; lia). lia.
      + intros j c' Hc' Hj. destruct (Nat.eq_dec i j) as [<-|Hne].
        * rewrite nth_error_set_nth_same in Hc' by exact Hi. injection Hc' as <-. cbn [c_id with_id_phase].
          apply id_of_some; [exact Hw'|]. rewrite Mp, index_of_app, (index_of_notin _ _ _ Hnp).
          cbn [index_of]. rewrite Nat.eqb_refl, (sc_next _ _ C). f_equal.
        * rewrite nth_error_set_nth_other in Hc' by exact Hne.
          rewrite Mp in Hj. apply in_app_or in Hj. destruct Hj as [Hj|[Hj|[]]]; [|congruence].
          eapply id_of_grow; [exact G|exact Hw'|]. apply (sc_id _ _ C _ _ Hc' Hj).
    - constructor; rewrite Ew; [|apply W]. intros w Hin.
      destruct (w_acq _ W w Hin) as (c0 & Hc0 & Hp0). exists c0. split; [|exact Hp0].
      rewrite Ec, nth_error_set_nth_other; [exact Hc0|]. intros <-. congruence.
    - assert (D' : simD m' s).
      { eapply simD_mono; try eassumption; lia. }
      constructor; rewrite ?Eq, ?Ef, ?Et; try apply D'.
      + rewrite Ec. intros j cj Hcj Hst. destruct (Nat.eq_dec i j) as [<-|Hne].
        * rewrite nth_error_set_nth_same in Hcj by exact Hi. injection Hcj as <-. cbn [c_id with_id_phase].
          rewrite mc_sent0. rewrite (sc_next _ _ C). split.
          -- intros q Hin He. pose proof (req_of_bound _ _ _ _ _ Hw0 (sd_queue _ _ D _ Hin)). lia.
          -- intros sr Hin He. pose proof (req_of_bound _ _ _ _ _ Hw0 (sd_sent _ _ D _ Hin)). lia.
        * rewrite nth_error_set_nth_other in Hcj by exact Hne. apply (sd_staged _ _ D' _ _ Hcj Hst).
      + intros id o Hv. apply D'. apply Ev, Hv.
  Qed.
End Blocks.

(* ------------------------------------------------------------------------------------------ *)
(* 6. preservation by the ops other than PollDispatch *)
Lemma set_nth_b_eq n x l : set_nth_b n x l = set_nth n x l.
Proof. revert n; induction l as [|y r IH]; intros [|n]; cbn; try reflexivity. f_equal; apply IH. Qed.

Lemma upd_m_same m :
  upd_m m (m_now m) (m_calls m) (m_done m) (m_abandoned m) (m_closing m) (m_polled m) (m_disp m)
        (m_disp_dropped m) (m_handles m) (m_contract m) = m.
Proof. destruct m; reflexivity. Qed.

Section Ops.
  Context {T : Type}.
  Notation cstate := (@cstate T).
  Notation op := (@op T).
  Implicit Types (s : cstate) (m : mst) (tp : transport T cmsg resp) (fuel_of : @Client.cstate T -> nat).

  Lemma mcore_refl m : mcore m m.
  Proof. constructor; reflexivity. Qed.

  (* the environment moves: clock, handles *)
  Lemma sim_env m m' s s' :
    sim m s -> calls s' = calls s -> next_id s' = next_id s -> waiters s' = waiters s ->
    queue s' = queue s -> inflight s' = inflight s -> timers s' = timers s -> slots s' = slots s ->
    m_calls m' = m_calls m -> m_sent m' = m_sent m -> m_read m' = m_read m -> m_seq m' = m_seq m ->
    m_polled m' = m_polled m -> m_abandoned m' = m_abandoned m -> m_closing m' = m_closing m ->
    m_done m' = m_done m -> m_now m' = now s' -> m_handles m' = handles s' -> m_now m <= m_now m' ->
    sim m' s'.
  Proof.
    intros [C W D] Ec Ei Ew Eq Ef Et Es Mc Ms Mr Mq Mp Ma Mcl Md Mn Mh Hle. constructor.
    - constructor; rewrite ?Ec, ?Ei, ?Mc, ?Mp, ?Ma, ?Mcl, ?Md; try apply C; try assumption.
      + intros i k Hk. pose proof (sc_created _ _ C i k Hk). lia.
      + intros i c Hc. eapply disc_meq; [apply (sc_phase _ _ C), Hc|assumption..].
      + intros i c Hc Hp. rewrite (id_of_eq m m' i Mp). apply (sc_id _ _ C); assumption.
    - eapply winv_frame; eassumption.
    - eapply simD_frame; try eassumption. eapply simD_mono; try eassumption; try lia.
      + apply mgrow_refl_eq; assumption.
      + rewrite Mp. apply C.
  Qed.

  Lemma sim_meq m m' s :
    sim m s -> mcore m m' -> m_polled m' = m_polled m -> m_abandoned m' = m_abandoned m ->
    m_closing m' = m_closing m -> m_done m' = m_done m -> sim m' s.
  Proof.
    intros S M Mp Ma Mcl Md.
    eapply sim_env; try eassumption; try reflexivity; try apply M.
    - rewrite (mc_now _ _ M). apply S.
    - rewrite (mc_handles _ _ M). apply S.
    - rewrite (mc_now _ _ M). lia.
  Qed.

  Lemma sim_clone_handle tp fuel_of m s h :
    sim m s -> sim (rec_op (T:=T) m (CloneHandle h)) (fst (step tp fuel_of s (CloneHandle h))).
  Proof.
    intro S. cbn [rec_op step fst]. rewrite (sc_handles _ _ (sim_c _ _ S)).
    destruct (nth_error (handles s) h) as [[|]|]; try exact S.
    eapply sim_env; try exact S; try reflexivity; cbn; try apply S; try lia.
  Qed.

  Lemma sim_drop_handle tp fuel_of m s h :
    sim m s -> sim (rec_op (T:=T) m (DropHandle h)) (fst (step tp fuel_of s (DropHandle h))).
  Proof.
    intro S. cbn [rec_op step fst]. rewrite (sc_handles _ _ (sim_c _ _ S)).
    destruct (nth_error (handles s) h) as [[|]|]; try exact S.
    eapply sim_env; try exact S; try reflexivity; cbn; try apply S; try lia.
    apply set_nth_b_eq.
  Qed.

  Lemma sim_advance tp fuel_of m s dt :
    sim m s -> sim (rec_op (T:=T) m (Advance dt)) (fst (step tp fuel_of s (Advance dt))).
  Proof.
    intro S. cbn [rec_op step fst].
    eapply sim_env; try exact S; try reflexivity; cbn; try apply S; try lia.
    f_equal. apply S.
  Qed.

  Lemma sim_tr tp fuel_of m s f : sim m s -> sim (rec_op (T:=T) m (Tr f)) (fst (step tp fuel_of s (Tr f))).
  Proof. intro S. cbn [rec_op step fst]. eapply sim_frame; try exact S; reflexivity. Qed.

  Lemma sim_call tp fuel_of m s h d tid smp body :
    sim m s -> sim (rec_op (T:=T) m (Call h d tid smp body)) (fst (step tp fuel_of s (Call h d tid smp body))).
  Proof.
    intros [C W D]. cbn [rec_op step fst]. rewrite (sc_handles _ _ C).
    set (alive := match nth_error (handles s) h with Some true => true | _ => false end).
    set (ph := match nth_error (handles s) h with Some true => PNew | _ => PGone end).
    assert (Hph : ph = if alive then PNew else PGone).
    { unfold ph, alive. destruct (nth_error (handles s) h) as [[|]|]; reflexivity. }
    clearbody alive ph. subst ph.
    set (k := {| k_body := body; k_tid := tid; k_sampled := smp; k_created := m_now m; k_rel := d |}).
    set (c := {| c_handle := h; c_phase := if alive then PNew else PGone; c_id := 0; c_rel := d;
                 c_deadline := now s + d; c_tc := {| tc_tid := tid; tc_sid := 0; tc_sampled := smp |};
                 c_body := body |}).
    set (ab := if alive then m_abandoned m else m_abandoned m ++ [length (m_calls m)]).
    assert (Hlen := sc_len _ _ C).
    assert (Hab : forall j, (j < length (m_calls m))%nat -> mem_nat j ab = mem_nat j (m_abandoned m)).
    { intros j Hj. unfold ab. destruct alive; [reflexivity|].
      rewrite mem_nat_app, mem_nat_single. replace (Nat.eqb j (length (m_calls m))) with false by lia.
      apply orb_false_r. }
    assert (Hnew : forall l, (forall j, In j l -> (j < length (m_calls m))%nat) ->
                             mem_nat (length (m_calls m)) l = false).
    { intros l Hl. apply mem_nat_false. intro Hin. specialize (Hl _ Hin). lia. }
    constructor.
    - constructor; cbn [m_now m_handles m_calls m_polled m_abandoned m_closing m_done upd_m
                        now handles calls next_id upd_calls]; try apply C; try reflexivity.
      + rewrite !app_length. cbn [length]. lia.
      + intros i k0 c0 Hk Hc. apply nth_error_app_inv in Hk. apply nth_error_app_inv in Hc.
        destruct Hk as [[Hk Hi]|[-> ->]]; destruct Hc as [[Hc Hi']|[Hi' ->]]; try lia.
        * eapply sc_crec; eassumption.
        * subst k c. constructor; cbn; try reflexivity. rewrite (sc_now _ _ C). reflexivity.
      + intros i k0 Hk. apply nth_error_app_inv in Hk.
        destruct Hk as [[Hk Hi]|[-> ->]]; [eapply sc_created; eassumption|]. subst k; cbn. lia.
      + intros i c0 Hc. apply nth_error_app_inv in Hc. destruct Hc as [[Hc Hi]|[-> ->]].
        * pose proof (sc_phase _ _ C _ _ Hc) as []. constructor; try assumption.
          cbn [m_abandoned upd_m]. fold ab. rewrite Hab by lia. assumption.
        * rewrite <- Hlen. subst c. cbn [c_phase]. constructor; cbn [m_polled m_abandoned m_closing upd_m].
          -- intros b Hb. rewrite (Hnew _ (sc_range_p _ _ C)). destruct alive; cbn in Hb; congruence.
          -- fold ab. unfold ab. destruct alive; cbn [ph_aband].
             ++ apply (Hnew _ (sc_range_a _ _ C)).
             ++ rewrite mem_nat_app, mem_nat_single, Nat.eqb_refl. apply orb_true_r.
          -- rewrite (Hnew _ (sc_range_c _ _ C)). destruct alive; reflexivity.
          -- unfold done_idx. cbn [m_done upd_m].
             assert (Hd : done_idx m (length (m_calls m)) = false).
             { destruct (done_idx m (length (m_calls m))) eqn:E; [|reflexivity].
               apply done_idx_In in E. destruct E as [o E]. apply (sc_range_d _ _ C) in E. lia. }
             unfold done_idx in Hd. rewrite Hd. destruct alive; reflexivity.
      + intros i Hi. rewrite app_length. apply (sc_range_p _ _ C) in Hi. lia.
      + intros i Hi. fold ab in Hi. rewrite app_length. cbn [length]. unfold ab in Hi. destruct alive.
        * apply (sc_range_a _ _ C) in Hi. lia.
        * apply in_app_or in Hi. destruct Hi as [Hi|[<-|[]]]; [apply (sc_range_a _ _ C) in Hi|]; lia.
      + intros i Hi. rewrite app_length. apply (sc_range_c _ _ C) in Hi. lia.
      + intros i o Hi. rewrite app_length. apply (sc_range_d _ _ C) in Hi. lia.
      + intros i c0 Hc Hp. apply nth_error_app_inv in Hc. destruct Hc as [[Hc Hi]|[-> ->]].
        * apply (sc_id _ _ C _ _ Hc Hp).
        * apply (sc_range_p _ _ C) in Hp. lia.
    - constructor; cbn [waiters calls upd_calls]; [|apply W]. intros w Hin.
      destruct (w_acq _ W w Hin) as (c0 & Hc0 & Hp0). exists c0. split; [|exact Hp0].
      rewrite nth_error_app1; [exact Hc0|]. apply nth_error_Some. congruence.
    - assert (D' : simD (rec_op (T:=T) m (Call h d tid smp body)) s).
      { eapply simD_mono; try exact D; cbn; try reflexivity; try lia.
        - split; [exists []; rewrite app_nil_r; reflexivity|eexists; reflexivity].
        - apply C. }
      cbn [rec_op] in D'. rewrite (sc_handles _ _ C) in D'.
      constructor; cbn [calls queue inflight timers upd_calls]; try apply D'.
      + intros i c0 Hc Hst. apply nth_error_app_inv in Hc. destruct Hc as [[Hc Hi]|[-> ->]].
        * apply (sd_staged _ _ D' _ _ Hc Hst).
        * subst c. cbn in Hst. destruct alive; discriminate.
  Qed.

  (* ---- helpers on the observer's lists *)
  Lemma mem_nat_snoc_other j i l : j <> i -> mem_nat j (l ++ [i]) = mem_nat j l.
  Proof.
    intro H. rewrite mem_nat_app, mem_nat_single.
    destruct (Nat.eqb j i) eqn:E; [apply Nat.eqb_eq in E; contradiction|apply orb_false_r].
  Qed.
  Lemma mem_nat_snoc_same i l : mem_nat i (l ++ [i]) = true.
  Proof. rewrite mem_nat_app, mem_nat_single, Nat.eqb_refl. apply orb_true_r. Qed.

  Lemma done_idx_snoc m m' i o j :
    m_done m' = m_done m ++ [(i, o)] -> done_idx m' j = done_idx m j || Nat.eqb i j.
  Proof. intro E. unfold done_idx. rewrite E, existsb_app. cbn. rewrite orb_false_r. reflexivity. Qed.

  Lemma agree_lists m m' i :
    (forall j, j <> i -> mem_nat j (m_abandoned m') = mem_nat j (m_abandoned m)) ->
    (forall j, j <> i -> mem_nat j (m_closing m') = mem_nat j (m_closing m)) ->
    (forall j, j <> i -> done_idx m' j = done_idx m j) -> agree_except m m' i.
  Proof. intros H1 H2 H3 j Hj. auto. Qed.

  (* ---- a released permit goes to the first waiter *)
  Lemma sim_release_permit m s : sim m s -> sim m (release_permit s).
  Proof.
    intro S. unfold release_permit. destruct (waiters s) as [|w r] eqn:Ew.
    - eapply sim_sbc; [exact S|apply sbc_upd_q, sbc_refl|reflexivity|cbn; symmetry; exact Ew|reflexivity].
    - destruct (w_acq _ (sim_w _ _ S) w) as (c & Hc & Hp); [rewrite Ew; left; reflexivity|].
      pose proof (w_nodup _ (sim_w _ _ S)) as Hnd. rewrite Ew in Hnd. inversion Hnd as [|? ? Hn Hr]; subst.
      eapply (sim_active_step m s _ w c PAssigned); try exact S; try exact Hc.
      + rewrite Hp; reflexivity.
      + reflexivity.
      + rewrite Hp; reflexivity.
      + rewrite set_phase_alt. reflexivity.
      + apply sbc_set_phase, sbc_upd_q, sbc_refl.
      + rewrite set_phase_alt. reflexivity.
      + rewrite set_phase_alt. cbn [waiters upd_calls upd_q]. intros w' Hin. split.
        * rewrite Ew. right; exact Hin.
        * intros ->. contradiction.
      + rewrite set_phase_alt. exact Hr.
  Qed.

  Lemma release_permit_nth s i c :
    winv s -> nth_error (calls s) i = Some c -> c_phase c <> PAcquiring ->
    nth_error (calls (release_permit s)) i = Some c.
  Proof.
    intros W Hc Hp. unfold release_permit. destruct (waiters s) as [|w r] eqn:Ew; [exact Hc|].
    rewrite set_phase_alt. cbn [calls upd_calls upd_q]. rewrite nth_error_phase_calls.
    destruct (Nat.eqb w i) eqn:E; [|exact Hc]. apply Nat.eqb_eq in E. subst w.
    exfalso. eapply winv_not_acq; try eassumption. rewrite Ew. left; reflexivity.
  Qed.

  (* ---- first half of a guard drop *)
  Definition closed_phase (p : phase) : phase := match p with PNew => PGone | _ => PClosing end.

  Lemma remove_waiter_In i w l : In w (remove_waiter i l) -> In w l /\ w <> i.
  Proof.
    unfold remove_waiter. rewrite filter_In. intros [H1 H2]. split; [exact H1|].
    intros ->. rewrite Nat.eqb_refl in H2. discriminate.
  Qed.

  Lemma sim_guard_close_gen m m' s i c :
    sim m s -> nth_error (calls s) i = Some c -> (c_phase c = PNew \/ active (c_phase c) = true) ->
    mcore m m' -> m_polled m' = m_polled m -> agree_except m m' i ->
    disc m' i (closed_phase (c_phase c)) ->
    sim m' (guard_close s i) /\
    nth_error (calls (guard_close s i)) i = Some (with_phase c (closed_phase (c_phase c))).
  Proof.
    intros S Hc Hph M Mp Ag Di. unfold guard_close. rewrite Hc.
    assert (Hnth : forall l p, l = calls s -> nth_error (phase_calls l i p) i = Some (with_phase c p)).
    { intros l p ->. rewrite nth_error_phase_calls, Nat.eqb_refl, Hc. reflexivity. }
    destruct (c_phase c) eqn:Hp; cbn [closed_phase] in *;
      try (destruct Hph as [Hph|Hph]; discriminate).
    - (* PNew *)
      split; [|rewrite set_phase_alt; apply Hnth; reflexivity].
      eapply (sim_phase_obs m m' s _ i c PGone); try eassumption; try reflexivity.
      + rewrite set_phase_alt. reflexivity.
      + apply sbc_set_phase, sbc_refl.
      + rewrite set_phase_alt. reflexivity.
      + rewrite set_phase_alt. cbn [waiters upd_calls]. intros w Hin. split; [exact Hin|].
        intros ->. eapply winv_not_acq; try eassumption; [apply S|congruence].
      + rewrite set_phase_alt. apply S.
    - (* PAcquiring *)
      split; [|rewrite set_phase_alt; apply Hnth; reflexivity].
      eapply (sim_phase_obs m m' s _ i c PClosing); try eassumption; try reflexivity.
      + rewrite set_phase_alt. reflexivity.
      + apply sbc_set_phase, sbc_rx_close, sbc_tx_drop, sbc_upd_q, sbc_refl.
      + rewrite set_phase_alt. reflexivity.
      + rewrite set_phase_alt. cbn [waiters upd_calls upd_q slot_rx_close slot_tx_drop set_slot upd_slots].
        intros w Hin. apply (remove_waiter_In i w _ Hin).
      + rewrite set_phase_alt. cbn [waiters upd_calls upd_q slot_rx_close slot_tx_drop set_slot upd_slots].
        apply NoDup_filter, S.
    - (* PAssigned *)
      assert (S1 : sim m' (set_phase s i PClosing)).
      { eapply (sim_phase_obs m m' s _ i c PClosing); try eassumption; try reflexivity.
        + rewrite set_phase_alt. reflexivity.
        + apply sbc_set_phase, sbc_refl.
        + rewrite set_phase_alt. reflexivity.
        + rewrite set_phase_alt. cbn [waiters upd_calls]. intros w Hin. split; [exact Hin|].
          intros ->. eapply winv_not_acq; try eassumption; [apply S|congruence].
        + rewrite set_phase_alt. apply S. }
      assert (H1 : nth_error (calls (set_phase s i PClosing)) i = Some (with_phase c PClosing)).
      { rewrite set_phase_alt. apply Hnth. reflexivity. }
      set (s1 := set_phase s i PClosing) in *.
      destruct (rx_closed s1).
      + split.
        * eapply sim_sbc; [exact S1|apply sbc_rx_close, sbc_tx_drop, sbc_upd_q, sbc_refl|reflexivity..].
        * exact H1.
      + split.
        * eapply sim_sbc; [apply sim_release_permit, S1|apply sbc_rx_close, sbc_tx_drop, sbc_refl|reflexivity..].
        * cbn [calls slot_rx_close slot_tx_drop set_slot upd_slots].
          apply release_permit_nth; [apply S1|exact H1|discriminate].
    - (* PAcqClosed *)
      split; [|rewrite set_phase_alt; apply Hnth; reflexivity].
      eapply (sim_phase_obs m m' s _ i c PClosing); try eassumption; try reflexivity.
      + rewrite set_phase_alt. reflexivity.
      + apply sbc_set_phase, sbc_rx_close, sbc_tx_drop, sbc_refl.
      + rewrite set_phase_alt. reflexivity.
      + rewrite set_phase_alt. cbn [waiters upd_calls slot_rx_close slot_tx_drop set_slot upd_slots].
        intros w Hin. split; [exact Hin|].
        intros ->. eapply winv_not_acq; try eassumption; [apply S|congruence].
      + rewrite set_phase_alt. apply S.
    - (* PAwaiting *)
      split; [|rewrite set_phase_alt; apply Hnth; reflexivity].
      eapply (sim_phase_obs m m' s _ i c PClosing); try eassumption; try reflexivity.
      + rewrite set_phase_alt. reflexivity.
      + apply sbc_set_phase, sbc_rx_close, sbc_refl.
      + rewrite set_phase_alt. reflexivity.
      + rewrite set_phase_alt. cbn [waiters upd_calls slot_rx_close set_slot upd_slots].
        intros w Hin. split; [exact Hin|].
        intros ->. eapply winv_not_acq; try eassumption; [apply S|congruence].
      + rewrite set_phase_alt. apply S.
  Qed.

  (* ---- second half: the cancellation is queued *)
  Lemma sim_guard_cancel_gen m m' s i c :
    sim m s -> nth_error (calls s) i = Some c -> c_phase c = PClosing ->
    mcore m m' -> m_polled m' = m_polled m -> agree_except m m' i -> disc m' i PGone ->
    sim m' (guard_cancel s i).
  Proof.
    intros S Hc Hp M Mp Ag Di. unfold guard_cancel. rewrite Hc, Hp.
    eapply (sim_phase_obs m m' s _ i c PGone); try eassumption; try reflexivity.
    + rewrite set_phase_alt, push_cancel_alt. reflexivity.
    + apply sbc_set_phase, sbc_push_cancel, sbc_refl.
    + rewrite set_phase_alt, push_cancel_alt. reflexivity.
    + rewrite set_phase_alt, push_cancel_alt. cbn [waiters upd_calls upd_cancels].
      intros w Hin. split; [exact Hin|].
      intros ->. eapply winv_not_acq; try eassumption; [apply S|congruence].
    + rewrite set_phase_alt, push_cancel_alt. apply S.
  Qed.

  Lemma guard_close_none s i : nth_error (calls s) i = None -> guard_close s i = s.
  Proof. intro H. unfold guard_close. rewrite H. reflexivity. Qed.
  Lemma guard_cancel_none s i : nth_error (calls s) i = None -> guard_cancel s i = s.
  Proof. intro H. unfold guard_cancel. rewrite H. reflexivity. Qed.

  Lemma sim_range_false m s i :
    simC m s -> nth_error (calls s) i <> None -> (length (m_calls m) <=? i)%nat = false.
  Proof. intros C H. apply nth_error_Some in H. rewrite (sc_len _ _ C). lia. Qed.
  Lemma sim_range_true m s i :
    simC m s -> nth_error (calls s) i = None -> (length (m_calls m) <=? i)%nat = true.
  Proof. intros C H. apply nth_error_None in H. rewrite (sc_len _ _ C). lia. Qed.

  Lemma sim_guard_close_op tp fuel_of m s i :
    sim m s -> sim (rec_op (T:=T) m (GuardClose i)) (fst (step tp fuel_of s (GuardClose i))).
  Proof.
    intro S. cbn [step fst rec_op].
    destruct (nth_error (calls s) i) as [c|] eqn:Hc; cbn [option_map].
    2:{ rewrite (sim_range_true _ _ _ (sim_c _ _ S) Hc). cbn [orb]. rewrite guard_close_none by exact Hc. exact S. }
    pose proof (sc_phase _ _ (sim_c _ _ S) _ _ Hc) as [Dp Da Dc Dd].
    rewrite (sim_range_false m s i (sim_c _ _ S)) by congruence. rewrite Dd, Da, Dc. cbn [orb].
    destruct (c_phase c) eqn:Hp; cbn [ph_done ph_aband ph_closing orb]; cbn [ph_polled] in Dp;
      try exact S;
      try (unfold guard_close; rewrite Hc, Hp; exact S);
      try (rewrite (Dp _ eq_refl)).
    - (* PNew *)
      eapply (sim_guard_close_gen m _ s i c); try exact S; try exact Hc.
      + left; exact Hp.
      + constructor; reflexivity.
      + reflexivity.
      + apply agree_lists; intros j Hj; cbn; try reflexivity. apply mem_nat_snoc_other, Hj.
      + rewrite Hp. constructor; cbn.
        * intros b Hb; discriminate.
        * apply mem_nat_snoc_same.
        * exact Dc.
        * exact Dd.
    - eapply (sim_guard_close_gen m _ s i c); try exact S; try exact Hc.
      + right; rewrite Hp; reflexivity.
      + constructor; reflexivity.
      + reflexivity.
      + apply agree_lists; intros j Hj; cbn; try reflexivity. apply mem_nat_snoc_other, Hj.
      + rewrite Hp. constructor; cbn.
        * intros b [= <-]. apply (Dp _ eq_refl).
        * exact Da.
        * apply mem_nat_snoc_same.
        * exact Dd.
    - eapply (sim_guard_close_gen m _ s i c); try exact S; try exact Hc.
      + right; rewrite Hp; reflexivity.
      + constructor; reflexivity.
      + reflexivity.
      + apply agree_lists; intros j Hj; cbn; try reflexivity. apply mem_nat_snoc_other, Hj.
      + rewrite Hp. constructor; cbn.
        * intros b [= <-]. apply (Dp _ eq_refl).
        * exact Da.
        * apply mem_nat_snoc_same.
        * exact Dd.
    - eapply (sim_guard_close_gen m _ s i c); try exact S; try exact Hc.
      + right; rewrite Hp; reflexivity.
      + constructor; reflexivity.
      + reflexivity.
      + apply agree_lists; intros j Hj; cbn; try reflexivity. apply mem_nat_snoc_other, Hj.
      + rewrite Hp. constructor; cbn.
        * intros b [= <-]. apply (Dp _ eq_refl).
        * exact Da.
        * apply mem_nat_snoc_same.
        * exact Dd.
    - eapply (sim_guard_close_gen m _ s i c); try exact S; try exact Hc.
      + right; rewrite Hp; reflexivity.
      + constructor; reflexivity.
      + reflexivity.
      + apply agree_lists; intros j Hj; cbn; try reflexivity. apply mem_nat_snoc_other, Hj.
      + rewrite Hp. constructor; cbn.
        * intros b [= <-]. apply (Dp _ eq_refl).
        * exact Da.
        * apply mem_nat_snoc_same.
        * exact Dd.
  Qed.

  Lemma sim_guard_cancel_op tp fuel_of m s i :
    sim m s -> sim (rec_op (T:=T) m (GuardCancel i)) (fst (step tp fuel_of s (GuardCancel i))).
  Proof.
    intro S. cbn [step fst rec_op].
    destruct (nth_error (calls s) i) as [c|] eqn:Hc.
    2:{ rewrite guard_cancel_none by exact Hc.
        destruct (mem_nat i (m_closing m)) eqn:E; [|exact S].
        apply mem_nat_In in E. apply (sc_range_c _ _ (sim_c _ _ S)) in E.
        apply nth_error_None in Hc. rewrite (sc_len _ _ (sim_c _ _ S)) in E. lia. }
    pose proof (sc_phase _ _ (sim_c _ _ S) _ _ Hc) as [Dp Da Dc Dd]. rewrite Dc.
    destruct (c_phase c) eqn:Hp; cbn [ph_closing];
      try (unfold guard_cancel; rewrite Hc, Hp; exact S).
    eapply (sim_guard_cancel_gen m _ s i c); try exact S; try exact Hc; try exact Hp.
    - constructor; reflexivity.
    - reflexivity.
    - apply agree_lists; intros j Hj.
      + cbn [m_abandoned upd_m]. apply mem_nat_snoc_other, Hj.
      + cbn [m_closing upd_m]. rewrite mem_nat_filter_neq.
        replace (Nat.eqb j i) with false by lia. apply andb_true_r.
      + reflexivity.
    - constructor.
      + intros b Hb; discriminate.
      + cbn [m_abandoned upd_m]. apply mem_nat_snoc_same.
      + cbn [m_closing upd_m ph_closing]. rewrite mem_nat_filter_neq, Nat.eqb_refl. apply andb_false_r.
      + exact Dd.
  Qed.

  Lemma sim_drop_call_op tp fuel_of m s i :
    sim m s -> sim (rec_op (T:=T) m (DropCall i)) (fst (step tp fuel_of s (DropCall i))).
  Proof.
    intro S. cbn [step fst rec_op].
    destruct (nth_error (calls s) i) as [c|] eqn:Hc; cbn [option_map].
    2:{ rewrite (sim_range_true _ _ _ (sim_c _ _ S) Hc). cbn [orb].
        rewrite guard_close_none by exact Hc. rewrite guard_cancel_none by exact Hc. exact S. }
    pose proof (sc_phase _ _ (sim_c _ _ S) _ _ Hc) as [Dp Da Dc Dd].
    rewrite (sim_range_false m s i (sim_c _ _ S)) by congruence. rewrite Dd, Da, Dc. cbn [orb].
    assert (Hmid : (c_phase c = PNew \/ active (c_phase c) = true) ->
               ph_aband (c_phase c) = false -> ph_closing (c_phase c) = false ->
               ph_done (c_phase c) = false ->
               let m1 := upd_m m (m_now m) (m_calls m) (m_done m)
                          (if ph_closing (closed_phase (c_phase c)) then m_abandoned m else m_abandoned m ++ [i])
                          (if ph_closing (closed_phase (c_phase c)) then m_closing m ++ [i] else m_closing m)
                          (m_polled m) (m_disp m) (m_disp_dropped m) (m_handles m) (m_contract m) in
               sim m1 (guard_close s i) /\
               nth_error (calls (guard_close s i)) i = Some (with_phase c (closed_phase (c_phase c)))).
    { intros Hph Ha Hcl Hd m1. rewrite Ha in Da. rewrite Hcl in Dc. rewrite Hd in Dd.
      eapply (sim_guard_close_gen m m1 s i c); try exact S; try exact Hc; try exact Hph.
      - constructor; reflexivity.
      - reflexivity.
      - apply agree_lists; intros j Hj; cbn; try reflexivity.
        + destruct (ph_closing (closed_phase (c_phase c))); [reflexivity|apply mem_nat_snoc_other, Hj].
        + destruct (ph_closing (closed_phase (c_phase c))); [apply mem_nat_snoc_other, Hj|reflexivity].
      - subst m1. destruct Hph as [Hp|Hp].
        + rewrite Hp. constructor; cbn.
          * intros b Hb; discriminate.
          * apply mem_nat_snoc_same.
          * exact Dc.
          * exact Dd.
        + assert (Hcp : closed_phase (c_phase c) = PClosing) by (destruct (c_phase c); try discriminate; reflexivity).
          rewrite Hcp. constructor; cbn.
          * intros b [= <-]. apply Dp. destruct (c_phase c); try discriminate; reflexivity.
          * exact Da.
          * apply mem_nat_snoc_same.
          * exact Dd. }
    destruct (c_phase c) eqn:Hp; cbn [ph_done ph_aband ph_closing orb]; cbn [ph_polled] in Dp;
      try exact S;
      try (unfold guard_close; rewrite Hc, Hp; unfold guard_cancel; rewrite Hc, Hp; exact S).
    - (* PNew: the future simply goes away *)
      destruct Hmid as [S1 H1]; try reflexivity; [left; reflexivity|].
      cbn [closed_phase ph_closing] in S1, H1.
      unfold guard_cancel. rewrite H1. cbn [c_phase with_phase]. exact S1.
    - destruct Hmid as [S1 H1]; try reflexivity; [right; reflexivity|].
      cbn [closed_phase ph_closing] in S1, H1.
      eapply (sim_guard_cancel_gen _ _ _ i _ S1 H1); try reflexivity.
      + constructor; reflexivity.
      + apply agree_lists; intros j Hj; cbn; try reflexivity.
        * apply mem_nat_snoc_other, Hj.
        * symmetry. apply mem_nat_snoc_other, Hj.
      + constructor; cbn; [intros b Hb; discriminate|apply mem_nat_snoc_same|exact Dc|exact Dd].
    - destruct Hmid as [S1 H1]; try reflexivity; [right; reflexivity|].
      cbn [closed_phase ph_closing] in S1, H1.
      eapply (sim_guard_cancel_gen _ _ _ i _ S1 H1); try reflexivity.
      + constructor; reflexivity.
      + apply agree_lists; intros j Hj; cbn; try reflexivity.
        * apply mem_nat_snoc_other, Hj.
        * symmetry. apply mem_nat_snoc_other, Hj.
      + constructor; cbn; [intros b Hb; discriminate|apply mem_nat_snoc_same|exact Dc|exact Dd].
    - destruct Hmid as [S1 H1]; try reflexivity; [right; reflexivity|].
      cbn [closed_phase ph_closing] in S1, H1.
      eapply (sim_guard_cancel_gen _ _ _ i _ S1 H1); try reflexivity.
      + constructor; reflexivity.
      + apply agree_lists; intros j Hj; cbn; try reflexivity.
        * apply mem_nat_snoc_other, Hj.
        * symmetry. apply mem_nat_snoc_other, Hj.
      + constructor; cbn; [intros b Hb; discriminate|apply mem_nat_snoc_same|exact Dc|exact Dd].
    - destruct Hmid as [S1 H1]; try reflexivity; [right; reflexivity|].
      cbn [closed_phase ph_closing] in S1, H1.
      eapply (sim_guard_cancel_gen _ _ _ i _ S1 H1); try reflexivity.
      + constructor; reflexivity.
      + apply agree_lists; intros j Hj; cbn; try reflexivity.
        * apply mem_nat_snoc_other, Hj.
        * symmetry. apply mem_nat_snoc_other, Hj.
      + constructor; cbn; [intros b Hb; discriminate|apply mem_nat_snoc_same|exact Dc|exact Dd].
  Qed.

  (* ---- completion of a call (observer: m_done grows) *)
  Lemma sim_finish m m' s s' i c o :
    sim m s -> nth_error (calls s) i = Some c -> active (c_phase c) = true ->
    c_phase c <> PAcquiring ->
    calls s' = phase_calls (calls s) i PDone -> sbc s s' -> queue s' = queue s ->
    waiters s' = waiters s ->
    mcore m m' -> m_polled m' = m_polled m -> m_abandoned m' = m_abandoned m ->
    m_closing m' = m_closing m -> m_done m' = m_done m ++ [(i, o)] -> sim m' s'.
  Proof.
    intros S Hc Ha Hna Ec B Eq Ew M Mp Ma Mcl Md.
    pose proof (sc_phase _ _ (sim_c _ _ S) _ _ Hc) as [Dp Da Dc Dd].
    eapply (sim_phase_obs m m' s s' i c PDone); try eassumption; try reflexivity.
    - rewrite Ew. intros w Hin. split; [exact Hin|]. intros ->.
      eapply winv_not_acq; try eassumption. apply S.
    - rewrite Ew. apply S.
    - apply agree_lists; intros j Hj; rewrite ?Ma, ?Mcl; try reflexivity.
      rewrite (done_idx_snoc m m' i o j Md). replace (Nat.eqb i j) with false by lia. apply orb_false_r.
    - constructor; rewrite ?Mp, ?Ma, ?Mcl.
      + intros b [= <-]. apply Dp. destruct (c_phase c); try discriminate; reflexivity.
      + rewrite Da. destruct (c_phase c); try discriminate; reflexivity.
      + rewrite Dc. destruct (c_phase c); try discriminate; reflexivity.
      + rewrite (done_idx_snoc m m' i o i Md), Nat.eqb_refl. apply orb_true_r.
  Qed.

  Definition add_done m (i : nat) (o : outcome) : mst :=
    upd_m m (m_now m) (m_calls m) (m_done m ++ [(i, o)]) (m_abandoned m) (m_closing m)
          (m_polled m) (m_disp m) (m_disp_dropped m) (m_handles m) (m_contract m).

  Lemma sim_poll_slot m s i c r s' :
    sim m s -> nth_error (calls s) i = Some c -> active (c_phase c) = true ->
    c_phase c <> PAcquiring -> poll_slot s i (c_id c) = (r, s') ->
    match r with
    | CDone o => sim (add_done m i o) s' /\ just m (c_id c) o
    | CPending => s' = s
    | CNothing => False
    end.
  Proof.
    intros S Hc Ha Hna. unfold poll_slot.
    assert (F : forall o, sim (add_done m i o) (set_phase (slot_rx_close s (c_id c)) i PDone)).
    { intro o. eapply (sim_finish m _ s _ i c o); try eassumption; try reflexivity.
      - rewrite set_phase_alt. reflexivity.
      - apply sbc_set_phase, sbc_rx_close, sbc_refl.
      - rewrite set_phase_alt. reflexivity.
      - rewrite set_phase_alt. reflexivity.
      - constructor; reflexivity. }
    destruct (sl_val (get_slot s (c_id c))) as [o|] eqn:Ev.
    - intros [= <- <-]. split; [apply F|]. apply (sd_slots _ _ (sim_d _ _ S)), Ev.
    - destruct (sl_tx_gone (get_slot s (c_id c))).
      + intros [= <- <-]. split; [apply F|exact I].
      + intros [= <- <-]. reflexivity.
  Qed.

  Lemma sim_fail_shutdown m s i c :
    sim m s -> nth_error (calls s) i = Some c -> active (c_phase c) = true ->
    c_phase c <> PAcquiring ->
    sim (add_done m i OShutdown) (snd (fail_shutdown s i (c_id c))).
  Proof.
    intros S Hc Ha Hna. unfold fail_shutdown. cbn [snd].
    eapply (sim_finish m _ s _ i c OShutdown); try eassumption; try reflexivity.
    - rewrite set_phase_alt, push_cancel_alt. reflexivity.
    - apply sbc_set_phase, sbc_push_cancel, sbc_rx_close, sbc_tx_drop, sbc_refl.
    - rewrite set_phase_alt, push_cancel_alt. reflexivity.
    - rewrite set_phase_alt, push_cancel_alt. reflexivity.
    - constructor; reflexivity.
  Qed.

  Lemma sim_add_waiter m s s' i c :
    sim m s -> nth_error (calls s) i = Some c -> c_phase c = PAcquiring -> ~ In i (waiters s) ->
    sbc s s' -> calls s' = calls s -> queue s' = queue s -> waiters s' = waiters s ++ [i] ->
    sim m s'.
  Proof.
    intros [C W D] Hc Hp Hni B Ec Eq Ew. destruct B. constructor.
    - eapply simC_frame; eassumption.
    - constructor; rewrite Ew, ?Ec.
      + intros w Hin. apply in_app_or in Hin. destruct Hin as [Hin|[<-|[]]]; [apply W, Hin|].
        exists c. split; assumption.
      + apply NoDup_app_single; [apply W|exact Hni].
    - eapply simD_vals; eassumption.
  Qed.

  Lemma set_nth_twice {A} (i : nat) (x y : A) (l : list A) : set_nth i y (set_nth i x l) = set_nth i y l.
  Proof. revert i; induction l as [|z r IH]; intros [|i]; cbn; try reflexivity. f_equal. apply IH. Qed.

  Lemma phase_calls_set_nth l i x p :
    (i < length l)%nat -> phase_calls (set_nth i x l) i p = set_nth i (with_phase x p) l.
  Proof.
    intro H. unfold phase_calls. rewrite nth_error_set_nth_same by exact H. apply set_nth_twice.
  Qed.

  Definition polled_after m (i : nat) : list nat :=
    if mem_nat i (m_polled m) || mem_nat i (m_abandoned m) || mem_nat i (m_closing m)
       || (length (m_calls m) <=? i)%nat
    then m_polled m else m_polled m ++ [i].

  Lemma rec_op_poll_call m i :
    rec_op (T:=T) m (PollCall i) =
    upd_m m (m_now m) (m_calls m) (m_done m) (m_abandoned m) (m_closing m) (polled_after m i)
          (m_disp m) (m_disp_dropped m) (m_handles m) (m_contract m).
  Proof. reflexivity. Qed.

  Lemma sim_poll_call m s i r s' :
    sim m s -> N.of_nat (S (length (m_polled m))) < two64 -> poll_call s i = (r, s') ->
    match r with
    | CDone o => sim (add_done (rec_op (T:=T) m (PollCall i)) i o) s' /\
                 done_idx (rec_op (T:=T) m (PollCall i)) i = false /\
                 exists id, id_of (rec_op (T:=T) m (PollCall i)) i = Some id /\
                            just (rec_op (T:=T) m (PollCall i)) id o
    | _ => sim (rec_op (T:=T) m (PollCall i)) s'
    end.
  Proof.
    intros HS Hw. rewrite rec_op_poll_call. unfold poll_call.
    destruct (nth_error (calls s) i) as [c|] eqn:Hc.
    2:{ intros [= <- <-]. eapply sim_meq; [exact HS|constructor; reflexivity|..]; try reflexivity.
        cbn [m_polled upd_m]. unfold polled_after.
        rewrite (sim_range_true _ _ _ (sim_c _ _ HS) Hc), !orb_true_r. reflexivity. }
    pose proof (sc_phase _ _ (sim_c _ _ HS) _ _ Hc) as [Dp Da Dc Dd].
    assert (Hr := sim_range_false m s i (sim_c _ _ HS)). rewrite Hc in Hr. specialize (Hr ltac:(discriminate)).
    set (m1 := upd_m m (m_now m) (m_calls m) (m_done m) (m_abandoned m) (m_closing m) (polled_after m i)
                     (m_disp m) (m_disp_dropped m) (m_handles m) (m_contract m)).
    assert (S1 : c_phase c <> PNew -> sim m1 s).
    { intro Hn. eapply sim_meq; [exact HS|constructor; reflexivity|..]; try reflexivity.
      cbn [m_polled upd_m m1]. unfold polled_after. rewrite Da, Dc.
      destruct (c_phase c); try congruence; cbn [ph_polled] in Dp;
        try (rewrite (Dp _ eq_refl)); cbn; rewrite ?orb_true_r; reflexivity. }
    assert (Fin : forall o s2, sim (add_done m1 i o) s2 -> sim m1 s -> just m1 (c_id c) o ->
              active (c_phase c) = true ->
              sim (add_done m1 i o) s2 /\ done_idx m1 i = false /\
              exists id, id_of m1 i = Some id /\ just m1 id o).
    { intros o s2 H2 H1 J Ha. split; [exact H2|].
      pose proof (sc_phase _ _ (sim_c _ _ H1) _ _ Hc) as [Dp1 _ _ Dd1]. split.
      - rewrite Dd1. destruct (c_phase c); try discriminate; reflexivity.
      - exists (c_id c). split; [|exact J]. apply (sc_id _ _ (sim_c _ _ H1) _ _ Hc).
        apply mem_nat_In, Dp1. destruct (c_phase c); try discriminate; reflexivity. }
    destruct (c_phase c) eqn:Hp.
    - (* PNew: the request id is handed out *)
      clear S1 Fin.
      set (id := next_id s).
      set (s0 := with_id (upd_misc s (N.modulo (id + 1) 18446744073709551616) (handles s) (now s)) i c id).
      set (s1 := set_slot s0 id slot0).
      assert (Hi : (i < length (calls s))%nat) by (apply nth_error_Some; congruence).
      set (sV := fun p' => upd_calls s1 (set_nth i (with_id_phase c id p') (calls s))).
      assert (V : forall p', active p' = true -> sim m1 (sV p')).
      { intros p' Ha. eapply (sim_first_poll m m1 s (sV p') i c p'); try eassumption; try reflexivity.
        - intros id' v. unfold sV, s1. unfold get_slot. cbn [slots upd_calls set_slot upd_slots].
          rewrite alookup_aset. destruct (N.eqb id' id); [discriminate|]. exact (fun x => x).
        - constructor; reflexivity.
        - cbn [m_polled upd_m m1]. unfold polled_after. rewrite Da, Dc, Hr, (Dp _ eq_refl). reflexivity. }
      assert (HV : forall p', nth_error (calls (sV p')) i = Some (with_id_phase c id p')).
      { intro p'. cbn [calls sV upd_calls]. apply nth_error_set_nth_same, Hi. }
      assert (Hni : ~ In i (waiters s)).
      { eapply winv_not_acq; [apply HS|exact Hc|congruence]. }
      assert (BV : forall p', sbc (sV p') s1).
      { intro p'. constructor; try reflexivity. apply same_vals_slots. reflexivity. }
      change (rx_closed s1) with (rx_closed s). change (permits s1) with (permits s).
      destruct (rx_closed s) eqn:Erx.
      + (* the queue is closed: the call ends at once *)
        intros [= <- <-].
        assert (F : sim (add_done m1 i OShutdown) (snd (fail_shutdown s1 i id))).
        { unfold fail_shutdown. cbn [snd]. rewrite set_phase_alt, push_cancel_alt.
          eapply (sim_finish m1 _ (sV PAssigned) _ i _ OShutdown (V PAssigned eq_refl) (HV PAssigned));
            try reflexivity; try discriminate.
          - cbn [calls upd_calls upd_cancels slot_rx_close slot_tx_drop set_slot upd_slots sV].
            cbn [calls s1 set_slot upd_slots s0 with_id upd_calls].
            rewrite !phase_calls_set_nth by exact Hi. reflexivity.
          - apply sbc_upd_calls, sbc_upd_cancels, sbc_rx_close, sbc_tx_drop, BV.
          - constructor; reflexivity. }
        split; [exact F|]. split.
        * unfold done_idx. cbn [m_done upd_m m1]. exact Dd.
        * pose proof (V PAssigned eq_refl) as SV.
          exists id. split; [|exact I].
          apply (sc_id _ _ (sim_c _ _ SV) _ _ (HV PAssigned)).
          apply mem_nat_In. apply (d_polled _ _ _ (sc_phase _ _ (sim_c _ _ SV) _ _ (HV PAssigned))). reflexivity.
      + destruct (permits s) as [|p] eqn:Eperm.
        * (* no permit: wait *)
          intros [= <- <-]. rewrite set_phase_alt.
          eapply (sim_add_waiter m1 (sV PAcquiring) _ i _ (V PAcquiring eq_refl) (HV PAcquiring));
            try reflexivity; try exact Hni.
          -- apply sbc_upd_calls, sbc_upd_q, BV.
          -- cbn [calls upd_calls upd_q sV].
             cbn [calls s1 set_slot upd_slots s0 with_id upd_calls].
             rewrite phase_calls_set_nth by exact Hi. reflexivity.
        * (* a permit: the request is queued; the fresh oneshot is empty *)
          unfold enqueue.
          match goal with |- poll_slot ?sa i id = _ -> _ => set (sA := sa) end.
          assert (SA : sim m1 sA).
          { unfold sA. rewrite set_phase_alt.
            eapply (sim_enqueue m1 (sV PAssigned) _ i _ (V PAssigned eq_refl) (HV PAssigned)); try reflexivity.
            - cbn [calls upd_calls upd_q sV].
              cbn [calls s1 set_slot upd_slots s0 with_id upd_calls].
              rewrite !phase_calls_set_nth by exact Hi. reflexivity.
            - apply sbc_upd_calls, sbc_upd_q, sbc_upd_q, BV. }
          unfold poll_slot.
          assert (Hslot : get_slot sA id = slot0).
          { unfold sA, get_slot. rewrite set_phase_alt.
            cbn [slots upd_calls upd_q s1 set_slot upd_slots]. rewrite alookup_aset, N.eqb_refl. reflexivity. }
          rewrite Hslot. cbn [sl_val sl_tx_gone slot0]. intros [= <- <-]. exact SA.
    - (* PAcquiring *) intros [= <- <-]. apply S1. discriminate.
    - (* PAssigned *)
      specialize (S1 ltac:(discriminate)).
      destruct (rx_closed s).
      + intros [= <- <-].
        assert (F : sim (add_done m1 i OShutdown)
                        (snd (fail_shutdown (upd_q s (S (permits s)) (queue s) (waiters s) true) i (c_id c)))).
        { apply sim_fail_shutdown; [|exact Hc|rewrite Hp; reflexivity|congruence].
          eapply sim_sbc; [exact S1|apply sbc_upd_q, sbc_refl|reflexivity..]. }
        apply Fin; [exact F|exact S1|exact I|reflexivity].
      + unfold enqueue.
        match goal with |- poll_slot ?sa i _ = _ -> _ => set (sA := sa) end.
        assert (SA : sim m1 sA).
        { eapply (sim_enqueue m1 s sA i c S1 Hc Hp); unfold sA; rewrite set_phase_alt; try reflexivity.
          apply sbc_upd_calls, sbc_upd_q, sbc_refl. }
        assert (HA : nth_error (calls sA) i = Some (with_phase c PAwaiting)).
        { unfold sA. rewrite set_phase_alt. cbn [calls upd_calls upd_q].
          rewrite nth_error_phase_calls, Nat.eqb_refl, Hc. reflexivity. }
        intro Hps.
        pose proof (sim_poll_slot m1 sA i _ r s' SA HA eq_refl ltac:(discriminate) Hps) as R.
        destruct r as [|o|]; [subst s'; exact SA| |destruct R].
        destruct R as [R J]. cbn [c_id with_phase] in J.
        apply Fin; [exact R|exact S1|exact J|reflexivity].
    - (* PAcqClosed *)
      specialize (S1 ltac:(discriminate)). intros [= <- <-].
      apply Fin; [|exact S1|exact I|reflexivity].
      apply sim_fail_shutdown; [exact S1|exact Hc|rewrite Hp; reflexivity|congruence].
    - (* PAwaiting *)
      specialize (S1 ltac:(discriminate)). intro Hps.
      assert (Ha : active (c_phase c) = true) by (rewrite Hp; reflexivity).
      pose proof (sim_poll_slot m1 s i c r s' S1 Hc Ha ltac:(congruence) Hps) as R.
      destruct r as [|o|]; [subst s'; exact S1| |destruct R].
      destruct R as [R J]. apply Fin; [exact R|exact S1|exact J|reflexivity].
    - intros [= <- <-]. apply S1. discriminate.
    - intros [= <- <-]. apply S1. discriminate.
    - intros [= <- <-]. apply S1. discriminate.
  Qed.
End Ops.

(* ------------------------------------------------------------------------------------------ *)
(* 7. the dispatch: steps of the micro-functions at the level of the relation *)
Section DispatchM.
  Context {T : Type}.
  Notation cstate := (@cstate T).
  Implicit Types (s : cstate) (m : mst).

  (* in-flight entries / timers go away, oneshots receive justified values *)
  Lemma sim_shrink m s s' :
    sim m s -> calls s' = calls s -> waiters s' = waiters s -> queue s' = queue s ->
    now s' = now s -> handles s' = handles s -> next_id s' = next_id s ->
    (forall x, In x (inflight s') -> In x (inflight s)) ->
    (forall x, In x (timers s') -> In x (timers s)) ->
    (forall id v, sl_val (get_slot s' id) = Some v -> sl_val (get_slot s id) = Some v \/ just m id v) ->
    sim m s'.
  Proof.
    intros [C W D] Ec Ew Eq En Eh Ei Hf Ht Hv. constructor.
    - eapply simC_frame; eassumption.
    - eapply winv_frame; eassumption.
    - constructor; rewrite ?Ec, ?Eq; try apply D.
      + intros id e Hin. apply (sd_inflight _ _ D), Hf, Hin.
      + intros id w Hin. apply (sd_timers _ _ D), Ht, Hin.
      + intros id o Hv'. destruct (Hv id o Hv') as [H|H]; [apply D, H|exact H].
  Qed.

  Lemma sim_slot_send m s id o : sim m s -> just m id o -> sim m (slot_send s id o).
  Proof.
    intros S J. eapply sim_shrink; [exact S|rewrite slot_send_alt; reflexivity..| | |].
    - rewrite slot_send_alt. exact (fun x H => H).
    - rewrite slot_send_alt. exact (fun x H => H).
    - intros id' v Hv. apply slot_send_val in Hv. destruct Hv as [Hv|[-> ->]]; [left; exact Hv|right; exact J].
  Qed.

  Lemma sim_complete_request m s id o :
    sim m s -> just m id o -> sim m (snd (complete_request s id o)).
  Proof.
    intros S J. unfold complete_request. destruct (alookup id (inflight s)); [|exact S]. cbn [snd].
    eapply sim_shrink; [exact S|rewrite slot_send_alt; reflexivity..| | |].
    - rewrite slot_send_alt. cbn [inflight set_slot upd_slots upd_if]. intros [k v] H.
      apply In_aremove in H. tauto.
    - rewrite slot_send_alt. cbn [timers set_slot upd_slots upd_if]. intros [k v] H.
      apply In_aremove in H. tauto.
    - intros id' v Hv. apply slot_send_val in Hv.
      destruct Hv as [Hv|[-> ->]]; [left; exact Hv|right; exact J].
  Qed.

  (* the request of an in-flight entry was written with the entry's trace context *)
  Definition cancellable m (id : N) (e : ifentry) : Prop :=
    exists sr, In sr (m_sent m) /\ s_id sr = id /\ s_tc sr = if_tc e.

  Lemma sim_cancel_request m s id :
    sim m s -> sim m (snd (cancel_request s id)) /\
               (forall e, fst (cancel_request s id) = Some e -> cancellable m id e).
  Proof.
    intro S. unfold cancel_request. destruct (alookup id (inflight s)) as [e|] eqn:E; cbn [fst snd].
    - split.
      + eapply sim_shrink; [exact S|reflexivity..| | |].
        * cbn [inflight upd_if]. intros [k v] H. apply In_aremove in H. tauto.
        * cbn [timers upd_if]. intros [k v] H. apply In_aremove in H. tauto.
        * intros id' v Hv. left. exact Hv.
      + intros e' [= <-]. apply alookup_in in E.
        destruct (sd_inflight _ _ (sim_d _ _ S) _ _ E) as (sr & H1 & H2 & H3 & _).
        exists sr. auto.
    - split; [exact S|discriminate].
  Qed.

  Lemma min_timer_In l best r :
    min_timer l best = Some r -> In r l \/ best = Some r.
  Proof.
    revert best. induction l as [|[id w] t IH]; intro best; cbn [min_timer].
    - intro H. right; exact H.
    - destruct best as [[bid bw]|].
      + destruct ((w <? bw) || ((w =? bw) && (id <? bid))).
        * intro H. destruct (IH _ H) as [H1|H1]; [left; right; exact H1|].
          injection H1 as <-. left; left; reflexivity.
        * intro H. destruct (IH _ H) as [H1|H1]; [left; right; exact H1|right; exact H1].
      + intro H. destruct (IH _ H) as [H1|H1]; [left; right; exact H1|].
        injection H1 as <-. left; left; reflexivity.
  Qed.

  Lemma sim_owner_unique m id i k i' k' :
    call_with_id m id = Some (i, k) -> call_with_id m id = Some (i', k') -> i = i' /\ k = k'.
  Proof. intros H1 H2. rewrite H1 in H2. injection H2 as -> ->. split; reflexivity. Qed.

  Lemma sim_poll_expired m s : sim m s -> sim m (snd (poll_expired s)).
  Proof.
    intro S. unfold poll_expired.
    destruct (min_timer (timers s) None) as [[id w]|] eqn:Em; [|exact S].
    destruct (w <=? now s) eqn:Ew; [|exact S].
    apply min_timer_In in Em. destruct Em as [Hin|]; [|discriminate].
    cbn [inflight timers upd_if].
    destruct (alookup id (inflight s)) as [e|] eqn:Ef; cbn [snd].
    - eapply sim_shrink; [exact S|rewrite slot_send_alt; reflexivity..| | |].
      + rewrite slot_send_alt. cbn [inflight set_slot upd_slots upd_if]. intros [k v] H.
        apply In_aremove in H. tauto.
      + rewrite slot_send_alt. cbn [timers set_slot upd_slots upd_if]. intros [k v] H.
        apply In_aremove in H. tauto.
      + intros id' v Hv. apply slot_send_val in Hv.
        destruct Hv as [Hv|[-> ->]]; [left; exact Hv|right].
        apply alookup_in in Ef.
        destruct (sd_inflight _ _ (sim_d _ _ S) _ _ Ef) as (sr & H1 & H2 & _ & _ & H5).
        destruct (sd_timers _ _ (sim_d _ _ S) _ _ Hin) as (i & k & Hk & Hw).
        destruct (sd_sent _ _ (sim_d _ _ S) _ H1) as (i' & k' & Hk' & _ & _ & _ & Hdl & _).
        rewrite H2 in Hk'. destruct (sim_owner_unique _ _ _ _ _ _ Hk Hk') as [<- <-].
        cbn [just]. exists sr, i, k. repeat split; try assumption.
        destruct Hw as [Hw|Hw]; [left; exact Hw|right].
        rewrite (sc_now _ _ (sim_c _ _ S)). split; [lia|].
        intros b tm q Hr Hq. specialize (H5 _ _ _ Hr). lia.
    - eapply sim_shrink; [exact S|reflexivity..| | |].
      + exact (fun x H => H).
      + cbn [timers upd_if]. intros [k v] H. apply In_aremove in H. tauto.
      + intros id' v Hv. left. exact Hv.
  Qed.

  (* ---- the request queue *)
  (* a request that has been taken from the queue and not yet written: kept as a ghost head *)
  Definition withq s (q : qitem) : cstate :=
    upd_q s (permits s) (q :: queue s) (waiters s) (rx_closed s).

  Lemma sim_withq_drop m s q : sim m (withq s q) -> sim m s.
  Proof.
    intros [C W D]. constructor.
    - eapply simC_frame; [exact C|reflexivity..].
    - eapply winv_frame; [exact W|reflexivity..].
    - constructor; try apply D.
      + intros q' Hin. apply (sd_queue _ _ D). right; exact Hin.
      + pose proof (sd_queue_nodup _ _ D) as H. cbn in H. inversion H; assumption.
      + intros q' sr Hin. apply (sd_queue_unsent _ _ D). right; exact Hin.
      + intros i c Hc Hst. destruct (sd_staged _ _ D i c Hc Hst) as [H1 H2]. split; [|exact H2].
        intros q' Hin. apply H1. right; exact Hin.
  Qed.

  Lemma release_permit_withq s q :
    release_permit (withq s q) = withq (release_permit s) q.
  Proof.
    unfold release_permit, withq. cbn [waiters upd_q permits queue rx_closed].
    destruct (waiters s) as [|w r]; [reflexivity|].
    rewrite !set_phase_alt. reflexivity.
  Qed.

  Lemma sim_pop m s q r :
    sim m s -> queue s = q :: r ->
    sim m (withq (release_permit (upd_q s (permits s) r (waiters s) (rx_closed s))) q).
  Proof.
    intros S Eq. rewrite <- release_permit_withq. apply sim_release_permit.
    eapply sim_sbc; [exact S|apply sbc_upd_q, sbc_upd_q, sbc_refl|reflexivity|reflexivity|].
    cbn. symmetry. exact Eq.
  Qed.

  Lemma sim_q_poll_recv m s :
    sim m s ->
    match fst (q_poll_recv s) with
    | RvSome q => sim m (withq (snd (q_poll_recv s)) q)
    | _ => snd (q_poll_recv s) = s
    end.
  Proof.
    intro S. unfold q_poll_recv. destruct (queue s) as [|q r] eqn:Eq.
    - destruct (Nat.eqb (senders s) 0); [reflexivity|].
      destruct (rx_closed s && Nat.eqb (assigned_count s) 0); reflexivity.
    - cbn [fst snd]. apply sim_pop; assumption.
  Qed.

  (* ---- writing a request *)
  Definition req_call (q : qitem) (r : sres) : tcall cmsg resp :=
    CSend (MReq (q_id q) (q_deadline q) (q_tc q) (q_body q)) r.

  Lemma just_sent_mono m m' id o :
    m_polled m' = m_polled m -> m_calls m' = m_calls m ->
    (forall x, In x (m_sent m) -> In x (m_sent m')) -> m_read m' = m_read m -> m_now m' = m_now m ->
    just m id o -> just m' id o.
  Proof.
    intros Ep Ec Hs Er En. destruct o; cbn [just]; try exact (fun x => x).
    - intros (sr & tm & q & H1 & H2 & H3 & H4). exists sr, tm, q. rewrite Er. auto.
    - intros (sr & tm & q & H1 & H2 & H3 & H4). exists sr, tm, q. rewrite Er. auto.
    - intros (sr & i & k & H1 & H2 & H3 & H4). exists sr, i, k. rewrite Er, En.
      rewrite (call_with_id_eq m m' id Ep Ec). auto.
  Qed.

  Lemma req_of_eq m m' id dl tc b :
    m_polled m' = m_polled m -> m_calls m' = m_calls m -> req_of m id dl tc b -> req_of m' id dl tc b.
  Proof.
    intros Ep Ec (i & k & H & R). exists i, k. rewrite (call_with_id_eq m m' id Ep Ec). auto.
  Qed.

  Lemma sim_send_request m s q r t f l :
    sim m (withq s q) ->
    sim (rec_call m (req_call q r))
        (match r with
         | SOk => upd_tr (insert_request s q) t f l
         | SErr => snd (complete_request (upd_tr (insert_request s q) t f l) (q_id q) OSendErr)
         end).
  Proof.
    intro Sq. pose proof (sim_withq_drop _ _ _ Sq) as S.
    destruct Sq as [Cq _ Dq]. destruct S as [C W D].
    set (m' := rec_call m (req_call q r)).
    assert (Ep : m_polled m' = m_polled m) by apply rec_call_polled.
    assert (Ec : m_calls m' = m_calls m) by apply rec_call_calls.
    set (sr := {| s_id := q_id q; s_deadline := q_deadline q; s_tc := q_tc q; s_body := q_body q;
                  s_ok := match r with SOk => true | SErr => false end;
                  s_seq := S (m_seq m); s_time := m_now m |}).
    assert (Es : m_sent m' = m_sent m ++ [sr]) by reflexivity.
    assert (Er : m_read m' = m_read m) by reflexivity.
    assert (Eq : m_seq m' = S (m_seq m)) by reflexivity.
    assert (En : m_now m' = m_now m) by reflexivity.
    assert (Hq : req_of m (q_id q) (q_deadline q) (q_tc q) (q_body q)).
    { apply (sd_queue _ _ Dq). left; reflexivity. }
    assert (Huns : forall x, In x (m_sent m) -> s_id x <> q_id q).
    { intros x Hx. apply (sd_queue_unsent _ _ Dq q x); [left; reflexivity|exact Hx]. }
    assert (Hnq : forall q', In q' (queue s) -> q_id q' <> q_id q).
    { intros q' Hin He. pose proof (sd_queue_nodup _ _ Dq) as H. cbn in H. inversion H as [|? ? Hn _]; subst.
      apply Hn. rewrite <- He. apply in_map, Hin. }
    assert (S1 : sim m' (upd_tr (insert_request s q) t f l)).
    { constructor.
      - eapply simC_frame; [apply simC_rec_call, C|reflexivity..].
      - eapply winv_frame; [exact W|reflexivity..].
      - constructor; cbn [calls queue inflight timers upd_tr insert_request upd_if]; rewrite ?Es, ?Er, ?Eq, ?En.
        + intros q' Hin. eapply req_of_eq; [exact Ep|exact Ec|]. apply (sd_queue _ _ D), Hin.
        + apply D.
        + intros q' x Hin Hx. apply in_app_or in Hx. destruct Hx as [Hx|[<-|[]]].
          * eapply sd_queue_unsent; eassumption.
          * cbn. intro He. apply (Hnq q' Hin). symmetry; exact He.
        + intros i c Hc Hst. destruct (sd_staged _ _ Dq i c Hc Hst) as [H1 H2]. split.
          * intros q' Hin. apply H1. right; exact Hin.
          * intros x Hx. apply in_app_or in Hx. destruct Hx as [Hx|[<-|[]]]; [apply H2, Hx|].
            cbn. intro He. apply (H1 q); [left; reflexivity|exact He].
        + intros x Hx. eapply req_of_eq; [exact Ep|exact Ec|]. apply in_app_or in Hx.
          destruct Hx as [Hx|[<-|[]]]; [apply (sd_sent _ _ D), Hx|exact Hq].
        + rewrite map_app. cbn [map s_id sr]. apply NoDup_app_single; [apply D|].
          intro Hin. apply in_map_iff in Hin. destruct Hin as (x & He & Hx). apply (Huns x Hx He).
        + intros x Hx. apply in_app_or in Hx. destruct Hx as [Hx|[<-|[]]].
          * destruct (sd_sent_seq _ _ D x Hx). split; lia.
          * cbn. split; lia.
        + intros id b tm k Hr. destruct (sd_read_seq _ _ D _ _ _ _ Hr). split; lia.
        + intros id e Hin. apply In_aset in Hin. destruct Hin as [[-> ->]|[Hin Hne]].
          * exists sr. cbn. split; [apply in_or_app; right; left; reflexivity|]. repeat split.
            intros b tm k Hr. destruct (sd_read_seq _ _ D _ _ _ _ Hr). lia.
          * destruct (sd_inflight _ _ D _ _ Hin) as (x & H1 & H2 & H3 & H4 & H5).
            exists x. split; [apply in_or_app; left; exact H1|]. auto.
        + intros id w Hin. apply In_aset in Hin. destruct Hin as [[-> ->]|[Hin Hne]].
          * destruct Hq as (i & k & Hk & _ & _ & _ & Hdl & _). exists i, k.
            rewrite (call_with_id_eq m m' (q_id q) Ep Ec). split; [exact Hk|].
            apply call_with_id_inv in Hk. destruct Hk as (_ & _ & Hk).
            pose proof (sc_created _ _ C _ _ Hk) as Hcr. rewrite (sc_now _ _ C) in Hcr.
            unfold timer_instant. destruct (N.ltb_spec max_timeout_ms (k_rel k)); [left; assumption|right].
            rewrite <- Hdl. lia.
          * destruct (sd_timers _ _ D _ _ Hin) as (i & k & Hk & Hw). exists i, k.
            rewrite (call_with_id_eq m m' id Ep Ec). auto.
        + intros id o Hv. eapply just_sent_mono; try eassumption.
          * rewrite Es. intros x Hx. apply in_or_app. left; exact Hx.
          * apply (sd_slots _ _ D). exact Hv. }
    destruct r; [exact S1|]. apply sim_complete_request; [exact S1|exact I].
  Qed.

  Lemma v18_send_request maxif m s q r :
    sim m (withq s q) -> v18 (chk_call maxif m (req_call q r)) = true.
  Proof.
    intros [_ _ D]. unfold req_call. cbn [chk_call v18].
    destruct (sd_queue _ _ D q (or_introl eq_refl)) as (i & k & Hk & H1 & H2 & H3 & H4 & H5).
    rewrite Hk, H1, H2, H3, H4, H5, !N.eqb_refl, eqb_reflx. cbn [andb].
    apply forallb_forall. intros x Hx. apply negb_true_iff, N.eqb_neq.
    apply (sd_queue_unsent _ _ D q x); [left; reflexivity|exact Hx].
  Qed.

  (* ---- reading a response *)
  Lemma sim_read_complete m s x :
    sim m s -> sim (rec_call m (CNext (RItem x))) (complete s x).
  Proof.
    intros [C W D].
    set (m' := rec_call m (CNext (RItem x))).
    set (rd := (r_id x, r_body x, m_now m, S (m_seq m))).
    assert (Ep : m_polled m' = m_polled m) by reflexivity.
    assert (Ec : m_calls m' = m_calls m) by reflexivity.
    assert (Es : m_sent m' = m_sent m) by reflexivity.
    assert (Er : m_read m' = m_read m ++ [rd]) by reflexivity.
    assert (Eq : m_seq m' = S (m_seq m)) by reflexivity.
    assert (En : m_now m' = m_now m) by reflexivity.
    assert (J : forall id o, just m id o -> just m' id o).
    { intros id o. destruct o; cbn [just]; try exact (fun H => H).
      - intros (sr & tm & q & H1 & H2 & H3 & H4). exists sr, tm, q. rewrite Er.
        repeat split; try assumption. apply in_or_app; left; exact H3.
      - intros (sr & tm & q & H1 & H2 & H3 & H4). exists sr, tm, q. rewrite Er.
        repeat split; try assumption. apply in_or_app; left; exact H3.
      - intros (sr & i & k & H1 & H2 & H3 & H4). exists sr, i, k. rewrite Er, En.
        rewrite (call_with_id_eq m m' id Ep Ec). repeat split; try assumption.
        destruct H4 as [H4|[H4 H5]]; [left; exact H4|right]. split; [exact H4|].
        intros b tm q Hr Hq. apply in_app_or in Hr. destruct Hr as [Hr|[Hr|[]]]; [eapply H5; eassumption|].
        unfold rd in Hr. injection Hr as _ _ <- _. exact H4. }
    assert (Dm : forall s', calls s' = calls s -> queue s' = queue s ->
               (forall id e, In (id, e) (inflight s') -> In (id, e) (inflight s) /\ id <> r_id x) ->
               (forall y, In y (timers s') -> In y (timers s)) ->
               (forall id v, sl_val (get_slot s' id) = Some v ->
                             sl_val (get_slot s id) = Some v \/ just m' id v) -> simD m' s').
    { intros s' Hc Hq Hf Ht Hv. constructor; rewrite ?Hc, ?Hq, ?Es, ?Er, ?Eq, ?En.
      - intros q Hin. eapply req_of_eq; [exact Ep|exact Ec|]. apply (sd_queue _ _ D), Hin.
      - apply D.
      - apply D.
      - apply D.
      - intros sr Hin. eapply req_of_eq; [exact Ep|exact Ec|]. apply (sd_sent _ _ D), Hin.
      - apply D.
      - intros sr Hin. destruct (sd_sent_seq _ _ D sr Hin). split; lia.
      - intros id b tm q Hr. apply in_app_or in Hr. destruct Hr as [Hr|[Hr|[]]].
        + destruct (sd_read_seq _ _ D _ _ _ _ Hr). split; lia.
        + unfold rd in Hr. injection Hr as _ _ <- <-. split; lia.
      - intros id e Hin. destruct (Hf id e Hin) as [Hin0 Hne].
        destruct (sd_inflight _ _ D _ _ Hin0) as (sr & H1 & H2 & H3 & H4 & H5).
        exists sr. repeat split; try assumption.
        intros b tm q Hr. apply in_app_or in Hr. destruct Hr as [Hr|[Hr|[]]]; [eapply H5; eassumption|].
        unfold rd in Hr. injection Hr as He _ _ _. congruence.
      - intros id w Hin. destruct (sd_timers _ _ D _ _ (Ht _ Hin)) as (i & k & Hk & Hw).
        exists i, k. rewrite (call_with_id_eq m m' id Ep Ec). auto.
      - intros id o Hv'. destruct (Hv id o Hv') as [H|H]; [apply J, (sd_slots _ _ D), H|exact H]. }
    unfold complete, complete_request.
    destruct (alookup (r_id x) (inflight s)) as [e|] eqn:Ef; cbn [snd].
    - constructor.
      + eapply simC_frame; [apply simC_rec_call, C|rewrite slot_send_alt; reflexivity..].
      + eapply winv_frame; [exact W|rewrite slot_send_alt; reflexivity..].
      + apply Dm; try (rewrite slot_send_alt; reflexivity).
        * rewrite slot_send_alt. cbn [inflight set_slot upd_slots upd_if]. intros id e' Hin.
          apply In_aremove in Hin. exact Hin.
        * rewrite slot_send_alt. cbn [timers set_slot upd_slots upd_if]. intros [k v] Hin.
          apply In_aremove in Hin. tauto.
        * intros id v Hv. apply slot_send_val in Hv. destruct Hv as [Hv|[-> ->]]; [left; exact Hv|right].
          apply alookup_in in Ef.
          destruct (sd_inflight _ _ D _ _ Ef) as (sr & H1 & H2 & _).
          destruct (sd_sent_seq _ _ D sr H1) as [Hsq _].
          destruct (r_body x) as [v|k] eqn:Eb; cbn [just]; exists sr, (m_now m), (S (m_seq m));
            rewrite Es, Er; (repeat split; [exact H1|exact H2| |lia]);
            apply in_or_app; right; left; reflexivity.
    - constructor.
      + apply simC_rec_call, C.
      + exact W.
      + apply Dm; try reflexivity.
        * intros id e Hin. split; [exact Hin|]. intros ->.
          apply alookup_none_notin in Ef. apply Ef. apply (in_map fst) in Hin. exact Hin.
        * exact (fun y H => H).
        * intros id v Hv. left; exact Hv.
  Qed.

  (* ---- writing a cancellation *)
  Lemma v18_cancel maxif m id e r :
    cancellable m id e -> v18 (chk_call maxif m (CSend (MCancel id (if_tc e)) r)) = true.
  Proof.
    intros (sr & H1 & H2 & H3). cbn [chk_call v18]. apply existsb_exists. exists sr. split.
    - unfold sent_with_id. apply filter_In. split; [exact H1|]. apply N.eqb_eq, H2.
    - rewrite H3. unfold tctx_eqb. rewrite !N.eqb_refl, eqb_reflx. reflexivity.
  Qed.

  Lemma cancellable_rec_call m c id e : cancellable m id e -> cancellable (rec_call m c) id e.
  Proof.
    intros (sr & H1 & H2 & H3). exists sr. rewrite rec_call_sent. split; [apply in_or_app; left; exact H1|auto].
  Qed.

  (* ---- shutting down *)
  Lemma fold_set_phase_alt p (l : list nat) s :
    fold_left (fun acc w => set_phase acc w p) l s =
    upd_calls s (fold_left (fun cl w => phase_calls cl w p) l (calls s)).
  Proof.
    revert s. induction l as [|w r IH]; intro s; cbn [fold_left].
    - symmetry. apply upd_calls_same.
    - rewrite IH, set_phase_alt. reflexivity.
  Qed.

  Lemma sim_close_waiters m (l : list nat) s :
    sim m s -> waiters s = [] -> NoDup l ->
    (forall w, In w l -> exists c, nth_error (calls s) w = Some c /\ c_phase c = PAcquiring) ->
    sim m (upd_calls s (fold_left (fun cl w => phase_calls cl w PAcqClosed) l (calls s))).
  Proof.
    revert s. induction l as [|w r IH]; intros s S Ew Hnd Hl; cbn [fold_left].
    - rewrite upd_calls_same. exact S.
    - inversion Hnd as [|? ? Hn Hr]; subst.
      destruct (Hl w (or_introl eq_refl)) as (c & Hc & Hp).
      assert (S1 : sim m (upd_calls s (phase_calls (calls s) w PAcqClosed))).
      { eapply (sim_active_step m s _ w c PAcqClosed); try exact S; try exact Hc; try reflexivity.
        - rewrite Hp; reflexivity.
        - discriminate.
        - apply sbc_upd_calls, sbc_refl.
        - cbn [waiters upd_calls]. rewrite Ew. intros w' [].
        - cbn [waiters upd_calls]. rewrite Ew. constructor. }
      specialize (IH _ S1). cbn [calls waiters upd_calls] in IH. apply IH; [exact Ew|exact Hr|].
      intros w' Hin. destruct (Hl w' (or_intror Hin)) as (c' & Hc' & Hp'). exists c'. split; [|exact Hp'].
      rewrite nth_error_phase_calls. destruct (Nat.eqb w w') eqn:E; [|exact Hc'].
      apply Nat.eqb_eq in E. subst. contradiction.
  Qed.

  Lemma sim_q_close m s : sim m s -> sim m (q_close s).
  Proof.
    intro S. unfold q_close. destruct (rx_closed s); [exact S|].
    rewrite fold_set_phase_alt. cbn [permits queue upd_calls].
    assert (S0 : sim m (upd_q s (permits s) (queue s) [] (rx_closed s))).
    { destruct S as [C W D]. constructor.
      - eapply simC_frame; [exact C|reflexivity..].
      - constructor; cbn [waiters upd_q]; [intros w []|constructor].
      - eapply simD_frame; [exact D|reflexivity..]. }
    pose proof (sim_close_waiters m (waiters s) _ S0 eq_refl (w_nodup _ (sim_w _ _ S))
                                  (w_acq _ (sim_w _ _ S))) as S1.
    eapply sim_sbc; [exact S1| |reflexivity..].
    constructor; try reflexivity. apply same_vals_slots. reflexivity.
  Qed.

  Lemma sim_fold_slot_send m {A} (f : A -> N) (o : outcome) (l : list A) s :
    (forall id, just m id o) -> sim m s -> sim m (fold_left (fun acc p => slot_send acc (f p) o) l s).
  Proof.
    intros J. revert s. induction l as [|a r IH]; intros s S; cbn [fold_left]; [exact S|].
    apply IH. apply sim_slot_send; [exact S|apply J].
  Qed.

  Lemma sim_complete_all m s a : sim m s -> sim m (complete_all s (OConnErr a)).
  Proof.
    intro S. unfold complete_all. apply sim_fold_slot_send; [intro; exact I|].
    eapply sim_shrink; [exact S|reflexivity..| | |].
    - intros x [].
    - intros x [].
    - intros id v Hv. left; exact Hv.
  Qed.
End DispatchM.

(* ------------------------------------------------------------------------------------------ *)
(* 8. the dispatch: one lemma per micro-function, `dsim s -> dsim (snd (f s))` *)
Section PlogFrames.
  Context {T : Type}.
  Notation cstate := (@cstate T).
  Implicit Types (s : cstate).

  Lemma plog_release_permit s : plog (release_permit s) = plog s.
  Proof. unfold release_permit. destruct (waiters s); rewrite ?set_phase_alt; reflexivity. Qed.
  Lemma plog_q_poll_recv s : plog (snd (q_poll_recv s)) = plog s.
  Proof.
    unfold q_poll_recv. destruct (queue s); cbn [snd].
    - destruct (Nat.eqb (senders s) 0); [reflexivity|].
      destruct (rx_closed s && Nat.eqb (assigned_count s) 0); reflexivity.
    - rewrite plog_release_permit. reflexivity.
  Qed.
  Lemma plog_slot_send s id o : plog (slot_send s id o) = plog s.
  Proof. rewrite slot_send_alt. reflexivity. Qed.
  Lemma plog_complete_request s id o : plog (snd (complete_request s id o)) = plog s.
  Proof.
    unfold complete_request. destruct (alookup id (inflight s)); [|reflexivity].
    cbn [snd]. rewrite plog_slot_send. reflexivity.
  Qed.
  Lemma plog_complete s x : plog (complete s x) = plog s.
  Proof. apply plog_complete_request. Qed.
  Lemma plog_cancel_request s id : plog (snd (cancel_request s id)) = plog s.
  Proof. unfold cancel_request. destruct (alookup id (inflight s)); reflexivity. Qed.
  Lemma plog_c_poll_recv s : plog (snd (c_poll_recv s)) = plog s.
  Proof.
    unfold c_poll_recv. destruct (cancels s); [|reflexivity].
    destruct (Nat.eqb (senders s) 0); reflexivity.
  Qed.
  Lemma plog_poll_expired s : plog (snd (poll_expired s)) = plog s.
  Proof.
    unfold poll_expired. destruct (min_timer (timers s) None) as [[id w]|]; [|reflexivity].
    destruct (w <=? now s); [|reflexivity].
    destruct (alookup id (inflight (upd_if s (inflight s) (aremove id (timers s))))); cbn [snd];
      rewrite ?plog_slot_send; reflexivity.
  Qed.
  Lemma plog_q_close s : plog (q_close s) = plog s.
  Proof. unfold q_close. destruct (rx_closed s); [reflexivity|]. rewrite fold_set_phase_alt. reflexivity. Qed.
  Lemma plog_fold_slot_send {A} (f : A -> N) o (l : list A) s :
    plog (fold_left (fun acc p => slot_send acc (f p) o) l s) = plog s.
  Proof.
    revert s. induction l as [|a r IH]; intro s; cbn [fold_left]; [reflexivity|].
    rewrite IH. apply plog_slot_send.
  Qed.
  Lemma plog_complete_all s o : plog (complete_all s o) = plog s.
  Proof. unfold complete_all. rewrite plog_fold_slot_send. reflexivity. Qed.
End PlogFrames.

Section Dispatch.
  Context {T : Type} (tp : transport T cmsg resp) (maxif : nat) (mb : mst).
  Notation cstate := (@cstate T).
  Implicit Types (s : cstate).

  (* the observer after the transport calls logged so far in the poll in progress *)
  Definition cur s : mst := mrun mb (plog s).

  Record dsim s : Prop := {
    ds_sim : sim (cur s) s;
    ds_v18 : v18 (fst (chk_calls maxif mb (plog s))) = true }.

  Lemma dsim_same_log s s' : dsim s -> plog s' = plog s -> sim (cur s) s' -> dsim s'.
  Proof.
    intros [H1 H2] E H. constructor; unfold cur in *; rewrite E; assumption.
  Qed.

  Lemma dsim_step s s' c :
    dsim s -> plog s' = plog s ++ [c] -> sim (rec_call (cur s) c) s' ->
    v18 (chk_call maxif (cur s) c) = true -> dsim s'.
  Proof.
    intros [H1 H2] E H V. constructor; unfold cur in *; rewrite E.
    - rewrite mrun_snoc. exact H.
    - rewrite chk_calls_snoc. cbn [vand v18]. rewrite H2, V. reflexivity.
  Qed.

  Lemma dsim_other s t f c :
    dsim s -> sent_of (cur s) c = [] -> read_of (cur s) c = [] ->
    v18 (chk_call maxif (cur s) c) = true -> dsim (upd_tr s t f (plog s ++ [c])).
  Proof.
    intros H Es Er V. eapply dsim_step; [exact H|reflexivity| |exact V].
    eapply sim_frame; [apply sim_rec_other; [apply H|exact Es|exact Er]|reflexivity..].
  Qed.

  Lemma dsim_do_ready s : dsim s -> dsim (snd (do_ready tp s)).
  Proof.
    intro H. unfold do_ready. destruct (t_ready tp (tr s)) as [r t]. cbn [snd].
    apply dsim_other; [exact H|reflexivity..].
  Qed.
  Lemma dsim_do_flush s : dsim s -> dsim (snd (do_flush tp s)).
  Proof.
    intro H. unfold do_flush. destruct (t_flush tp (tr s)) as [r t]. cbn [snd].
    apply dsim_other; [exact H|reflexivity..].
  Qed.
  Lemma dsim_do_close s : dsim s -> dsim (snd (do_close tp s)).
  Proof.
    intro H. unfold do_close. destruct (t_close tp (tr s)) as [r t]. cbn [snd].
    apply dsim_other; [exact H|reflexivity..].
  Qed.

  Lemma dsim_pump_read s : dsim s -> dsim (snd (pump_read tp s)).
  Proof.
    intro H. unfold pump_read, do_next. destruct (fused s); [exact H|].
    destruct (t_next tp (tr s)) as [r t]. destruct r as [x| | |]; cbn [snd];
      try (apply dsim_other; [exact H|reflexivity..]).
    eapply dsim_step; [exact H|rewrite plog_complete; reflexivity| |reflexivity].
    apply sim_read_complete. eapply sim_frame; [apply H|reflexivity..].
  Qed.

  Lemma dsim_ensure_writeable s : dsim s -> dsim (snd (ensure_writeable tp s)).
  Proof.
    intro H. unfold ensure_writeable.
    destruct (do_ready tp s) as [r s1] eqn:E1. pose proof (dsim_do_ready s H) as H1.
    rewrite E1 in H1. cbn [snd] in H1. destruct r; try exact H1.
    destruct (do_flush tp s1) as [f s2] eqn:E2. pose proof (dsim_do_flush s1 H1) as H2.
    rewrite E2 in H2. cbn [snd] in H2. destruct f; try exact H2.
    destruct (do_ready tp s2) as [r2 s3] eqn:E3. pose proof (dsim_do_ready s2 H2) as H3.
    rewrite E3 in H3. cbn [snd] in H3. destruct r2; exact H3.
  Qed.

  Lemma dsim_withq_drop s q : dsim (withq s q) -> dsim s.
  Proof. intros [H1 H2]. constructor; [eapply sim_withq_drop; exact H1|exact H2]. Qed.

  Lemma dsim_next_request_loop f s :
    dsim s ->
    match fst (next_request_loop f s) with
    | PSome q => dsim (withq (snd (next_request_loop f s)) q)
    | _ => dsim (snd (next_request_loop f s))
    end.
  Proof.
    revert s. induction f as [|f IH]; intros s H; cbn [next_request_loop]; [exact H|].
    pose proof (sim_q_poll_recv _ _ (ds_sim _ H)) as R. pose proof (plog_q_poll_recv s) as L.
    destruct (q_poll_recv s) as [r s1]. cbn [fst snd] in R, L.
    destruct r as [q| |]; cbn [fst snd]; try (subst s1; exact H).
    assert (Hq : dsim (withq s1 q)).
    { destruct H as [H1 H2]. constructor; unfold cur in *; cbn [plog withq upd_q]; rewrite L; assumption. }
    destruct (sl_rx_closed (get_slot s1 (q_id q))); [|exact Hq].
    apply IH. apply dsim_withq_drop in Hq.
    eapply dsim_same_log; [exact Hq|reflexivity|].
    eapply sim_sbc; [apply Hq|apply sbc_tx_drop, sbc_refl|reflexivity..].
  Qed.

  Lemma dsim_poll_next_request s :
    dsim s ->
    match fst (poll_next_request tp s) with
    | PSome q => dsim (withq (snd (poll_next_request tp s)) q)
    | _ => dsim (snd (poll_next_request tp s))
    end.
  Proof.
    intro H. unfold poll_next_request. destruct (max_if s <=? length (inflight s))%nat; [exact H|].
    destruct (ensure_writeable tp s) as [w s1] eqn:E1. pose proof (dsim_ensure_writeable s H) as H1.
    rewrite E1 in H1. cbn [snd] in H1. destruct w; try exact H1.
    apply dsim_next_request_loop, H1.
  Qed.

  Lemma dsim_poll_write_request s : dsim s -> dsim (snd (poll_write_request tp s)).
  Proof.
    intro H. unfold poll_write_request.
    pose proof (dsim_poll_next_request s H) as H1.
    destruct (poll_next_request tp s) as [r s1]. cbn [fst snd] in H1.
    destruct r as [q| | |a]; try exact H1.
    unfold do_send.
    destruct (t_send tp (tr (insert_request s1 q)) (MReq (q_id q) (q_deadline q) (q_tc q) (q_body q)))
      as [w t].
    pose proof (sim_send_request (cur s1) s1 q w t (fused (insert_request s1 q))
                  (plog (insert_request s1 q) ++ [req_call q w]) (ds_sim _ H1)) as S2.
    pose proof (v18_send_request maxif (cur s1) s1 q w (ds_sim _ H1)) as V2.
    apply dsim_withq_drop in H1.
    destruct w; cbn [snd].
    - eapply dsim_step; [exact H1|reflexivity|exact S2|exact V2].
    - eapply dsim_step; [exact H1|rewrite plog_complete_request; reflexivity|exact S2|exact V2].
  Qed.

  Lemma dsim_next_cancel_loop f s :
    dsim s ->
    dsim (snd (next_cancel_loop f s)) /\
    forall id e, fst (next_cancel_loop f s) = PSome (id, e) ->
                 cancellable (cur (snd (next_cancel_loop f s))) id e.
  Proof.
    revert s. induction f as [|f IH]; intros s H; cbn [next_cancel_loop]; [split; [exact H|discriminate]|].
    assert (H1 : dsim (snd (c_poll_recv s))).
    { eapply dsim_same_log; [exact H|apply plog_c_poll_recv|].
      unfold c_poll_recv. destruct (cancels s); [destruct (Nat.eqb (senders s) 0); apply H|].
      eapply sim_frame; [apply H|reflexivity..]. }
    destruct (c_poll_recv s) as [r s1]. cbn [snd] in H1.
    destruct r as [id| |]; cbn [fst snd]; try (split; [exact H1|discriminate]).
    pose proof (sim_cancel_request _ _ id (ds_sim _ H1)) as [S2 C2].
    pose proof (plog_cancel_request s1 id) as L2.
    destruct (cancel_request s1 id) as [e s2]. cbn [fst snd] in S2, C2, L2.
    assert (H2 : dsim s2) by (eapply dsim_same_log; [exact H1|exact L2|exact S2]).
    destruct e as [e|]; cbn [fst snd].
    - split; [exact H2|]. intros id' e' [= <- <-]. unfold cur. rewrite L2. apply C2. reflexivity.
    - apply IH, H2.
  Qed.

  Lemma dsim_poll_write_cancel s : dsim s -> dsim (snd (poll_write_cancel tp s)).
  Proof.
    intro H. unfold poll_write_cancel, poll_next_cancellation.
    destruct (ensure_writeable tp s) as [w s1] eqn:E1. pose proof (dsim_ensure_writeable s H) as H1.
    rewrite E1 in H1. cbn [snd] in H1. destruct w; try exact H1.
    pose proof (dsim_next_cancel_loop (S (length (cancels s1))) s1 H1) as [H2 C2].
    destruct (next_cancel_loop (S (length (cancels s1))) s1) as [r s2]. cbn [fst snd] in H2, C2.
    destruct r as [[id e]| | |a]; try exact H2.
    unfold do_send. destruct (t_send tp (tr s2) (MCancel id (if_tc e))) as [w t].
    assert (H3 : dsim (upd_tr s2 t (fused s2) (plog s2 ++ [CSend (MCancel id (if_tc e)) w]))).
    { apply dsim_other; [exact H2|reflexivity|reflexivity|]. apply v18_cancel, C2. reflexivity. }
    destruct w; exact H3.
  Qed.

  Lemma dsim_poll_expired s : dsim s -> dsim (snd (poll_expired s)).
  Proof.
    intro H. eapply dsim_same_log; [exact H|apply plog_poll_expired|apply sim_poll_expired, H].
  Qed.

  Lemma dsim_pump_write s : dsim s -> dsim (snd (pump_write tp s)).
  Proof.
    intro H. unfold pump_write.
    destruct (poll_write_request tp s) as [r1 s1] eqn:E1. pose proof (dsim_poll_write_request s H) as H1.
    rewrite E1 in H1. cbn [snd] in H1.
    destruct r1 as [u| | |a]; try exact H1;
      (destruct (poll_write_cancel tp s1) as [r2 s2] eqn:E2;
       pose proof (dsim_poll_write_cancel s1 H1) as H2; rewrite E2 in H2; cbn [snd] in H2;
       destruct r2 as [u| | |a]; try exact H2;
       (destruct (poll_expired s2) as [e s3] eqn:E3; pose proof (dsim_poll_expired s2 H2) as H3;
        rewrite E3 in H3; cbn [snd] in H3; destruct e; [exact H3|];
        first [ destruct (do_close tp s3) as [c s4] eqn:E4; pose proof (dsim_do_close s3 H3) as H4;
                rewrite E4 in H4; destruct c; exact H4
              | destruct (do_flush tp s3) as [f s4] eqn:E4; pose proof (dsim_do_flush s3 H3) as H4;
                rewrite E4 in H4; destruct f; exact H4 ])).
  Qed.

  Lemma dsim_run_loop f s : dsim s -> dsim (snd (run_loop tp f s)).
  Proof.
    revert s. induction f as [|f IH]; intros s H; cbn [run_loop]; [exact H|].
    destruct (pump_read tp s) as [rd s1] eqn:E1. pose proof (dsim_pump_read s H) as H1.
    rewrite E1 in H1. cbn [snd] in H1.
    destruct rd as [u| | |a]; try exact H1;
      (destruct (pump_write tp s1) as [wr s2] eqn:E2; pose proof (dsim_pump_write s1 H1) as H2;
       rewrite E2 in H2; cbn [snd] in H2;
       destruct wr as [u'| | |a']; try exact H2; try (apply IH; exact H2);
       destruct (Nat.eqb (length (inflight s2)) 0); try exact H2; try (apply IH; exact H2)).
  Qed.

  Lemma dsim_drain_loop f a s : dsim s -> dsim (snd (drain_loop f a s)).
  Proof.
    revert s. induction f as [|f IH]; intros s H; cbn [drain_loop]; [exact H|].
    pose proof (sim_q_poll_recv _ _ (ds_sim _ H)) as R. pose proof (plog_q_poll_recv s) as L.
    destruct (q_poll_recv s) as [r s1]. cbn [fst snd] in R, L.
    destruct r as [q| |]; cbn [fst snd]; try (subst s1; exact H).
    apply IH. eapply dsim_same_log; [exact H|rewrite plog_slot_send; exact L|].
    apply sim_slot_send; [eapply sim_withq_drop; exact R|exact I].
  Qed.

  Lemma dsim_shut_down s a : dsim s -> dsim (snd (shut_down s a)).
  Proof.
    intro H. unfold shut_down. apply dsim_drain_loop.
    eapply dsim_same_log; [exact H|rewrite plog_complete_all, plog_q_close; reflexivity|].
    apply sim_complete_all, sim_q_close, H.
  Qed.

  Lemma dsim_poll_dispatch f s : dsim s -> dsim (snd (poll_dispatch tp f s)).
  Proof.
    intro H. unfold poll_dispatch. destruct (terminal s) as [a|].
    - pose proof (dsim_shut_down s a H) as H1. destruct (shut_down s a) as [b s1]. destruct b; exact H1.
    - pose proof (dsim_run_loop f s H) as H1. destruct (run_loop tp f s) as [r s1]. cbn [snd] in H1.
      destruct r as [|a| |]; try exact H1.
      assert (H2 : dsim (upd_term s1 (Some a))).
      { eapply dsim_same_log; [exact H1|reflexivity|]. eapply sim_frame; [apply H1|reflexivity..]. }
      pose proof (dsim_shut_down _ a H2) as H3.
      destruct (shut_down (upd_term s1 (Some a)) a) as [b s3]. destruct b; exact H3.
  Qed.
End Dispatch.

(* ------------------------------------------------------------------------------------------ *)
(* 9. every op keeps the relation *)
Section StepSim.
  Context {T : Type} (tp : transport T cmsg resp) (fuel_of : @cstate T -> nat) (maxif : nat).
  Notation cstate := (@cstate T).
  Notation op := (@op T).
  Implicit Types (s : cstate) (m : mst).

  Lemma sim_init t0 qcap mif : sim m0 (init (T:=T) t0 qcap mif).
  Proof.
    assert (E : forall A (x : A) (i : nat), nth_error (@nil A) i = Some x -> False).
    { intros A x [|i]; discriminate. }
    constructor.
    - constructor; cbn; try reflexivity; try (intros; contradiction); try constructor;
        try (intros; exfalso; eapply E; eassumption).
    - constructor; cbn; [intros w []|constructor].
    - constructor; cbn; try (intros; contradiction); try constructor;
        try (intros; exfalso; eapply E; eassumption).
      intros id o H. discriminate.
  Qed.

  Lemma sim_drop_dispatch_op m s :
    sim m s -> sim (rec_op (T:=T) m DropDispatch) (fst (step tp fuel_of s DropDispatch)).
  Proof.
    intro S. cbn [step fst rec_op].
    assert (M : sim (upd_m m (m_now m) (m_calls m) (m_done m) (m_abandoned m) (m_closing m)
                           (m_polled m) (m_disp m) true (m_handles m) (m_contract m)) s).
    { eapply sim_meq; [exact S|constructor; reflexivity|reflexivity..]. }
    destruct (dropped s); [exact M|]. clear S. revert M.
    generalize (upd_m m (m_now m) (m_calls m) (m_done m) (m_abandoned m) (m_closing m)
                      (m_polled m) (m_disp m) true (m_handles m) (m_contract m)). clear m. intros m S.
    unfold drop_dispatch.
    pose proof (sim_q_close _ _ S) as S1. set (s1 := q_close s) in *.
    assert (F : forall {A} (f : A -> N) (l : list A) (x : cstate),
              sim m x -> sim m (fold_left (fun acc q => slot_tx_drop acc (f q)) l x)).
    { intros A f l. induction l as [|a r IH]; intros x Sx; cbn [fold_left]; [exact Sx|].
      apply IH. eapply sim_sbc; [exact Sx|apply sbc_tx_drop, sbc_refl|reflexivity..]. }
    pose proof (F _ q_id (queue s1) s1 S1) as S2.
    set (s2 := fold_left (fun acc q => slot_tx_drop acc (q_id q)) (queue s1) s1) in *.
    pose proof (F _ fst (inflight s2) s2 S2) as S3.
    set (s3 := fold_left (fun acc p => slot_tx_drop acc (fst p)) (inflight s2) s2) in *.
    destruct S3 as [C W D]. constructor.
    - eapply simC_frame; [exact C|reflexivity..].
    - constructor; cbn; [intros w []|constructor].
    - constructor; cbn [calls queue inflight timers upd_fin upd_cancels upd_if upd_q]; try apply D;
        try (intros; contradiction).
      + constructor.
      + intros i c Hc Hst. destruct (sd_staged _ _ D i c Hc Hst) as [_ H2]. split; [intros q []|exact H2].
  Qed.

  Lemma chk_obs_nil m (o : op) : chk_obs maxif o m [] = (vtrue, rec_op m o).
  Proof. destruct o; reflexivity. Qed.

  Lemma polled_rec_op_le m (o : op) :
    (length (m_polled (rec_op m o)) <= S (length (m_polled m)))%nat.
  Proof.
    destruct o; cbn [rec_op]; try lia.
    - destruct (nth_error (m_handles m) h) as [[|]|]; cbn; lia.
    - destruct (nth_error (m_handles m) h) as [[|]|]; cbn; lia.
    - cbn. lia.
    - cbn [m_polled upd_m]. destruct (_ || _); [lia|rewrite app_length; cbn; lia].
    - destruct (_ || _); cbn; lia.
    - destruct (_ || _); [lia|]. destruct (mem_nat i (m_polled m)); cbn; lia.
    - destruct (mem_nat i (m_closing m)); cbn; lia.
    - cbn. lia.
    - cbn. lia.
  Qed.

  (* the dispatch poll *)
  Lemma sim_poll_dispatch_op m s :
    sim m s ->
    let '(s', os) := step tp fuel_of s PollDispatch in
    match os with
    | [] => s' = s
    | [OCalls l; ODisp r; OGauge a b] =>
      sim (mrun m l) s' /\ v18 (fst (chk_calls maxif m l)) = true
    | _ => False
    end.
  Proof.
    intro S. cbn [step]. destruct (finished s); [reflexivity|]. destruct (dropped s); [reflexivity|].
    set (s0 := upd_tr s (tr s) (fused s) []).
    assert (H0 : dsim maxif m s0).
    { constructor; [|reflexivity]. unfold cur. cbn. eapply sim_frame; [exact S|reflexivity..]. }
    pose proof (dsim_poll_dispatch tp maxif m (fuel_of s0) s0 H0) as H1.
    destruct (poll_dispatch tp (fuel_of s0) s0) as [r s1]. cbn [snd] in H1.
    unfold gauges. cbn [app]. destruct H1 as [H1 V1]. split; [|exact V1].
    unfold cur in H1. destruct r as [d| |]; eapply sim_frame; try exact H1; reflexivity.
  Qed.

  Theorem sim_step m s (o : op) :
    sim m s -> N.of_nat (S (length (m_polled m))) < two64 ->
    sim (snd (chk_obs maxif o m (snd (step tp fuel_of s o)))) (fst (step tp fuel_of s o)).
  Proof.
    intros S Hw. destruct o.
    - cbn [step snd]. rewrite chk_obs_nil. apply (sim_clone_handle tp fuel_of), S.
    - cbn [step snd]. rewrite chk_obs_nil. apply (sim_drop_handle tp fuel_of), S.
    - cbn [step snd]. rewrite chk_obs_nil. apply (sim_call tp fuel_of), S.
    - cbn [step]. pose proof (sim_poll_call m s i) as P.
      destruct (poll_call s i) as [r s']. specialize (P r s' S Hw eq_refl).
      destruct r as [|o|]; cbn [fst snd chk_obs]; [exact P|apply P|exact P].
    - change (snd (step tp fuel_of s (DropCall i))) with (@nil obs). rewrite chk_obs_nil.
      apply (sim_drop_call_op tp fuel_of), S.
    - change (snd (step tp fuel_of s (GuardClose i))) with (@nil obs). rewrite chk_obs_nil.
      apply (sim_guard_close_op tp fuel_of), S.
    - cbn [step snd]. rewrite chk_obs_nil. apply (sim_guard_cancel_op tp fuel_of), S.
    - pose proof (sim_poll_dispatch_op m s S) as P.
      destruct (step tp fuel_of s PollDispatch) as [s' os]. cbn [fst snd].
      destruct os as [|[| |rc|l|rd|a1 b1] [|[| |rc2|l2|r|a2 b2] [|[| |rc3|l3|r3|a b] [|? ?]]]]; try contradiction.
      + subst s'. cbn. exact S.
      + destruct P as [P _]. cbn [chk_obs rec_op].
        pose proof (chk_calls_snd maxif m l) as E. destruct (chk_calls maxif m l) as [v m2]. cbn [snd] in E.
        subst m2. destruct (c_poll _ _ _) as [okc c2]. cbn [snd].
        eapply sim_meq; [exact P|constructor; reflexivity|reflexivity..].
    - change (snd (step tp fuel_of s DropDispatch)) with (@nil obs). rewrite chk_obs_nil.
      apply sim_drop_dispatch_op, S.
    - cbn [step snd]. rewrite chk_obs_nil. apply (sim_advance tp fuel_of), S.
    - cbn [step snd]. rewrite chk_obs_nil. apply (sim_tr tp fuel_of), S.
  Qed.

  Lemma polled_chk_obs_le m (o : op) os :
    (length (m_polled (snd (chk_obs maxif o m os))) <= S (length (m_polled m)))%nat.
  Proof.
    pose proof (polled_rec_op_le m o) as H.
    unfold chk_obs.
    destruct o; try (destruct os as [|? ?]; cbn [snd]; exact H).
    - destruct os as [|[| |[|out|]| | |] [|? ?]]; cbn [snd]; try exact H.
    - destruct os as [|[| |rc|l|rd|a1 b1] [|[| |rc2|l2|r|a2 b2] [|[| |rc3|l3|r3|a b] [|? ?]]]]; cbn [snd]; try exact H.
      pose proof (chk_calls_snd maxif (rec_op (T:=T) m PollDispatch) l) as E.
      destruct (chk_calls maxif (rec_op (T:=T) m PollDispatch) l) as [v m2]. cbn [snd] in E. subst m2.
      destruct (c_poll _ _ _) as [okc c2]. cbn [snd m_polled upd_m]. rewrite mrun_polled. exact H.
  Qed.
End StepSim.

