(* HostileProofs.v -- C16 "no peer-supplied input can crash an endpoint": proofs about the
   executable model Hostile.v.

   Route: the arithmetic of the server and client modes is Time.v, whose no-panic theorems
   (TimeProofs: decode_no_panic, field_no_panic, arm_no_panic, client_no_panic) are composed here
   into "one step of the model never emits OPanic"; the stream mode is Framing.v, whose theorems
   (FramingProofs: framing_any_chunking_holds, framing_truncated_holds) give what the reader
   yields.  The monitor c16_ok is then shown to accept every run, by an invariant per mode that
   relates the model's state to the monitor's.

   A script's leading Age ops are folded into the environment by hrun (aged_env): the theorems
   take their premises on the aged environment, the step lemmas are stated for any environment.

   One statement was FALSE as first written: env_ok does not bound e_elapsed from above, so the
   timer wheel may be AHEAD of the clock by the 10 s default deadline; a probe's timer is then
   born expired, the request is forgotten before it is answered, and the monitor's probe clause
   fails (c16_wheel_ahead_refuted).  Since a timer armed at a tick the clock has reached is due
   at once (Hostile.due), there is a second, astronomically remote way for a probe to go
   unanswered: a queue so old (584 million years) that tokio-util's ms() saturates at u64::MAX
   (c16_wheel_saturated_refuted).  The extra premise wheel_env, needed in server mode only,
   excludes both; wheel_env_necessary shows it is exactly what the probe clause needs. *)
From Coq Require Import List NArith ZArith Bool Arith Lia.
Import ListNotations.
From TarpcV Require Import Base Schema Time TimeProofs Framing FramingProofs Hostile.

(* the environment ranges under which the endpoint's arithmetic is safe (see TimeProofs) *)
Definition env_ok (e : env) : Prop :=
  mono_env (e_now e) /\ wall_env (e_wall e) /\ dq_env (e_start e) (e_elapsed e) (e_now e).
(* what the wire can carry: secs is a u64, nanos a u32; ids are u64; frames fit the 8 MiB cap *)
Definition hop_wf (o : hop) : Prop :=
  match o with
  | SReq _ (Some (secs, nanos)) _ => (secs < 18446744073709551616)%N /\ (nanos < 4294967296)%N
  | CCall _ secs nanos => (secs < 18446744073709551616)%N /\ (nanos < 4294967296)%N
  | MFrame p => (blen p <= max_frame_default)%N
  | _ => True
  end.

(* ADDED PREMISE (server mode).  The timer wheel has not run ahead of the clock by the 10 s
   default deadline: elapsed (ms) is below the u64 saturation point of tokio-util's ms(), and
   strictly before now + 10 s counted from the queue's start; and the queue's age in ms is itself
   below that saturation point.  Equivalently (probe_arm below): the timer of a request carrying
   the default deadline is armed at a tick the clock has not reached yet: it is not due at once. *)
Definition wheel_env (e : env) : Prop :=
  (e_elapsed e < u64_max /\
   e_elapsed e * 1000000 < ts_ns (e_now e) - ts_ns (e_start e) + default_deadline_secs * NS /\
   ts_ns (e_now e) - ts_ns (e_start e) < u64_max * 1000000)%Z.

Lemma max_frame_u32 : (max_frame_default < 4294967296)%N.
Proof. reflexivity. Qed.

Opaque max_frame_default.

(* ------------------------------------------------------------------------------------------ *)
(* running a script, one step at a time *)

Lemma hrun_from_cons : forall c e s o r,
  fst (hrun_from c e s (o :: r)) =
  snd (hstep c e s o) :: fst (hrun_from c e (fst (hstep c e s o)) r).
Proof.
  intros c e s o r. cbn [hrun_from].
  destruct (hstep c e s o) as [s1 l]. cbn [fst snd].
  destruct (hrun_from c e s1 r) as [ls s2]. reflexivity.
Qed.

Lemma hstep_over : forall c e s o, over s = true -> hstep c e s o = (s, []).
Proof. intros c e s o H. unfold hstep. rewrite H. reflexivity. Qed.

Lemma hstep_live : forall c e s o, over s = false ->
  hstep c e s o = match mode c with
                  | MServer => server_step c e s o
                  | MClient => client_step c e s o
                  | MStream => stream_step c s o
                  end.
Proof. intros c e s o H. unfold hstep. rewrite H. reflexivity. Qed.

(* ------------------------------------------------------------------------------------------ *)
(* arithmetic: what the wire and a local caller can hand to the endpoint *)
Local Open Scope Z_scope.

(* a script without leading Age runs in the environment as given *)
Lemma aged_env_0 : forall e, aged_env e 0 = e.
Proof.
  intros [[ns nn] [ws wn] st el]. unfold aged_env, shift_secs.
  cbn [e_now e_wall e_start e_elapsed t_secs t_nanos]. rewrite !Z.add_0_r. reflexivity.
Qed.

(* every raw (secs, nanos) pair that serde accepts is a Duration *)
Lemma wire_duration_wf : forall secs nanos d, wire_duration secs nanos = Some d -> dur_wf d.
Proof.
  intros secs nanos d. unfold wire_duration.
  destruct (u64_max <? Z.of_N secs + Z.of_N nanos / NS) eqn:E; [discriminate|].
  intros [= <-]. apply Z.ltb_ge in E. unfold dur_wf. cbn [d_secs d_nanos].
  pose proof (N2Z.is_nonneg secs). pose proof (N2Z.is_nonneg nanos).
  lits. Z.div_mod_to_equations. lia.
Qed.

Lemma from_secs_wf : forall n, 0 <= n <= u64_max -> dur_wf (from_secs n) /\ dur_ns (from_secs n) = n * NS.
Proof.
  intros n H. unfold from_secs, dur_wf, dur_ns. cbn [d_secs d_nanos]. lits. lia.
Qed.

Lemma flood_deadline_wf : dur_wf (from_secs 3600).
Proof. apply from_secs_wf. lits. lia. Qed.

Lemma default_deadline_wf : dur_wf (from_secs default_deadline_secs).
Proof. apply from_secs_wf. lits. lia. Qed.

(* Timespec::checked_sub_duration: when it answers, the answer is an Instant *)
Lemma ts_checked_sub_some : forall t d x, ts_wf t -> dur_wf d -> ts_checked_sub t d = Some x ->
  ts_ns x = ts_ns t - dur_ns d /\ ts_wf x.
Proof.
  intros [ts tn] [ds dn] x [Ht1 Ht2] [Hd1 Hd2]. unfold ts_checked_sub, ts_ns, dur_ns, ts_wf in *.
  cbn [t_secs t_nanos d_secs d_nanos] in *.
  destruct (ts - ds <? i64_min) eqn:E1; [discriminate|]. apply Z.ltb_ge in E1.
  destruct (tn - dn <? 0) eqn:E2.
  - apply Z.ltb_lt in E2.
    destruct (ts - ds - 1 <? i64_min) eqn:E3; [discriminate|]. apply Z.ltb_ge in E3.
    intros [= <-]. cbn [t_secs t_nanos]. lits. lia.
  - apply Z.ltb_ge in E2. intros [= <-]. cbn [t_secs t_nanos]. lits. lia.
Qed.

(* every deadline a local caller can build is an Instant *)
Lemma caller_deadline_wf : forall e neg secs nanos D, env_ok e ->
  caller_deadline e neg secs nanos = Some D -> ts_wf D.
Proof.
  intros e neg secs nanos D (Hm & _ & _). unfold caller_deadline.
  destruct (wire_duration secs nanos) as [d|] eqn:W; [|discriminate].
  apply wire_duration_wf in W. destruct neg; intro H.
  - exact (proj2 (ts_checked_sub_some _ _ _ (proj1 Hm) W H)).
  - exact (proj2 (ts_checked_add_some _ _ _ (proj1 Hm) W H)).
Qed.

(* ------------------------------------------------------------------------------------------ *)
(* server: the reaction to one request *)

Definition w_wf (w : option duration) : Prop := match w with Some d => dur_wf d | None => True end.

(* what start_request does once the deadline is decoded and the timer's fate is known *)
Definition req_out (e : env) (s : hst) (id : N) (hang : bool) (a : armed) : hst * list hobs :=
  if due e a then (if hang then (s, [OStarted id; OAborted id]) else (s, [OStarted id]))
  else if hang then (set_inflight s (id :: inflight s), [OStarted id])
  else (s, [OStarted id; OServed id]).

Lemma server_request_shape : forall c e s id w hang, env_ok e -> w_wf w ->
  exists D a, de_context_deadline (e_now e) w = Ok D /\ ts_wf D /\
    arm_timer (e_start e) (e_elapsed e) (e_now e) (e_now e) D = Ok a /\
    server_request c e s id w hang =
      if mem id (inflight s) then (s, []) else req_out e s id hang a.
Proof.
  intros c e s id w hang (Hm & Hw & Hq) Hd.
  assert (DD : exists D, de_context_deadline (e_now e) w = Ok D /\ ts_wf D).
  { destruct w as [d|].
    - destruct (decode_no_panic (e_now e) d Hm Hd) as (D & H1 & H2 & _). exists D. tauto.
    - destruct (default_deadline_holds (e_now e) Hm) as (D & H1 & H2 & _). exists D. tauto. }
  destruct DD as (D & HD & HDw).
  destruct (arm_no_panic (e_start e) (e_elapsed e) (e_now e) (e_now e) D (proj1 Hm) Hm HDw Hq)
    as (a & Ha).
  exists D, a. split; [assumption|]. split; [assumption|]. split; [assumption|].
  unfold server_request. rewrite HD.
  rewrite (field_no_panic (listening c) (e_wall e) (e_now e) D Hw (proj1 Hm) HDw).
  destruct (mem id (inflight s)); [reflexivity|].
  rewrite Ha. reflexivity.
Qed.

Lemma req_out_no_panic : forall e s id hang a, has_panic (snd (req_out e s id hang a)) = false.
Proof. intros e s id hang a. unfold req_out. destruct (due e a), hang; reflexivity. Qed.

Lemma server_request_no_panic : forall c e s id w hang, env_ok e -> w_wf w ->
  has_panic (snd (server_request c e s id w hang)) = false.
Proof.
  intros c e s id w hang He Hw.
  destruct (server_request_shape c e s id w hang He Hw) as (D & a & _ & _ & _ & ->).
  destruct (mem id (inflight s)); [reflexivity|apply req_out_no_panic].
Qed.

Lemma server_step_no_panic : forall c e s o, env_ok e ->
  has_panic (snd (server_step c e s o)) = false.
Proof.
  intros c e s o He. destruct o; cbn [server_step]; try reflexivity.
  - destruct w as [[secs nanos]|].
    + destruct (wire_duration secs nanos) as [d|] eqn:W; [|reflexivity].
      apply server_request_no_panic; [assumption|]. exact (wire_duration_wf _ _ _ W).
    + destruct (json c); [|reflexivity]. apply server_request_no_panic; [assumption|exact I].
  - destruct n; [reflexivity|]. apply server_request_no_panic; [assumption|exact flood_deadline_wf].
  - destruct (mem id (inflight s)); reflexivity.
  - apply server_request_no_panic; [assumption|exact default_deadline_wf].
Qed.

(* ------------------------------------------------------------------------------------------ *)
(* client: the reaction to one call *)

Lemma client_call_shape : forall c e D, env_ok e -> ts_wf D ->
  exists a d, client_send (listening c) (e_start e) (e_elapsed e) (e_wall e) (e_now e) D = Ok (a, d).
Proof.
  intros c e D (Hm & Hw & Hq) HD.
  destruct (client_no_panic (listening c) (e_start e) (e_elapsed e) (e_wall e) (e_now e) D Hm Hw Hq HD)
    as (a & d & H & _).
  exists a, d. exact H.
Qed.

Definition is_sent (x : hobs) : bool := match x with OCallSent _ _ _ => true | _ => false end.

(* one client step: no panic, the connection stays up, a representable call is sent *)
Lemma client_step_inv : forall c e s o, env_ok e -> over s = false ->
  has_panic (snd (client_step c e s o)) = false /\
  over (fst (client_step c e s o)) = false /\
  match o with
  | CCall neg secs nanos =>
    match caller_deadline e neg secs nanos with
    | Some _ => existsb is_sent (snd (client_step c e s o)) = true
    | None => True
    end
  | _ => True
  end.
Proof.
  intros c e s o He Hs. destruct o; cbn [client_step]; try (repeat split; assumption).
  - destruct (caller_deadline e neg secs nanos) as [D|] eqn:CD; [|repeat split; assumption].
    pose proof (caller_deadline_wf _ _ _ _ _ He CD) as HD.
    destruct (client_call_shape c e D He HD) as (a & d & ->).
    destruct (due e a); cbn [fst snd set_inflight over]; repeat split; assumption.
  - destruct (mem id (inflight s)); cbn [fst snd set_inflight over]; repeat split; assumption.
  - destruct on; repeat split; assumption.
Qed.

(* ------------------------------------------------------------------------------------------ *)
(* stream: the reaction to one op *)

Lemma stream_step_no_panic : forall c s o, has_panic (snd (stream_step c s o)) = false.
Proof.
  intros c s o. destruct o; cbn [stream_step snd]; try reflexivity.
  destruct (has_error _); reflexivity.
Qed.

(* ------------------------------------------------------------------------------------------ *)
(* 1. no panic *)

Lemma hstep_no_panic : forall c e s o, env_ok e -> has_panic (snd (hstep c e s o)) = false.
Proof.
  intros c e s o He. destruct (over s) eqn:O.
  - rewrite (hstep_over _ _ _ _ O). reflexivity.
  - rewrite (hstep_live _ _ _ _ O). destruct (mode c).
    + apply server_step_no_panic; assumption.
    + apply (client_step_inv c e s o He O).
    + apply stream_step_no_panic.
Qed.

Lemma hrun_from_no_panic : forall c e ops s, env_ok e ->
  Forall (fun l => has_panic l = false) (fst (hrun_from c e s ops)).
Proof.
  intros c e ops. induction ops as [|o r IH]; intros s He.
  - constructor.
  - rewrite hrun_from_cons. constructor; [apply hstep_no_panic; assumption|apply IH; assumption].
Qed.

(* 1. NO PANIC, in every mode, for every script, every subscriber configuration, every cut *)
Theorem hostile_no_panic : forall c e ops, env_ok (aged_env e (quiet_age ops)) -> Forall hop_wf ops ->
  Forall (fun l => has_panic l = false) (fst (hrun c e ops)).
Proof. intros c e ops He _. unfold hrun. apply hrun_from_no_panic. assumption. Qed.

(* ------------------------------------------------------------------------------------------ *)
(* the timer of a request that carries the default deadline: armed at a tick the clock has not
   reached iff wheel_env, due at once otherwise *)

Lemma probe_arm : forall e D, env_ok e -> ts_wf D ->
  ts_ns D = ts_ns (e_now e) + default_deadline_secs * NS ->
  (wheel_env e ->
   exists w, arm_timer (e_start e) (e_elapsed e) (e_now e) (e_now e) D = Ok (Armed w) /\
             ts_ns (e_now e) - ts_ns (e_start e) < w * 1000000) /\
  (~ wheel_env e ->
   exists a, arm_timer (e_start e) (e_elapsed e) (e_now e) (e_now e) D = Ok a /\ due e a = true).
Proof.
  intros e D (Hm & _ & Hq) HD HDn.
  destruct (arm_no_panic (e_start e) (e_elapsed e) (e_now e) (e_now e) D (proj1 Hm) Hm HD Hq)
    as (a & Ha).
  destruct Hq as (Hst & He & Hle & Hlag).
  unfold wheel_env, due. revert Ha. unfold arm_timer, dq_insert.
  destruct (clamp_spec (e_now e) D (proj1 Hm) HD) as (TW & TN).
  assert (TE : dur_ns (dur_min (time_until (e_now e) D) max_timeout) = default_deadline_secs * NS).
  { unfold time_until. destruct (duration_since_spec D (e_now e) HD (proj1 Hm)) as [W N].
    destruct max_timeout_wf as [MW MN].
    destruct (dur_min_spec _ _ W MW) as [_ N']. rewrite N', N, MN, HDn. lits. lia. }
  set (T := dur_min (time_until (e_now e) D) max_timeout) in *.
  destruct (mono_add_ok (e_now e) T Hm TW) as (w & Hw & Hww & Hwn); [lia|].
  unfold instant_add. rewrite Hw. unfold rbind.
  assert (L : ts_ltb w (e_start e) = false).
  { unfold ts_ltb. apply negb_false_iff. apply ts_leb_spec; try assumption. lia. }
  rewrite L. cbv zeta.
  destruct (duration_since_spec w (e_start e) Hww Hst) as [W1 N1].
  rewrite (ms_up_spec _ W1), N1, Hwn, TE.
  rewrite (Z.max_r 0 (ts_ns (e_now e) + default_deadline_secs * NS - ts_ns (e_start e)))
    by (lits; lia).
  set (A := ts_ns (e_now e)) in *. set (B := ts_ns (e_start e)) in *.
  set (el := e_elapsed e) in *.
  set (q := (A + default_deadline_secs * NS - B + 999999) / 1000000).
  assert (Q1 : A + default_deadline_secs * NS - B <= q * 1000000)
    by (unfold q; lits; Z.div_mod_to_equations; lia).
  assert (Q2 : q * 1000000 < A + default_deadline_secs * NS - B + 1000000)
    by (unfold q; lits; Z.div_mod_to_equations; lia).
  clearbody q.
  destruct (Z.max (Z.min u64_max q) el <=? el) eqn:E1.
  - apply Z.leb_le in E1. intros _. split.
    + intros (G1 & G2 & _). exfalso. revert E1 G1 G2 Q1 Q2. lits. lia.
    + intros _. exists Expired. split; reflexivity.
  - apply Z.leb_gt in E1.
    destruct (dq_max <? Z.max (Z.min u64_max q) el - el); [discriminate|].
    intros _. split.
    + intros (G1 & G2 & G3). eexists. split; [reflexivity|]. revert E1 G1 G2 G3 Q1 Q2. lits. lia.
    + intros G. eexists. split; [reflexivity|]. apply Z.leb_le.
      destruct (Z_lt_le_dec (A - B) (u64_max * 1000000)) as [G3|G3].
      * exfalso. apply G. revert E1 G3 Q1 Q2. lits. lia.
      * revert E1 G3 Q1 Q2. lits. lia.
Qed.

(* the deadline a probe is decoded to *)
Lemma probe_deadline : forall e D, env_ok e ->
  de_context_deadline (e_now e) (Some (from_secs default_deadline_secs)) = Ok D ->
  ts_wf D /\ ts_ns D = ts_ns (e_now e) + default_deadline_secs * NS.
Proof.
  intros e D (Hm & _ & _) H. cbn [de_context_deadline] in H.
  destruct (from_secs_wf default_deadline_secs) as [W N]; [lits; lia|].
  destruct (de_deadline_spec (e_now e) _ Hm W) as (D' & H1 & H2 & H3 & _).
  rewrite H1 in H. injection H as <-. split; [assumption|].
  rewrite H3; [rewrite N; reflexivity|].
  rewrite N. destruct Hm as [[_ Hn] Hr]. unfold ts_ns. lits. lia.
Qed.

Local Close Scope Z_scope.

(* ------------------------------------------------------------------------------------------ *)
(* 2a. the server monitor *)

Lemma mem_cons : forall x y l, mem x (y :: l) = N.eqb x y || mem x l.
Proof. reflexivity. Qed.

Lemma mem_remove : forall x id l, mem x (remove id l) = negb (N.eqb id x) && mem x l.
Proof.
  intros x id l. induction l as [|y l IH]; [destruct (N.eqb id x); reflexivity|].
  unfold remove in *. cbn [filter].
  destruct (N.eqb_spec id y) as [->|Hy]; cbn [negb].
  - rewrite IH, mem_cons. destruct (N.eqb_spec y x) as [->|Hx]; cbn [negb andb]; [reflexivity|].
    destruct (N.eqb_spec x y) as [->|_]; [contradiction|reflexivity].
  - rewrite !mem_cons, IH.
    destruct (N.eqb_spec id x) as [->|Hx]; cbn [negb andb]; [|reflexivity].
    destruct (N.eqb_spec x y) as [->|_]; [contradiction|reflexivity].
Qed.

Lemma mem_other : forall id x l, mem id l = false -> mem x l = true -> N.eqb id x = false.
Proof.
  intros id x l H1 H2. destruct (N.eqb_spec id x) as [->|_]; [congruence|reflexivity].
Qed.

(* model state vs monitor state: once the connection is over the monitor knows why, and every
   handler the model still runs is one the monitor believes to be running *)
Definition sinv (s : hst) (dead : bool) (run : list N) : Prop :=
  (over s = true -> dead = true) /\
  (forall x, mem x (inflight s) = true -> mem x run = true).

Lemma req_out_inv : forall e s id hang a dead run, sinv s dead run -> mem id (inflight s) = false ->
  sinv (fst (req_out e s id hang a)) dead (track run (snd (req_out e s id hang a))).
Proof.
  intros e s id hang a dead run [Ho Hi] Hid. unfold req_out.
  assert (R : forall x, mem x (inflight s) = true -> mem x (remove id (id :: run)) = true).
  { intros x Hx. rewrite mem_remove, mem_cons, (mem_other _ _ _ Hid Hx), (Hi x Hx).
    apply orb_true_r. }
  destruct (due e a), hang; cbn [fst snd track fold_left]; split;
    cbn [set_inflight over inflight]; try assumption.
  - intros x Hx. rewrite mem_cons, (Hi x Hx). apply orb_true_r.
  - intros x. rewrite !mem_cons. intros Hx. apply orb_true_iff in Hx.
    destruct Hx as [->|Hx]; [reflexivity|]. rewrite (Hi x Hx). apply orb_true_r.
Qed.

Lemma server_request_inv : forall c e s id w hang dead run, env_ok e -> w_wf w ->
  sinv s dead run ->
  sinv (fst (server_request c e s id w hang)) dead (track run (snd (server_request c e s id w hang))).
Proof.
  intros c e s id w hang dead run He Hw Hs.
  destruct (server_request_shape c e s id w hang He Hw) as (D & a & _ & _ & _ & ->).
  destruct (mem id (inflight s)) eqn:M; [exact Hs|]. apply req_out_inv; assumption.
Qed.

Lemma sinv_dead : forall s dead run b, sinv s dead run -> sinv s (dead || b) run.
Proof.
  intros s dead run b [Ho Hi]. split; [|assumption].
  intros H. rewrite (Ho H). reflexivity.
Qed.

Definition undecodable (o : hop) : bool :=
  match o with
  | SReq _ (Some (secs, nanos)) _ => match wire_duration secs nanos with None => true | Some _ => false end
  | _ => false
  end.

Lemma server_step_inv : forall c e s o dead run, env_ok e -> sinv s dead run ->
  sinv (fst (server_step c e s o)) (dead || undecodable o) (track run (snd (server_step c e s o))).
Proof.
  intros c e s o dead run He Hs.
  destruct o; cbn [server_step undecodable]; try (apply sinv_dead; exact Hs).
  - destruct w as [[secs nanos]|].
    + destruct (wire_duration secs nanos) as [d|] eqn:W.
      * apply sinv_dead. apply server_request_inv; try assumption. exact (wire_duration_wf _ _ _ W).
      * cbn [fst snd track fold_left]. split; [intros _; apply orb_true_r|apply Hs].
    + apply sinv_dead. destruct (json c); [|exact Hs]. apply server_request_inv; try assumption. exact I.
  - apply sinv_dead. destruct n; [exact Hs|].
    apply server_request_inv; try assumption. exact flood_deadline_wf.
  - apply sinv_dead. destruct (mem id (inflight s)) eqn:M; [|exact Hs].
    destruct Hs as [Ho Hi]. cbn [fst snd track fold_left]. split; [exact Ho|].
    cbn [set_inflight inflight]. intros x. rewrite !mem_remove. intros Hx.
    apply andb_true_iff in Hx. destruct Hx as [H1 H2]. rewrite H1, (Hi x H2). reflexivity.
  - apply sinv_dead. apply server_request_inv; try assumption. exact default_deadline_wf.
Qed.

(* a probe on a live connection is served, unless its id is that of a running handler *)
Lemma probe_served : forall c e s id dead run, env_ok e -> wheel_env e -> sinv s dead run ->
  mem id run || has_obs (OServed id)
    (snd (server_request c e s id (Some (from_secs default_deadline_secs)) false)) = true.
Proof.
  intros c e s id dead run He Hwh [_ Hi].
  destruct (server_request_shape c e s id (Some (from_secs default_deadline_secs)) false He
              default_deadline_wf) as (D & a & HD & _ & Ha & ->).
  destruct (mem id (inflight s)) eqn:M; [rewrite (Hi id M); reflexivity|].
  destruct (probe_deadline e D He HD) as [HDw HDn].
  destruct (proj1 (probe_arm e D He HDw HDn) Hwh) as (w & Hw & Hnd).
  rewrite Hw in Ha. injection Ha as <-.
  unfold req_out. replace (due e (Armed w)) with false
    by (symmetry; unfold due; apply Z.leb_gt; exact Hnd).
  cbn [snd has_obs existsb hobs_eqb]. rewrite N.eqb_refl. apply orb_true_r.
Qed.

Lemma mon_server_run : forall c e, mode c = MServer -> env_ok e -> wheel_env e ->
  forall ops s dead run, sinv s dead run ->
  mon_server c dead run ops (fst (hrun_from c e s ops)) = true.
Proof.
  intros c e Hmode He Hwh ops. induction ops as [|o r IH]; intros s dead run Hs; [reflexivity|].
  rewrite hrun_from_cons. cbn [mon_server].
  rewrite (hstep_no_panic c e s o He). cbn [negb andb].
  fold (undecodable o).
  destruct (over s) eqn:O.
  - rewrite (hstep_over _ _ _ _ O). cbn [fst snd track fold_left].
    rewrite (proj1 Hs O). cbn [orb].
    replace (match o with SProbe _ => true | _ => true end) with true by (destruct o; reflexivity).
    cbn [andb]. apply IH. split; [reflexivity|apply Hs].
  - rewrite (hstep_live _ _ _ _ O), Hmode.
    apply andb_true_intro. split.
    + destruct o; try reflexivity. cbn [server_step].
      rewrite <- orb_assoc. rewrite (probe_served c e s id dead run He Hwh Hs). apply orb_true_r.
    + apply IH. apply server_step_inv; assumption.
Qed.

(* ------------------------------------------------------------------------------------------ *)
(* 2b. the client monitor *)

Lemma mon_client_run : forall c e, mode c = MClient -> env_ok e ->
  forall ops s, over s = false -> mon_client e ops (fst (hrun_from c e s ops)) = true.
Proof.
  intros c e Hmode He ops. induction ops as [|o r IH]; intros s O; [reflexivity|].
  rewrite hrun_from_cons. cbn [mon_client].
  rewrite (hstep_no_panic c e s o He). cbn [negb andb].
  rewrite (hstep_live _ _ _ _ O), Hmode.
  destruct (client_step_inv c e s o He O) as (_ & O' & Hsent).
  rewrite (IH _ O'), andb_true_r.
  destruct o; try reflexivity.
  destruct (caller_deadline e neg secs nanos); [exact Hsent|reflexivity].
Qed.

(* ------------------------------------------------------------------------------------------ *)
(* 2c. the stream monitor *)

Lemma concat_split_chunks : forall sizes (bs : bytes), concat (split_chunks sizes bs) = bs.
Proof.
  induction sizes as [|n r IH]; intros bs; cbn [split_chunks concat].
  - apply app_nil_r.
  - rewrite IH. apply firstn_skipn.
Qed.

Definition is_frame (o : fout) : bool := match o with FFrame _ => true | _ => false end.
Definition is_err (o : fout) : bool := match o with FError | FFuel => true | _ => false end.

Lemma count_frames_app : forall ps tl,
  count_frames (map FFrame ps ++ tl) = (length ps + count_frames tl)%nat.
Proof.
  intros ps tl. unfold count_frames. induction ps as [|p ps IH]; [reflexivity|].
  cbn [map app filter length plus]. rewrite IH. reflexivity.
Qed.

Lemma has_error_app : forall ps tl, has_error (map FFrame ps ++ tl) = has_error tl.
Proof.
  intros ps tl. unfold has_error. induction ps as [|p ps IH]; [reflexivity|].
  cbn [map app existsb orb]. exact IH.
Qed.

Definition as_frame (p : bytes) : bytes * bool := (p, true).
Definition part_bytes (q : bytes * bool) : bytes := if snd q then frame (fst q) else fst q.

Lemma parts_of_frames : forall ps, flat_map part_bytes (map as_frame ps) = stream_of ps.
Proof.
  induction ps as [|p ps IH]; [reflexivity|].
  cbn [map flat_map]. unfold stream_of in *. cbn [flat_map]. rewrite IH. reflexivity.
Qed.

Lemma stream_of_snoc : forall ps p, stream_of (ps ++ [p]) = stream_of ps ++ frame p.
Proof.
  intros ps p. unfold stream_of. rewrite flat_map_app. cbn [flat_map]. rewrite app_nil_r. reflexivity.
Qed.

Lemma frame_length : forall p, length (frame p) = (4 + length p)%nat.
Proof. intros p. unfold frame, be32. rewrite app_length. reflexivity. Qed.

(* the bytes the model writes for a list of frames, with the cut *)
Lemma hstream_nil : forall k, hstream k [] = [].
Proof. reflexivity. Qed.

Lemma hstream_snoc : forall k front last,
  hstream k (map as_frame (front ++ [last])) =
  stream_of front ++ (if Nat.eqb k 0 then frame last else firstn k (frame last)).
Proof.
  intros k front last. unfold hstream.
  rewrite map_app. cbn [map]. rewrite rev_unit. unfold as_frame at 1.
  rewrite rev_involutive. fold part_bytes. rewrite parts_of_frames. reflexivity.
Qed.

(* what the reader yields at the end of a stream of frames: every frame and a clean end, or,
   cut inside the last frame (not exactly after its header), the whole frames and an error *)
Lemma stream_outcome : forall sizes k ps,
  Forall (fun p => (blen p <= max_frame_default)%N) ps -> k <> 4%nat ->
  let outs := read_stream max_frame_default (split_chunks sizes (hstream k (map as_frame ps))) in
  let lastlen := match rev ps with p :: _ => (4 + length p)%nat | [] => O end in
  if negb (Nat.eqb k 0) && Nat.ltb k lastlen
  then count_frames outs = (length ps - 1)%nat /\ has_error outs = true
  else count_frames outs = length ps /\ has_error outs = false.
Proof.
  intros sizes k ps Hps Hk.
  assert (FULL : forall ps bs, Forall (fun p => (blen p <= max_frame_default)%N) ps ->
            bs = stream_of ps ->
            count_frames (read_stream max_frame_default (split_chunks sizes bs)) = length ps /\
            has_error (read_stream max_frame_default (split_chunks sizes bs)) = false).
  { intros ps0 bs H0 ->.
    rewrite (framing_any_chunking_holds max_frame_default ps0 _ max_frame_u32 H0
               (concat_split_chunks sizes _)).
    rewrite count_frames_app, has_error_app. split; [cbn; lia|reflexivity]. }
  destruct ps as [|p0 ps0] using rev_ind; cbv zeta.
  - cbn [map rev]. rewrite hstream_nil. rewrite andb_false_r. apply FULL; [constructor|reflexivity].
  - clear IHps0. rename p0 into last, ps0 into front.
    rewrite rev_unit, hstream_snoc.
    destruct (Nat.eqb_spec k 0) as [K0|K0]; cbn [negb andb].
    { apply FULL; [assumption|]. symmetry. apply stream_of_snoc. }
    destruct (Nat.ltb_spec k (4 + length last)) as [Klt|Kge].
    + (* cut inside the last frame *)
      apply Forall_app in Hps. destruct Hps as [Hfront Hlast].
      inversion Hlast as [|? ? Hl _]; subst.
      assert (Hlen : length (firstn k (frame last)) = k)
        by (apply firstn_length_le; rewrite frame_length; lia).
      rewrite (framing_truncated_holds max_frame_default front last
                 (firstn k (frame last)) (skipn k (frame last)) _ max_frame_u32 Hfront Hl).
      * rewrite Hlen. rewrite (proj2 (Nat.eqb_neq k 4) Hk).
        rewrite count_frames_app, has_error_app, app_length. split; [cbn; lia|reflexivity].
      * intros E. rewrite E in Hlen. cbn in Hlen. lia.
      * intros E. pose proof (skipn_length k (frame last)) as S.
        rewrite E, frame_length in S. cbn [length] in S. lia.
      * symmetry. apply firstn_skipn.
      * apply concat_split_chunks.
    + rewrite firstn_all2 by (rewrite frame_length; lia).
      apply FULL; [assumption|]. symmetry. apply stream_of_snoc.
Qed.

(* what the ops before the end of the stream have written *)
Definition item (o : hop) : list (bytes * bool) :=
  match o with MFrame p => [(p, true)] | MGarbage b => [(b, false)] | _ => [] end.
Definition items (l : list hop) : list (bytes * bool) := flat_map item l.
Definition not_eof (o : hop) : bool := match o with MEof => false | _ => true end.

(* model state vs monitor state, after the ops `pre` *)
Definition stinv (pre : list hop) (s : hst) (ended : bool) : Prop :=
  over s = ended /\ (ended = false -> forallb not_eof pre = true /\ stream s = items pre).

Lemma items_snoc : forall pre o, items (pre ++ [o]) = items pre ++ item o.
Proof. intros pre o. unfold items. rewrite flat_map_app. cbn [flat_map]. rewrite app_nil_r. reflexivity. Qed.

Lemma not_eof_snoc : forall pre o, forallb not_eof pre = true -> not_eof o = true ->
  forallb not_eof (pre ++ [o]) = true.
Proof. intros pre o H1 H2. rewrite forallb_app, H1. cbn [forallb]. rewrite H2. reflexivity. Qed.

(* a script made of frames and ends only: before its first end it is a list of frames *)
Lemma frames_prefix : forall pre rest, forallb not_eof pre = true ->
  all_frames (pre ++ MEof :: rest) = true ->
  exists ps, pre = map MFrame ps /\ frames_before_eof (pre ++ MEof :: rest) = ps /\
             items pre = map as_frame ps.
Proof.
  induction pre as [|o pre IH]; intros rest Hne Hall.
  - exists []. repeat split; reflexivity.
  - unfold all_frames in *. cbn [app forallb] in *.
    apply andb_true_iff in Hne. destruct Hne as [Ho Hne].
    apply andb_true_iff in Hall. destruct Hall as [Hf Hall].
    destruct o; try discriminate.
    destruct (IH rest Hne Hall) as (ps & E1 & E2 & E3).
    exists (p :: ps). split; [cbn [map]; rewrite <- E1; reflexivity|]. split.
    + unfold frames_before_eof in *. rewrite E2. reflexivity.
    + unfold items in *. cbn [flat_map item app map]. rewrite E3. reflexivity.
Qed.

Lemma frames_wf : forall ps rest, Forall hop_wf (map MFrame ps ++ rest) ->
  Forall (fun p => (blen p <= max_frame_default)%N) ps.
Proof.
  induction ps as [|p ps IH]; intros rest H; [constructor|].
  cbn [map app] in H. inversion H as [|? ? H1 H2]; subst.
  constructor; [exact H1|exact (IH rest H2)].
Qed.

(* the monitor's clause for the end of the stream *)
Lemma eof_clause : forall c all pre rest s, hcut c <> 4%nat -> Forall hop_wf all ->
  all = pre ++ MEof :: rest -> forallb not_eof pre = true -> stream s = items pre ->
  match snd (stream_step c s MEof) with
  | [OYield k; e] =>
    if all_frames all then
      let ps := frames_before_eof all in
      let lastlen := match rev ps with p :: _ => (4 + length p)%nat | [] => O end in
      if negb (Nat.eqb (hcut c) 0) && Nat.ltb (hcut c) lastlen
      then Nat.eqb k (length ps - 1) && hobs_eqb e OEndErr
      else Nat.eqb k (length ps) && hobs_eqb e OEndClean
    else hobs_eqb e OEndErr || hobs_eqb e OEndClean
  | _ => false
  end = true.
Proof.
  intros c all pre rest s Hcut Hwf Hall Hne Hst. cbn [stream_step snd].
  destruct (all_frames all) eqn:AF.
  - rewrite Hall in AF. destruct (frames_prefix pre rest Hne AF) as (ps & E1 & E2 & E3).
    rewrite Hst, E3. rewrite <- Hall in E2. rewrite E2. cbv zeta.
    assert (Hps : Forall (fun p => (blen p <= max_frame_default)%N) ps).
    { apply (frames_wf ps (MEof :: rest)). rewrite <- E1, <- Hall. exact Hwf. }
    pose proof (stream_outcome (hchunks c) (hcut c) ps Hps Hcut) as SO. cbv zeta in SO.
    destruct (negb (Nat.eqb (hcut c) 0) &&
              Nat.ltb (hcut c) match rev ps with p :: _ => (4 + length p)%nat | [] => O end);
      destruct SO as [-> ->]; rewrite Nat.eqb_refl; reflexivity.
  - destruct (has_error _); reflexivity.
Qed.

Lemma mon_stream_run : forall c e all, mode c = MStream -> hcut c <> 4%nat -> Forall hop_wf all ->
  forall rest pre s ended, all = pre ++ rest -> stinv pre s ended ->
  mon_stream c all ended rest (fst (hrun_from c e s rest)) = true.
Proof.
  intros c e all Hmode Hcut Hwf rest.
  induction rest as [|o r IH]; intros pre s ended Hall [Hov Hinv]; [reflexivity|].
  assert (Hall' : all = (pre ++ [o]) ++ r) by (rewrite <- app_assoc; exact Hall).
  rewrite hrun_from_cons. cbn [mon_stream].
  destruct ended.
  - rewrite (hstep_over _ _ _ _ Hov). cbn [fst snd has_panic existsb negb andb orb].
    apply (IH (pre ++ [o]) s true Hall'). split; [exact Hov|discriminate].
  - destruct (Hinv eq_refl) as [Hne Hst]. rewrite (hstep_live _ _ _ _ Hov), Hmode.
    rewrite (stream_step_no_panic c s o). cbn [negb andb orb].
    apply andb_true_intro. split.
    + destruct o; try reflexivity. exact (eof_clause c all pre r s Hcut Hwf Hall Hne Hst).
    + apply (IH (pre ++ [o]) _ _ Hall').
      destruct o; cbn [stream_step fst set_over]; split; cbn [over stream];
        try exact Hov; try reflexivity; try discriminate; intros _;
        (split; [apply not_eof_snoc; [exact Hne|reflexivity]|]);
        rewrite items_snoc, Hst; cbn [item]; try reflexivity; apply app_nil_r || (symmetry; apply app_nil_r).
Qed.

(* ------------------------------------------------------------------------------------------ *)
(* 2. the monitor accepts every run of the model *)

(* (cut = 4, the header-only cut, excluded; in server mode the wheel must not be ahead of the
   clock by the default deadline, nor the queue older than the range of ms(): see
   c16_wheel_ahead_refuted, c16_wheel_saturated_refuted and wheel_env_necessary) *)
Theorem c16_monitor_holds : forall c e ops, env_ok (aged_env e (quiet_age ops)) -> Forall hop_wf ops ->
  hcut c <> 4%nat ->
  (mode c = MServer -> wheel_env (aged_env e (quiet_age ops))) ->
  c16_ok c e ops (fst (hrun c e ops)) = true.
Proof.
  intros c e ops He Hwf Hcut Hwh. unfold c16_ok, hrun.
  set (e' := aged_env e (quiet_age ops)) in *.
  destruct (mode c) eqn:M.
  - apply mon_server_run; try assumption; [exact (Hwh eq_refl)|].
    split; [discriminate|]. intros x Hx. discriminate Hx.
  - apply mon_client_run; try assumption. reflexivity.
  - apply (mon_stream_run c e' ops M Hcut Hwf ops [] hinit false); [reflexivity|].
    split; [reflexivity|]. intros _. split; reflexivity.
Qed.

(* in the other two modes no extra premise is needed *)
Corollary c16_monitor_holds_client_stream : forall c e ops,
  env_ok (aged_env e (quiet_age ops)) -> Forall hop_wf ops ->
  hcut c <> 4%nat -> mode c <> MServer ->
  c16_ok c e ops (fst (hrun c e ops)) = true.
Proof.
  intros c e ops He Hwf Hcut Hm. apply c16_monitor_holds; try assumption.
  intros E. contradiction.
Qed.

(* ------------------------------------------------------------------------------------------ *)
(* 4. the harness's environment is inside the ranges *)

Lemma std_env_ok : env_ok std_env.
Proof.
  unfold env_ok, std_env, mono_env, wall_env, dq_env, ts_wf.
  cbn [e_now e_wall e_start e_elapsed t_secs t_nanos].
  repeat split; vm_compute; discriminate || reflexivity.
Qed.

Lemma std_env_wheel : wheel_env std_env.
Proof. unfold wheel_env. repeat split; vm_compute; reflexivity. Qed.

(* the harness's environment stays inside the ranges for every quiet age up to dq_lag_max
   (37 183 476 s is the whole number of seconds in 37 183 476 735 ms, about 430 days) ... *)
Lemma std_env_aged_ok : forall secs, (0 <= secs <= 37183476)%Z ->
  env_ok (aged_env std_env secs) /\ wheel_env (aged_env std_env secs).
Proof.
  intros secs Hs. unfold env_ok, wheel_env, aged_env, std_env, shift_secs.
  cbn [e_now e_wall e_start e_elapsed t_secs t_nanos].
  set (now := {| t_secs := (1000000 + secs)%Z; t_nanos := 0%Z |}).
  set (start := {| t_secs := 1000000%Z; t_nanos := 0%Z |}).
  assert (Wn : ts_wf now) by (unfold ts_wf, now; cbn [t_secs t_nanos]; lits; lia).
  assert (Ws : ts_wf start) by (unfold ts_wf, start; cbn [t_secs t_nanos]; lits; lia).
  assert (Nn : ts_ns now = ((1000000 + secs) * 1000000000)%Z)
    by (unfold ts_ns, now; cbn [t_secs t_nanos]; lits; lia).
  assert (Ns : ts_ns start = (1000000 * 1000000000)%Z) by reflexivity.
  split; [split; [|split]|].
  - split; [exact Wn|]. unfold now. cbn [t_secs]. lits. lia.
  - unfold wall_env, ts_wf. cbn [t_secs t_nanos]. lits. lia.
  - unfold dq_env. split; [exact Ws|]. split; [lia|]. split; [lia|].
    destruct (duration_since_spec now start Wn Ws) as [W N].
    rewrite (ms_up_spec _ W), N, Nn, Ns. unfold dq_lag_max. lits.
    Z.div_mod_to_equations. lia.
  - rewrite Nn, Ns. lits. lia.
Qed.

(* ... and one second beyond it the repaired code still panics on a request whose deadline is a
   year or more away (the residual boundary: dq_env is necessary) *)
Lemma aged_lag_refuted :
  let c := {| mode := MServer; listening := false; json := true; hchunks := []; hcut := 0 |} in
  fst (hrun c std_env [Age 37183477; SReq 1 (Some (94608000, 0)%N) false]) = [[]; [OPanic]].
Proof. vm_compute. reflexivity. Qed.

(* ------------------------------------------------------------------------------------------ *)
(* 3. the excluded corner: a stream of valid frames cut exactly after a 4-byte length header ends
      CLEANLY (tokio-util decode_eof), which the monitor rejects *)
Lemma c16_header_only_refuted : exists c ops,
  Forall hop_wf ops /\ hcut c = 4%nat /\ c16_ok c std_env ops (fst (hrun c std_env ops)) = false.
Proof.
  exists {| mode := MStream; listening := false; json := false; hchunks := []; hcut := 4 |},
         [MFrame [1; 2; 3]%N; MEof].
  split; [|split; [reflexivity|vm_compute; reflexivity]].
  repeat constructor. vm_compute. discriminate.
Qed.

(* ------------------------------------------------------------------------------------------ *)
(* the added premise is necessary *)

(* the harness's clocks, but a wheel that has already advanced 10 s past them *)
Definition ahead_env : env :=
  {| e_now := e_now std_env; e_wall := e_wall std_env; e_start := e_start std_env;
     e_elapsed := 10000 |}.

(* c16_monitor_holds WITHOUT wheel_env is false: env_ok puts no upper bound on e_elapsed, the
   probe's timer is born expired, the model answers [OStarted 0] only *)
Lemma c16_wheel_ahead_refuted : exists c e ops,
  env_ok (aged_env e (quiet_age ops)) /\ Forall hop_wf ops /\ hcut c <> 4%nat /\
  c16_ok c e ops (fst (hrun c e ops)) = false.
Proof.
  exists {| mode := MServer; listening := false; json := false; hchunks := []; hcut := 0 |},
         ahead_env, [SProbe 0%N].
  split; [|split; [|split]].
  - cbn [quiet_age]. rewrite aged_env_0.
    unfold env_ok, ahead_env, std_env, mono_env, wall_env, dq_env, ts_wf.
    cbn [e_now e_wall e_start e_elapsed t_secs t_nanos].
    repeat split; vm_compute; discriminate || reflexivity.
  - repeat constructor.
  - discriminate.
  - vm_compute. reflexivity.
Qed.

(* a timer queue created 20 000 000 000 000 000 s before now, its wheel one tick short of the
   saturation point of ms(): inside env_ok, and the wheel is not ahead of the clock *)
Definition saturated_env : env :=
  {| e_now := {| t_secs := 0; t_nanos := 0 |};
     e_wall := e_wall std_env;
     e_start := {| t_secs := -20000000000000000; t_nanos := 0 |};
     e_elapsed := 18446744073709551614 |}.

(* the first two clauses of wheel_env are not enough: the probe's timer is Armed at tick
   u64::MAX, a tick this old clock has long passed, so it is due at once and the model answers
   [OStarted 0] only *)
Lemma c16_wheel_saturated_refuted : exists c e ops,
  env_ok (aged_env e (quiet_age ops)) /\ Forall hop_wf ops /\ hcut c <> 4%nat /\
  (e_elapsed e < u64_max /\
   e_elapsed e * 1000000 < ts_ns (e_now e) - ts_ns (e_start e) + default_deadline_secs * NS)%Z /\
  c16_ok c e ops (fst (hrun c e ops)) = false.
Proof.
  exists {| mode := MServer; listening := false; json := false; hchunks := []; hcut := 0 |},
         saturated_env, [SProbe 0%N].
  split; [|split; [|split; [|split]]].
  - cbn [quiet_age]. rewrite aged_env_0.
    unfold env_ok, saturated_env, std_env, mono_env, wall_env, dq_env, ts_wf.
    cbn [e_now e_wall e_start e_elapsed t_secs t_nanos].
    repeat split; vm_compute; discriminate || reflexivity.
  - repeat constructor.
  - discriminate.
  - split; vm_compute; reflexivity.
  - vm_compute. reflexivity.
Qed.

(* and exactly so: in EVERY env_ok environment outside wheel_env a single probe on a fresh
   server connection is rejected by the monitor *)
Theorem wheel_env_necessary : forall c e, env_ok e -> mode c = MServer -> ~ wheel_env e ->
  c16_ok c e [SProbe 0%N] (fst (hrun c e [SProbe 0%N])) = false.
Proof.
  intros c e He Hmode Hnw. unfold c16_ok, hrun. cbn [quiet_age]. rewrite aged_env_0.
  rewrite Hmode, hrun_from_cons.
  rewrite (hstep_live c e hinit (SProbe 0%N) eq_refl), Hmode. cbn [server_step].
  destruct (server_request_shape c e hinit 0%N (Some (from_secs default_deadline_secs)) false He
              default_deadline_wf) as (D & a & HD & _ & Ha & ->).
  destruct (probe_deadline e D He HD) as [HDw HDn].
  destruct (proj2 (probe_arm e D He HDw HDn) Hnw) as (a' & Ha' & Hdue).
  rewrite Ha' in Ha. injection Ha as <-.
  cbn [mem inflight hinit existsb]. unfold req_out. rewrite Hdue. reflexivity.
Qed.
