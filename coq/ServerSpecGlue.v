(* The monitor-level statements pinned in ServerSpec.v follow from the flag-level ones and
   ServerSim7.server_never_early (v_bad = false, v06e = true on every run). *)
From Coq Require Import List Bool Arith NArith.
Import ListNotations.
From TarpcV Require Import Base Transport TimerWheel Server ServerMon ServerFuel ServerSim7 ServerSpec.

Ltac glue_start :=
  intros T C tp ctl tfuel c t0 ops TF;
  pose proof (server_never_early T C tp ctl tfuel c t0 ops TF) as HNE; cbv zeta in HNE;
  destruct HNE as (Hbad & H06e).

Lemma s08_of_flags : stmt_s_v08 -> stmt_s08.
Proof.
  intros H; glue_start. specialize (H T C tp ctl tfuel c t0 ops TF). cbv beta in *.
  unfold c08_ok. rewrite Hbad. cbn [negb andb].
  destruct (h_b1 _) eqn:E1; [|reflexivity]. destruct (h_stop _) eqn:E2; [|reflexivity].
  cbn. apply H; reflexivity.
Qed.

Lemma s04_of_flags : stmt_s_v08 -> stmt_s_v04 -> stmt_s04.
Proof.
  intros H8 H4; glue_start. specialize (H8 T C tp ctl tfuel c t0 ops TF).
  specialize (H4 T C tp ctl tfuel c t0 ops TF). cbv beta in *.
  unfold c04_ok. rewrite Hbad. cbn [negb andb].
  destruct (h_b1 _) eqn:E1; [|reflexivity]. destruct (h_stop _) eqn:E2; [|reflexivity].
  cbn. rewrite H8, H4 by reflexivity. reflexivity.
Qed.

Lemma s06_rel_of_flags : stmt_s_v06l_rel -> stmt_s06_rel.
Proof.
  intros H; glue_start. specialize (H T C tp ctl tfuel c t0 ops TF). cbv beta in *.
  unfold c06_rel_ok. rewrite Hbad, H06e. cbn [negb andb]. rewrite orb_true_r. cbn [andb].
  destruct (h_b1 _) eqn:E1; [|reflexivity]. destruct (h_stop _) eqn:E2; [|reflexivity].
  cbn. apply H; reflexivity.
Qed.

Lemma s06_of_flags : stmt_s_v06l -> stmt_s06.
Proof.
  intros H; glue_start. specialize (H T C tp ctl tfuel c t0 ops TF). cbv beta in *.
  unfold limiter_blocked_on_sink, c06_ok. intros K2. rewrite Hbad, H06e. cbn [negb andb].
  rewrite orb_true_r. cbn [andb].
  destruct (h_b1 _) eqn:E1; [|reflexivity]. destruct (h_stop _) eqn:E2; [|reflexivity].
  cbn. apply H; auto.
Qed.

Lemma s12_rel_of_flags : stmt_s_v12a -> stmt_s_v12b -> stmt_s_v12c_rel -> stmt_s12_rel.
Proof.
  intros Ha Hb Hc; glue_start. specialize (Ha T C tp ctl tfuel c t0 ops TF).
  specialize (Hb T C tp ctl tfuel c t0 ops TF). specialize (Hc T C tp ctl tfuel c t0 ops TF).
  cbv beta in *. unfold c12_rel_ok. rewrite Hbad, Ha, Hb. cbn [negb andb].
  destruct (h_b1 _) eqn:E1; [|reflexivity]. cbn. apply Hc; reflexivity.
Qed.

Lemma s12_of_flags : stmt_s_v12a -> stmt_s_v12b -> stmt_s_v12c -> stmt_s12.
Proof.
  intros Ha Hb Hc; glue_start. specialize (Ha T C tp ctl tfuel c t0 ops TF).
  specialize (Hb T C tp ctl tfuel c t0 ops TF). specialize (Hc T C tp ctl tfuel c t0 ops TF).
  cbv beta in *. unfold freed_in_same_poll, c12_ok. intros K1. rewrite Hbad, Ha, Hb. cbn [negb andb].
  destruct (h_b1 _) eqn:E1; [|reflexivity]. cbn. apply Hc; auto.
Qed.

Lemma s11_rel_of_flags : stmt_s_v11_rel -> stmt_s11_rel.
Proof.
  intros H; glue_start. specialize (H T C tp ctl tfuel c t0 ops TF). cbv beta in *.
  unfold c11s_rel_ok. rewrite Hbad. cbn [negb andb].
  destruct (h_b1 _) eqn:E1; [|reflexivity]. destruct (h_stop _) eqn:E2; [|reflexivity].
  cbn. apply H; reflexivity.
Qed.

Lemma s11_of_flags : stmt_s_v11 -> stmt_s11.
Proof.
  intros H; glue_start. specialize (H T C tp ctl tfuel c t0 ops TF). cbv beta in *.
  unfold limiter_blocked_on_sink, c11s_ok. intros K2. rewrite Hbad. cbn [negb andb].
  destruct (h_b1 _) eqn:E1; [|reflexivity]. destruct (h_stop _) eqn:E2; [|reflexivity].
  cbn. apply H; auto.
Qed.

Lemma s09_of_flags : stmt_s_v09 -> stmt_s09.
Proof.
  intros H; glue_start. specialize (H T C tp ctl tfuel c t0 ops TF). cbv beta in *.
  unfold c09s_ok. rewrite Hbad. cbn [negb andb].
  destruct (h_b1 _) eqn:E1; [|reflexivity]. destruct (h_stop _) eqn:E2; [|reflexivity].
  cbn. apply H; reflexivity.
Qed.

Lemma s10_of_flags : stmt_s_v10 -> stmt_s10.
Proof.
  intros H; glue_start. specialize (H T C tp ctl tfuel c t0 ops TF). cbv beta in *.
  unfold c10s_ok. rewrite Hbad, H. reflexivity.
Qed.
