(* Simulation, part 3: the invariant through the polling loops. *)
From Coq Require Import List Bool Arith NArith Lia.
Import ListNotations.
From TarpcV Require Import Base Transport TimerWheel Server ServerMon ServerFuel ServerContract
     ServerSim ServerSim2.

Section Loops.
  Context {T : Type}.
  Variable tp : transport T response cmsg.
  Variable lim : option nat.
  Notation st := (@sstate T).
  Notation ocs := (fold_left (o_call lim)).

  Lemma ocs_app : forall a b o, ocs (a ++ b) o = ocs b (ocs a o).
  Proof. intros. apply fold_left_app. Qed.

  Definition entry_of (q : treq) : sentry := {| e_id := q_id q; e_h := q_h q; e_dl := q_dl q |}.

  (* loop invariant while no accepted request is pending *)
  Definition BInv (o : ostate) (s : st) : Prop :=
    InvU o s /\ handled s /\ c_err (o_v o) = false.
  (* a request has been accepted and is on its way to the application *)
  Definition QInv (o : ostate) (s : st) (q : treq) : Prop :=
    InvU o s /\ PendQ o s q /\ c_err (o_v o) = false.

  Definition post (r : pres treq) (o : ostate) (s : st) : Prop :=
    match r with
    | PReady q => QInv o s q /\ In (entry_of q) (s_inflight s)
    | _ => BInv o s
    end.

  Lemma handled_remove : forall (s s' : st) id,
    handled s -> s_inflight s' = drop_entry id (s_inflight s) -> s_handlers s' = s_handlers s -> handled s'.
  Proof.
    intros s s' id Hh Hi Hha. apply (handled_sub s s' Hh); [|rewrite Hha; reflexivity].
    intros e He. rewrite Hi in He. apply in_drop_entry in He. tauto.
  Qed.

  Lemma base_inv : forall f (s : st) r s' o,
    BInv o s -> base_poll_next tp f s = (r, s') ->
    exists new, ext s s' new /\ post r (ocs new o) s'.
  Proof.
    induction f as [|f IH]; intros s r s' o HB H; cbn [base_poll_next] in H.
    { injection H as <- <-. exists []. split; [apply ext_refl|exact HB]. }
    destruct HB as (HI & Hh & Hce).
    (* cancel queue *)
    set (cs := match s_cancels s with
               | id :: r0 => (RSReady, snd (remove_request id (set_cancels s r0)))
               | [] => (RSClosed, s) end) in H.
    assert (Hc : BInv o (snd cs) /\ s_log (snd cs) = s_log s).
    { subst cs. destruct (s_cancels s) as [|id r0] eqn:EC; cbn [snd];
        [split; [exact (conj HI (conj Hh Hce))|reflexivity]|].
      split; [|rewrite log_remove_request; reflexivity].
      split; [apply InvU_server_cancel; auto|split; [|exact Hce]].
      destruct (remove_request_shape id (set_cancels s r0)) as [(_ & Heq & _)|(_ & _ & B1 & B2 & B3 & _)];
        cbv zeta in *.
      - rewrite Heq. exact Hh.
      - eapply (handled_remove s); eauto. }
    destruct cs as [cst s1]. cbn [snd] in Hc. destruct Hc as ((HI1 & Hh1 & _) & Hl1).
    (* expiry *)
    destruct (poll_expired s1) as [est s2] eqn:EE.
    assert (HI2 : InvU o s2) by (eapply InvU_poll_expired; eauto).
    pose proof (log_poll_expired s1) as Hl2. rewrite EE in Hl2. cbn [snd] in Hl2.
    assert (Hh2 : handled s2).
    { destruct (poll_expired_shape _ _ _ EE) as (A1 & A2 & A3 & A4 & A5 & A6 & _ & _ & _ & _ & _ & HH).
      destruct HH as [(_ & B1 & _)|(_ & id & w & _ & _ & _ & C4 & _)].
      - apply (handled_sub s1 s2 Hh1); [rewrite B1; auto|rewrite A1; reflexivity].
      - eapply (handled_remove s1); eauto. }
    assert (Hown2 : pend_id o = None \/ all_owned o s2) by (right; apply all_owned_of_handled; auto).
    assert (H02 : ext s s2 []) by (apply ext_same; congruence).
    assert (HB2 : BInv o s2) by (exact (conj HI2 (conj Hh2 Hce))).
    (* the final status *)
    assert (Hfin : forall rst sx new0 r s',
               ext s sx new0 -> BInv (ocs new0 o) sx ->
               match combine (combine cst est) rst with
               | RSReady => base_poll_next tp f sx
               | RSClosed => (PEnd, sx)
               | RSPending => (PPending, sx)
               end = (r, s') ->
               exists new, ext s s' new /\ post r (ocs new o) s').
    { intros rst sx new0 r0 s0 Hx HBx HH. destruct (combine (combine cst est) rst).
      - destruct (IH _ _ _ _ HBx HH) as (n1 & E1 & Post). exists (new0 ++ n1).
        split; [eapply ext_trans; eauto|]. rewrite ocs_app. exact Post.
      - injection HH as <- <-. exists new0. split; [exact Hx|exact HBx].
      - injection HH as <- <-. exists new0. split; [exact Hx|exact HBx]. }
    destruct (s_fused s2) eqn:EF.
    - apply (Hfin RSClosed s2 []); [exact H02|exact HB2|exact H].
    - destruct (do_next tp s2) as [rr s3] eqn:EN.
      destruct (do_next_core tp _ _ _ EN) as (C3 & F3 & _ & _ & _ & L3).
      assert (H23 : ext s s3 [CNext rr]).
      { unfold ext in *. rewrite L3, H02. reflexivity. }
      assert (Hh3 : handled s3).
      { destruct C3 as (D1 & D2 & D3 & _). apply (handled_sub s2 s3 Hh2); [rewrite D3; auto|rewrite D1; reflexivity]. }
      destruct rr as [m| | |].
      + destruct m as [id dl tr body|id tr].
        * destruct (start_request id dl s3) as [[h s4]|] eqn:ES.
          -- injection H as <- <-.
             destruct (step_next_accept tp lim o s2 id dl tr body s3 h s4 HI2 Hown2 Hce EN ES) as (A & B & C & D).
             exists [CNext (RItem (MReq id dl tr body))]. split; [|cbn [fold_left post]; exact (conj (conj A (conj B C)) D)].
             unfold ext in *. rewrite (log_start_request _ _ _ _ _ ES). exact H23.
          -- destruct (step_next_dup tp lim o s2 id dl tr body s3 HI2 Hown2 Hce EN) as (A & B & C).
             assert (HB3 : BInv (ocs [CNext (RItem (MReq id dl tr body))] o) s3)
               by (cbn [fold_left]; exact (conj A (conj Hh3 C))).
             destruct (IH _ _ _ _ HB3 H) as (n1 & E1 & Post).
             exists ([CNext (RItem (MReq id dl tr body))] ++ n1). split; [eapply ext_trans; eauto|].
             rewrite ocs_app. exact Post.
        * destruct (step_next_cancel tp lim o s2 id tr s3 HI2 Hown2 Hce EN) as (A & B).
          apply (Hfin RSReady (cancel_request id s3) [CNext (RItem (MCancel id tr))]); [| |exact H].
          -- unfold ext in *. rewrite log_cancel_request. exact H23.
          -- cbn [fold_left]. split; [exact A|split].
             ++ destruct (cancel_request_shape id s3) as [(Heq & _)|(e & _ & B1 & _ & _ & B4 & _)]; cbv zeta in *.
                ** rewrite Heq. exact Hh3.
                ** eapply (handled_remove s3); eauto.
             ++ destruct (ocall_next_proj lim o (RItem (MCancel id tr))) as (_ & _ & P3 & _). cbv zeta in P3. congruence.
      + injection H as <- <-.
        destruct (step_next_idle tp lim o s2 RErr s3 HI2 Hown2 Hce EN I) as (A & B).
        exists [CNext RErr]. split; [exact H23|]. cbn [fold_left post]. split; [exact A|split; [exact Hh3|]].
        destruct (ocall_next_proj lim o RErr) as (_ & _ & P3 & _). cbv zeta in P3. congruence.
      + destruct (step_next_idle tp lim o s2 REof s3 HI2 Hown2 Hce EN I) as (A & B).
        apply (Hfin RSClosed (set_fused s3 true) [CNext REof]); [exact H23| |exact H].
        cbn [fold_left]. split; [exact A|split; [exact Hh3|]].
        destruct (ocall_next_proj lim o REof) as (_ & _ & P3 & _). cbv zeta in P3. congruence.
      + destruct (step_next_idle tp lim o s2 RPending s3 HI2 Hown2 Hce EN I) as (A & B).
        apply (Hfin RSPending s3 [CNext RPending]); [exact H23| |exact H].
        cbn [fold_left]. split; [exact A|split; [exact Hh3|]].
        destruct (ocall_next_proj lim o RPending) as (_ & _ & P3 & _). cbv zeta in P3. congruence.
  Qed.

  Lemma BInv_ready : forall o (s : st) r s',
    BInv o s -> do_ready tp s = (r, s') -> BInv (o_call lim o (CReady r)) s'.
  Proof.
    intros o s r s' (HI & Hh & Hce) H.
    destruct (do_ready_core tp _ _ _ H) as ((C1 & C2 & C3 & _) & _).
    destruct (ocall_ready_tab lim o r) as ((_ & _ & _ & _ & Tc) & _).
    split; [eapply step_ready; eauto|split; [|congruence]].
    apply (handled_sub s s' Hh); [rewrite C3; auto|rewrite C1; reflexivity].
  Qed.

  (* MaxRequests::poll_next *)
  Lemma maxreq_inv : forall f limit (s : st) r s' o,
    BInv o s -> maxreq_poll_next tp f limit s = (r, s') ->
    exists new, ext s s' new /\ post r (ocs new o) s'.
  Proof.
    induction f as [|f IH]; intros limit s r s' o HB H; cbn [maxreq_poll_next] in H.
    { injection H as <- <-. exists []. split; [apply ext_refl|exact HB]. }
    destruct (limit <=? length (s_inflight s)).
    - destruct (do_ready tp s) as [x s1] eqn:ER.
      pose proof (BInv_ready _ _ _ _ HB ER) as HB1.
      destruct (do_ready_core tp _ _ _ ER) as (_ & _ & _ & _ & _ & L1).
      assert (E01 : ext s s1 [CReady x]) by (unfold ext; rewrite L1; reflexivity).
      destruct x.
      + destruct (base_poll_next tp (S f) s1) as [y s2] eqn:EB.
        destruct (base_inv _ _ _ _ _ HB1 EB) as (n2 & E2 & Post2).
        assert (E02 : ext s s2 ([CReady TOk] ++ n2)) by (eapply ext_trans; eauto).
        destruct y as [q| |a| |].
        * destruct Post2 as ((HI2 & HP2 & Hce2) & Hin2).
          destruct (base_start_send tp (mkresp (q_id q) BThrottle) s2) as [e s3] eqn:ESS.
          destruct (step_throttle tp lim _ s2 q e s3 HI2 HP2 Hce2 Hin2 ESS) as (rr & L3 & He & HI3 & Hp3 & Hce3 & Hi3).
          cbv zeta in *.
          assert (E03 : ext s s3 (([CReady TOk] ++ n2) ++ [CSend (mkresp (q_id q) BThrottle) rr])).
          { eapply ext_trans; [exact E02|]. unfold ext. rewrite L3. reflexivity. }
          assert (Hh3 : handled s3).
          { intros e0 He0. rewrite Hi3 in He0. apply in_drop_entry in He0. destruct He0 as [He0 Hne].
            destruct HP2 as (_ & Q2 & _).
            destruct (base_start_send_shape tp _ _ _ _ ESS) as [(_ & _ & ->)|(_ & _ & _ & _ & _ & _ & B3 & _)].
            - destruct (classic_handled s2 e0) as [Hy|Hn]; [exact Hy|].
              exfalso. pose proof (Q2 e0 He0 Hn) as ->. cbn in Hne. congruence.
            - rewrite B3. destruct (classic_handled s2 e0) as [Hy|Hn]; [exact Hy|].
              exfalso. pose proof (Q2 e0 He0 Hn) as ->. cbn in Hne. congruence. }
          assert (HB3 : BInv (ocs (([CReady TOk] ++ n2) ++ [CSend (mkresp (q_id q) BThrottle) rr]) o) s3).
          { rewrite ocs_app. cbn [fold_left]. rewrite ocs_app. cbn [fold_left]. exact (conj HI3 (conj Hh3 Hce3)). }
          destruct e as [a|].
          -- injection H as <- <-. eexists; split; [exact E03|exact HB3].
          -- destruct (IH _ _ _ _ _ HB3 H) as (n4 & E4 & Post4).
             eexists; split; [eapply ext_trans; [exact E03|exact E4]|]. rewrite ocs_app. exact Post4.
        * injection H as <- <-. eexists; split; [exact E02|]. rewrite ocs_app. exact Post2.
        * injection H as <- <-. eexists; split; [exact E02|]. rewrite ocs_app. exact Post2.
        * injection H as <- <-. eexists; split; [exact E02|]. rewrite ocs_app. exact Post2.
        * injection H as <- <-. eexists; split; [exact E02|]. rewrite ocs_app. exact Post2.
      + injection H as <- <-. eexists; split; [exact E01|exact HB1].
      + injection H as <- <-. eexists; split; [exact E01|exact HB1].
    - exact (base_inv _ _ _ _ _ HB H).
  Qed.

  Lemma respq_start_send : forall m (s : st) e s', base_start_send tp m s = (e, s') -> s_respq s' = s_respq s.
  Proof.
    intros m s e s' H.
    destruct (base_start_send_shape tp _ _ _ _ H) as [(_ & _ & ->)|(_ & _ & _ & _ & _ & _ & _ & _ & _ & _ & _ & _ & _ & Q & _)]; auto.
  Qed.

  Lemma respq_base : forall f (s : st) r s', base_poll_next tp f s = (r, s') -> s_respq s' = s_respq s.
  Proof.
    induction f as [|f IH]; intros s r s' H; cbn [base_poll_next] in H; [injection H as _ <-; reflexivity|].
    set (cs := match s_cancels s with
               | id :: r0 => (RSReady, snd (remove_request id (set_cancels s r0)))
               | [] => (RSClosed, s) end) in H.
    assert (Hc : s_respq (snd cs) = s_respq s).
    { subst cs. destruct (s_cancels s); [reflexivity|]. cbn [snd].
      destruct (remove_request_shape n (set_cancels s l)) as [(_ & -> & _)|(_ & _ & _ & _ & _ & _ & _ & _ & _ & _ & _ & Q & _)];
        [reflexivity|exact Q]. }
    destruct cs as [cst s1]. cbn [snd] in Hc.
    destruct (poll_expired s1) as [est s2] eqn:EE.
    destruct (poll_expired_shape _ _ _ EE) as (_ & _ & _ & _ & _ & _ & Q2 & _).
    assert (Hfin : forall rst sx r s', s_respq sx = s_respq s ->
               match combine (combine cst est) rst with
               | RSReady => base_poll_next tp f sx
               | RSClosed => (PEnd, sx)
               | RSPending => (PPending, sx)
               end = (r, s') -> s_respq s' = s_respq s).
    { intros rst sx r0 s0 Hx HH. destruct (combine (combine cst est) rst).
      - rewrite (IH _ _ _ HH). exact Hx.
      - injection HH as _ <-. exact Hx.
      - injection HH as _ <-. exact Hx. }
    destruct (s_fused s2).
    - apply (Hfin RSClosed s2 r s'); [congruence|exact H].
    - destruct (do_next tp s2) as [rr s3] eqn:EN. destruct (do_next_core tp _ _ _ EN) as (_ & _ & Q3 & _).
      destruct rr as [m| | |].
      + destruct m as [id dl tr body|id tr].
        * destruct (start_request id dl s3) as [[h s4]|] eqn:ES.
          -- injection H as _ <-. destruct (start_request_shape _ _ _ _ _ ES) as (_ & _ & _ & _ & _ & _ & _ & _ & _ & _ & _ & Q4 & _).
             congruence.
          -- rewrite (IH _ _ _ H). congruence.
        * apply (Hfin RSReady (cancel_request id s3) r s'); [|exact H].
          destruct (cancel_request_shape id s3) as [(-> & _)|(e & _ & _ & _ & _ & _ & _ & _ & _ & _ & _ & Q & _)]; congruence.
      + injection H as _ <-. congruence.
      + apply (Hfin RSClosed (set_fused s3 true) r s'); [sproj; congruence|exact H].
      + apply (Hfin RSPending s3 r s'); [congruence|exact H].
  Qed.

  (* the response queue only holds handler results *)
  Definition no_thr (s : st) : Prop := forall m, In m (s_respq s) -> resp_body m <> BThrottle.

  (* what pump_write leaves alone *)
  Definition wframe (s s' : st) : Prop :=
    (forall e, In e (s_inflight s') -> In e (s_inflight s))
    /\ map h_h (s_handlers s') = map h_h (s_handlers s) /\ s_next_h s' = s_next_h s
    /\ s_aborted s' = s_aborted s /\ s_cancels s' = s_cancels s /\ s_dropped s' = s_dropped s
    /\ (forall m, In m (s_respq s') -> In m (s_respq s)).

  Lemma wframe_refl : forall s, wframe s s.
  Proof. intros s; unfold wframe; repeat split; auto. Qed.
  Lemma wframe_trans : forall s1 s2 s3, wframe s1 s2 -> wframe s2 s3 -> wframe s1 s3.
  Proof.
    intros s1 s2 s3 (A1 & A2 & A3 & A4 & A5 & A6 & A7) (B1 & B2 & B3 & B4 & B5 & B6 & B7).
    unfold wframe; repeat split; auto; congruence.
  Qed.
  Lemma wframe_core : forall s s', same_core s s' -> s_respq s' = s_respq s -> wframe s s'.
  Proof.
    intros s s' (C1 & C2 & C3 & C4 & C5 & C6 & C7 & C8) Q. unfold wframe.
    rewrite C1, C2, C3, C5, C6, C8, Q. repeat split; auto.
  Qed.

  Lemma IF_ready : forall o (s : st) r s',
    InvU o s -> c_err (o_v o) = false -> do_ready tp s = (r, s') ->
    let o' := o_call lim o (CReady r) in
    InvU o' s' /\ c_err (o_v o') = false /\ o_pend o' = o_pend o /\ wframe s s'
    /\ s_log s' = CReady r :: s_log s /\ s_respq s' = s_respq s.
  Proof.
    intros o s r s' HI Hce H. cbv zeta.
    destruct (do_ready_core tp _ _ _ H) as (C & F & Q & _ & _ & L).
    destruct (ocall_ready_tab lim o r) as ((_ & _ & _ & Tp & Tc) & _).
    split; [eapply step_ready; eauto|]. split; [congruence|]. split; [|split; [apply wframe_core; auto|auto]].
    unfold o_call. fold (pre_err o). destruct (pre_err_proj o) as (_ & _ & _ & _ & A5 & _). oproj. exact A5.
  Qed.
  Lemma IF_flush : forall o (s : st) r s',
    InvU o s -> c_err (o_v o) = false -> do_flush tp s = (r, s') ->
    let o' := o_call lim o (CFlush r) in
    InvU o' s' /\ c_err (o_v o') = false /\ o_pend o' = o_pend o /\ wframe s s'
    /\ s_log s' = CFlush r :: s_log s /\ s_respq s' = s_respq s.
  Proof.
    intros o s r s' HI Hce H. cbv zeta.
    destruct (do_flush_core tp _ _ _ H) as (C & F & Q & _ & _ & L).
    destruct (ocall_flush_tab lim o r) as ((_ & _ & _ & Tp & Tc) & _).
    split; [eapply step_flush; eauto|]. split; [congruence|]. split; [|split; [apply wframe_core; auto|auto]].
    unfold o_call. fold (pre_err o). destruct (pre_err_proj o) as (_ & _ & _ & _ & A5 & _). oproj. exact A5.
  Qed.

  Definition wpost (o : ostate) (s : st) (o' : ostate) (s' : st) : Prop :=
    InvU o' s' /\ c_err (o_v o') = false /\ o_pend o' = o_pend o /\ wframe s s'.

  (* Requests::ensure_writeable *)
  Lemma ensure_inv : forall o (s : st) w s',
    InvU o s -> c_err (o_v o) = false -> ensure_writeable tp s = (w, s') ->
    exists new, ext s s' new /\ wpost o s (ocs new o) s' /\ s_respq s' = s_respq s.
  Proof.
    intros o s w s' HI Hce H. unfold ensure_writeable in H.
    destruct (do_ready tp s) as [r s1] eqn:E1.
    destruct (IF_ready _ _ _ _ HI Hce E1) as (I1 & C1 & P1 & W1 & L1 & Q1). cbv zeta in *.
    assert (X1 : ext s s1 [CReady r]) by (unfold ext; rewrite L1; reflexivity).
    destruct r; try (injection H as <- <-; eexists;
                     (split; [exact X1|]); (split; [exact (conj I1 (conj C1 (conj P1 W1)))|exact Q1])).
    destruct (do_flush tp s1) as [f s2] eqn:E2.
    destruct (IF_flush _ _ _ _ I1 C1 E2) as (I2 & C2 & P2 & W2 & L2 & Q2). cbv zeta in *.
    assert (X2 : ext s s2 ([CReady TPending] ++ [CFlush f])).
    { eapply ext_trans; [exact X1|]. unfold ext; rewrite L2; reflexivity. }
    destruct f; try (injection H as <- <-; eexists; (split; [exact X2|]); rewrite ocs_app; cbn [fold_left];
                     (split; [exact (conj I2 (conj C2 (conj (eq_trans P2 P1) (wframe_trans _ _ _ W1 W2))))|congruence])).
    destruct (do_ready tp s2) as [r2 s3] eqn:E3.
    destruct (IF_ready _ _ _ _ I2 C2 E3) as (I3 & C3 & P3 & W3 & L3 & Q3). cbv zeta in *.
    assert (X3 : ext s s3 (([CReady TPending] ++ [CFlush TOk]) ++ [CReady r2])).
    { eapply ext_trans; [exact X2|]. unfold ext; rewrite L3; reflexivity. }
    destruct r2; injection H as <- <-; eexists; (split; [exact X3|]); rewrite !ocs_app; cbn [fold_left];
      (split; [exact (conj I3 (conj C3 (conj (eq_trans P3 (eq_trans P2 P1))
                                               (wframe_trans _ _ _ (wframe_trans _ _ _ W1 W2) W3))))|congruence]).
  Qed.

  (* Requests::pump_write *)
  Lemma pump_write_inv : forall rc o (s : st) w s',
    InvU o s -> c_err (o_v o) = false -> no_thr s -> pump_write tp rc s = (w, s') ->
    exists new, ext s s' new /\ wpost o s (ocs new o) s' /\ no_thr s'.
  Proof.
    intros rc o s w s' HI Hce Hnt H. unfold pump_write, poll_next_response in H.
    destruct (ensure_writeable tp s) as [x s1] eqn:EW.
    destruct (ensure_inv _ _ _ _ HI Hce EW) as (n1 & X1 & (I1 & C1 & P1 & W1) & Q1).
    assert (Hnt1 : no_thr s1) by (intros m Hm; apply Hnt; rewrite <- Q1; exact Hm).
    assert (Hflush : forall w s',
      (let '(f, s2) := do_flush tp s1 in
       match f with
       | TOk => if rc && Nat.eqb (length (s_inflight s2)) 0 then (@PEnd unit, s2) else (PPending, s2)
       | TErr => (PErr AFlush, s2)
       | TPending => (PPending, s2)
       end) = (w, s') ->
      exists new, ext s s' new /\ wpost o s (ocs new o) s' /\ no_thr s').
    { intros w0 s0 HH. destruct (do_flush tp s1) as [f s2] eqn:EF.
      destruct (IF_flush _ _ _ _ I1 C1 EF) as (I2 & C2 & P2 & W2 & L2 & Q2). cbv zeta in *.
      assert (X2 : ext s s2 (n1 ++ [CFlush f])).
      { eapply ext_trans; [exact X1|]. unfold ext; rewrite L2; reflexivity. }
      assert (Hnt2 : no_thr s2) by (intros m Hm; apply Hnt1; rewrite <- Q2; exact Hm).
      assert (R : exists new, ext s s2 new /\ wpost o s (ocs new o) s2 /\ no_thr s2).
      { eexists; split; [exact X2|]. rewrite ocs_app. cbn [fold_left].
        split; [exact (conj I2 (conj C2 (conj (eq_trans P2 P1) (wframe_trans _ _ _ W1 W2))))|exact Hnt2]. }
      destruct f; [destruct (rc && _)| |]; injection HH as <- <-; exact R. }
    destruct x as [| |a].
    - destruct (s_respq s1) as [|m q] eqn:EQ.
      + apply (Hflush w s'). exact H.
      + destruct (base_start_send tp m (add_permit (set_respq s1 q))) as [e s2] eqn:ES.
        assert (Hm : resp_body m <> BThrottle) by (apply Hnt1; rewrite EQ; left; reflexivity).
        destruct (add_permit_shape (set_respq s1 q)) as (A1 & A2 & A3 & A4 & A5 & A6 & A7 & A8 & A9 & A10 & A11 & A12 & A13).
        cbv zeta in *. sproj.
        assert (Hq2 : forall mm, In mm (s_respq s2) -> In mm (s_respq s1)).
        { destruct (base_start_send_shape tp _ _ _ _ ES) as [(_ & _ & ->)|(_ & _ & _ & _ & _ & _ & _ & _ & _ & _ & _ & _ & _ & B12 & _)];
            intros mm Hmm; [rewrite A11 in Hmm|rewrite B12, A11 in Hmm]; rewrite EQ; right; exact Hmm. }
        assert (Hnt2 : no_thr s2) by (intros mm Hmm; apply Hnt1; apply Hq2; exact Hmm).
        destruct (step_send tp lim _ s1 m q e s2 I1 C1 Hm ES)
          as [(He & L2 & I2 & Hsub & Hieq)|(r & L2 & He & I2 & P2 & C2 & Hi2)]; cbv zeta in *.
        * assert (W2 : wframe s1 s2).
          { destruct (base_start_send_shape tp _ _ _ _ ES) as [(_ & _ & ->)|(en & rr & _ & _ & _ & _ & _ & _ & _ & _ & _ & _ & _ & _ & _ & _ & LL)].
            - unfold wframe. rewrite A1, A3, A6, A7, A9. repeat split; auto.
            - exfalso. rewrite A12 in LL. rewrite L2 in LL. clear -LL.
              assert (length (s_log s1) = length (CSend m rr :: s_log s1)) by (rewrite <- LL; reflexivity).
              cbn in H. lia. }
          assert (R : exists new, ext s s2 new /\ wpost o s (ocs new o) s2 /\ no_thr s2).
          { exists n1. split; [unfold ext in *; rewrite L2; exact X1|].
            split; [exact (conj I2 (conj C1 (conj P1 (wframe_trans _ _ _ W1 W2))))|exact Hnt2]. }
          subst e. injection H as <- <-. exact R.
        * assert (W2 : wframe s1 s2).
          { destruct (base_start_send_shape tp _ _ _ _ ES) as [(_ & _ & Heq)|(en & rr & _ & _ & B1 & B2 & B3 & B4 & B5 & B6 & B7 & B8 & B9 & B10 & _)].
            - exfalso. rewrite Heq, A12 in L2. clear -L2.
              assert (length (s_log s1) = length (CSend m r :: s_log s1)) by (rewrite <- L2; reflexivity).
              cbn in H. lia.
            - unfold wframe. rewrite B3, B4, B5, B6, B8, A1, A3, A6, A7, A9. repeat split; auto.
              intros e0 He0. rewrite B1, A4 in He0. apply in_drop_entry in He0. tauto. }
          assert (R : exists new, ext s s2 new /\ wpost o s (ocs new o) s2 /\ no_thr s2).
          { exists (n1 ++ [CSend m r]). split; [eapply ext_trans; [exact X1|unfold ext; rewrite L2; reflexivity]|].
            rewrite ocs_app. cbn [fold_left].
            split; [exact (conj I2 (conj C2 (conj (eq_trans P2 P1) (wframe_trans _ _ _ W1 W2))))|exact Hnt2]. }
          destruct e; injection H as <- <-; exact R.
    - apply (Hflush w s'). exact H.
    - injection H as <- <-. exists n1. split; [exact X1|]. split; [exact (conj I1 (conj C1 (conj P1 W1)))|exact Hnt1].
  Qed.

  Lemma BInv_wpost : forall o (s : st) o' s', BInv o s -> wpost o s o' s' -> BInv o' s'.
  Proof.
    intros o s o' s' (HI & Hh & Hce) (I & C & P & (W1 & W2 & _)).
    split; [exact I|split; [|exact C]]. eapply handled_sub; eauto.
  Qed.
  Lemma QInv_wpost : forall o (s : st) q o' s', QInv o s q -> wpost o s o' s' -> QInv o' s' q.
  Proof.
    intros o s q o' s' (HI & HP & Hce) (I & C & P & (W1 & W2 & W3 & W4 & _)).
    split; [exact I|split; [|exact C]]. eapply PendQ_frame; eauto.
  Qed.

  Definition rpost (c : cfg) (r : pres treq) (o : ostate) (s : st) : Prop :=
    match r with
    | PReady q => QInv o s q
    | PEnd | PPending => BInv o s
    | PErr _ => BInv o s
                \/ exists q s2, QInv o s2 q /\ s = set_cancels s2 (s_cancels s2 ++ [q_id q])
    | PFuel => True
    end.

  (* impl Stream for Requests: poll_next *)
  Lemma requests_inv : forall c f (s : st) r s' o,
    cfg_limit c = lim ->
    BInv o s -> no_thr s -> requests_poll_next tp c f s = (r, s') ->
    exists new, ext s s' new /\ rpost c r (ocs new o) s' /\ no_thr s'.
  Proof.
    intros c f; induction f as [|f IH]; intros s r s' o Hlim HB Hnt H; cbn [requests_poll_next] in H.
    { injection H as <- <-. exists []. split; [apply ext_refl|split; [exact I|exact Hnt]]. }
    destruct (pump_read tp c (S f) s) as [rd s1] eqn:ER.
    assert (Hrd : exists n1, ext s s1 n1 /\ post rd (ocs n1 o) s1).
    { unfold pump_read in ER. destruct (cfg_limit c) as [l|]; [eapply maxreq_inv; eauto|eapply base_inv; eauto]. }
    destruct Hrd as (n1 & X1 & Post1).
    assert (Hq1 : s_respq s1 = s_respq s).
    { unfold pump_read in ER. destruct (cfg_limit c) as [l|].
      - (* respq is untouched by reads *)
        clear -ER. revert s l rd s1 ER. generalize (S f) as g.
        induction g as [|g IHg]; intros s l rd s1 ER; cbn [maxreq_poll_next] in ER; [injection ER as _ <-; reflexivity|].
        destruct (l <=? length (s_inflight s)).
        + destruct (do_ready tp s) as [x sx] eqn:E1. destruct (do_ready_core tp _ _ _ E1) as (_ & _ & Q1 & _).
          destruct x; try (injection ER as _ <-; exact Q1).
          destruct (base_poll_next tp (S g) sx) as [y sy] eqn:E2.
          pose proof (respq_base _ _ _ _ E2) as Q2.
          destruct y; try (injection ER as _ <-; congruence).
          destruct (base_start_send tp (mkresp (q_id x) BThrottle) sy) as [e sz] eqn:E3.
          pose proof (respq_start_send _ _ _ _ E3) as Q3.
          destruct e; [injection ER as _ <-; congruence|].
          rewrite (IHg _ _ _ _ ER). congruence.
        + exact (respq_base _ _ _ _ ER).
      - exact (respq_base _ _ _ _ ER). }
    assert (Hnt1 : no_thr s1) by (intros m Hm; apply Hnt; rewrite <- Hq1; exact Hm).
    destruct rd as [q| |a| |].
    - (* a request was accepted: pump_write, then yield *)
      destruct Post1 as ((HI1 & HP1 & Hce1) & Hin1).
      destruct (pump_write tp false s1) as [wr s2] eqn:EW.
      destruct (pump_write_inv _ _ _ _ _ HI1 Hce1 Hnt1 EW) as (n2 & X2 & WP & Hnt2).
      assert (X02 : ext s s2 (n1 ++ n2)) by (eapply ext_trans; eauto).
      pose proof (QInv_wpost _ _ _ _ _ (conj HI1 (conj HP1 Hce1)) WP) as HQ2.
      destruct wr as [u| |a| |]; injection H as <- <-; exists (n1 ++ n2); rewrite ocs_app;
        (split; [first [exact X02|unfold ext in *; sproj; exact X02]|]).
      + split; [exact HQ2|exact Hnt2].
      + split; [exact HQ2|exact Hnt2].
      + split; [right; exists q, s2; split; [exact HQ2|reflexivity]|]. intros m Hm. apply Hnt2. exact Hm.
      + split; [exact HQ2|exact Hnt2].
      + split; [exact I|exact Hnt2].
    - destruct (pump_write tp true s1) as [wr s2] eqn:EW.
      destruct Post1 as (HI1 & Hh1 & Hce1).
      destruct (pump_write_inv _ _ _ _ _ HI1 Hce1 Hnt1 EW) as (n2 & X2 & WP & Hnt2).
      assert (X02 : ext s s2 (n1 ++ n2)) by (eapply ext_trans; eauto).
      pose proof (BInv_wpost _ _ _ _ (conj HI1 (conj Hh1 Hce1)) WP) as HB2.
      destruct wr as [u| |a| |]; try (injection H as <- <-; exists (n1 ++ n2); rewrite ocs_app;
        (split; [exact X02|split; [first [exact HB2|left; exact HB2|exact I]|exact Hnt2]])).
      rewrite <- ocs_app in HB2.
      destruct (IH _ _ _ _ Hlim HB2 Hnt2 H) as (n3 & X3 & Post3 & Hnt3).
      exists ((n1 ++ n2) ++ n3). split; [eapply ext_trans; eauto|]. rewrite ocs_app. split; auto.
    - injection H as <- <-. exists n1. split; [exact X1|split; [left; exact Post1|exact Hnt1]].
    - destruct (pump_write tp false s1) as [wr s2] eqn:EW.
      destruct Post1 as (HI1 & Hh1 & Hce1).
      destruct (pump_write_inv _ _ _ _ _ HI1 Hce1 Hnt1 EW) as (n2 & X2 & WP & Hnt2).
      assert (X02 : ext s s2 (n1 ++ n2)) by (eapply ext_trans; eauto).
      pose proof (BInv_wpost _ _ _ _ (conj HI1 (conj Hh1 Hce1)) WP) as HB2.
      destruct wr as [u| |a| |]; try (injection H as <- <-; exists (n1 ++ n2); rewrite ocs_app;
        (split; [exact X02|split; [first [exact HB2|left; exact HB2|exact I]|exact Hnt2]])).
      rewrite <- ocs_app in HB2.
      destruct (IH _ _ _ _ Hlim HB2 Hnt2 H) as (n3 & X3 & Post3 & Hnt3).
      exists ((n1 ++ n2) ++ n3). split; [eapply ext_trans; eauto|]. rewrite ocs_app. split; auto.
    - injection H as <- <-. exists n1. split; [exact X1|split; [exact I|exact Hnt1]].
  Qed.
End Loops.
