(* Simulation, part 3: the invariant through the polling loops. *)
From Coq Require Import List Bool Arith NArith Lia.
Import ListNotations.
From TarpcV Require Import Base Transport TimerWheel Server ServerMon ServerFuel ServerContract
     ServerSim ServerSim2.

Section Loops.
  Context {T : Type}.
  Variable tp : transport T response cmsg.
  Variable lim : option nat.
  Notation st := (@sstate T).
  Notation ocs := (fold_left (o_call lim)).

  Lemma ocs_app : forall a b o, ocs (a ++ b) o = ocs b (ocs a o).
  Proof. intros. apply fold_left_app. Qed.

  (* the loop invariant of BaseChannel::poll_next *)
  Definition BInv (o : ostate) (s : st) : Prop :=
    InvU o s /\ (pend_id o = None \/ all_owned o s) /\ c_err (o_v o) = false.

  Lemma base_inv : forall f (s : st) r s' o,
    BInv o s -> base_poll_next tp f s = (r, s') ->
    exists new, ext s s' new /\
      let o' := ocs new o in
      match r with
      | PReady q => InvU o' s' /\ PendQ o' s' q /\ c_err (o_v o') = false
      | _ => BInv o' s'
      end.
  Proof.
    induction f as [|f IH]; intros s r s' o HB H; cbn [base_poll_next] in H.
    { injection H as <- <-. exists []. split; [apply ext_refl|exact HB]. }
    destruct HB as (HI & Hown & Hce).
    (* cancel queue *)
    set (cs := match s_cancels s with
               | id :: r0 => (RSReady, snd (remove_request id (set_cancels s r0)))
               | [] => (RSClosed, s) end) in H.
    assert (Hc : BInv o (snd cs) /\ s_log (snd cs) = s_log s).
    { subst cs. destruct (s_cancels s) as [|id r0] eqn:EC; cbn [snd]; [split; [exact (conj HI (conj Hown Hce))|reflexivity]|].
      split; [|rewrite log_remove_request; reflexivity].
      assert (HI1 : InvU o (snd (remove_request id (set_cancels s r0)))) by (apply InvU_server_cancel; auto).
      split; [exact HI1|split; [|exact Hce]].
      destruct Hown as [Hp|Ha]; [left; exact Hp|right].
      intros _ e He.
      destruct (remove_request_shape id (set_cancels s r0)) as [(_ & Heq & _)|(_ & _ & B1 & B2 & B3 & _)];
        cbv zeta in *.
      - rewrite Heq in He |- *. destruct (Ha Hce e He) as (k & Hk). exists k.
        eapply owns_frame; [| | |exact Hk]; reflexivity.
      - rewrite B1 in He. apply in_drop_entry in He. destruct He as [He Hne]. sproj.
        destruct (Ha Hce e He) as (k & hr & oi & X1 & X2 & X3 & X4 & X5 & X6 & X7).
        exists k, hr, oi. rewrite B3, B2. sproj. repeat split; auto.
        apply in_drop_timer. split; [exact X6|exact Hne]. }
    destruct cs as [cst s1]. cbn [snd] in Hc. destruct Hc as ((HI1 & Hown1 & _) & Hl1).
    (* expiry *)
    destruct (poll_expired s1) as [est s2] eqn:EE.
    assert (HI2 : InvU o s2) by (eapply InvU_poll_expired; eauto).
    pose proof (log_poll_expired s1) as Hl2. rewrite EE in Hl2. cbn [snd] in Hl2.
    assert (Hown2 : pend_id o = None \/ all_owned o s2).
    { destruct Hown1 as [Hp|Ha]; [left; exact Hp|right]. intros _ e He.
      destruct (poll_expired_shape _ _ _ EE) as (A1 & A2 & A3 & A4 & A5 & A6 & _ & _ & _ & _ & _ & HH).
      destruct HH as [(_ & B1 & B2 & _)|(_ & id & w & _ & _ & C3 & C4 & _)].
      - rewrite B1 in He. destruct (Ha Hce e He) as (k & Hk). exists k. eapply owns_frame; eauto.
      - rewrite C4 in He. apply in_drop_entry in He. destruct He as [He Hne].
        destruct (Ha Hce e He) as (k & hr & oi & X1 & X2 & X3 & X4 & X5 & X6 & X7).
        exists k, hr, oi. rewrite A1, C3. repeat split; auto. apply in_drop_timer. split; [exact X6|exact Hne]. }
    assert (H02 : ext s s2 []) by (apply ext_same; congruence).
    assert (HB2 : BInv o s2) by (exact (conj HI2 (conj Hown2 Hce))).
    (* the final status *)
    assert (Hfin : forall rst sx new0 r s',
               ext s sx new0 -> BInv (ocs new0 o) sx ->
               match combine (combine cst est) rst with
               | RSReady => base_poll_next tp f sx
               | RSClosed => (PEnd, sx)
               | RSPending => (PPending, sx)
               end = (r, s') ->
               exists new, ext s s' new /\
                 match r with
                 | PReady q => InvU (ocs new o) s' /\ PendQ (ocs new o) s' q /\ c_err (o_v (ocs new o)) = false
                 | _ => BInv (ocs new o) s'
                 end).
    { intros rst sx new0 r0 s0 Hx HBx HH. destruct (combine (combine cst est) rst).
      - destruct (IH _ _ _ _ HBx HH) as (n1 & E1 & Post). exists (new0 ++ n1).
        split; [eapply ext_trans; eauto|]. rewrite ocs_app. exact Post.
      - injection HH as <- <-. exists new0. split; [exact Hx|exact HBx].
      - injection HH as <- <-. exists new0. split; [exact Hx|exact HBx]. }
    destruct (s_fused s2) eqn:EF.
    - apply (Hfin RSClosed s2 []); [exact H02|exact HB2|exact H].
    - destruct (do_next tp s2) as [rr s3] eqn:EN.
      destruct (do_next_core tp _ _ _ EN) as (C3 & F3 & _ & _ & _ & L3).
      assert (H23 : ext s s3 [CNext rr]).
      { unfold ext in *. rewrite L3, H02. reflexivity. }
      destruct rr as [m| | |].
      + destruct m as [id dl tr body|id tr].
        * destruct (start_request id dl s3) as [[h s4]|] eqn:ES.
          -- injection H as <- <-.
             destruct (step_next_accept tp lim o s2 id dl tr body s3 h s4 HI2 Hown2 Hce EN ES) as (A & B & C).
             exists [CNext (RItem (MReq id dl tr body))]. split; [|cbn [fold_left]; auto].
             unfold ext in *. rewrite (log_start_request _ _ _ _ _ ES). exact H23.
          -- destruct (step_next_dup tp lim o s2 id dl tr body s3 HI2 Hown2 Hce EN) as (A & B & C).
             assert (HB3 : BInv (ocs [CNext (RItem (MReq id dl tr body))] o) s3) by (cbn [fold_left]; exact (conj A (conj (or_intror B) C))).
             destruct (IH _ _ _ _ HB3 H) as (n1 & E1 & Post).
             exists ([CNext (RItem (MReq id dl tr body))] ++ n1). split; [eapply ext_trans; eauto|].
             rewrite ocs_app. exact Post.
        * destruct (step_next_cancel tp lim o s2 id tr s3 HI2 Hown2 Hce EN) as (A & B).
          apply (Hfin RSReady (cancel_request id s3) [CNext (RItem (MCancel id tr))]); [| |exact H].
          -- unfold ext in *. rewrite log_cancel_request. exact H23.
          -- cbn [fold_left]. split; [exact A|split; [left; exact B|]].
             destruct (ocall_next_proj lim o (RItem (MCancel id tr))) as (_ & _ & P3 & _). cbv zeta in P3. congruence.
      + injection H as <- <-.
        destruct (step_next_idle tp lim o s2 RErr s3 HI2 Hown2 Hce EN I) as (A & B).
        exists [CNext RErr]. split; [exact H23|]. cbn [fold_left]. split; [exact A|split; [left; exact B|]].
        destruct (ocall_next_proj lim o RErr) as (_ & _ & P3 & _). cbv zeta in P3. congruence.
      + destruct (step_next_idle tp lim o s2 REof s3 HI2 Hown2 Hce EN I) as (A & B).
        apply (Hfin RSClosed (set_fused s3 true) [CNext REof]); [exact H23| |exact H].
        cbn [fold_left]. split; [exact A|split; [left; exact B|]].
        destruct (ocall_next_proj lim o REof) as (_ & _ & P3 & _). cbv zeta in P3. congruence.
      + destruct (step_next_idle tp lim o s2 RPending s3 HI2 Hown2 Hce EN I) as (A & B).
        apply (Hfin RSPending s3 [CNext RPending]); [exact H23| |exact H].
        cbn [fold_left]. split; [exact A|split; [left; exact B|]].
        destruct (ocall_next_proj lim o RPending) as (_ & _ & P3 & _). cbv zeta in P3. congruence.
  Qed.
End Loops.
