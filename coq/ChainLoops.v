(* Chain proofs: the loops of SettleAll, once and for all.  Given a fold `f` over observations
   and an invariant `Inv` of (fold state, chain) that the four component polls preserve, that
   ignores non-events and the tail of a SettleAll (KRounds, gauges), SettleAll preserves it. *)
From Coq Require Import List Bool Arith NArith Lia.
Import ListNotations.
From TarpcV Require Import Base Transport TimerWheel Chain ChainBase.
From TarpcV Require Client Server.

Section Loops.
  Variable X : Type.
  Variable f : X -> cobs -> X.
  Variable Inv : X -> chain -> Prop.
  Hypothesis H_head : forall x j ch ch' l, Inv x ch -> poll_head j ch = (ch', l) -> Inv (fold_left f l x) ch'.
  Hypothesis H_disp : forall x i ch ch' l,
    Inv x ch -> Chain.poll_dispatch i ch = (ch', l) -> Inv (fold_left f l x) ch'.
  Hypothesis H_req : forall x i ch ch' l, Inv x ch -> poll_requests i ch = (ch', l) -> Inv (fold_left f l x) ch'.
  Hypothesis H_hand : forall x i k st ch ch' l,
    Inv x ch -> poll_handler i k st ch = (ch', l) -> Inv (fold_left f l x) ch'.
  Hypothesis H_nonevent : forall x e, is_event e = false -> f x e = x.
  Hypothesis H_tail : forall x ch (q : bool),
    Inv x ch -> Inv (fold_left f ((if q then [] else [KRounds]) ++ all_gauges 0 ch) x) ch.

  Lemma lp_filter l : forall x, fold_left f (filter is_event l) x = fold_left f l x.
  Proof.
    induction l as [|e r IH]; intro x; cbn; [reflexivity|]. destruct (is_event e) eqn:E; cbn.
    - apply IH.
    - rewrite (H_nonevent x e E). apply IH.
  Qed.

  Lemma lp_poll_heads n : forall j ch acc ch' l x,
    Inv (fold_left f acc x) ch -> poll_heads j n ch acc = (ch', l) -> Inv (fold_left f l x) ch'.
  Proof.
    induction n as [|n IH]; intros j ch acc ch' l x H E; cbn [poll_heads] in E; [pinj E; exact H|].
    match type of E with (if ?b then _ else _) = _ => destruct b end.
    - destruct (poll_head j ch) as [ch1 l1] eqn:EP.
      eapply IH; [|exact E]. rewrite fold_left_app. eapply H_head; eassumption.
    - eapply IH; eassumption.
  Qed.
  Lemma lp_poll_handlers i n : forall k ch acc ch' l x,
    Inv (fold_left f acc x) ch -> poll_handlers i k n ch acc = (ch', l) -> Inv (fold_left f l x) ch'.
  Proof.
    induction n as [|n IH]; intros k ch acc ch' l x H E; cbn [poll_handlers] in E; [pinj E; exact H|].
    destruct (poll_handler i k Server.SRun ch) as [ch1 l1] eqn:EP.
    eapply IH; [|exact E]. rewrite fold_left_app. eapply H_hand; eassumption.
  Qed.
  Lemma lp_settle_node x i ch ch' l : Inv x ch -> settle_node i ch = (ch', l) -> Inv (fold_left f l x) ch'.
  Proof.
    intros H E. unfold settle_node in E.
    destruct (Chain.poll_dispatch i ch) as [ch1 l1] eqn:E1.
    destruct (poll_requests i ch1) as [ch2 l2] eqn:E2.
    destruct (poll_handlers i 0 _ ch2 []) as [ch3 l3] eqn:E3. pinj E.
    rewrite !fold_left_app.
    eapply (lp_poll_handlers i _ 0 ch2 [] ch3 l3); [|exact E3]. cbn [fold_left].
    eapply H_req; [|exact E2]. eapply H_disp; eassumption.
  Qed.
  Lemma lp_settle_nodes n : forall i ch acc ch' l x,
    Inv (fold_left f acc x) ch -> settle_nodes i n ch acc = (ch', l) -> Inv (fold_left f l x) ch'.
  Proof.
    induction n as [|n IH]; intros i ch acc ch' l x H E; cbn [settle_nodes] in E; [pinj E; exact H|].
    destruct (settle_node i ch) as [ch1 l1] eqn:EP.
    eapply IH; [|exact E]. rewrite fold_left_app. eapply lp_settle_node; eassumption.
  Qed.
  Lemma lp_round x ch ch' ev : Inv x ch -> round ch = (ch', ev) -> Inv (fold_left f ev x) ch'.
  Proof.
    intros H E. unfold round in E.
    destruct (poll_heads 0 _ ch []) as [ch1 l1] eqn:E1.
    destruct (settle_nodes 0 _ ch1 []) as [ch2 l2] eqn:E2. pinj E.
    rewrite lp_filter, fold_left_app.
    eapply (lp_settle_nodes _ 0 ch1 [] ch2 l2); [|exact E2]. cbn [fold_left].
    eapply (lp_poll_heads _ 0 ch [] ch1 l1); [exact H|exact E1].
  Qed.
  Lemma lp_settle n : forall ch acc ch' evs q x,
    Inv (fold_left f acc x) ch -> settle n ch acc = (ch', evs, q) -> Inv (fold_left f evs x) ch'.
  Proof.
    induction n as [|n IH]; intros ch acc ch' evs q x H E; cbn [settle] in E.
    - pinj E. match goal with H : (_, _) = (_, _) |- _ => pinj H end. exact H.
    - destruct (round ch) as [ch1 ev] eqn:ER.
      pose proof (lp_round _ _ _ _ H ER) as H1.
      match type of E with (if ?b then _ else _) = _ => destruct b eqn:EB end.
      + pinj E. match goal with H : (_, _) = (_, _) |- _ => pinj H end.
        apply andb_true_iff in EB. destruct EB as [_ EB]. destruct ev; [|discriminate]. exact H1.
      + eapply IH; [|exact E]. rewrite fold_left_app. exact H1.
  Qed.
  Lemma lp_settle_all x ch ch' l : Inv x ch -> settle_all ch = (ch', l) -> Inv (fold_left f l x) ch'.
  Proof.
    intros H E. unfold settle_all in E. destruct (settle _ ch []) as [[ch1 ev] q] eqn:ES. pinj E.
    pose proof (lp_settle _ ch [] ch1 ev q x H ES) as H1.
    rewrite fold_left_app. apply H_tail, H1.
  Qed.
End Loops.
