(* C14, server half: for EVERY transport (any state type, any behaviour, any remote control
   between polls, any fuel measure) the call log of every poll of the Requests stream satisfies
   Transport.contract_ok, up to and including the first poll that returns an error. *)
From Coq Require Import List Bool Arith NArith Lia.
Import ListNotations.
From TarpcV Require Import Base Transport TimerWheel Server ServerMon ServerFuel.

Section Contract.
  Context {T C : Type}.
  Variable tp : transport T response cmsg.
  Variable ctl : T -> C -> T.
  Variable tfuel : T -> nat.
  Notation st := (@sstate T).
  Notation fs := (fun _ : response => true).
  Notation cc := (@c_calls response cmsg fs).

  (* s' extends the log of s by the calls `new` (s_log is kept in reverse) *)
  Definition ext (s s' : st) (new : list call) : Prop := s_log s' = rev new ++ s_log s.

  Lemma ext_refl : forall s, ext s s []. Proof. intros; reflexivity. Qed.
  Lemma ext_trans : forall s s1 s2 a b, ext s s1 a -> ext s1 s2 b -> ext s s2 (a ++ b).
  Proof. unfold ext; intros. rewrite H0, H, rev_app_distr, app_assoc. reflexivity. Qed.
  Lemma ext_same : forall s s', s_log s' = s_log s -> ext s s' [].
  Proof. unfold ext; intros; cbn; assumption. Qed.

  Lemma cc_app : forall a b cs,
    cc cs (a ++ b) = let '(ok, cs1) := cc cs a in if ok then cc cs1 b else (false, cs1).
  Proof.
    induction a as [|x a IH]; intros b cs; cbn; [reflexivity|].
    destruct (@c_step response cmsg fs cs x) as [ok cs1]. destruct ok; [apply IH|reflexivity].
  Qed.

  Lemma cc_app_ok : forall a b cs cs1 cs2,
    cc cs a = (true, cs1) -> cc cs1 b = (true, cs2) -> cc cs (a ++ b) = (true, cs2).
  Proof. intros. rewrite cc_app, H. exact H0. Qed.

  (* ---- log frames ------------------------------------------------------------------------ *)
  Lemma log_remove_request : forall id (s : st), s_log (snd (remove_request id s)) = s_log s.
  Proof. intros; unfold remove_request; destruct (find_entry id s); reflexivity. Qed.
  Lemma log_cancel_request : forall id (s : st), s_log (cancel_request id s) = s_log s.
  Proof. intros; unfold cancel_request; destruct (find_entry id s); reflexivity. Qed.
  Lemma log_poll_expired : forall (s : st), s_log (snd (poll_expired s)) = s_log s.
  Proof.
    intros; unfold poll_expired. destruct (s_timers s); [reflexivity|].
    destruct (dq_poll (s_now s) (s_dq s)) as [ch dq']. destruct (due s) as [|[i w] r].
    - destruct ch; reflexivity.
    - match goal with |- context [let '(_, _) := ?X in _] => destruct X as [v ag] end.
      destruct ag; sproj; match goal with |- context [find_entry ?a ?b] => destruct (find_entry a b) end;
        reflexivity.
  Qed.
  Lemma log_start_request : forall id dl (s : st) h s',
    start_request id dl s = Some (h, s') -> s_log s' = s_log s.
  Proof.
    intros id dl s h s' H; unfold start_request in H. destruct (tracked id s); [discriminate|].
    injection H as _ <-. reflexivity.
  Qed.
  Lemma log_add_permit : forall (s : st), s_log (add_permit s) = s_log s.
  Proof.
    intros s; unfold add_permit. destruct (s_waiters s) as [|k r]; [reflexivity|]. sproj.
    destruct (nth_error (s_handlers s) k) as [[h i [| |b|b| |]]|]; reflexivity.
  Qed.

  (* ---- BaseChannel::poll_next only reads ------------------------------------------------- *)
  Definition is_next (c : call) : Prop := match c with CNext _ => True | _ => False end.

  Lemma base_ext : forall f (s : st) r s',
    base_poll_next tp f s = (r, s') -> exists new, ext s s' new /\ Forall is_next new.
  Proof.
    induction f as [|f IH]; intros s r s' H; cbn [base_poll_next] in H.
    { injection H as _ <-. exists []. split; [apply ext_refl|constructor]. }
    set (cs := match s_cancels s with
               | id :: r0 => (RSReady, snd (remove_request id (set_cancels s r0)))
               | [] => (RSClosed, s) end) in H.
    assert (Hc : s_log (snd cs) = s_log s).
    { subst cs. destruct (s_cancels s); [reflexivity|]. cbn [snd]. rewrite log_remove_request. reflexivity. }
    destruct cs as [cst s1]. cbn [snd] in Hc.
    pose proof (log_poll_expired s1) as He. destruct (poll_expired s1) as [est s2]. cbn [snd] in He.
    assert (H02 : ext s s2 []) by (apply ext_same; congruence).
    assert (Hfin : forall rst sx new0 r s',
               ext s sx new0 -> Forall is_next new0 ->
               match combine (combine cst est) rst with
               | RSReady => base_poll_next tp f sx
               | RSClosed => (PEnd, sx)
               | RSPending => (PPending, sx)
               end = (r, s') -> exists new, ext s s' new /\ Forall is_next new).
    { intros rst sx new0 r0 s0 Hx Hn HH. destruct (combine (combine cst est) rst).
      - destruct (IH _ _ _ HH) as (n1 & E1 & F1). exists (new0 ++ n1).
        split; [eapply ext_trans; eauto|apply Forall_app; auto].
      - injection HH as _ <-. eauto.
      - injection HH as _ <-. eauto. }
    destruct (s_fused s2).
    - eapply Hfin; [exact H02|constructor|exact H].
    - unfold do_next in H. destruct (t_next tp (s_t s2)) as [rr t'].
      set (s3 := set_log (set_t s2 t') (CNext rr :: s_log s2)) in *.
      assert (H23 : ext s s3 [CNext rr]).
      { unfold ext in *. subst s3; sproj. rewrite H02. reflexivity. }
      assert (Fn : Forall is_next [CNext rr]) by (repeat constructor).
      destruct rr as [m| | |].
      + destruct m as [id dl tr body|id tr].
        * destruct (start_request id dl s3) as [[h s4]|] eqn:ES.
          -- injection H as _ <-. exists [CNext (RItem (MReq id dl tr body))]. split; [|exact Fn].
             unfold ext in *. rewrite (log_start_request _ _ _ _ _ ES). exact H23.
          -- destruct (IH _ _ _ H) as (n1 & E1 & F1). exists ([CNext (RItem (MReq id dl tr body))] ++ n1).
             split; [eapply ext_trans; eauto|apply Forall_app; auto].
        * eapply (Hfin RSReady (cancel_request id s3)); [|exact Fn|exact H].
          unfold ext in *. rewrite log_cancel_request. exact H23.
      + injection H as _ <-. eauto.
      + eapply (Hfin RSClosed (set_fused s3 true)); [|exact Fn|exact H]. exact H23.
      + eapply (Hfin RSPending s3); [exact H23|exact Fn|exact H].
  Qed.

  (* reads never fail a check; they keep every field but the streak (reset) and rfailed *)
  Lemma cc_nexts : forall new, Forall is_next new -> forall cs,
    exists cs', cc cs new = (true, cs') /\ licensed cs' = licensed cs /\ closed cs' = closed cs
                /\ failed cs' = failed cs /\ dirty cs' = dirty cs
                /\ last_flush_pending cs' = last_flush_pending cs /\ streak cs' <= streak cs.
  Proof.
    induction 1 as [|c l Hc Hl IH]; intros cs; cbn.
    - exists cs. repeat split; auto.
    - destruct c; try contradiction. cbn.
      match goal with |- context [cc ?X l] => destruct (IH X) as (cs' & A & B1 & B2 & B3 & B4 & B5 & B6) end.
      exists cs'. cbn in *. repeat split; auto; try congruence; lia.
  Qed.

  (* ---- the invariant on the contract state and the Hoare-style specs ----------------------- *)
  Definition Iok (cs : cst) : Prop := closed cs = false /\ failed cs = false.

  Definition good (new : list call) (Pre : cst -> Prop) (Post : cst -> Prop) : Prop :=
    forall cs, Pre cs -> exists cs', cc cs new = (true, cs') /\ Post cs'.

  Lemma good_seq : forall a b P Q R, good a P Q -> good b Q R -> good (a ++ b) P R.
  Proof.
    intros a b P Q R Ha Hb cs HP. destruct (Ha cs HP) as (c1 & E1 & HQ).
    destruct (Hb c1 HQ) as (c2 & E2 & HR). exists c2. split; [eapply cc_app_ok; eauto|exact HR].
  Qed.
  Lemma good_weaken : forall a (P P' Q Q' : cst -> Prop),
    good a P Q -> (forall cs, P' cs -> P cs) -> (forall cs, Q cs -> Q' cs) -> good a P' Q'.
  Proof. intros a P P' Q Q' H HP HQ cs Hcs. destruct (H cs (HP cs Hcs)) as (c & E & F). eauto. Qed.
  Lemma good_nil : forall (P Q : cst -> Prop), (forall cs, P cs -> Q cs) -> good [] P Q.
  Proof. intros P Q H cs HP. exists cs. split; [reflexivity|auto]. Qed.

  Lemma leb_S_8 : forall n, n <= 7 -> (S n <=? max_streak) = true.
  Proof. intros; apply Nat.leb_le; unfold max_streak; lia. Qed.

  Lemma base_good : forall f (s : st) r s' b n,
    base_poll_next tp f s = (r, s') ->
    exists new, ext s s' new /\
      good new (fun cs => Iok cs /\ licensed cs = b /\ streak cs <= n)
               (fun cs => Iok cs /\ licensed cs = b /\ streak cs <= n).
  Proof.
    intros f s r s' b n H. destruct (base_ext _ _ _ _ H) as (new & E & F). exists new. split; [exact E|].
    intros cs ((A1 & A2) & A3 & A4).
    destruct (cc_nexts new F cs) as (cs' & B & B1 & B2 & B3 & B4 & B5 & B6).
    exists cs'. split; [exact B|]. unfold Iok. repeat split; try congruence; lia.
  Qed.

  (* BaseChannel::start_send *)
  Lemma start_send_good : forall m (s : st) e s',
    base_start_send tp m s = (e, s') ->
    exists new, ext s s' new /\
      good new (fun cs => Iok cs /\ licensed cs = true /\ streak cs = 0)
               (fun cs => match e with
                          | None => Iok cs /\ streak cs = 0
                          | Some _ => True end).
  Proof.
    intros m s e s' H; unfold base_start_send in H.
    pose proof (log_remove_request (resp_id m) s) as Hl.
    destruct (remove_request (resp_id m) s) as [was s1]. cbn [snd] in Hl. destruct was.
    - unfold do_send in H. destruct (t_send tp (s_t s1) m) as [r t']. injection H as <- <-.
      exists [CSend m r]. split; [unfold ext; sproj; rewrite Hl; reflexivity|].
      intros cs ((A1 & A2) & A3 & A4). cbn. rewrite A1, A2, A3. cbn.
      eexists; split; [reflexivity|]. destruct r; cbn; [|exact I]. unfold Iok; cbn. auto.
    - injection H as <- <-. exists []. split; [apply ext_same; exact Hl|].
      apply good_nil. intros cs (Hc & _ & Hs). auto.
  Qed.

  Ltac leb_true :=
    repeat match goal with
           | |- context [Nat.leb ?a ?b] => rewrite (proj2 (Nat.leb_le a b)) by (cbn in *; lia)
           end.
  Ltac go cs :=
    destruct cs as [lic cl fa rf di lfp stk]; unfold Iok in *; cbn in *; leb_true; cbn.

  (* Requests::ensure_writeable *)
  Lemma ensure_good : forall (s : st) w s',
    ensure_writeable tp s = (w, s') ->
    exists new, ext s s' new /\
      good new (fun cs => Iok cs /\ streak cs <= 1)
               (fun cs => match w with
                          | WOk => Iok cs /\ licensed cs = true /\ streak cs = 0
                          | WPending => Iok cs /\ streak cs <= 4
                          | WErr _ => True end).
  Proof.
    intros s w s' H; unfold ensure_writeable, do_ready, do_flush in H.
    destruct (t_ready tp (s_t s)) as [r t1]. sproj.
    destruct r.
    - injection H as <- <-. exists [CReady TOk]. split; [reflexivity|].
      intros cs ((A1 & A2) & A3). go cs. eexists; split; [reflexivity|]. cbn; auto.
    - injection H as <- <-. exists [CReady TErr]. split; [reflexivity|].
      intros cs ((A1 & A2) & A3). go cs. eexists; split; [reflexivity|exact I].
    - destruct (t_flush tp t1) as [f t2]. sproj. destruct f.
      + destruct (t_ready tp t2) as [r2 t3]. sproj.
        exists [CReady TPending; CFlush TOk; CReady r2].
        split; [destruct r2; injection H as <- <-; reflexivity|].
        intros cs ((A1 & A2) & A3). go cs.
        eexists; split; [reflexivity|].
        destruct r2; injection H as <- <-; cbn; auto. repeat split; auto; lia.
      + injection H as <- <-. exists [CReady TPending; CFlush TErr]. split; [reflexivity|].
        intros cs ((A1 & A2) & A3). go cs.
        eexists; split; [reflexivity|exact I].
      + injection H as <- <-. exists [CReady TPending; CFlush TPending]. split; [reflexivity|].
        intros cs ((A1 & A2) & A3). go cs.
        eexists; split; [reflexivity|]. cbn. repeat split; auto; lia.
  Qed.

  Lemma flush_good : forall (s : st) f s',
    do_flush tp s = (f, s') ->
    ext s s' [CFlush f] /\
      good [CFlush f] (fun cs => Iok cs /\ streak cs <= 4)
           (fun cs => match f with
                      | TOk => Iok cs /\ dirty cs = false
                      | TPending => Iok cs /\ last_flush_pending cs = true
                      | TErr => True end).
  Proof.
    intros s f s' H; unfold do_flush in H. destruct (t_flush tp (s_t s)) as [x t'].
    injection H as <- <-. split; [reflexivity|].
    intros cs ((A1 & A2) & A3). go cs. eexists; split; [reflexivity|]. destruct x; cbn; auto.
  Qed.

  (* Requests::pump_write *)
  Lemma pump_write_good : forall rc (s : st) w s',
    pump_write tp rc s = (w, s') ->
    exists new, ext s s' new /\
      good new (fun cs => Iok cs /\ streak cs <= 1)
               (fun cs => match w with
                          | PReady _ => Iok cs /\ streak cs = 0
                          | PPending => Iok cs /\ (dirty cs = false \/ last_flush_pending cs = true)
                          | PEnd => Iok cs /\ dirty cs = false
                          | _ => True end).
  Proof.
    intros rc s w s' H; unfold pump_write, poll_next_response in H.
    destruct (ensure_writeable tp s) as [x s1] eqn:EW.
    destruct (ensure_good _ _ _ EW) as (n1 & E1 & G1).
    assert (Hflush : forall w s',
      (let '(f, s2) := do_flush tp s1 in
       match f with
       | TOk => if rc && Nat.eqb (length (s_inflight s2)) 0 then (@PEnd unit, s2) else (PPending, s2)
       | TErr => (PErr AFlush, s2)
       | TPending => (PPending, s2)
       end) = (w, s') ->
      good n1 (fun cs => Iok cs /\ streak cs <= 1) (fun cs => Iok cs /\ streak cs <= 4) ->
      exists new, ext s s' new /\
      good new (fun cs => Iok cs /\ streak cs <= 1)
               (fun cs => match w with
                          | PReady _ => Iok cs /\ streak cs = 0
                          | PPending => Iok cs /\ (dirty cs = false \/ last_flush_pending cs = true)
                          | PEnd => Iok cs /\ dirty cs = false
                          | _ => True end)).
    { intros w0 s0 HH G. destruct (do_flush tp s1) as [f s2] eqn:EF.
      destruct (flush_good _ _ _ EF) as (E2 & G2).
      exists (n1 ++ [CFlush f]).
      assert (Hext : ext s s2 (n1 ++ [CFlush f])) by (eapply ext_trans; eauto).
      destruct f; [destruct (rc && _)| |]; injection HH as <- <-; (split; [exact Hext|]);
        (eapply good_seq; [exact G|]); (eapply good_weaken; [exact G2|auto|]); cbn; intros cs Hc;
          try tauto. }
    destruct x as [| |a].
    - destruct (s_respq s1) as [|m q] eqn:EQ.
      + apply Hflush; [exact H|]. eapply good_weaken; [exact G1|auto|]. cbn. intros cs (A & B & D).
        split; [exact A|lia].
      + destruct (base_start_send tp m (add_permit (set_respq s1 q))) as [e s2] eqn:ES.
        destruct (start_send_good _ _ _ _ ES) as (n2 & E2 & G2).
        assert (E12 : ext s1 s2 n2).
        { unfold ext in *. rewrite E2, log_add_permit. reflexivity. }
        cbn beta iota in G1.
        destruct e; injection H as <- <-; exists (n1 ++ n2);
          (split; [eapply ext_trans; [exact E1|exact E12]|]);
          (apply (good_seq n1 n2 _ (fun cs => Iok cs /\ licensed cs = true /\ streak cs = 0)); [exact G1|]);
          (eapply good_weaken; [exact G2|cbn; tauto|cbn; tauto]).
    - apply Hflush; [exact H|]. eapply good_weaken; [exact G1|auto|]. cbn. tauto.
    - injection H as <- <-. exists n1. split; [exact E1|]. eapply good_weaken; [exact G1|auto|cbn; auto].
  Qed.

  (* MaxRequests::poll_next *)
  Lemma maxreq_good : forall f limit (s : st) r s',
    maxreq_poll_next tp f limit s = (r, s') ->
    exists new, ext s s' new /\
      good new (fun cs => Iok cs /\ streak cs = 0)
               (fun cs => match r with
                          | PErr _ | PFuel => True
                          | _ => Iok cs /\ streak cs <= 1 end).
  Proof.
    induction f as [|f IH]; intros limit s r s' H; cbn [maxreq_poll_next] in H.
    { injection H as <- <-. exists []. split; [apply ext_refl|]. apply good_nil; auto. }
    destruct (limit <=? length (s_inflight s)).
    - unfold do_ready in H. destruct (t_ready tp (s_t s)) as [x t1].
      set (s1 := set_log (set_t s t1) (CReady x :: s_log s)) in *.
      assert (E01 : ext s s1 [CReady x]) by reflexivity.
      destruct x.
      + destruct (base_poll_next tp (S f) s1) as [y s2] eqn:EB.
        destruct (base_good _ _ _ _ true 0 EB) as (n2 & E2 & G2).
        assert (G1 : good [CReady TOk] (fun cs => Iok cs /\ streak cs = 0)
                          (fun cs => Iok cs /\ licensed cs = true /\ streak cs <= 0)).
        { intros cs ((A1 & A2) & A3). go cs. eexists; split; [reflexivity|]. cbn; auto. }
        assert (G12 := good_seq _ _ _ _ _ G1 G2).
        assert (E02 : ext s s2 ([CReady TOk] ++ n2)) by (eapply ext_trans; eauto).
        destruct y as [q| |a| |].
        * destruct (base_start_send tp (mkresp (q_id q) BThrottle) s2) as [e s3] eqn:ESS.
          destruct (start_send_good _ _ _ _ ESS) as (n3 & E3 & G3).
          assert (G123 : good (([CReady TOk] ++ n2) ++ n3) (fun cs => Iok cs /\ streak cs = 0)
                              (fun cs => match e with None => Iok cs /\ streak cs = 0 | Some _ => True end)).
          { eapply good_seq; [exact G12|]. eapply good_weaken; [exact G3| |auto].
            cbn. intros cs (A & B & D). split; [exact A|split; [exact B|lia]]. }
          assert (E03 : ext s s3 (([CReady TOk] ++ n2) ++ n3)) by (eapply ext_trans; eauto).
          destruct e.
          -- injection H as <- <-. eexists; split; [exact E03|]. eapply good_weaken; [exact G123|auto|auto].
          -- destruct (IH _ _ _ _ H) as (n4 & E4 & G4).
             eexists; split; [eapply ext_trans; [exact E03|exact E4]|].
             eapply good_seq; [exact G123|exact G4].
        * injection H as <- <-. eexists; split; [exact E02|].
          eapply good_weaken; [exact G12|auto|]. cbn. intros cs (A & B & D). split; [exact A|lia].
        * injection H as <- <-. eexists; split; [exact E02|]. eapply good_weaken; [exact G12|auto|cbn; auto].
        * injection H as <- <-. eexists; split; [exact E02|].
          eapply good_weaken; [exact G12|auto|]. cbn. intros cs (A & B & D). split; [exact A|lia].
        * injection H as <- <-. eexists; split; [exact E02|]. eapply good_weaken; [exact G12|auto|cbn; auto].
      + injection H as <- <-. eexists; split; [exact E01|].
        intros cs ((A1 & A2) & A3). go cs. eexists; split; [reflexivity|exact I].
      + injection H as <- <-. eexists; split; [exact E01|].
        intros cs ((A1 & A2) & A3). go cs. eexists; split; [reflexivity|]. cbn. repeat split; auto; lia.
    - destruct (base_good _ _ _ _ false 0 H) as (n2 & E2 & G2).
      destruct (base_good _ _ _ _ true 0 H) as (n2' & E2' & G2').
      exists n2. split; [exact E2|].
      intros cs (A & B).
      destruct (licensed cs) eqn:EL.
      + assert (n2 = n2').
        { unfold ext in *. rewrite E2 in E2'. apply app_inv_tail in E2'.
          apply (f_equal (@rev call)) in E2'. rewrite !rev_involutive in E2'. exact E2'. }
        subst n2'. destruct (G2' cs) as (cs' & X & Y & Z & W); [split; [exact A|split; [exact EL|lia]]|].
        exists cs'. split; [exact X|]. destruct r; auto; split; auto; lia.
      + destruct (G2 cs) as (cs' & X & Y & Z & W); [split; [exact A|split; [exact EL|lia]]|].
        exists cs'. split; [exact X|]. destruct r; auto; split; auto; lia.
  Qed.

  Lemma base_good0 : forall f (s : st) r s' n,
    base_poll_next tp f s = (r, s') ->
    exists new, ext s s' new /\
      good new (fun cs => Iok cs /\ streak cs <= n) (fun cs => Iok cs /\ streak cs <= n).
  Proof.
    intros f s r s' n H. destruct (base_ext _ _ _ _ H) as (new & E & F). exists new. split; [exact E|].
    intros cs ((A1 & A2) & A3).
    destruct (cc_nexts new F cs) as (cs' & B & B1 & B2 & B3 & B4 & B5 & B6).
    exists cs'. split; [exact B|]. unfold Iok. repeat split; try congruence; lia.
  Qed.

  Lemma pump_read_good : forall c f (s : st) r s',
    pump_read tp c f s = (r, s') ->
    exists new, ext s s' new /\
      good new (fun cs => Iok cs /\ streak cs = 0)
               (fun cs => match r with
                          | PErr _ | PFuel => True
                          | _ => Iok cs /\ streak cs <= 1 end).
  Proof.
    intros c f s r s' H; unfold pump_read in H. destruct (cfg_limit c) as [l|].
    - exact (maxreq_good _ _ _ _ _ H).
    - destruct (base_good0 _ _ _ _ 0 H) as (n & E & G). exists n. split; [exact E|].
      eapply good_weaken; [exact G| |].
      + cbn. intros cs (A & B). split; [exact A|lia].
      + cbn. intros cs (A & B). destruct r; auto; split; auto; lia.
  Qed.

  (* impl Stream for Requests: poll_next *)
  Lemma requests_good : forall c f (s : st) r s',
    requests_poll_next tp c f s = (r, s') ->
    exists new, ext s s' new /\
      good new (fun cs => Iok cs /\ streak cs = 0)
               (fun cs => match r with
                          | PErr _ | PFuel => True
                          | PPending => Iok cs /\ (dirty cs = false \/ last_flush_pending cs = true)
                          | _ => Iok cs end).
  Proof.
    induction f as [|f IH]; intros s r s' H; cbn [requests_poll_next] in H.
    { injection H as <- <-. exists []. split; [apply ext_refl|]. apply good_nil; auto. }
    destruct (pump_read tp c (S f) s) as [rd s1] eqn:ER.
    destruct (pump_read_good _ _ _ _ _ ER) as (n1 & E1 & G1).
    destruct rd as [q| |a| |];
      try (injection H as <- <-; exists n1; split; [exact E1|]; eapply good_weaken; [exact G1|auto|cbn; auto]).
    all: match type of H with context [pump_write tp ?b ?sx] =>
           destruct (pump_write tp b sx) as [wr s2] eqn:EW;
           destruct (pump_write_good _ _ _ _ EW) as (n2 & E2 & G2) end.
    all: assert (E02 : ext s s2 (n1 ++ n2)) by (eapply ext_trans; eauto).
    all: assert (G12 : good (n1 ++ n2) (fun cs => Iok cs /\ streak cs = 0)
                       (fun cs => match wr with
                          | PReady _ => Iok cs /\ streak cs = 0
                          | PPending => Iok cs /\ (dirty cs = false \/ last_flush_pending cs = true)
                          | PEnd => Iok cs /\ dirty cs = false
                          | _ => True end))
           by (eapply good_seq; [exact G1|]; eapply good_weaken; [exact G2|cbn; tauto|auto]).
    all: destruct wr as [u| |a| |].
    all: try (injection H as <- <-; exists (n1 ++ n2); (split; [first [exact E02|unfold ext in *; sproj; exact E02]|]);
              eapply good_weaken; [exact G12|auto|cbn; tauto]).
    all: destruct (IH _ _ _ H) as (n3 & E3 & G3); exists ((n1 ++ n2) ++ n3);
         (split; [eapply ext_trans; eauto|]); eapply good_seq; [exact G12|exact G3].
  Qed.

  (* one poll, as the contract monitor sees it *)
  Lemma poll_requests_contract : forall c (s : st) s' l cs,
    s_dropped s = false ->
    poll_requests tp tfuel c s = (s', l) -> Iok cs ->
    exists log r, l = [OCalls log; r]
      /\ match r with
         | OStreamErr _ | OFuel =>
           fst (c_poll fs cs (log, false)) = true
         | OPending =>
           fst (c_poll fs cs (log, true)) = true /\ Iok (snd (c_poll fs cs (log, true)))
         | OYield _ _ _ _ _ | OStreamEnd =>
           fst (c_poll fs cs (log, false)) = true /\ Iok (snd (c_poll fs cs (log, false)))
         | _ => False
         end.
  Proof.
    intros c s s' l cs Hd H HI; unfold poll_requests in H. rewrite Hd in H.
    destruct (requests_poll_next tp c (poll_fuel tfuel s) (set_log s [])) as [r s1] eqn:ER.
    destruct (requests_good _ _ _ _ _ ER) as (new & E & G).
    assert (Hlog : rev (s_log s1) = new).
    { unfold ext in E. sproj. rewrite E, app_nil_r, rev_involutive. reflexivity. }
    set (cs0 := {| licensed := licensed cs; closed := closed cs; failed := failed cs;
                   rfailed := rfailed cs; dirty := dirty cs; last_flush_pending := false;
                   streak := 0 |}).
    assert (H0 : Iok cs0 /\ streak cs0 = 0) by (destruct HI; subst cs0; unfold Iok; cbn; auto).
    destruct (G cs0 H0) as (cs1 & X & Y).
    assert (Hp : forall b, c_poll fs cs (new, b) =
                 (true && (negb b || negb (dirty cs1) || last_flush_pending cs1 || failed cs1 || rfailed cs1), cs1)).
    { intros b. unfold c_poll. cbn [fst snd]. fold cs0. rewrite X. reflexivity. }
    destruct r as [q| |a| |]; injection H as <- <-; rewrite Hlog; do 2 eexists; (split; [reflexivity|]);
      rewrite ?Hp; cbn [fst snd negb orb andb]; auto.
    destruct Y as (Y1 & [Y2|Y2]); rewrite Y2; cbn; auto. destruct (dirty cs1); cbn; auto.
  Qed.

  Lemma run_contract : forall c ops (s : st) cs,
    Iok cs ->
    @c_polls response cmsg fs cs (polls_of ops (fst (run_from tp ctl tfuel c s ops))) = true.
  Proof.
    induction ops as [|o ops IH]; intros s cs HI; [reflexivity|].
    cbn [run_from]. destruct (step tp ctl tfuel c s o) as [s1 l] eqn:ES.
    destruct (run_from tp ctl tfuel c s1 ops) as [ls s2] eqn:ERun.
    assert (IH' := IH s1). rewrite ERun in IH'. cbn [fst] in *.
    unfold step in ES.
    destruct o as [|x|k hs|k|k| |dt]; try (cbn [polls_of]; apply IH'; exact HI).
    destruct (poll_requests tp tfuel c s) as [sx lx] eqn:EP. injection ES as <- <-.
    destruct (s_dropped s) eqn:ED.
    - unfold poll_requests in EP. rewrite ED in EP. injection EP as <- <-.
      unfold gauges. rewrite ED. cbn [app polls_of]. apply IH'; exact HI.
    - destruct (poll_requests_contract _ _ _ _ cs ED EP HI) as (log & r & -> & Hr).
      cbn [app polls_of].
      destruct r; try contradiction.
      + destruct Hr as (A & B). cbn [c_polls]. destruct (c_poll fs cs (log, false)) as [ok cs1].
        cbn [fst snd] in *. subst ok. cbn. apply IH'; exact B.
      + destruct Hr as (A & B). cbn [c_polls]. destruct (c_poll fs cs (log, true)) as [ok cs1].
        cbn [fst snd] in *. subst ok. cbn. apply IH'; exact B.
      + destruct Hr as (A & B). cbn [c_polls]. destruct (c_poll fs cs (log, false)) as [ok cs1].
        cbn [fst snd] in *. subst ok. cbn. apply IH'; exact B.
      + cbn [c_polls]. destruct (c_poll fs cs (log, false)) as [ok cs1]. cbn [fst] in Hr. subst ok.
        reflexivity.
      + cbn [c_polls]. destruct (c_poll fs cs (log, false)) as [ok cs1]. cbn [fst] in Hr. subst ok.
        reflexivity.
  Qed.

  (* C14, server half, clauses (a) (b) (c) and the per-poll bound of (d): for every transport *)
  Theorem server_contract_ok : forall c t0 ops,
    contract_ok fs (polls_of ops (fst (run tp ctl tfuel c t0 ops))) = true.
  Proof.
    intros. unfold contract_ok, run. apply run_contract. unfold Iok, cst0; cbn; auto.
  Qed.
End Contract.
