(* Shared by the client model (Client.v) and the server model (Server.v): the pluggable
   transport as tarpc sees it (futures Sink + Stream), the log of calls made on it, the
   remote-controlled scripted instance used by the correspondence harness, and the executable
   monitor of the transport contract (C14).  No proofs here. *)
From Coq Require Import List Bool Arith NArith.
Import ListNotations.

Inductive tres := TOk | TErr | TPending.          (* poll_ready / poll_flush / poll_close *)
Inductive sres := SOk | SErr.                     (* start_send *)
Inductive rres (RI : Type) := RItem (x : RI) | RErr | REof | RPending.   (* poll_next *)
Arguments RItem {RI}. Arguments RErr {RI}. Arguments REof {RI}. Arguments RPending {RI}.

(* ChannelError variants = the activity during which the transport failed *)
Inductive activity := ARead | AReady | AWrite | AFlush | AClose.

Definition activity_eqb (a b : activity) : bool :=
  match a, b with
  | ARead, ARead | AReady, AReady | AWrite, AWrite | AFlush, AFlush | AClose, AClose => true
  | _, _ => false
  end.

(* An arbitrary transport: any state type, any behaviour.  SI = sink item, RI = stream item. *)
Record transport (T SI RI : Type) := {
  t_ready : T -> tres * T;
  t_send : T -> SI -> sres * T;
  t_flush : T -> tres * T;
  t_close : T -> tres * T;
  t_next : T -> rres RI * T }.
Arguments t_ready {T SI RI}. Arguments t_send {T SI RI}. Arguments t_flush {T SI RI}.
Arguments t_close {T SI RI}. Arguments t_next {T SI RI}.

(* one call made by tarpc on the transport, with what the transport answered *)
Inductive tcall (SI RI : Type) :=
| CReady (r : tres) | CSend (m : SI) (r : sres) | CFlush (r : tres) | CClose (r : tres)
| CNext (r : rres RI).
Arguments CReady {SI RI}. Arguments CSend {SI RI}. Arguments CFlush {SI RI}.
Arguments CClose {SI RI}. Arguments CNext {SI RI}.

Definition tres_eqb (a b : tres) : bool :=
  match a, b with TOk, TOk | TErr, TErr | TPending, TPending => true | _, _ => false end.
Definition sres_eqb (a b : sres) : bool :=
  match a, b with SOk, SOk | SErr, SErr => true | _, _ => false end.
Definition rres_eqb {RI} (eqb : RI -> RI -> bool) (a b : rres RI) : bool :=
  match a, b with
  | RItem x, RItem y => eqb x y
  | RErr, RErr | REof, REof | RPending, RPending => true
  | _, _ => false
  end.
Definition tcall_eqb {SI RI} (seqb : SI -> SI -> bool) (reqb : RI -> RI -> bool)
  (a b : tcall SI RI) : bool :=
  match a, b with
  | CReady r, CReady r' => tres_eqb r r'
  | CSend m r, CSend m' r' => seqb m m' && sres_eqb r r'
  | CFlush r, CFlush r' => tres_eqb r r'
  | CClose r, CClose r' => tres_eqb r r'
  | CNext r, CNext r' => rres_eqb reqb r r'
  | _, _ => false
  end.

(* ------------------------------------------------------------------------------------------ *)
(* The scripted transport: every answer is under remote control of the script.
   readiness:  ready flag  /\  (cap = 0 \/ buffered < cap)
   flush:      completes iff flushok; a completed flush of a *coupled* transport empties the
               buffer (socket-like: not ready => flush pending is what scripts arrange);
               an *independent* one is drained only by TDrain (bounded-queue-like)
   one-shot faults per method; inbound items, then end of stream if eof. *)
Inductive tmethod := MReady | MSend | MFlush | MClose | MNext.

Record stransport (RI : Type) := {
  st_ready : bool; st_flushok : bool; st_closeok : bool;
  st_cap : nat; st_coupled : bool; st_buffered : nat;
  st_fail_ready : bool; st_fail_send : bool; st_fail_flush : bool; st_fail_close : bool;
  st_fail_next : bool;
  st_inbox : list RI; st_eof : bool }.
Arguments st_ready {RI}. Arguments st_flushok {RI}. Arguments st_closeok {RI}.
Arguments st_cap {RI}. Arguments st_coupled {RI}. Arguments st_buffered {RI}.
Arguments st_fail_ready {RI}. Arguments st_fail_send {RI}. Arguments st_fail_flush {RI}.
Arguments st_fail_close {RI}. Arguments st_fail_next {RI}.
Arguments st_inbox {RI}. Arguments st_eof {RI}.

Definition st_init (RI : Type) (cap : nat) (coupled : bool) : stransport RI :=
  {| st_ready := true; st_flushok := true; st_closeok := true; st_cap := cap;
     st_coupled := coupled; st_buffered := 0;
     st_fail_ready := false; st_fail_send := false; st_fail_flush := false;
     st_fail_close := false; st_fail_next := false; st_inbox := []; st_eof := false |}.

Section Scripted.
  Context {SI RI : Type}.
  Notation ST := (stransport RI).

  Definition st_with (t : ST) (ready flushok closeok : bool) (buffered : nat)
    (fr fs ff fc fn : bool) (inbox : list RI) (eof : bool) : ST :=
    {| st_ready := ready; st_flushok := flushok; st_closeok := closeok; st_cap := st_cap t;
       st_coupled := st_coupled t; st_buffered := buffered;
       st_fail_ready := fr; st_fail_send := fs; st_fail_flush := ff; st_fail_close := fc;
       st_fail_next := fn; st_inbox := inbox; st_eof := eof |}.

  Definition s_ready (t : ST) : tres * ST :=
    if st_fail_ready t then
      (TErr, st_with t (st_ready t) (st_flushok t) (st_closeok t) (st_buffered t)
                     false (st_fail_send t) (st_fail_flush t) (st_fail_close t) (st_fail_next t)
                     (st_inbox t) (st_eof t))
    else if st_ready t && (Nat.eqb (st_cap t) 0 || (st_buffered t <? st_cap t)) then (TOk, t)
    else (TPending, t).

  Definition s_send (t : ST) (_ : SI) : sres * ST :=
    if st_fail_send t then
      (SErr, st_with t (st_ready t) (st_flushok t) (st_closeok t) (st_buffered t)
                     (st_fail_ready t) false (st_fail_flush t) (st_fail_close t) (st_fail_next t)
                     (st_inbox t) (st_eof t))
    else
      (SOk, st_with t (st_ready t) (st_flushok t) (st_closeok t) (S (st_buffered t))
                    (st_fail_ready t) (st_fail_send t) (st_fail_flush t) (st_fail_close t)
                    (st_fail_next t) (st_inbox t) (st_eof t)).

  Definition s_flush (t : ST) : tres * ST :=
    if st_fail_flush t then
      (TErr, st_with t (st_ready t) (st_flushok t) (st_closeok t) (st_buffered t)
                     (st_fail_ready t) (st_fail_send t) false (st_fail_close t) (st_fail_next t)
                     (st_inbox t) (st_eof t))
    else if st_flushok t then
      (TOk, st_with t (st_ready t) (st_flushok t) (st_closeok t)
                    (if st_coupled t then 0 else st_buffered t)
                    (st_fail_ready t) (st_fail_send t) (st_fail_flush t) (st_fail_close t)
                    (st_fail_next t) (st_inbox t) (st_eof t))
    else (TPending, t).

  Definition s_close (t : ST) : tres * ST :=
    if st_fail_close t then
      (TErr, st_with t (st_ready t) (st_flushok t) (st_closeok t) (st_buffered t)
                     (st_fail_ready t) (st_fail_send t) (st_fail_flush t) false (st_fail_next t)
                     (st_inbox t) (st_eof t))
    else if st_closeok t then (TOk, t) else (TPending, t).

  Definition s_next (t : ST) : rres RI * ST :=
    if st_fail_next t then
      (RErr, st_with t (st_ready t) (st_flushok t) (st_closeok t) (st_buffered t)
                     (st_fail_ready t) (st_fail_send t) (st_fail_flush t) (st_fail_close t) false
                     (st_inbox t) (st_eof t))
    else match st_inbox t with
         | x :: r =>
           (RItem x, st_with t (st_ready t) (st_flushok t) (st_closeok t) (st_buffered t)
                             (st_fail_ready t) (st_fail_send t) (st_fail_flush t)
                             (st_fail_close t) (st_fail_next t) r (st_eof t))
         | [] => if st_eof t then (REof, t) else (RPending, t)
         end.

  Definition scripted : transport ST SI RI :=
    {| t_ready := s_ready; t_send := s_send; t_flush := s_flush; t_close := s_close;
       t_next := s_next |}.

  (* remote control *)
  Inductive trop :=
  | TDeliver (x : RI) | TEof | TSetReady (b : bool) | TSetFlush (b : bool) | TSetClose (b : bool)
  | TFail (m : tmethod) | TDrain (k : nat).

  Definition s_control (t : ST) (o : trop) : ST :=
    match o with
    | TDeliver x =>
      if st_eof t then t else
      st_with t (st_ready t) (st_flushok t) (st_closeok t) (st_buffered t) (st_fail_ready t)
              (st_fail_send t) (st_fail_flush t) (st_fail_close t) (st_fail_next t)
              (st_inbox t ++ [x]) (st_eof t)
    | TEof =>
      st_with t (st_ready t) (st_flushok t) (st_closeok t) (st_buffered t) (st_fail_ready t)
              (st_fail_send t) (st_fail_flush t) (st_fail_close t) (st_fail_next t)
              (st_inbox t) true
    | TSetReady b =>
      st_with t b (st_flushok t) (st_closeok t) (st_buffered t) (st_fail_ready t)
              (st_fail_send t) (st_fail_flush t) (st_fail_close t) (st_fail_next t)
              (st_inbox t) (st_eof t)
    | TSetFlush b =>
      st_with t (st_ready t) b (st_closeok t) (st_buffered t) (st_fail_ready t)
              (st_fail_send t) (st_fail_flush t) (st_fail_close t) (st_fail_next t)
              (st_inbox t) (st_eof t)
    | TSetClose b =>
      st_with t (st_ready t) (st_flushok t) b (st_buffered t) (st_fail_ready t)
              (st_fail_send t) (st_fail_flush t) (st_fail_close t) (st_fail_next t)
              (st_inbox t) (st_eof t)
    | TFail m =>
      st_with t (st_ready t) (st_flushok t) (st_closeok t) (st_buffered t)
              (match m with MReady => true | _ => st_fail_ready t end)
              (match m with MSend => true | _ => st_fail_send t end)
              (match m with MFlush => true | _ => st_fail_flush t end)
              (match m with MClose => true | _ => st_fail_close t end)
              (match m with MNext => true | _ => st_fail_next t end)
              (st_inbox t) (st_eof t)
    | TDrain k =>
      st_with t (st_ready t) (st_flushok t) (st_closeok t) (st_buffered t - k) (st_fail_ready t)
              (st_fail_send t) (st_fail_flush t) (st_fail_close t) (st_fail_next t)
              (st_inbox t) (st_eof t)
    end.
End Scripted.
Arguments trop : clear implicits.

(* ------------------------------------------------------------------------------------------ *)
(* C14: the transport contract as a monitor over the call log.  The log is given poll by poll
   (`list (list tcall)`): each inner list is what ONE poll of the dispatch / the Requests stream
   did, and `pending` says whether that poll returned Pending. *)
Section Contract.
  Context {SI RI : Type}.
  Notation call := (tcall SI RI).
  (* is a failed write of this item fatal to the writer?  (client: a cancellation is, a request
     is not - it fails only that call; server: every response is) *)
  Variable fatal_send : SI -> bool.

  (* monitor state carried across polls *)
  Record cst := {
    licensed : bool;      (* a poll_ready -> Ready(Ok) not yet consumed by a start_send *)
    closed : bool;        (* poll_close has been called *)
    failed : bool;        (* poll_ready / poll_flush / poll_close answered Err *)
    rfailed : bool;       (* poll_next answered Err *)
    dirty : bool;         (* an item was written since the last poll_flush -> Ready(Ok) *)
    last_flush_pending : bool;  (* the last poll_flush / poll_close call of the current poll answered Pending *)
    streak : nat }.       (* consecutive poll_ready/poll_flush calls without progress *)
  Definition cst0 := {| licensed := false; closed := false; failed := false; rfailed := false; dirty := false;
                        last_flush_pending := false; streak := 0 |}.

  (* at most this many readiness/flush polls between two progress events (a write, a read
     attempt - which starts a new iteration of the pump loop - or a Ready(Ok) answer) *)
  Definition max_streak := 8.

  Definition c_step (s : cst) (c : call) : bool * cst :=
    match c with
    | CReady r =>
      (* a Ready(Ok) answer is progress (the writer may go on to write or to look at its
         queues); what is bounded is re-polling a transport that keeps saying "not ready" *)
      (S (streak s) <=? max_streak,
       {| licensed := match r with TOk => true | _ => false end; closed := closed s;
          failed := match r with TErr => true | _ => failed s end; rfailed := rfailed s; dirty := dirty s;
          last_flush_pending := last_flush_pending s;
          streak := match r with TOk => 0 | _ => S (streak s) end |})
    | CSend m r =>
      (licensed s && negb (closed s) && negb (failed s),
       {| licensed := false; closed := closed s;
          failed := match r with SErr => failed s || fatal_send m | SOk => failed s end;
          rfailed := rfailed s;
          dirty := match r with SOk => true | SErr => dirty s end;
          last_flush_pending := false; streak := 0 |})
    | CFlush r =>
      (S (streak s) <=? max_streak,
       {| licensed := licensed s; closed := closed s;
          failed := match r with TErr => true | _ => failed s end; rfailed := rfailed s;
          dirty := match r with TOk => false | _ => dirty s end;
          last_flush_pending := match r with TPending => true | _ => false end;
          streak := S (streak s) |})
    | CClose r =>
      (* poll_close flushes what is buffered and then closes: a pending close holds the waker,
         a completed one leaves nothing unflushed *)
      (true,
       {| licensed := licensed s; closed := true;
          failed := match r with TErr => true | _ => failed s end; rfailed := rfailed s;
          dirty := match r with TOk => false | _ => dirty s end;
          last_flush_pending := match r with TPending => true | _ => false end;
          streak := streak s |})
    | CNext r =>
      (true,
       {| licensed := licensed s; closed := closed s; failed := failed s;
          rfailed := match r with RErr => true | _ => rfailed s end; dirty := dirty s;
          last_flush_pending := last_flush_pending s; streak := 0 |})
    end.

  Fixpoint c_calls (s : cst) (l : list call) : bool * cst :=
    match l with
    | [] => (true, s)
    | c :: r => let '(ok, s1) := c_step s c in
                if ok then c_calls s1 r else (false, s1)
    end.

  (* one poll: a fresh streak / flush-pending marker, the calls, then the idle condition:
     returning Pending with written-but-unflushed items is allowed only if the flush is pending
     (the transport then holds the waker), or the transport has already reported a failure
     on either half (the connection is being torn down) *)
  Definition c_poll (s : cst) (p : list call * bool) : bool * cst :=
    let s0 := {| licensed := licensed s; closed := closed s; failed := failed s;
                 rfailed := rfailed s; dirty := dirty s;
                 last_flush_pending := false; streak := 0 |} in
    let '(ok, s1) := c_calls s0 (fst p) in
    (ok && (negb (snd p) || negb (dirty s1) || last_flush_pending s1 || failed s1 || rfailed s1), s1).

  Fixpoint c_polls (s : cst) (ps : list (list call * bool)) : bool :=
    match ps with
    | [] => true
    | p :: r => let '(ok, s1) := c_poll s p in ok && c_polls s1 r
    end.

  Definition contract_ok (ps : list (list call * bool)) : bool := c_polls cst0 ps.
End Contract.
