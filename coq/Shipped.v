(* Shipped.v -- C15: the shipped transports as one machine (no proofs in this file).
   A script writes protocol messages into one end of a transport and reads the other end:
     framed codecs (tarpc::serde_transport over LengthDelimitedCodec, with Bincode or Json):
        every `Send m` serialises m into a frame appended to the byte stream; `Close` hands the
        stream (possibly cut inside its last frame) to the reader in the configured chunks and
        then signals end-of-stream; everything the reader yields is the observation of `Close`.
     in-memory channels (transport::channel::{bounded, unbounded}): `Send`, `Recv`, `Close` (the
        writing end is dropped) act on the queue directly.
   Observations are what an outside observer sees: the serde calls of the Serialize impl, the
   bytes on the stream, the items the reading end yields. *)
From Coq Require Import String Ascii.
From Coq Require Import List NArith ZArith Bool.
Import ListNotations.
From TarpcV Require Import Base Schema Wire JsonText Framing.
Local Open Scope N_scope.

Inductive tcodec := TBincode | TJson | TBounded (cap : nat) | TUnbounded.
Inductive wmsg := MC (m : client_message) | MR (r : response).

(* chunks: the sizes of the reads the reader is given (0 = Pending); cut = k > 0: only the
   first k bytes of the last frame reach the reader (if the frame is longer than k) *)
Record cfg := { codec : tcodec; chunks : list nat; cut : nat }.

Inductive op :=
| Send (m : wmsg)
| SendRaw (payload : bytes) (tree : option jv)   (* a hand-written frame payload; for Json: the value tree
                                                   the harness's own parser reads from it (cross-check) *)
| Recv
| Close                                          (* the writing end is DROPPED *)
| CloseSink.                                     (* the writing end is closed (Sink::poll_close) and kept *)

Inductive obs :=
| OEvents (l : list event)      (* what a recording serde::Serializer saw for this message *)
| OFrame (b : bytes)            (* the bytes this message added to the stream *)
| ORecv (m : wmsg)              (* an item yielded by the reading end *)
| ORecvErr                      (* an Err item (a payload the codec rejects); the stream goes on *)
| OStreamErr                    (* the framing layer failed; the stream is over *)
| OEnd                          (* end-of-stream *)
| OShut                         (* the close reached the byte stream: AsyncWrite::poll_shutdown was called *)
| OSent | OFull | OGone | OPending
| OTooBig                       (* the encoder refused the frame *)
| ONoEncoding.                  (* the model cannot encode this value (never observed) *)

Definition rep (n b : N) : bytes := repeat b (N.to_nat n).

Definition wmsg_eqb (a b : wmsg) : bool :=
  match a, b with
  | MC x, MC y => cm_eqb x y
  | MR x, MR y => resp_eqb x y
  | _, _ => false
  end.
Definition obs_eqb (a b : obs) : bool :=
  match a, b with
  | OEvents x, OEvents y => list_eqb event_eqb x y
  | OFrame x, OFrame y => bytes_eqb x y
  | ORecv x, ORecv y => wmsg_eqb x y
  | ORecvErr, ORecvErr | OStreamErr, OStreamErr | OEnd, OEnd | OShut, OShut | OSent, OSent | OFull, OFull
  | OGone, OGone | OPending, OPending | OTooBig, OTooBig | ONoEncoding, ONoEncoding => true
  | _, _ => false
  end.

(* ---- one message through a codec ---- *)
Definition msg_events (m : wmsg) : list event :=
  match m with MC x => cm_events x | MR x => resp_events x end.
Definition payload_of (c : tcodec) (m : wmsg) : option bytes :=
  match c, m with
  | TBincode, MC x => cm_bincode x
  | TBincode, MR x => resp_bincode x
  | TJson, MC x => omap json_print (cm_json x)
  | TJson, MR x => omap json_print (resp_json x)
  | _, _ => None
  end.
Definition tree_of (m : wmsg) : option jv :=
  match m with MC x => cm_json x | MR x => resp_json x end.

(* direction of a script: the type of its first message (client->server carries ClientMessage,
   server->client carries Response); raw payloads go client->server *)
Definition is_c2s (ops : list op) : bool :=
  match find (fun o => match o with Send _ => true | _ => false end) ops with
  | Some (Send (MR _)) => false
  | _ => true
  end.

(* What the receiving endpoint holds after decoding a request whose deadline member was absent:
   the #[serde(default)] ten_seconds_from_now (context.rs).  The harness observes a received
   deadline as the time remaining at the (frozen) clock, so the default reads as 10 s. *)
Definition default_deadline_wire : wire_deadline := DlExplicit 10 0.
Definition deliver_cm (m : client_message) : client_message :=
  match m with
  | CRequest r =>
    match c_deadline (r_ctx r) with
    | DlOmitted =>
      CRequest {| r_ctx := {| c_deadline := default_deadline_wire; c_trace := c_trace (r_ctx r) |};
                  r_id := r_id r; r_body := r_body r |}
    | DlExplicit _ _ => m
    end
  | CCancel _ _ => m
  end.

(* what the reading end makes of one frame payload: the bytes, and nothing but the bytes.
   Bincode: Wire.bin_decode; Json: the text parser of JsonText.v, then the tree decoder.
   (`written` is not consulted any more; it is kept so that the machine's state still records
   what was put on the stream.) *)
Definition decode_payload (c : tcodec) (c2s : bool) (p : bytes) (written : option (bytes * option jv)) : obs :=
  match c with
  | TBincode =>
    if c2s then match cm_of_bincode p with Some m => ORecv (MC (deliver_cm m)) | None => ORecvErr end
    else match resp_of_bincode p with Some r => ORecv (MR r) | None => ORecvErr end
  | TJson =>
    if c2s then match cm_of_json_text p with Some m => ORecv (MC (deliver_cm m)) | None => ORecvErr end
    else match resp_of_json_text p with Some r => ORecv (MR r) | None => ORecvErr end
  | _ => ORecvErr
  end.

Fixpoint decode_outs (c : tcodec) (c2s : bool) (outs : list fout) (written : list (bytes * option jv)) : list obs :=
  match outs with
  | [] => []
  | FFrame p :: r => decode_payload c c2s p (hd_error written) :: decode_outs c c2s r (tl written)
  | FError :: r => OStreamErr :: decode_outs c c2s r written
  | FEnd :: r => OEnd :: decode_outs c c2s r written
  | FFuel :: r => OStreamErr :: decode_outs c c2s r written
  end.

(* ---- the machine ---- *)
Record st := {
  written : list (bytes * option jv);     (* frame payloads in order, with their trees (Json) *)
  closed : bool;
  chan : ch_state wmsg
}.
Definition init : st := {| written := []; closed := false; chan := ch_init |}.

Definition is_framed (c : tcodec) : bool := match c with TBincode | TJson => true | _ => false end.
Definition chan_cap (c : tcodec) : option nat := match c with TBounded n => Some n | _ => None end.

(* the stream the reader is given: all frames, the last one cut *)
Definition cut_stream (k : nat) (ps : list bytes) : bytes :=
  match rev ps with
  | [] => []
  | last :: front =>
    let f := frame last in
    stream_of (rev front) ++ (if Nat.eqb k 0 then f else firstn k f)
  end.

Definition ch_obs_to_obs (o : ch_obs wmsg) : obs :=
  match o with
  | ChSent => OSent | ChFull => OFull | ChGone => OGone
  | ChItem m => ORecv m | ChPending => OPending | ChEnd => OEnd
  end.

Definition step (c : cfg) (c2s : bool) (s : st) (o : op) : st * list obs :=
  if is_framed (codec c) then
    if closed s then (s, [])
    else match o with
    | Send m =>
      match payload_of (codec c) m with
      | None => (s, [OEvents (msg_events m); ONoEncoding])
      | Some p =>
        match frame_encode max_frame_default p with
        | None => (s, [OEvents (msg_events m); OTooBig])
        | Some f =>
          ({| written := written s ++ [(p, match codec c with TJson => tree_of m | _ => None end)];
              closed := false; chan := chan s |},
           [OEvents (msg_events m); OFrame f])
        end
      end
    | SendRaw p t =>
      match frame_encode max_frame_default p with
      | None => (s, [OTooBig])
      | Some f => ({| written := written s ++ [(p, t)]; closed := false; chan := chan s |}, [OFrame f])
      end
    | Recv => (s, [])
    | Close =>
      let stream := cut_stream (cut c) (map fst (written s)) in
      let outs := read_stream max_frame_default (split_chunks (chunks c) stream) in
      ({| written := written s; closed := true; chan := chan s |},
       decode_outs (codec c) c2s outs (written s))
    (* serde_transport poll_close = flush everything, then shut the byte stream down: the medium
       signals the half-close, so the reader sees what Close (a drop) shows, after OShut *)
    | CloseSink =>
      let stream := cut_stream (cut c) (map fst (written s)) in
      let outs := read_stream max_frame_default (split_chunks (chunks c) stream) in
      ({| written := written s; closed := true; chan := chan s |},
       OShut :: decode_outs (codec c) c2s outs (written s))
    end
  else
    match o with
    | Send m => let '(q, l) := ch_step (chan_cap (codec c)) (chan s) (ChSend m) in
                ({| written := written s; closed := closed s; chan := q |}, map ch_obs_to_obs l)
    | Recv => let '(q, l) := ch_step (chan_cap (codec c)) (chan s) ChRecv in
              ({| written := written s; closed := closed s; chan := q |}, map ch_obs_to_obs l)
    | Close => let '(q, l) := ch_step (chan_cap (codec c)) (chan s) ChDropTx in
               ({| written := written s; closed := closed s; chan := q |}, map ch_obs_to_obs l)
    (* bounded: futures Sender::poll_close closes the channel (the peer sees the end once the queue
       is drained); unbounded: "UnboundedSender can't initiate closure": nothing happens *)
    | CloseSink =>
      match codec c with
      | TBounded _ => let '(q, l) := ch_step (chan_cap (codec c)) (chan s) ChDropTx in
                      ({| written := written s; closed := closed s; chan := q |}, map ch_obs_to_obs l)
      | _ => (s, [])
      end
    | SendRaw _ _ => (s, [])
    end.

Fixpoint run_from (c : cfg) (c2s : bool) (s : st) (ops : list op) : list (list obs) * st :=
  match ops with
  | [] => ([], s)
  | o :: r => let '(s1, l) := step c c2s s o in
              let '(ls, s2) := run_from c c2s s1 r in (l :: ls, s2)
  end.
Definition run (c : cfg) (ops : list op) : list (list obs) * st := run_from c (is_c2s ops) init ops.

(* ------------------------------------------------------------------------------------------ *)
(* The monitors: the property as a predicate over ops and observations only.
   STRICT form (used by C16: "truncated frames end that connection with an error"):
   framed: what the reader yields at Close is, in order, what was written (a message arrives
     unmodified except that a non-portable error kind arrives as Other; a hand-written payload
     arrives as what its value tree means, an unreadable one as an Err item), restricted to
     the frames that reached the reader completely, followed by end-of-stream if the stream
     ended at a frame boundary, and by a stream error (then end) if it ended inside a frame.
   channels: FIFO (Framing.fifo_ok). *)
Definition arrives_as (m : wmsg) : wmsg :=
  match m with MC x => MC (deliver_cm x) | MR r => MR (degrade_resp r) end.

(* the expectation for every frame written before the first Close, with the observed frame length *)
Definition frame_len (l : list obs) : option nat :=
  match find (fun o => match o with OFrame _ => true | _ => false end) l with
  | Some (OFrame b) => Some (length b) | _ => None end.

Definition expect_of (c : tcodec) (c2s : bool) (o : op) : option obs :=
  match o with
  | Send m => Some (ORecv (arrives_as m))
  (* a hand-written payload must arrive as what its bytes mean (or as an Err item if they mean
     nothing); the tree `t` printed by the harness's own parser is only cross-checked against
     JsonText.json_parse in Checks/C15check.v *)
  | SendRaw p t => Some (decode_payload c c2s p None)
  | _ => None
  end.

(* walk ops/trace up to the first Close: collect (expected item, frame length) of written frames *)
Fixpoint collect (c : tcodec) (c2s : bool) (ops : list op) (tr : list (list obs))
  : option (list (obs * nat) * option (list obs) * list op * list (list obs)) :=
  match ops, tr with
  | [], [] => Some ([], None, [], [])
  | Close :: ops', l :: tr' => Some ([], Some l, ops', tr')
  (* a close must reach the byte stream; what the reader then yields is judged as for a drop *)
  | CloseSink :: ops', l :: tr' =>
    match l with OShut :: l' => Some ([], Some l', ops', tr') | _ => None end
  | o :: ops', l :: tr' =>
    match collect c c2s ops' tr' with
    | None => None
    | Some (es, cl, ro, rt) =>
      match expect_of c c2s o, frame_len l with
      | Some e, Some n => Some ((e, n) :: es, cl, ro, rt)
      | Some _, None => Some (es, cl, ro, rt)        (* not written (too big): nothing expected *)
      | None, _ => match l with [] => Some (es, cl, ro, rt) | _ => None end
      end
    end
  | _, _ => None
  end.

(* of the written frames, those that fit entirely in the first `kept` bytes; and whether the
   stream ends at a frame boundary *)
Fixpoint whole_frames (es : list (obs * nat)) (kept : nat) : list obs * bool :=
  match es with
  | [] => ([], Nat.eqb kept 0)
  | (e, n) :: r =>
    if Nat.leb n kept then let '(l, b) := whole_frames r (kept - n) in (e :: l, b)
    else ([], Nat.eqb kept 0)
  end.

Definition framed_strict_ok (c : cfg) (ops : list op) (tr : list (list obs)) : bool :=
  let c2s := is_c2s ops in
  match collect (codec c) c2s ops tr with
  | None => false
  | Some (es, None, _, _) => true                       (* never closed: nothing was read *)
  | Some (es, Some got, ro, rt) =>
    let total := fold_right (fun p a => snd p + a)%nat O es in
    let lastlen := match rev es with (_, n) :: _ => n | [] => O end in
    let kept := if Nat.eqb (cut c) 0 then total
                else if Nat.ltb (cut c) lastlen then (total - lastlen + cut c)%nat else total in
    let '(items, boundary) := whole_frames es kept in
    let want := items ++ (if boundary then [OEnd] else [OStreamErr; OEnd]) in
    list_eqb obs_eqb got want &&
    forallb (fun l => match l with [] => true | _ => false end) rt
  end.

(* where the medium can signal a close (bounded) the monitor treats it like a drop: end-of-stream is
   owed once the queue is drained; on the unbounded channel a close is a no-op by design *)
Definition to_ch_op (cd : tcodec) (o : op) : option (ch_op wmsg) :=
  match o with
  | Send m => Some (ChSend m) | Recv => Some ChRecv | Close => Some ChDropTx
  | CloseSink => match cd with TBounded _ => Some ChDropTx | _ => None end
  | SendRaw _ _ => None
  end.
Definition to_ch_obs (o : obs) : option (ch_obs wmsg) :=
  match o with
  | OSent => Some ChSent | OFull => Some ChFull | OGone => Some ChGone
  | ORecv m => Some (ChItem m) | OPending => Some ChPending | OEnd => Some ChEnd
  | _ => None
  end.
Fixpoint omap_list {A B} (f : A -> option B) (l : list A) : option (list B) :=
  match l with [] => Some [] | x :: r => ocons (f x) (omap_list f r) end.

Fixpoint chan_view (cd : tcodec) (ops : list op) (tr : list (list obs)) : option (list (ch_op wmsg) * list (list (ch_obs wmsg))) :=
  match ops, tr with
  | [], [] => Some ([], [])
  | o :: ops', l :: tr' =>
    match chan_view cd ops' tr' with
    | None => None
    | Some (co, ct) =>
      match to_ch_op cd o with
      | None => match l with [] => Some (co, ct) | _ => None end
      | Some o' => match omap_list to_ch_obs l with Some l' => Some (o' :: co, l' :: ct) | None => None end
      end
    end
  | _, _ => None
  end.

(* THE FLUSH CLAUSE.  `OFrame b` is what reached the WIRE (not a staging buffer inside the byte
   stream) by the time the transport's poll_flush returned Ready(Ok) after a send: it must be one
   complete frame -- a 4-byte big-endian length and exactly that many payload bytes.  (That the
   frames then arrive complete and in order is the rest of the monitor.) *)
Definition frame_shape_ok (b : bytes) : bool :=
  match b with
  | a :: b' :: c :: d :: p => N.eqb (be32_val a b' c d) (blen p)
  | _ => false
  end.
Definition frames_on_wire (tr : list (list obs)) : bool :=
  forallb (forallb (fun o => match o with OFrame b => frame_shape_ok b | _ => true end)) tr.

Definition wire_strict_ok (c : cfg) (ops : list op) (tr : list (list obs)) : bool :=
  if is_framed (codec c) then framed_strict_ok c ops tr && frames_on_wire tr
  else match chan_view (codec c) ops tr with
       | Some (co, ct) => fifo_ok wmsg_eqb co ct
       | None => false
       end.

(* ------------------------------------------------------------------------------------------ *)
(* The monitor for C15 proper.  C15 demands complete, unmodified, in-order delivery and
   end-of-stream after the last message; of a stream that ends inside a frame it demands only
   that no frame is made up for the cut one and that the stream ends -- whether the end is
   reported as an error is C16's clause (wire_strict_ok). *)
Definition framed_ok (c : cfg) (ops : list op) (tr : list (list obs)) : bool :=
  let c2s := is_c2s ops in
  match collect (codec c) c2s ops tr with
  | None => false
  | Some (es, None, _, _) => true
  | Some (es, Some got, ro, rt) =>
    let total := fold_right (fun p a => snd p + a)%nat O es in
    let lastlen := match rev es with (_, n) :: _ => n | [] => O end in
    let kept := if Nat.eqb (cut c) 0 then total
                else if Nat.ltb (cut c) lastlen then (total - lastlen + cut c)%nat else total in
    let '(items, boundary) := whole_frames es kept in
    (list_eqb obs_eqb got (items ++ [OEnd]) ||
     (negb boundary && list_eqb obs_eqb got (items ++ [OStreamErr; OEnd]))) &&
    forallb (fun l => match l with [] => true | _ => false end) rt
  end.

Definition c15_ok (c : cfg) (ops : list op) (tr : list (list obs)) : bool :=
  if is_framed (codec c) then framed_ok c ops tr && frames_on_wire tr
  else match chan_view (codec c) ops tr with
       | Some (co, ct) => fifo_ok wmsg_eqb co ct
       | None => false
       end.

(* ------------------------------------------------------------------------------------------ *)
(* The byte stream UNDER a framed transport, when it buffers internally (BufWriter- or TLS-like).
   `step` above says "a Send puts frame p on the wire": this is the layer that justifies it.

     bstream   the stream: bytes accepted by poll_write go to `b_stage`; poll_flush moves the stage
               to `b_wire`; only the wire is what the peer can read; bytes still in the stage when
               the writer is dropped are LOST (as with BufWriter).
     wside     the writing side of Framed<_, LengthDelimitedCodec> + the stream + what remains of
               the script: `w_wr` the sizes the next poll_write calls accept (0 = Pending; an
               exhausted script accepts everything), `w_fl` how many more times the stream's
               poll_flush answers Pending before it completes.
     poll_flush  one call of Transport::poll_flush = FramedImpl::poll_flush: write the codec buffer
               out (poll_write until it is empty, Pending as soon as the stream says so), THEN
               flush the stream; Ready only when both are done.
     poll_flush_skipping  the variant that returns Ready at once when the codec buffer is empty
               (seeded change C15-flush-skips-stream-flush), for the refutation lemma. *)
Record bstream := { b_stage : bytes; b_wire : bytes }.
Record wside := { w_buf : bytes; w_io : bstream; w_wr : list nat; w_fl : nat }.
Inductive pollres := PReady | PPending.

(* the `while !buffer.is_empty()` loop of FramedImpl::poll_flush *)
Fixpoint write_out (fuel : nat) (w : wside) : pollres * wside :=
  match fuel with
  | O => (PPending, w)
  | S f =>
    match w_buf w with
    | [] => (PReady, w)
    | _ :: _ =>
      match w_wr w with
      | O :: r => (PPending, {| w_buf := w_buf w; w_io := w_io w; w_wr := r; w_fl := w_fl w |})
      | S k :: r =>
        write_out f {| w_buf := skipn (S k) (w_buf w);
                       w_io := {| b_stage := b_stage (w_io w) ++ firstn (S k) (w_buf w); b_wire := b_wire (w_io w) |};
                       w_wr := r; w_fl := w_fl w |}
      | [] =>
        write_out f {| w_buf := [];
                       w_io := {| b_stage := b_stage (w_io w) ++ w_buf w; b_wire := b_wire (w_io w) |};
                       w_wr := []; w_fl := w_fl w |}
      end
    end
  end.

(* AsyncWrite::poll_flush of the stream *)
Definition stream_flush (w : wside) : pollres * wside :=
  match w_fl w with
  | S k => (PPending, {| w_buf := w_buf w; w_io := w_io w; w_wr := w_wr w; w_fl := k |})
  | O => (PReady, {| w_buf := w_buf w;
                     w_io := {| b_stage := []; b_wire := b_wire (w_io w) ++ b_stage (w_io w) |};
                     w_wr := w_wr w; w_fl := O |})
  end.

Definition poll_flush (w : wside) : pollres * wside :=
  match write_out (S (length (w_buf w))) w with
  | (PPending, w') => (PPending, w')
  | (PReady, w') => stream_flush w'
  end.

Definition poll_flush_skipping (w : wside) : pollres * wside :=
  match w_buf w with [] => (PReady, w) | _ :: _ => poll_flush w end.

(* Sink::start_send: the frame is appended to the codec buffer *)
Definition start_send_frame (w : wside) (f : bytes) : wside :=
  {| w_buf := w_buf w ++ f; w_io := w_io w; w_wr := w_wr w; w_fl := w_fl w |}.

(* the caller polls until Ready *)
Fixpoint flush_until_ready (polls : nat) (w : wside) : option wside :=
  match polls with
  | O => None
  | S n => match poll_flush w with
           | (PReady, w') => Some w'
           | (PPending, w') => flush_until_ready n w'
           end
  end.
