(* JsonText.v -- serde_json's TEXT layer for the subset of JSON tarpc's messages live in
   (no proofs in this file).

   printer : Wire.json_print (serde_json::to_vec: compact; strings escaped as serde_json does:
             \" \\ \b \f \n \r \t, other control characters as \u00XX, everything else raw), and
             json_print_sp, the same with a whitespace string inserted at every token boundary.
   parser  : json_parse, a total recursive-descent parser with explicit fuel for
             objects, arrays, strings (all escapes of RFC 8259: \" \\ \/ \b \f \n \r \t \uXXXX,
             surrogate pairs combined and re-encoded as UTF-8, lone surrogates rejected, raw control
             characters rejected), integers (optional minus, no leading zeros, "-0" rejected),
             true / false / null, insignificant whitespace (space, \t, \n, \r) anywhere between
             tokens, nothing but whitespace after the value.
   OUTSIDE the subset (the parser rejects them; the harness does not generate them):
     fractions and exponents (serde_json reads them as f64, which no tarpc field admits; it also
     reads "-0" and integers beyond u64 / below i64 as f64), validation of UTF-8 in raw string
     bytes (serde_json rejects invalid UTF-8; the model passes bytes through), serde_json's
     recursion limit of 128, and its lenient scanner for IGNORED values (which does not reject a
     lone surrogate inside an unknown member). *)
From Coq Require Import String Ascii.
From Coq Require Import List NArith ZArith Bool.
Import ListNotations.
From TarpcV Require Import Base Schema Wire.
Local Open Scope N_scope.

(* ---- whitespace ---- *)
Definition is_ws (b : N) : bool := (b =? 32) || (b =? 10) || (b =? 13) || (b =? 9).
Fixpoint skip_ws (bs : bytes) : bytes :=
  match bs with
  | b :: r => if is_ws b then skip_ws r else bs
  | [] => []
  end.
Definition all_ws (bs : bytes) : bool := forallb is_ws bs.

(* ---- the printer with whitespace `sp` at every token boundary ---- *)
Fixpoint json_print_sp (sp : bytes) (j : jv) : bytes :=
  match j with
  | JArr l =>
    (91 :: sp ++
     (fix go (first : bool) (l : list jv) : bytes :=
        match l with
        | [] => [93]
        | x :: r => (if first then [] else 44 :: sp) ++ json_print_sp sp x ++ sp ++ go false r
        end) true l)%list
  | JObj m =>
    (123 :: sp ++
     (fix go (first : bool) (m : list (string * jv)) : bytes :=
        match m with
        | [] => [125]
        | (k, x) :: r =>
          (if first then [] else 44 :: sp) ++ str_bytes (sbytes k) ++ sp ++ 58 :: sp
          ++ json_print_sp sp x ++ sp ++ go false r
        end) true m)%list
  | _ => json_print j
  end.
(* a whole text: optional whitespace around the value *)
Definition json_text_sp (sp : bytes) (j : jv) : bytes := (sp ++ json_print_sp sp j ++ sp)%list.

(* ---- strings ---- *)
Definition hex_val (b : N) : option N :=
  if (48 <=? b) && (b <=? 57) then Some (b - 48)
  else if (97 <=? b) && (b <=? 102) then Some (b - 87)
  else if (65 <=? b) && (b <=? 70) then Some (b - 55)
  else None.
Definition hex4 (a b c d : N) : option N :=
  match hex_val a, hex_val b, hex_val c, hex_val d with
  | Some x, Some y, Some z, Some w => Some (((x * 16 + y) * 16 + z) * 16 + w)
  | _, _, _, _ => None
  end.
(* UTF-8 of a scalar value below 0x110000 *)
Definition utf8 (cp : N) : bytes :=
  if cp <? 128 then [cp]
  else if cp <? 2048 then [192 + cp / 64; 128 + cp mod 64]
  else if cp <? 65536 then [224 + cp / 4096; 128 + cp / 64 mod 64; 128 + cp mod 64]
  else [240 + cp / 262144; 128 + cp / 4096 mod 64; 128 + cp / 64 mod 64; 128 + cp mod 64].
Definition simple_escape (e : N) : option N :=
  if e =? 34 then Some 34 else if e =? 92 then Some 92 else if e =? 47 then Some 47
  else if e =? 98 then Some 8 else if e =? 102 then Some 12 else if e =? 110 then Some 10
  else if e =? 114 then Some 13 else if e =? 116 then Some 9 else None.

(* the characters of a string after its opening quote, up to and including the closing quote *)
Fixpoint parse_str (bs : bytes) : option (bytes * bytes) :=
  match bs with
  | [] => None
  | b :: r =>
    if b =? 34 then Some ([], r)
    else if b =? 92 then
      match r with
      | [] => None
      | e :: r1 =>
        if e =? 117 then                                     (* \uXXXX *)
          match r1 with
          | h1 :: h2 :: h3 :: h4 :: r2 =>
            match hex4 h1 h2 h3 h4 with
            | None => None
            | Some cp =>
              if (55296 <=? cp) && (cp <? 56320) then        (* leading surrogate: a trailing one must follow *)
                match r2 with
                | b1 :: b2 :: l1 :: l2 :: l3 :: l4 :: r3 =>
                  if (b1 =? 92) && (b2 =? 117) then
                    match hex4 l1 l2 l3 l4 with
                    | Some lo =>
                      if (56320 <=? lo) && (lo <? 57344) then
                        match parse_str r3 with
                        | Some (s, rest) =>
                          Some ((utf8 (65536 + (cp - 55296) * 1024 + (lo - 56320)) ++ s)%list, rest)
                        | None => None
                        end
                      else None
                    | None => None
                    end
                  else None
                | _ => None
                end
              else if (56320 <=? cp) && (cp <? 57344) then None     (* lone trailing surrogate *)
              else match parse_str r2 with
                   | Some (s, rest) => Some ((utf8 cp ++ s)%list, rest)
                   | None => None
                   end
            end
          | _ => None
          end
        else
          match simple_escape e with
          | Some c => match parse_str r1 with Some (s, rest) => Some (c :: s, rest) | None => None end
          | None => None
          end
      end
    else if b <? 32 then None                                (* raw control character *)
    else match parse_str r with Some (s, rest) => Some (b :: s, rest) | None => None end
  end.

Definition string_of_bytes (b : bytes) : string :=
  fold_right (fun x s => String (ascii_of_N x) s) EmptyString b.

(* ---- numbers ---- *)
Definition is_digit (b : N) : bool := (48 <=? b) && (b <=? 57).
Fixpoint span_digits (bs : bytes) : bytes * bytes :=
  match bs with
  | b :: r => if is_digit b then let '(d, rest) := span_digits r in (b :: d, rest) else ([], bs)
  | [] => ([], [])
  end.
Fixpoint uint_of_digits (ds : bytes) : Decimal.uint :=
  match ds with
  | [] => Decimal.Nil
  | d :: r =>
    let u := uint_of_digits r in
    if d =? 48 then Decimal.D0 u else if d =? 49 then Decimal.D1 u else if d =? 50 then Decimal.D2 u
    else if d =? 51 then Decimal.D3 u else if d =? 52 then Decimal.D4 u else if d =? 53 then Decimal.D5 u
    else if d =? 54 then Decimal.D6 u else if d =? 55 then Decimal.D7 u else if d =? 56 then Decimal.D8 u
    else Decimal.D9 u
  end.
(* an integer literal: an optional minus, then 0 or a non-zero digit followed by digits; not
   followed by a dot or an exponent; minus zero is not one *)
Definition parse_int (bs : bytes) : option (Z * bytes) :=
  let '(neg, bs1) := match bs with b :: r => if b =? 45 then (true, r) else (false, bs) | [] => (false, bs) end in
  let '(ds, rest) := span_digits bs1 in
  match ds with
  | [] => None
  | d :: more =>
    if (d =? 48) && negb (match more with [] => true | _ => false end) then None    (* leading zero *)
    else
      match rest with
      | c :: _ => if (c =? 46) || (c =? 101) || (c =? 69) then None else
                  let n := N.of_uint (uint_of_digits ds) in
                  if neg then (if n =? 0 then None else Some ((- Z.of_N n)%Z, rest)) else Some (Z.of_N n, rest)
      | [] =>
        let n := N.of_uint (uint_of_digits ds) in
        if neg then (if n =? 0 then None else Some ((- Z.of_N n)%Z, rest)) else Some (Z.of_N n, rest)
      end
  end.

(* ---- values ---- *)
Definition expect (lit : bytes) (bs : bytes) (v : jv) : option (jv * bytes) :=
  if list_eqb N.eqb (firstn (length lit) bs) lit then Some (v, skipn (length lit) bs) else None.

Fixpoint parse_value (fuel : nat) (bs : bytes) {struct fuel} : option (jv * bytes) :=
  match fuel with
  | O => None
  | S f =>
    match skip_ws bs with
    | [] => None
    | b :: r =>
      if b =? 110 then expect [117; 108; 108] r JNull
      else if b =? 116 then expect [114; 117; 101] r (JBool true)
      else if b =? 102 then expect [97; 108; 115; 101] r (JBool false)
      else if b =? 34 then
        match parse_str r with Some (s, rest) => Some (JStr s, rest) | None => None end
      else if b =? 91 then
        match skip_ws r with
        | c :: r' =>
          if c =? 93 then Some (JArr [], r')
          else match parse_elems f (skip_ws r) with
               | Some (vs, rest) => Some (JArr vs, rest)
               | None => None
               end
        | [] => None
        end
      else if b =? 123 then
        match skip_ws r with
        | c :: r' =>
          if c =? 125 then Some (JObj [], r')
          else match parse_members f (skip_ws r) with
               | Some (ms, rest) => Some (JObj ms, rest)
               | None => None
               end
        | [] => None
        end
      else
        match parse_int (b :: r) with
        | Some (z, rest) => Some (JNum z, rest)
        | None => None
        end
    end
  end
(* one or more values separated by commas, then ']' *)
with parse_elems (fuel : nat) (bs : bytes) {struct fuel} : option (list jv * bytes) :=
  match fuel with
  | O => None
  | S f =>
    match parse_value f bs with
    | None => None
    | Some (v, r) =>
      match skip_ws r with
      | c :: r' =>
        if c =? 44 then
          match parse_elems f r' with Some (vs, rest) => Some (v :: vs, rest) | None => None end
        else if c =? 93 then Some ([v], r')
        else None
      | [] => None
      end
    end
  end
(* one or more  "key" : value  separated by commas, then '}' *)
with parse_members (fuel : nat) (bs : bytes) {struct fuel} : option (list (string * jv) * bytes) :=
  match fuel with
  | O => None
  | S f =>
    match skip_ws bs with
    | q :: r0 =>
      if q =? 34 then
        match parse_str r0 with
        | None => None
        | Some (k, r1) =>
          match skip_ws r1 with
          | c :: r2 =>
            if c =? 58 then
              match parse_value f r2 with
              | None => None
              | Some (v, r3) =>
                match skip_ws r3 with
                | d :: r4 =>
                  if d =? 44 then
                    match parse_members f r4 with
                    | Some (ms, rest) => Some ((string_of_bytes k, v) :: ms, rest)
                    | None => None
                    end
                  else if d =? 125 then Some ([(string_of_bytes k, v)], r4)
                  else None
                | [] => None
                end
              end
            else None
          | [] => None
          end
        end
      else None
    | [] => None
    end
  end.

(* serde_json::from_slice / from_reader: one value, then only whitespace *)
Definition json_parse (bs : bytes) : option jv :=
  match parse_value (2 * length bs + 2) bs with
  | Some (j, rest) => if all_ws rest then Some j else None
  | None => None
  end.

(* ---- well-formed trees: every string and every key is a list of bytes (< 256) ---- *)
Fixpoint json_wf (j : jv) : bool :=
  match j with
  | JStr s => bytes_ok s
  | JArr l => (fix go (l : list jv) : bool := match l with [] => true | x :: r => json_wf x && go r end) l
  | JObj m => (fix go (m : list (string * jv)) : bool :=
                 match m with [] => true | (_, x) :: r => json_wf x && go r end) m
  | _ => true
  end.

(* ---- whole messages as TEXT (one frame payload of the Json codec) ---- *)
Definition cm_json_text (m : client_message) : option bytes := omap json_print (cm_json m).
Definition cm_of_json_text (bs : bytes) : option client_message := obind (json_parse bs) cm_of_json.
Definition resp_json_text (r : response) : option bytes := omap json_print (resp_json r).
Definition resp_of_json_text (bs : bytes) : option response := obind (json_parse bs) resp_of_json.
