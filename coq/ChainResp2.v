(* Chain proofs: C08 across the hop (stmt_resp_yield, stmt_resp_start), for every depth, every op
   list, every state.  Invariant, node by node, against the monitor's lists:
   - every request in the outbound side of link i is recorded as written on link i (rm_rq);
   - the number of yields recorded for node i is the length of its handler table, and every
     position of the table has a recorded yield;
   - a handler recorded as started is not in state HYielded (and never returns to it). *)
From Coq Require Import List Bool Arith NArith Lia.
Import ListNotations.
From TarpcV Require Import Base Transport TimerWheel Chain ChainSpec ChainBase ChainRespSpec.
From TarpcV Require Client Server ChainCli ChainSrv ChainResp2Cli ChainResp2Srv.

Notation rql := (list (nat * N * N)).
Notation ysl := (list (nat * nat * N * N)).
Notation lreq := ChainResp2Cli.lreq.
Notation hsok := ChainResp2Srv.hsok.
Notation hmono := ChainResp2Srv.hmono.

(* ------------------------------------------------------------------------------------------ *)
(* the part of the monitor that matters here *)
Record ym := mkym { y_rq : rql; y_ys : ysl; y_st : list (nat * nat); y_yield : bool; y_start : bool }.
Definition ymof (x : rmon) : ym := mkym (rm_rq x) (rm_ys x) (rm_st x) (rm_yield x) (rm_start x).
Definition ychk (rq : rql) (ys : ysl) (e : cobs) : bool :=
  match e with
  | KYield i k id _ _ body => has_rq rq i id body && Nat.eqb k (ys_count ys i)
  | _ => true
  end.
Definition schk (ys : ysl) (st : list (nat * nat)) (e : cobs) : bool :=
  match e with
  | KHStart i k => match ys_body ys i k with Some _ => true | None => false end && negb (memp (i, k) st)
  | _ => true
  end.
Definition ystep (y : ym) (e : cobs) : ym :=
  mkym (rq_obs (y_rq y) e) (ys_obs (y_ys y) e) (st_obs (y_st y) e)
       (y_yield y && ychk (y_rq y) (y_ys y) e) (y_start y && schk (y_ys y) (y_st y) e).

Lemma ymof_obs d x e : ymof (rm_obs d x e) = ystep (ymof x) e.
Proof. destruct e; reflexivity. Qed.
Lemma fold_ymof d l : forall x, ymof (fold_left (rm_obs d) l x) = fold_left ystep l (ymof x).
Proof. induction l as [|e r IH]; intro x; cbn [fold_left]; [reflexivity|]. rewrite IH, ymof_obs. reflexivity. Qed.

Definition yneutral (e : cobs) : bool :=
  match e with KWire _ _ | KYield _ _ _ _ _ _ | KHStart _ _ => false | _ => true end.
Lemma ystep_neutral y e : yneutral e = true -> ystep y e = y.
Proof. destruct y. destruct e; unfold ystep; cbn; intro H; try discriminate; rewrite ?andb_true_r; reflexivity. Qed.
Lemma fold_yneutral l : forall y, forallb yneutral l = true -> fold_left ystep l y = y.
Proof.
  induction l as [|e r IH]; intros y H; cbn [fold_left]; [reflexivity|].
  cbn [forallb] in H. apply andb_true_iff in H. destruct H as [H1 H2].
  rewrite (ystep_neutral y e H1). apply IH, H2.
Qed.
Lemma ystep_nonevent y e : is_event e = false -> ystep y e = y.
Proof.
  intro H. destruct e; cbn in H; try discriminate; try (apply ystep_neutral; reflexivity).
  destruct l; [|discriminate]. destruct y. unfold ystep. cbn. rewrite !andb_true_r. reflexivity.
Qed.
Lemma fold_yfilter l : forall y, fold_left ystep (filter is_event l) y = fold_left ystep l y.
Proof.
  induction l as [|e r IH]; intro y; cbn; [reflexivity|]. destruct (is_event e) eqn:E; cbn.
  - apply IH.
  - rewrite (ystep_nonevent y e E). apply IH.
Qed.

(* ------------------------------------------------------------------------------------------ *)
(* lookups *)
Definition stof (st : list (nat * nat)) (i : nat) : list nat :=
  map snd (filter (fun p => Nat.eqb (fst p) i) st).
Lemma memp_stof i k st : memp (i, k) st = true -> In k (stof st i).
Proof.
  unfold memp, stof. intro H. apply existsb_exists in H. destruct H as ([a b] & Hin & E). cbn in E.
  apply andb_true_iff in E. destruct E as [E1 E2]. apply Nat.eqb_eq in E1, E2. subst a b.
  apply in_map_iff. exists (i, k). split; [reflexivity|]. apply filter_In. split; [exact Hin|]. cbn. apply Nat.eqb_refl.
Qed.
Lemma stof_cons_other i i' k st : i' <> i -> stof ((i', k) :: st) i = stof st i.
Proof. intro N. unfold stof. cbn. destruct (Nat.eqb_spec i' i); [contradiction|reflexivity]. Qed.
Lemma stof_cons_same i k st : stof ((i, k) :: st) i = k :: stof st i.
Proof. unfold stof. cbn. rewrite Nat.eqb_refl. reflexivity. Qed.

Lemma ys_count_cons i i' k id b ys :
  ys_count ((i', k, id, b) :: ys) i = (if Nat.eqb i i' then S (ys_count ys i) else ys_count ys i).
Proof. unfold ys_count. cbn. destruct (Nat.eqb i i'); reflexivity. Qed.
Lemma ys_body_cons i k i' k' id b ys :
  ys_body ((i', k', id, b) :: ys) i k =
  (if Nat.eqb i i' && Nat.eqb k k' then Some b else ys_body ys i k).
Proof. unfold ys_body. cbn. destruct (Nat.eqb i i' && Nat.eqb k k'); reflexivity. Qed.

Lemma ys_has_id_cons i id i' k id' b ys :
  ys_has_id ((i', k, id', b) :: ys) i id = (Nat.eqb i i' && N.eqb id id') || ys_has_id ys i id.
Proof. reflexivity. Qed.

Lemma has_rq_in rq i id b : In (i, id, b) rq -> has_rq rq i id b = true.
Proof.
  intro H. unfold has_rq. apply existsb_exists. exists (i, id, b). split; [exact H|].
  rewrite Nat.eqb_refl, !N.eqb_refl. reflexivity.
Qed.

(* ------------------------------------------------------------------------------------------ *)
(* one node *)
Record NY (y : ym) (i : nat) (nd : node) : Prop := {
  ny_cnt : ys_count (y_ys y) i = length (Server.s_handlers (n_srv nd));
  ny_bod : forall k, k < length (Server.s_handlers (n_srv nd)) -> ys_body (y_ys y) i k <> None;
  ny_st : hsok (stof (y_st y) i) (Server.s_handlers (n_srv nd));
  ny_rq : lreq i (y_rq y) (n_link nd);
  ny_ids : forall id, ys_has_id (y_ys y) i id = true ->
             In id (map Server.h_id (Server.s_handlers (n_srv nd)));
  (* incarnation k of node i serves the request id of the recorded yield (i, k) *)
  ny_hid : forall k hr, nth_error (Server.s_handlers (n_srv nd)) k = Some hr ->
             exists b, In (i, k, Server.h_id hr, b) (y_ys y);
  (* a recorded yield was recorded as written on that link, same id and body *)
  ny_sub : forall k id b, In (i, k, id, b) (y_ys y) -> In (i, id, b) (y_rq y) }.

Lemma ny_eq y i nd nd' : n_link nd' = n_link nd -> n_srv nd' = n_srv nd -> NY y i nd -> NY y i nd'.
Proof. intros E1 E2 [A B C D F HD SB]. constructor; rewrite ?E1, ?E2; assumption. Qed.

Lemma lreq_mono i R R' l : incl R R' -> lreq i R l -> lreq i R' l.
Proof. intros I H id dl tr b Hin. apply I. eapply H, Hin. Qed.

Record YS (y : ym) (ch : chain) : Prop := {
  ys_y : y_yield y = true;
  ys_s : y_start y = true;
  ys_n : forall i nd, nth_error ch i = Some nd -> NY y i nd }.

Lemma ys_set_node y i nd ch : YS y ch -> NY y i nd -> YS y (set_node i nd ch).
Proof.
  intros [A B C] H. constructor; [exact A|exact B|].
  intros j x E. destruct (Nat.eq_dec i j) as [->|Ne].
  - pose proof (nth_error_lt _ _ _ E) as L. rewrite length_set_node in L.
    rewrite (nth_set_node_same j nd ch L) in E. injection E as <-. exact H.
  - rewrite (nth_set_node_other i j nd ch Ne) in E. apply C, E.
Qed.

(* client ops other than the dispatch poll leave link and server alone *)
Lemma cstep_other_frame nd o nd' l :
  cstep nd o = (nd', l) -> o <> Client.PollDispatch -> (forall g, o <> Client.Tr g) ->
  n_link nd' = n_link nd /\ n_srv nd' = n_srv nd.
Proof.
  unfold cstep. destruct (Client.step ctp cfuel _ o) as [c1 l1] eqn:ES. intros [= <- _] N1 N2.
  split; [|reflexivity]. cbn [n_link]. apply (ChainResp2Cli.tr_step_other cfuel _ _ _ _ ES N1 N2).
Qed.
Lemma ny_cstep y i nd o nd' l :
  cstep nd o = (nd', l) -> o <> Client.PollDispatch -> (forall g, o <> Client.Tr g) -> NY y i nd -> NY y i nd'.
Proof. intros E N1 N2. destruct (cstep_other_frame _ _ _ _ E N1 N2) as [A B]. apply ny_eq; assumption. Qed.

Lemma neutral_tr_sobs_other nd o nd' l i :
  sstep nd o = (nd', l) -> (match o with Server.OPoll | Server.OCtl _ => False | _ => True end) ->
  forallb yneutral (flat_map (tr_sobs i) l) = true.
Proof.
  intros E H. apply forallb_forall. intros e Hin. apply in_flat_map in Hin. destruct Hin as (o' & Ho & Hin).
  unfold sstep in E.
  pose proof (ChainSrv.hobs_step_other (fun t (_ : unit) => t) (fun t => length (l_c2s t)) scfg
                (Server.set_t (n_srv nd) (n_link nd)) o H) as HB.
  destruct (Server.step _ _ _ _ _ o) as [s1 l1]. injection E as _ <-. cbn [snd] in HB.
  rewrite forallb_forall in HB. specialize (HB _ Ho).
  destruct o'; cbn in HB; try discriminate; cbn in Hin; destruct Hin as [<-|[]]; reflexivity.
Qed.

(* one poll of execute() on a node *)
Lemma ny_sstep_handler y i k st nd nd1 l :
  sstep nd (Server.OHandlerPoll k st) = (nd1, l) -> NY y i nd ->
  NY y i nd1
  /\ (forall hr, nth_error (Server.s_handlers (n_srv nd)) k = Some hr -> Server.h_st hr = Server.HYielded ->
      forall hr', nth_error (Server.s_handlers (n_srv nd1)) k = Some hr' -> Server.h_st hr' <> Server.HYielded).
Proof.
  unfold sstep, Server.step. intros E [A B C D G HD SB].
  pose proof (ChainResp2Srv.hs_execute_poll k st (Server.set_t (n_srv nd) (n_link nd))) as (E1 & M & F).
  destruct (Server.execute_poll k st _) as [s1 l1]. injection E as <- _. cbn [fst] in *.
  cbn [n_srv n_link]. destruct M as (L & M & MI). cbn [Server.s_handlers Server.set_t] in L, M, MI.
  split; [|exact F].
  constructor; cbn [n_srv n_link].
  - rewrite L. exact A.
  - intros k0 Hk. apply B. rewrite <- L. exact Hk.
  - eapply ChainResp2Srv.hsok_mono; [split; [exact L|split; [exact M|exact MI]]|exact C].
  - rewrite E1. exact D.
  - rewrite MI. exact G.
  - intros k0 hr' Eh.
    assert (X : nth_error (map Server.h_id (Server.s_handlers s1)) k0 = Some (Server.h_id hr'))
      by (rewrite nth_error_map, Eh; reflexivity).
    rewrite MI, nth_error_map in X. destruct (nth_error (Server.s_handlers (n_srv nd)) k0) as [hr|] eqn:Eo; [|discriminate].
    cbn in X. injection X as X. rewrite <- X. apply (HD k0 hr Eo).
  - exact SB.
Qed.

(* the handler has started: record it *)
Lemma ny_started y i k nd :
  NY y i nd -> k < length (Server.s_handlers (n_srv nd)) ->
  (forall hr, nth_error (Server.s_handlers (n_srv nd)) k = Some hr -> Server.h_st hr <> Server.HYielded) ->
  NY (mkym (y_rq y) (y_ys y) ((i, k) :: y_st y) (y_yield y) (y_start y)) i nd.
Proof.
  intros [A B C D G HD SB] L H. constructor; cbn [y_rq y_ys y_st]; try assumption.
  rewrite stof_cons_same. intros k0 [<-|Hk]; [split; assumption|apply C, Hk].
Qed.
Lemma ny_started_other y i i' k nd :
  i' <> i -> NY y i nd -> NY (mkym (y_rq y) (y_ys y) ((i', k) :: y_st y) (y_yield y) (y_start y)) i nd.
Proof.
  intros N [A B C D G HD SB]. constructor; cbn [y_rq y_ys y_st]; try assumption.
  rewrite stof_cons_other by exact N. exact C.
Qed.

(* ------------------------------------------------------------------------------------------ *)
(* components *)
Lemma ys_neutral y ch' l : forallb yneutral l = true -> YS y ch' -> YS (fold_left ystep l y) ch'.
Proof. intros N H. rewrite (fold_yneutral l y N). exact H. Qed.

Lemma ys_poll_head y j ch ch' l : YS y ch -> poll_head j ch = (ch', l) -> YS (fold_left ystep l y) ch'.
Proof.
  intros HS E. unfold poll_head in E. destruct (nth_error ch 0) as [nd|] eqn:E0; [|pinj E; exact HS].
  destruct (cstep nd (Client.PollCall j)) as [nd1 l1] eqn:ES. pinj E. apply ys_neutral.
  - apply forallb_forall. intros e H. apply in_flat_map in H. destruct H as (o & _ & H).
    destruct o; cbn in H; try contradiction. destruct H as [<-|[]]. reflexivity.
  - apply ys_set_node; [exact HS|]. eapply ny_cstep; [exact ES|discriminate|discriminate|apply (ys_n _ _ HS), E0].
Qed.

Lemma ys_poll_dispatch y i ch ch' l :
  YS y ch -> Chain.poll_dispatch i ch = (ch', l) -> YS (fold_left ystep l y) ch'.
Proof.
  intros HS E. unfold Chain.poll_dispatch in E. destruct (nth_error ch i) as [nd|] eqn:E0; [|pinj E; exact HS].
  destruct (cstep nd Client.PollDispatch) as [nd1 l1] eqn:ES. pinj E.
  pose proof (ys_n _ _ HS _ _ E0) as [A B C D G HD SB].
  unfold cstep in ES. set (c0 := Client.upd_tr _ _ _ _) in ES.
  destruct (Client.step ctp cfuel c0 Client.PollDispatch) as [c1 os] eqn:EC. pinj ES.
  destruct (ChainResp2Cli.c2ok_step_dispatch cfuel i (y_rq y) _ _ _ EC D) as [[-> ET]|(lg & r & a & b & -> & W)].
  - cbn [flat_map fold_left]. apply ys_set_node; [exact HS|]. constructor; cbn [n_srv n_link]; try assumption.
    rewrite ET. exact D.
  - cbn [flat_map tr_cobs app].
    change (fold_left ystep [KWire i (wire_of lg); KDisp i r; KCGauge i a b] y)
      with (fold_left ystep [KDisp i r; KCGauge i a b] (ystep y (KWire i (wire_of lg)))).
    rewrite fold_yneutral by reflexivity.
    set (y1 := ystep y (KWire i (wire_of lg))).
    assert (ERQ : y_rq y1 = ChainResp2Cli.wreq i (y_rq y) (wire_of lg)) by reflexivity.
    assert (I1 : incl (y_rq y) (y_rq y1)) by (rewrite ERQ; intros x Hx; apply ChainResp2Cli.wreq_incl, Hx).
    assert (HS1 : YS y1 ch).
    { destruct HS as [P1 P2 P3]. constructor; [unfold y1; cbn; rewrite P1; reflexivity|unfold y1; cbn; rewrite P2; reflexivity|].
      intros j x Ex. destruct (P3 _ _ Ex) as [A' B' C' D' G' HD' SB']. constructor; try assumption.
      - eapply lreq_mono; [exact I1|exact D'].
      - intros k0 id0 b0 Hin. apply I1. eapply SB', Hin. }
    apply ys_set_node; [exact HS1|]. constructor; cbn [n_srv n_link]; try assumption.
    intros k0 id0 b0 Hin. apply I1. eapply SB, Hin.
Qed.

Lemma ys_poll_requests y i ch ch' l :
  YS y ch -> poll_requests i ch = (ch', l) -> YS (fold_left ystep l y) ch'.
Proof.
  intros HS E. unfold poll_requests in E. destruct (nth_error ch i) as [nd|] eqn:E0; [|pinj E; exact HS].
  destruct (n_over nd || _); [pinj E; exact HS|].
  destruct (sstep nd Server.OPoll) as [nd1 l1] eqn:ES. pinj E.
  pose proof (ys_n _ _ HS _ _ E0) as [A B C D G HD SB].
  unfold sstep in ES. set (s0 := Server.set_t (n_srv nd) (n_link nd)) in ES.
  destruct (Server.step stp _ _ scfg s0 Server.OPoll) as [s1 os] eqn:EP. pinj ES.
  assert (P0 : ChainResp2Srv.P i (y_rq y) (length (Server.s_handlers s0)) (stof (y_st y) i)
                 (map Server.h_id (Server.s_handlers s0)) s0).
  { split; [exact D|]. split; [reflexivity|]. split; [exact C|reflexivity]. }
  destruct (ChainResp2Srv.P_step_poll _ _ i (y_rq y) (stof (y_st y) i) _ _ _ EP P0)
    as [[NY0 (P1 & P2 & P3 & P4)]|(lg & id & dl & tr & b & hh & hs2 & -> & IR & LR & EH & LH & HK & HI)].
  - (* nothing yielded *)
    assert (NE : forallb yneutral (flat_map (tr_sobs i) os) = true).
    { apply forallb_forall. intros e H. apply in_flat_map in H. destruct H as (o & Ho & H).
      destruct o; cbn in H; try contradiction; destruct H as [<-|[]]; try reflexivity.
      exfalso. eapply NY0, Ho. }
    apply ys_neutral; [exact NE|]. apply ys_set_node; [exact HS|].
    cbn [Server.s_handlers Server.set_t s0] in P2, P4.
    constructor; cbn [n_srv n_link].
    + rewrite P2. exact A.
    + intros k Hk. apply B. rewrite <- P2. exact Hk.
    + exact P3.
    + exact P1.
    + rewrite P4. exact G.
    + intros k0 hr' Eh.
      assert (X : nth_error (map Server.h_id (Server.s_handlers s1)) k0 = Some (Server.h_id hr'))
        by (rewrite nth_error_map, Eh; reflexivity).
      rewrite P4, nth_error_map in X. destruct (nth_error (Server.s_handlers (n_srv nd)) k0) as [hr|] eqn:Eo; [|discriminate].
      cbn in X. injection X as X. rewrite <- X. apply (HD k0 hr Eo).
    + exact SB.
  - (* one request yielded *)
    cbn [Server.s_handlers Server.set_t s0] in LH, HI |- *.
    set (n := length (Server.s_handlers (n_srv nd))) in *.
    cbn [flat_map tr_sobs app].
    change (fold_left ystep (KYield i n id dl tr b :: flat_map (tr_sobs i) (Server.gauges s1)) y)
      with (fold_left ystep (flat_map (tr_sobs i) (Server.gauges s1)) (ystep y (KYield i n id dl tr b))).
    rewrite fold_yneutral.
    2: { unfold Server.gauges. destruct (Server.s_dropped s1); [reflexivity|]. destruct (Server.s_bad s1); reflexivity. }
    set (y1 := ystep y (KYield i n id dl tr b)).
    destruct HS as [P1 P2 P3]. constructor.
    + unfold y1. cbn. rewrite P1, (has_rq_in _ _ _ _ IR), A. fold n. rewrite Nat.eqb_refl. reflexivity.
    + unfold y1. cbn. rewrite P2. reflexivity.
    + intros j x Ex. destruct (Nat.eq_dec i j) as [<-|Ne].
      * pose proof (nth_error_lt _ _ _ Ex) as L. rewrite length_set_node in L.
        rewrite (nth_set_node_same i _ ch L) in Ex. injection Ex as <-.
        constructor; unfold y1; cbn [y_rq y_ys y_st ystep ys_obs st_obs rq_obs n_srv n_link].
        -- rewrite ys_count_cons, Nat.eqb_refl, A, EH, app_length. cbn. fold n. lia.
        -- intros k Hk. rewrite ys_body_cons, Nat.eqb_refl. cbn [andb].
           destruct (Nat.eqb_spec k n) as [->|Nk]; [discriminate|].
           apply B. rewrite EH, app_length in Hk. cbn in Hk. fold n. lia.
        -- intros k Hk. destruct (HK k Hk) as [K1 K2]. rewrite EH, app_length. split; [lia|].
           intros hr Eh. rewrite nth_error_app1 in Eh by exact K1. apply K2, Eh.
        -- exact LR.
        -- intros id0 Hid. rewrite ys_has_id_cons, Nat.eqb_refl in Hid. cbn [andb] in Hid.
           rewrite EH, map_app, HI. apply in_or_app. apply orb_true_iff in Hid. destruct Hid as [Hid|Hid].
           ++ right. apply N.eqb_eq in Hid. subst id0. left. reflexivity.
           ++ left. apply G, Hid.
        -- intros k0 hr' Eh. rewrite EH in Eh.
           destruct (Nat.lt_ge_cases k0 (length hs2)) as [Lt|Ge].
           ++ rewrite nth_error_app1 in Eh by exact Lt.
              assert (X : nth_error (map Server.h_id hs2) k0 = Some (Server.h_id hr'))
                by (rewrite nth_error_map, Eh; reflexivity).
              rewrite HI, nth_error_map in X.
              destruct (nth_error (Server.s_handlers (n_srv nd)) k0) as [hr|] eqn:Eo; [|discriminate].
              cbn in X. injection X as X. rewrite <- X. destruct (HD k0 hr Eo) as (b0 & Hb). exists b0. right. exact Hb.
           ++ rewrite nth_error_app2 in Eh by exact Ge. destruct (k0 - length hs2) as [|m] eqn:Em; cbn in Eh.
              ** injection Eh as <-. cbn. exists b. left. f_equal. f_equal. f_equal. fold n. lia.
              ** destruct m; discriminate.
        -- intros k0 id0 b0 [[= <- <- <-]|Hin]; [exact IR|eapply SB, Hin].
      * rewrite (nth_set_node_other i j _ ch Ne) in Ex. destruct (P3 _ _ Ex) as [A' B' C' D' G' HD' SB'].
        constructor; unfold y1; cbn [y_rq y_ys y_st ystep ys_obs st_obs rq_obs]; try assumption.
        -- rewrite ys_count_cons. destruct (Nat.eqb_spec j i); [congruence|exact A'].
        -- intros k Hk. rewrite ys_body_cons. destruct (Nat.eqb_spec j i); [congruence|]. cbn. apply B', Hk.
        -- intros id0 Hid. rewrite ys_has_id_cons in Hid. destruct (Nat.eqb_spec j i); [congruence|]. apply G', Hid.
        -- intros k0 hr Eh. destruct (HD' k0 hr Eh) as (b0 & Hb). exists b0. right. exact Hb.
        -- intros k0 id0 b0 [[= X _ _ _]|Hin]; [congruence|eapply SB', Hin].
Qed.

Lemma inner_poll_frame k nd nx nd1 nx1 st :
  inner_poll k nd nx = (nd1, nx1, st) ->
  n_link nd1 = n_link nd /\ n_srv nd1 = n_srv nd /\ n_link nx1 = n_link nx /\ n_srv nx1 = n_srv nx.
Proof.
  unfold inner_poll. destruct (nth_error (n_hs nd) k) as [h|]; [|intros [= <- <- <-]; auto].
  intros E. destruct (hi_call h) as [j|].
  - destruct (cstep nx (Client.PollCall j)) as [nx2 l] eqn:ES. injection E as <- <- _.
    destruct (cstep_other_frame _ _ _ _ ES ltac:(discriminate) ltac:(discriminate)) as [A B]. auto.
  - match type of E with context [cstep ?n _] => set (nxc := n) in * end.
    destruct (cstep nxc _) as [nx2 l] eqn:ES. injection E as <- <- _.
    destruct (cstep_other_frame _ _ _ _ ES ltac:(discriminate) ltac:(discriminate)) as [A B].
    cbn [n_link n_srv]. split; [reflexivity|]. split; [reflexivity|]. split; [exact A|exact B].
Qed.

Lemma ys_abort y i k ch nd nd1 l1 :
  YS y ch -> nth_error ch i = Some nd ->
  sstep nd (Server.OHandlerPoll k Server.SRun) = (nd1, l1) ->
  YS y (match option_map hi_call (nth_error (n_hs nd) k), nth_error (set_node i nd1 ch) (S i) with
        | Some (Some j), Some nx =>
          set_node (S i) (fst (cstep nx (Client.DropCall j))) (set_node i nd1 ch)
        | _, _ => set_node i nd1 ch
        end).
Proof.
  intros HS E0 ES.
  assert (S1 : YS y (set_node i nd1 ch)).
  { apply ys_set_node; [exact HS|]. apply (ny_sstep_handler _ _ _ _ _ _ _ ES (ys_n _ _ HS _ _ E0)). }
  set (ch1 := set_node i nd1 ch) in *.
  destruct (option_map hi_call _) as [[j|]|]; try exact S1.
  destruct (nth_error ch1 (S i)) as [nx|] eqn:EX; [|exact S1].
  apply ys_set_node; [exact S1|].
  destruct (cstep nx (Client.DropCall j)) as [nx1 lx] eqn:EC. cbn [fst].
  eapply ny_cstep; [exact EC|discriminate|discriminate|apply (ys_n _ _ S1), EX].
Qed.

Lemma ny_ext y y' i nd :
  y_rq y' = y_rq y -> y_ys y' = y_ys y -> y_st y' = y_st y -> NY y i nd -> NY y' i nd.
Proof. intros E1 E2 E3 [A B C D G HD SB]. constructor; rewrite ?E1, ?E2, ?E3; assumption. Qed.

(* recording a start on a chain whose node i has its handler k out of HYielded *)
Lemma ys_start y i k ch :
  YS y ch -> schk (y_ys y) (y_st y) (KHStart i k) = true ->
  (forall nd, nth_error ch i = Some nd ->
     k < length (Server.s_handlers (n_srv nd))
     /\ forall hr, nth_error (Server.s_handlers (n_srv nd)) k = Some hr -> Server.h_st hr <> Server.HYielded) ->
  YS (ystep y (KHStart i k)) ch.
Proof.
  intros [P1 P2 P3] SC H. constructor.
  - unfold ystep. cbn. rewrite P1. reflexivity.
  - unfold ystep. cbn [y_start]. rewrite P2, SC. reflexivity.
  - intros j nd E. destruct (Nat.eq_dec i j) as [<-|Ne].
    + destruct (H nd E) as [H1 H2].
      eapply ny_ext; [..|apply (ny_started y i k nd (P3 _ _ E) H1 H2)]; reflexivity.
    + eapply ny_ext; [..|apply (ny_started_other y j i k nd Ne (P3 _ _ E))]; reflexivity.
Qed.

Lemma ys_run y i k st ch nd hr (started : bool) ch' l :
  YS y ch -> nth_error ch i = Some nd -> nth_error (Server.s_handlers (n_srv nd)) k = Some hr ->
  (started = true -> Server.h_st hr = Server.HYielded) ->
  (match nth_error ch (S i) with
   | Some nx =>
     let '(nd1, nx1, st1) := inner_poll k nd nx in
     let '(nd2, l0) := sstep nd1 (Server.OHandlerPoll k st1) in
     (set_node (S i) nx1 (set_node i nd2 ch), (if started then [KHStart i k] else []) ++ flat_map (tr_sobs i) l0)
   | None =>
     let '(nd1, l0) := sstep nd (Server.OHandlerPoll k st) in
     (set_node i nd1 ch, (if started then [KHStart i k] else []) ++ flat_map (tr_sobs i) l0)
   end) = (ch', l) -> YS (fold_left ystep l y) ch'.
Proof.
  intros HS E0 EK HY E1. pose proof (ys_n _ _ HS _ _ E0) as Hn.
  (* the check of a start, against the state before *)
  assert (SC : started = true -> schk (y_ys y) (y_st y) (KHStart i k) = true).
  { intro Es. cbn [schk]. pose proof (nth_error_lt _ _ _ EK) as L.
    pose proof (ny_bod _ _ _ Hn k L) as B. destruct (ys_body (y_ys y) i k); [|contradiction].
    cbn [andb]. destruct (memp (i, k) (y_st y)) eqn:EM; [|reflexivity]. exfalso.
    destruct (ny_st _ _ _ Hn k (memp_stof _ _ _ EM)) as [_ X]. exact (X hr EK (HY Es)). }
  (* the chain after, and the handler afterwards *)
  assert (G : exists ndf l0,
            l = (if started then [KHStart i k] else []) ++ flat_map (tr_sobs i) l0
            /\ forallb yneutral (flat_map (tr_sobs i) l0) = true
            /\ YS y ch' /\ nth_error ch' i = Some ndf
            /\ (started = true ->
                k < length (Server.s_handlers (n_srv ndf))
                /\ forall hr', nth_error (Server.s_handlers (n_srv ndf)) k = Some hr' ->
                               Server.h_st hr' <> Server.HYielded)).
  { destruct (nth_error ch (S i)) as [nx|] eqn:EX.
    - destruct (inner_poll k nd nx) as [[nd1 nx1] st1] eqn:EI.
      destruct (sstep nd1 (Server.OHandlerPoll k st1)) as [nd2 l0] eqn:ES. pinj E1.
      destruct (inner_poll_frame _ _ _ _ _ _ EI) as (F1 & F2 & F3 & F4).
      assert (Hn1 : NY y i nd1) by (eapply ny_eq; eassumption).
      destruct (ny_sstep_handler _ _ _ _ _ _ _ ES Hn1) as [K1 K2].
      exists nd2, l0. split; [reflexivity|]. split; [eapply neutral_tr_sobs_other; [exact ES|exact I]|].
      split; [|split].
      + apply ys_set_node; [apply ys_set_node; [exact HS|exact K1]|].
        eapply ny_eq; [exact F3|exact F4|apply (ys_n _ _ HS), EX].
      + rewrite nth_set_node_other by lia. apply nth_set_node_same. eapply nth_error_lt, E0.
      + intro Es. rewrite F2 in K2. split.
        * destruct K1 as [A1 _ _ _]. destruct Hn as [A0 _ _ _]. rewrite <- A1, A0. eapply nth_error_lt, EK.
        * apply (K2 hr EK (HY Es)).
    - destruct (sstep nd (Server.OHandlerPoll k st)) as [nd1 l0] eqn:ES. pinj E1.
      destruct (ny_sstep_handler _ _ _ _ _ _ _ ES Hn) as [K1 K2].
      exists nd1, l0. split; [reflexivity|]. split; [eapply neutral_tr_sobs_other; [exact ES|exact I]|].
      split; [|split].
      + apply ys_set_node; [exact HS|exact K1].
      + apply nth_set_node_same. eapply nth_error_lt, E0.
      + intro Es. split.
        * destruct K1 as [A1 _ _ _]. destruct Hn as [A0 _ _ _]. rewrite <- A1, A0. eapply nth_error_lt, EK.
        * apply (K2 hr EK (HY Es)). }
  destruct G as (ndf & l0 & -> & NE & HS' & EF & AF).
  rewrite fold_left_app. destruct started.
  - cbn [fold_left]. rewrite fold_yneutral by exact NE.
    apply ys_start; [exact HS'|apply SC; reflexivity|].
    intros nd0 E. rewrite EF in E. injection E as <-. apply AF. reflexivity.
  - cbn [fold_left]. rewrite fold_yneutral by exact NE. exact HS'.
Qed.

Lemma ys_poll_handler y i k st ch ch' l :
  YS y ch -> poll_handler i k st ch = (ch', l) -> YS (fold_left ystep l y) ch'.
Proof.
  intros HS E. unfold poll_handler in E. destruct (nth_error ch i) as [nd|] eqn:E0; [|pinj E; exact HS].
  destruct (nth_error (Server.s_handlers (n_srv nd)) k) as [hr|] eqn:EK; [|pinj E; exact HS].
  destruct (Server.h_st hr) eqn:EST.
  - destruct (is_aborted _ _).
    + destruct (sstep nd (Server.OHandlerPoll k Server.SRun)) as [nd1 l1] eqn:ES. pinj E.
      apply ys_neutral; [eapply neutral_tr_sobs_other; [exact ES|exact I]|]. eapply ys_abort; eassumption.
    + apply (ys_run y i k st ch nd hr true); [exact HS|exact E0|exact EK|intros _; exact EST|exact E].
  - destruct (is_aborted _ _).
    + destruct (sstep nd (Server.OHandlerPoll k Server.SRun)) as [nd1 l1] eqn:ES. pinj E.
      apply ys_neutral; [eapply neutral_tr_sobs_other; [exact ES|exact I]|]. eapply ys_abort; eassumption.
    + apply (ys_run y i k st ch nd hr false); [exact HS|exact E0|exact EK|discriminate|exact E].
  - destruct (sstep nd (Server.OHandlerPoll k Server.SRun)) as [nd1 l1] eqn:ES. pinj E.
    apply ys_neutral; [eapply neutral_tr_sobs_other; [exact ES|exact I]|].
    apply ys_set_node; [exact HS|]. apply (ny_sstep_handler _ _ _ _ _ _ _ ES (ys_n _ _ HS _ _ E0)).
  - destruct (sstep nd (Server.OHandlerPoll k Server.SRun)) as [nd1 l1] eqn:ES. pinj E.
    apply ys_neutral; [eapply neutral_tr_sobs_other; [exact ES|exact I]|].
    apply ys_set_node; [exact HS|]. apply (ny_sstep_handler _ _ _ _ _ _ _ ES (ys_n _ _ HS _ _ E0)).
  - pinj E. exact HS.
  - pinj E. exact HS.
Qed.

(* ------------------------------------------------------------------------------------------ *)
(* SettleAll *)
Lemma ys_poll_heads n : forall j ch acc ch' l y,
  YS (fold_left ystep acc y) ch -> poll_heads j n ch acc = (ch', l) -> YS (fold_left ystep l y) ch'.
Proof.
  induction n as [|n IH]; intros j ch acc ch' l y HS E; cbn [poll_heads] in E; [pinj E; exact HS|].
  match type of E with (if ?b then _ else _) = _ => destruct b end.
  - destruct (poll_head j ch) as [ch1 l1] eqn:EP.
    eapply IH; [|exact E]. rewrite fold_left_app. eapply ys_poll_head; eassumption.
  - eapply IH; eassumption.
Qed.
Lemma ys_poll_handlers i n : forall k ch acc ch' l y,
  YS (fold_left ystep acc y) ch -> poll_handlers i k n ch acc = (ch', l) -> YS (fold_left ystep l y) ch'.
Proof.
  induction n as [|n IH]; intros k ch acc ch' l y HS E; cbn [poll_handlers] in E; [pinj E; exact HS|].
  destruct (poll_handler i k Server.SRun ch) as [ch1 l1] eqn:EP.
  eapply IH; [|exact E]. rewrite fold_left_app. eapply ys_poll_handler; eassumption.
Qed.
Lemma ys_settle_node y i ch ch' l :
  YS y ch -> settle_node i ch = (ch', l) -> YS (fold_left ystep l y) ch'.
Proof.
  intros HS E. unfold settle_node in E.
  destruct (Chain.poll_dispatch i ch) as [ch1 l1] eqn:E1.
  destruct (poll_requests i ch1) as [ch2 l2] eqn:E2.
  destruct (poll_handlers i 0 _ ch2 []) as [ch3 l3] eqn:E3. pinj E.
  rewrite !fold_left_app.
  eapply (ys_poll_handlers i _ 0 ch2 [] ch3 l3); [|exact E3]. cbn [fold_left].
  eapply ys_poll_requests; [|exact E2]. eapply ys_poll_dispatch; eassumption.
Qed.
Lemma ys_settle_nodes n : forall i ch acc ch' l y,
  YS (fold_left ystep acc y) ch -> settle_nodes i n ch acc = (ch', l) -> YS (fold_left ystep l y) ch'.
Proof.
  induction n as [|n IH]; intros i ch acc ch' l y HS E; cbn [settle_nodes] in E; [pinj E; exact HS|].
  destruct (settle_node i ch) as [ch1 l1] eqn:EP.
  eapply IH; [|exact E]. rewrite fold_left_app. eapply ys_settle_node; eassumption.
Qed.
Lemma ys_round y ch ch' ev : YS y ch -> round ch = (ch', ev) -> YS (fold_left ystep ev y) ch'.
Proof.
  intros HS E. unfold round in E.
  destruct (poll_heads 0 _ ch []) as [ch1 l1] eqn:E1.
  destruct (settle_nodes 0 _ ch1 []) as [ch2 l2] eqn:E2. pinj E.
  rewrite fold_yfilter, fold_left_app.
  eapply (ys_settle_nodes _ 0 ch1 [] ch2 l2); [|exact E2]. cbn [fold_left].
  eapply (ys_poll_heads _ 0 ch [] ch1 l1); [exact HS|exact E1].
Qed.
Lemma ys_settle n : forall ch acc ch' evs q y,
  YS (fold_left ystep acc y) ch -> settle n ch acc = (ch', evs, q) -> YS (fold_left ystep evs y) ch'.
Proof.
  induction n as [|n IH]; intros ch acc ch' evs q y HS E; cbn [settle] in E.
  - pinj E. match goal with H : (_, _) = (_, _) |- _ => pinj H end. exact HS.
  - destruct (round ch) as [ch1 ev] eqn:ER.
    pose proof (ys_round _ _ _ _ HS ER) as S1.
    match type of E with (if ?b then _ else _) = _ => destruct b eqn:EB end.
    + pinj E. match goal with H : (_, _) = (_, _) |- _ => pinj H end.
      apply andb_true_iff in EB. destruct EB as [_ EB]. destruct ev; [|discriminate]. exact S1.
    + eapply IH; [|exact E]. rewrite fold_left_app. exact S1.
Qed.
Lemma yneutral_gauges ch : forall i, forallb yneutral (all_gauges i ch) = true.
Proof.
  induction ch as [|nd r IH]; intro i; cbn [all_gauges]; [reflexivity|].
  rewrite !forallb_app, IH. unfold cgauge, sgauge.
  destruct (Server.s_dropped _); [reflexivity|]. destruct (Server.s_bad _); reflexivity.
Qed.
Lemma ys_settle_all y ch ch' l : YS y ch -> settle_all ch = (ch', l) -> YS (fold_left ystep l y) ch'.
Proof.
  intros HS E. unfold settle_all in E. destruct (settle _ ch []) as [[ch1 ev] q] eqn:ES. pinj E.
  pose proof (ys_settle _ ch [] ch1 ev q y HS ES) as S1.
  rewrite fold_left_app. apply ys_neutral; [|exact S1].
  rewrite forallb_app, yneutral_gauges. destruct q; reflexivity.
Qed.

Lemma sstep_drop_frame nd nd1 l :
  sstep nd Server.ODropChannel = (nd1, l) ->
  Server.s_handlers (n_srv nd1) = Server.s_handlers (n_srv nd) /\ n_link nd1 = n_link nd.
Proof.
  unfold sstep, Server.step. intros [= <- _]. cbn [n_srv n_link]. unfold Server.drop_channel.
  destruct (Server.s_dropped _); split; reflexivity.
Qed.
Lemma sstep_adv_frame dt nd nd1 l :
  sstep nd (Server.OAdvance dt) = (nd1, l) ->
  Server.s_handlers (n_srv nd1) = Server.s_handlers (n_srv nd) /\ n_link nd1 = n_link nd.
Proof. unfold sstep, Server.step. intros [= <- _]. split; reflexivity. Qed.

(* ------------------------------------------------------------------------------------------ *)
(* one op *)
Lemma ys_step y ch o ch' l : YS y ch -> step ch o = (ch', l) -> YS (fold_left ystep l y) ch'.
Proof.
  intros HS E.
  assert (CS : forall i nd oc, nth_error ch i = Some nd -> oc <> Client.PollDispatch ->
               (forall g, oc <> Client.Tr g) -> YS y (set_node i (fst (cstep nd oc)) ch)).
  { intros i nd oc E0 N1 N2. apply ys_set_node; [exact HS|].
    destruct (cstep nd oc) as [nd1 l1] eqn:ES. cbn [fst].
    eapply ny_cstep; [exact ES|exact N1|exact N2|apply (ys_n _ _ HS), E0]. }
  destruct o; cbn [step] in E.
  - destruct (nth_error ch 0) as [nd|] eqn:E0; pinj E; [|exact HS]. apply CS; [exact E0|discriminate|discriminate].
  - eapply ys_poll_head; eassumption.
  - destruct (nth_error ch 0) as [nd|] eqn:E0; pinj E; [|exact HS]. apply CS; [exact E0|discriminate|discriminate].
  - eapply ys_poll_dispatch; eassumption.
  - eapply ys_poll_requests; eassumption.
  - eapply ys_poll_handler; eassumption.
  - destruct (nth_error ch i) as [nd|] eqn:E0; [|pinj E; exact HS].
    destruct (Client.dropped _); [pinj E; exact HS|].
    destruct (cstep nd Client.DropDispatch) as [nd1 l1] eqn:ES. pinj E. cbn [fold_left].
    apply ys_set_node; [exact HS|].
    destruct (ny_cstep y i _ _ _ _ ES ltac:(discriminate) ltac:(discriminate) (ys_n _ _ HS _ _ E0)) as [A B C D G HD SB].
    constructor; assumption.
  - destruct (nth_error ch i) as [nd|] eqn:E0; [|pinj E; exact HS].
    destruct (Server.s_dropped _); [pinj E; exact HS|].
    destruct (sstep nd Server.ODropChannel) as [nd1 l1] eqn:ES. pinj E. cbn [fold_left].
    apply ys_set_node; [exact HS|].
    destruct (sstep_drop_frame nd nd1 l1 ES) as (E1 & E2).
    destruct (ys_n _ _ HS _ _ E0) as [A B C D G HD SB]. constructor; cbn [n_srv n_link]; rewrite ?E1, ?E2; assumption.
  - pinj E. cbn [fold_left]. destruct HS as [A B C]. constructor; [exact A|exact B|].
    intros j x Hx. rewrite nth_error_map in Hx.
    destruct (nth_error ch j) as [nd|] eqn:E0; [|discriminate]. injection Hx as <-.
    unfold advance_node. destruct (cstep nd (Client.Advance dt)) as [nd1 l1] eqn:E1.
    destruct (sstep nd1 (Server.OAdvance dt)) as [nd2 l2] eqn:E2.
    destruct (sstep_adv_frame dt nd1 nd2 l2 E2) as (F1 & F2).
    pose proof (ny_cstep y j _ _ _ _ E1 ltac:(discriminate) ltac:(discriminate) (C _ _ E0)) as [A' B' C' D' G' HD' SB'].
    constructor; rewrite ?F1, ?F2; assumption.
  - eapply ys_settle_all; eassumption.
Qed.

(* the monitor along a run *)
Lemma ymof_step d x o l : ymof (rm_step d x o l) = fold_left ystep l (ymof x).
Proof.
  unfold rm_step.
  assert (E : forall x0, ymof x0 = ymof x -> ymof (fold_left (rm_obs d) l x0) = fold_left ystep l (ymof x)).
  { intros x0 <-. apply fold_ymof. }
  destruct o; apply E; reflexivity.
Qed.

Lemma ys_run_from d : forall ops x ch,
  YS (ymof x) ch ->
  exists x', rm_run d x ops (fst (run_from ch ops)) = Some x' /\ rm_yield x' = true /\ rm_start x' = true.
Proof.
  induction ops as [|o r IH]; intros x ch HS; cbn [run_from].
  - exists x. split; [reflexivity|]. split; [apply (ys_y _ _ HS)|apply (ys_s _ _ HS)].
  - destruct (step ch o) as [ch1 l] eqn:ES. destruct (run_from ch1 r) as [ls ch2] eqn:ER.
    cbn [fst rm_run]. specialize (IH (rm_step d x o l) ch1). rewrite ER in IH. apply IH.
    rewrite ymof_step. eapply ys_step; eassumption.
Qed.

Lemma ys_init d : YS (ymof rmon0) (init d).
Proof.
  constructor; [reflexivity|reflexivity|].
  intros i nd E. apply nth_error_In in E. unfold init in E. apply repeat_spec in E. subst nd.
  constructor; cbn.
  - reflexivity.
  - intros k Hk. lia.
  - intros k [].
  - intros id dl tr b [].
  - intros id [=].
  - intros k hr Eh. destruct k; discriminate.
  - intros k id b [].
Qed.

Theorem chain_resp_yield : stmt_resp_yield.
Proof.
  intros d ops. unfold c01c_yield, rm_flag, run.
  destruct (ys_run_from d ops rmon0 (init d) (ys_init d)) as (x' & -> & A & _). exact A.
Qed.
Theorem chain_resp_start : stmt_resp_start.
Proof.
  intros d ops. unfold c01c_start, rm_flag, run.
  destruct (ys_run_from d ops rmon0 (init d) (ys_init d)) as (x' & -> & _ & B). exact B.
Qed.
Print Assumptions chain_resp_yield.
Print Assumptions chain_resp_start.
