(* Chain proofs, SettleAll terminates, part 5: the round budget Chain.rounds_of dominates the
   potential; the pinned statement ChainSpec.stmt_chain_rounds. *)
From Coq Require Import List Bool Arith NArith Lia.
Import ListNotations.
From TarpcV Require Import Base Transport TimerWheel Chain ChainBase ChainSpec.
From TarpcV Require Client Server ChainRounds0 ChainRounds1 ChainRounds2 ChainRounds3 ChainRounds4.
Import ChainRounds0 ChainRounds3.

Lemma filter_le {X} (f : X -> bool) l : length (filter f l) <= length l.
Proof. induction l as [|x r IH]; cbn; [lia|]. destruct (f x); cbn; lia. Qed.

Lemma NP_le A nd : NP A nd <= (A + 22) * node_size nd + 7.
Proof.
  unfold NP, PC0, PS0, LP, hsw, ovw, node_size.
  pose proof (C2.CW_le A (Client.calls (n_cli nd))).
  pose proof (sumw_le A (l_c2s (n_link nd))).
  pose proof (S1.WH_le (Server.s_handlers (n_srv nd))).
  pose proof (filter_le isnone (n_hs nd)) as F.
  assert (A * length (filter isnone (n_hs nd)) <= A * length (n_hs nd)) by (apply Nat.mul_le_mono_l, F).
  assert (C2.bit (Client.rx_closed (n_cli nd)) <= 1) by (destruct (Client.rx_closed _); cbn; lia).
  assert (C2.obit (Client.terminal (n_cli nd)) <= 1) by (destruct (Client.terminal _); cbn; lia).
  assert (C2.obit (Client.finished (n_cli nd)) <= 1) by (destruct (Client.finished _); cbn; lia).
  destruct (Server.s_fused (n_srv nd)), (n_over nd); lia.
Qed.

Definition total_size (ch : chain) : nat := fold_right (fun nd a => node_size nd + a) 0 ch.

Lemma Phi_le ch : Phi ch <= 22 * length ch * total_size ch + 7 * length ch.
Proof.
  induction ch as [|nd r IH]; cbn [Phi length total_size fold_right]; [lia|].
  fold (total_size r). pose proof (NP_le (22 * length r) nd). lia.
Qed.

Lemma Phi_lt_rounds ch : Phi ch < rounds_of ch.
Proof. unfold rounds_of. fold (total_size ch). pose proof (Phi_le ch). lia. Qed.

(* every SettleAll of every run of every depth reaches a quiet round within rounds_of rounds,
   unless a timer-order oracle disagreed *)
Theorem chain_rounds : stmt_chain_rounds.
Proof. apply ChainRounds4.chain_rounds_if, Phi_lt_rounds. Qed.
Print Assumptions chain_rounds.
