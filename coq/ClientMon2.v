(* C05, promptness clause: a separate monitor (its own fold, so that the verdict record of
   ClientMon.v and the proofs about it stay untouched).  It threads ClientMon's observer state
   `mst` (by re-running `chk_obs` and dropping its verdicts) plus the clock value and transport
   sequence number at the end of the last dispatch poll that returned Pending.

   Clause: if a dispatch poll returned Pending at clock T (so every timer due at T has been
   processed: Client `expiry_prompt`), then a caller whose request had been written by the end
   of that poll and whose deadline (or, for deadlines beyond the supported span, the clamped
   timer MAX_TIMEOUT after transmission) is <= T no longer gets `Pending`: its call has been
   completed - with the deadline error unless something else ended it first.  No proofs here. *)
From Coq Require Import List Bool Arith NArith.
Import ListNotations.
From TarpcV Require Import Base Transport Client ClientMon.
Local Open Scope N_scope.

Section Prompt.
  Context {T : Type}.
  Notation op := (@op T).

  (* is the request of record s due at clock t? *)
  Definition due (s : sentrec) (t : N) : bool :=
    (s_deadline s <=? t) || (s_time s + max_timeout_ms <=? t).

  Definition prompt_ok (m : mst) (lp : option (N * nat)) (i : nat) : bool :=
    match lp with
    | None => true
    | Some (t, q) =>
      forallb (fun s => negb (s_ok s && (s_seq s <=? q)%nat && due s t)) (sent_for m i)
    end.

  Fixpoint c05p_run (maxif : nat) (m : mst) (lp : option (N * nat)) (ops : list op)
    (tr : list (list obs)) : bool :=
    match ops, tr with
    | [], [] => true
    | o :: ops', os :: tr' =>
      let m' := snd (chk_obs maxif o m os) in
      let ok := match o, os with
                | PollCall i, [OCall CPending] => prompt_ok m' lp i
                | _, _ => true end in
      let lp' := match o, os with
                 | PollDispatch, [OCalls _; ODisp DPending; OGauge _ _] => Some (m_now m', m_seq m')
                 | _, _ => lp end in
      ok && c05p_run maxif m' lp' ops' tr'
    | _, _ => false
    end.

  Definition c05p_ok (maxif : nat) (ops : list op) (tr : list (list obs)) : bool :=
    c05p_run maxif m0 None ops tr.
End Prompt.
