(* Model of the framing under tarpc::serde_transport (tokio_util LengthDelimitedCodec::new():
   4-byte big-endian length, no adjustment, 8 MiB max frame) as driven by tokio_util's FramedImpl
   read loop, and of the two in-memory channel transports of tarpc/src/transport/channel.rs.
   Third-party behaviour: modelled, never verified.  No proofs in this file. *)
From Coq Require Import List NArith Bool.
Import ListNotations.
From TarpcV Require Import Base Schema.
Local Open Scope N_scope.

(* LengthDelimitedCodec::new(): max_frame_length = 8 * 1024 * 1024 *)
Definition max_frame_default : N := 8388608.

Definition be32 (n : N) : bytes :=
  [n / 16777216 mod 256; n / 65536 mod 256; n / 256 mod 256; n mod 256].
Definition be32_val (a b c d : N) : N := ((a * 256 + b) * 256 + c) * 256 + d.

Definition blen (b : bytes) : N := N.of_nat (length b).

(* Encoder<Bytes>::encode: None = "frame size too big" *)
Definition frame_encode (max : N) (p : bytes) : option bytes :=
  if max <? blen p then None else Some (be32 (blen p) ++ p).
(* the frame of a payload that fits *)
Definition frame (p : bytes) : bytes := be32 (blen p) ++ p.

(* Decoder state: the read buffer and DecodeState::{Head, Data(n)} *)
Record dstate := { d_buf : bytes; d_need : option N }.
Inductive dres := DFrame (p : bytes) | DNone | DErr.

(* decode_data *)
Definition decode_data (n : N) (buf : bytes) : dres * dstate :=
  if blen buf <? n then (DNone, {| d_buf := buf; d_need := Some n |})
  else (DFrame (firstn (N.to_nat n) buf), {| d_buf := skipn (N.to_nat n) buf; d_need := None |}).

(* Decoder::decode = decode_head (consumes the 4 header bytes, rejects n > max) ; decode_data *)
Definition decode (max : N) (s : dstate) : dres * dstate :=
  match d_need s with
  | Some n => decode_data n (d_buf s)
  | None =>
    match d_buf s with
    | a :: b :: c :: d :: rest =>
      let n := be32_val a b c d in
      if max <? n then (DErr, s) else decode_data n rest
    | _ => (DNone, s)
    end
  end.

(* what the reading end of Framed<_, LengthDelimitedCodec> yields *)
Inductive fout := FFrame (p : bytes) | FError | FEnd | FFuel.

(* FramedImpl::poll_next polled until Pending: decode repeatedly while frames come out.
   The bool says "errored". *)
Fixpoint drain (max : N) (fuel : nat) (s : dstate) : list fout * dstate * bool :=
  match fuel with
  | O => ([FFuel], s, true)
  | S f =>
    match decode max s with
    | (DFrame p, s') => let '(l, s'', e) := drain max f s' in (FFrame p :: l, s'', e)
    | (DNone, s') => ([], s', false)
    | (DErr, s') => ([FError], s', true)
    end
  end.
Definition drain_fuel (s : dstate) : nat := S (S (length (d_buf s))).

(* reader: decoder state + "the stream is over" (after an error FramedImpl returns None) *)
Record rstate := { r_dec : dstate; r_over : bool }.
Definition rinit : rstate := {| r_dec := {| d_buf := []; d_need := None |}; r_over := false |}.

(* new bytes arrive (an empty chunk is a read that returned Pending: nothing happens) *)
Definition feed (max : N) (s : rstate) (c : bytes) : list fout * rstate :=
  if r_over s then ([], s)
  else
    let d := {| d_buf := d_buf (r_dec s) ++ c; d_need := d_need (r_dec s) |} in
    let '(l, d', e) := drain max (drain_fuel d) d in
    if e then (l ++ [FEnd], {| r_dec := d'; r_over := true |})
    else (l, {| r_dec := d'; r_over := false |}).

(* the byte stream ends (read returned 0): Decoder::decode_eof = decode, and when that yields
   nothing, end-of-stream if the buffer is empty, else the error "bytes remaining on stream" *)
Definition finish (max : N) (s : rstate) : list fout :=
  if r_over s then []
  else
    let '(l, d', e) := drain max (drain_fuel (r_dec s)) (r_dec s) in
    if e then l ++ [FEnd]
    else match d_buf d' with [] => l ++ [FEnd] | _ => l ++ [FError; FEnd] end.

Fixpoint feed_all (max : N) (s : rstate) (chunks : list bytes) : list fout * rstate :=
  match chunks with
  | [] => ([], s)
  | c :: r => let '(l, s') := feed max s c in
              let '(l', s'') := feed_all max s' r in (l ++ l', s'')
  end.
(* everything the reader yields for a byte stream delivered in the given chunks, then EOF *)
Definition read_stream (max : N) (chunks : list bytes) : list fout :=
  let '(l, s) := feed_all max rinit chunks in l ++ finish max s.

(* the byte stream a writer produces for a list of payloads *)
Definition stream_of (ps : list bytes) : bytes := flat_map frame ps.

(* cutting a stream into chunks of the given sizes (what is left after the last size is one
   more chunk); size 0 = a read that returned Pending *)
Fixpoint split_chunks (sizes : list nat) (bs : bytes) : list bytes :=
  match sizes with
  | [] => [bs]
  | n :: r => firstn n bs :: split_chunks r (skipn n bs)
  end.

(* ------------------------------------------------------------------------------------------ *)
(* transport::channel::{unbounded, bounded}: one direction of the pair.
   unbounded = tokio mpsc unbounded; bounded(cap) = futures mpsc channel(cap): a sender is parked
   by the send that makes the queue longer than cap, and un-parked by the next successful recv. *)
Section Channel.
  Context {A : Type}.
  Inductive ch_op := ChSend (a : A) | ChRecv | ChDropTx.
  Inductive ch_obs := ChSent | ChFull | ChGone | ChItem (a : A) | ChPending | ChEnd.
  Record ch_state := { ch_q : list A; ch_parked : bool; ch_tx : bool }.
  Definition ch_init : ch_state := {| ch_q := []; ch_parked := false; ch_tx := true |}.

  (* cap = None: unbounded *)
  Definition ch_step (cap : option nat) (s : ch_state) (o : ch_op) : ch_state * list ch_obs :=
    match o with
    | ChSend a =>
      if negb (ch_tx s) then (s, [ChGone])
      else if ch_parked s then (s, [ChFull])
      else
        let q := ch_q s ++ [a] in
        let parked := match cap with Some c => Nat.ltb c (length q) | None => false end in
        ({| ch_q := q; ch_parked := parked; ch_tx := true |}, [ChSent])
    | ChRecv =>
      match ch_q s with
      | a :: r => ({| ch_q := r; ch_parked := false; ch_tx := ch_tx s |}, [ChItem a])
      | [] => (s, [if ch_tx s then ChPending else ChEnd])
      end
    | ChDropTx => ({| ch_q := ch_q s; ch_parked := ch_parked s; ch_tx := false |}, [])
    end.

  Fixpoint ch_run_from (cap : option nat) (s : ch_state) (ops : list ch_op) : list (list ch_obs) :=
    match ops with
    | [] => []
    | o :: r => let '(s', l) := ch_step cap s o in l :: ch_run_from cap s' r
    end.
  Definition ch_run cap ops := ch_run_from cap ch_init ops.

  (* the monitor: what an observer of one direction may see.  It keeps the list of accepted,
     not yet delivered items: every delivery is the oldest of them, Pending only when there is
     none and the writer is alive, End only when there is none and the writer was dropped. *)
  Variable eqb : A -> A -> bool.
  Fixpoint ch_mon (pend : list A) (alive : bool) (ops : list ch_op) (tr : list (list ch_obs)) : bool :=
    match ops, tr with
    | [], [] => true
    | ChSend a :: ops', [ChSent] :: tr' => alive && ch_mon (pend ++ [a]) alive ops' tr'
    | ChSend a :: ops', [ChFull] :: tr' => alive && ch_mon pend alive ops' tr'
    | ChSend a :: ops', [ChGone] :: tr' => negb alive && ch_mon pend alive ops' tr'
    | ChRecv :: ops', [ChItem a] :: tr' =>
      match pend with b :: r => eqb a b && ch_mon r alive ops' tr' | [] => false end
    | ChRecv :: ops', [ChPending] :: tr' =>
      match pend with [] => alive && ch_mon pend alive ops' tr' | _ => false end
    | ChRecv :: ops', [ChEnd] :: tr' =>
      match pend with [] => negb alive && ch_mon pend alive ops' tr' | _ => false end
    | ChDropTx :: ops', [] :: tr' => ch_mon pend false ops' tr'
    | _, _ => false
    end.
  Definition fifo_ok (ops : list ch_op) (tr : list (list ch_obs)) : bool := ch_mon [] true ops tr.
End Channel.
Arguments ch_op : clear implicits.
Arguments ch_obs : clear implicits.
Arguments ch_state : clear implicits.
