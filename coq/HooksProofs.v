(* Proofs about the request-hook model (Hooks.v): C19. *)
From Coq Require Import List NArith ZArith Bool Arith Lia.
Import ListNotations.
From TarpcV Require Import Base Hooks.
Local Open Scope N_scope.

Lemma result_eqb_refl x : result_eqb x x = true.
Proof. destruct x; cbn; apply N.eqb_refl. Qed.

Lemma ctx_eqb_refl c : ctx_eqb c c = true.
Proof. unfold ctx_eqb. rewrite N.eqb_refl, Z.eqb_refl. reflexivity. Qed.

Lemma expect_before_hit h c r tail :
  expect_before h c r (EBefore (b_id h) c r :: tail) = Some tail.
Proof. unfold expect_before. rewrite Nat.eqb_refl, ctx_eqb_refl, N.eqb_refl. reflexivity. Qed.

(* ---- the monitor accepts every run of the model (any tree, any chain length) ------------ *)
Lemma mon_blist_run l : forall c r tail,
  mon_blist l c r (fst (fst (run_blist l c r)) ++ tail)
  = Some (snd (fst (run_blist l c r)), snd (run_blist l c r), tail).
Proof.
  induction l as [|h rest IH]; intros c r tail; [reflexivity|].
  cbn [run_blist mon_blist].
  destruct (before_eff h c r) as [c1 [x|]] eqn:E.
  - cbn [fst snd app]. rewrite expect_before_hit. reflexivity.
  - specialize (IH c1 r tail). destruct (run_blist rest c1 r) as [[evs c2] e2].
    cbn [fst snd app] in *. rewrite expect_before_hit. exact IH.
Qed.

Lemma mon_serve s : forall c r tail,
  mon s c r (fst (serve s c r) ++ tail) = Some (snd (serve s c r), tail).
Proof.
  induction s as [h|h s IH|l s IH|s IH h|h s IH]; intros c r tail; cbn [serve mon].
  - cbn [fst snd app]. rewrite Nat.eqb_refl, ctx_eqb_refl, N.eqb_refl. reflexivity.
  - destruct (before_eff h c r) as [c1 [x|]] eqn:E.
    + cbn [fst snd app]. rewrite expect_before_hit. reflexivity.
    + specialize (IH c1 r tail). destruct (serve s c1 r) as [evs x].
      cbn [fst snd app] in *. rewrite expect_before_hit. exact IH.
  - pose proof (mon_blist_run l c r) as HL.
    destruct (run_blist l c r) as [[evs c1] [x|]]; cbn [fst snd] in *.
    + rewrite HL. reflexivity.
    + specialize (IH c1 r tail). destruct (serve s c1 r) as [evs2 x]. cbn [fst snd] in *.
      rewrite <- app_assoc, HL. exact IH.
  - specialize (IH c r (EAfter (a_id h) c (snd (serve s c r)) :: tail)).
    destruct (serve s c r) as [evs x]. cbn [fst snd] in *.
    rewrite <- app_assoc. cbn [app]. rewrite IH, Nat.eqb_refl, result_eqb_refl. reflexivity.
  - destruct (before_eff (ba_b h) c r) as [c1 [x|]] eqn:E.
    + cbn [fst snd app]. rewrite expect_before_hit. reflexivity.
    + specialize (IH c1 r (EAfter (a_id (ba_a h)) c1 (snd (serve s c1 r)) :: tail)).
      destruct (serve s c1 r) as [evs x]. cbn [fst snd] in *.
      cbn [app]. rewrite expect_before_hit, <- app_assoc. cbn [app].
      rewrite IH, Nat.eqb_refl, ctx_eqb_refl, result_eqb_refl. reflexivity.
Qed.

Lemma c19_monitor_holds : forall s c r, c19_ok (s, c, r) (serve s c r) = true.
Proof.
  intros s c r. unfold c19_ok.
  pose proof (mon_serve s c r []) as H. rewrite app_nil_r in H. rewrite H.
  apply result_eqb_refl.
Qed.

(* ---- before_order ----------------------------------------------------------------------- *)
Lemma count_handler_chain n hs : forall c r,
  count_handler (firstn n (chain_events hs c r)) = O.
Proof.
  revert n. induction hs as [|h t IH]; intros n c r; destruct n; try reflexivity.
  cbn [chain_events firstn]. unfold count_handler in *. cbn [filter is_handler]. apply IH.
Qed.

Lemma run_blist_spec l : forall c r,
  match first_fail (blist_to_list l) c r with
  | None => run_blist l c r
            = (chain_events (blist_to_list l) c r, chain_ctx (blist_to_list l) c r, None)
  | Some (k, e) =>
    fst (fst (run_blist l c r)) = firstn (S k) (chain_events (blist_to_list l) c r)
    /\ snd (run_blist l c r) = Some e
  end.
Proof.
  induction l as [|h rest IH]; intros c r; [reflexivity|].
  cbn [blist_to_list first_fail run_blist chain_events chain_ctx].
  destruct (before_eff h c r) as [c1 [x|]] eqn:E; cbn [fst snd].
  - split; reflexivity.
  - specialize (IH c1 r).
    destruct (first_fail (blist_to_list rest) c1 r) as [[k e]|].
    + destruct IH as [H1 H2]. destruct (run_blist rest c1 r) as [[evs c2] e2].
      cbn [fst snd] in *. subst. split; reflexivity.
    + rewrite IH. reflexivity.
Qed.

Lemma c19_before_order : forall l s c r,
  match first_fail (blist_to_list l) c r with
  | None =>
    serve (BeforeList l s) c r
    = (chain_events (blist_to_list l) c r ++ fst (serve s (chain_ctx (blist_to_list l) c r) r),
       snd (serve s (chain_ctx (blist_to_list l) c r) r))
  | Some (k, e) =>
    serve (BeforeList l s) c r = (firstn (S k) (chain_events (blist_to_list l) c r), RErr e)
    /\ count_handler (fst (serve (BeforeList l s) c r)) = O
  end.
Proof.
  intros l s c r. pose proof (run_blist_spec l c r) as H. cbn [serve].
  destruct (first_fail (blist_to_list l) c r) as [[k e]|].
  - destruct H as [H1 H2]. destruct (run_blist l c r) as [[evs c1] e1]. cbn [fst snd] in *.
    subst. split; [reflexivity|]. cbn [fst]. apply count_handler_chain.
  - rewrite H. destruct (serve s _ r) as [evs x]. reflexivity.
Qed.

(* s.before(hn)...before(h1) behaves as the chain [h1..hn] *)
Lemma c19_nest_eq_chain : forall l s c r,
  serve (nest_before (blist_to_list l) s) c r = serve (BeforeList l s) c r.
Proof.
  induction l as [|h rest IH]; intros s c r.
  - cbn. destruct (serve s c r); reflexivity.
  - cbn [blist_to_list nest_before fold_right serve run_blist].
    destruct (before_eff h c r) as [c1 [x|]]; [reflexivity|].
    specialize (IH s c1 r). unfold nest_before in IH. rewrite IH. cbn [serve].
    destruct (run_blist rest c1 r) as [[evs c2] [x|]]; [reflexivity|].
    destruct (serve s c2 r). reflexivity.
Qed.

(* ---- then_assoc ------------------------------------------------------------------------- *)
Lemma c19_then_appends : forall l h, blist_to_list (then_ l h) = blist_to_list l ++ [h].
Proof. induction l as [|f r IH]; intro h; cbn; [reflexivity|]. rewrite IH. reflexivity. Qed.

Lemma fold_then_from l hs :
  blist_to_list (fold_left then_ hs l) = blist_to_list l ++ hs.
Proof.
  revert l. induction hs as [|h t IH]; intro l; cbn [fold_left].
  - rewrite app_nil_r. reflexivity.
  - rewrite IH, c19_then_appends, <- app_assoc. reflexivity.
Qed.

Lemma c19_then_builds : forall hs, blist_to_list (fold_left then_ hs BNil) = hs.
Proof. intro hs. apply (fold_then_from BNil hs). Qed.

Lemma c19_serving : forall l s c r, serve (serving l s) c r = serve (BeforeList l s) c r.
Proof.
  intros [|f rest] s c r; [|reflexivity]. cbn. destruct (serve s c r); reflexivity.
Qed.

(* ---- after_once ------------------------------------------------------------------------- *)
Lemma c19_after_once : forall s h c r,
  serve (After s h) c r
  = (fst (serve s c r) ++ [EAfter (a_id h) c (snd (serve s c r))],
     after_res h c (snd (serve s c r))).
Proof. intros. cbn [serve]. destruct (serve s c r); reflexivity. Qed.

Lemma c19_after_sees_inner_error : forall hb s h c r e,
  snd (before_eff hb c r) = Some e ->
  serve (After (Before hb s) h) c r
  = ([EBefore (b_id hb) c r; EAfter (a_id h) c (RErr e)], after_res h c (RErr e)).
Proof.
  intros hb s h c r e H. cbn [serve]. destruct (before_eff hb c r) as [c1 o].
  cbn [snd] in H. subst. reflexivity.
Qed.

(* ---- before_after ----------------------------------------------------------------------- *)
Lemma c19_before_after : forall h s c r,
  match snd (before_eff (ba_b h) c r) with
  | Some e => serve (BeforeAfter h s) c r = ([EBefore (b_id (ba_b h)) c r], RErr e)
  | None =>
    let c1 := fst (before_eff (ba_b h) c r) in
    serve (BeforeAfter h s) c r
    = (EBefore (b_id (ba_b h)) c r
         :: fst (serve s c1 r) ++ [EAfter (a_id (ba_a h)) c1 (snd (serve s c1 r))],
       after_res (ba_a h) c1 (snd (serve s c1 r)))
  end.
Proof.
  intros. cbn [serve]. destruct (before_eff (ba_b h) c r) as [c1 [x|]]; cbn [fst snd].
  - reflexivity.
  - destruct (serve s c1 r); reflexivity.
Qed.

(* ---- the handler runs at most once, whatever the nesting -------------------------------- *)
Lemma count_handler_app a b : count_handler (a ++ b) = (count_handler a + count_handler b)%nat.
Proof. unfold count_handler. rewrite filter_app, app_length. reflexivity. Qed.

Lemma count_handler_run_blist l : forall c r, count_handler (fst (fst (run_blist l c r))) = O.
Proof.
  induction l as [|h rest IH]; intros c r; [reflexivity|]. cbn [run_blist].
  destruct (before_eff h c r) as [c1 [x|]]; [reflexivity|].
  specialize (IH c1 r). destruct (run_blist rest c1 r) as [[evs c2] e2]. exact IH.
Qed.

Lemma c19_handler_at_most_once : forall s c r, (count_handler (fst (serve s c r)) <= 1)%nat.
Proof.
  induction s as [h|h s IH|l s IH|s IH h|h s IH]; intros c r; cbn [serve].
  - cbn. lia.
  - destruct (before_eff h c r) as [c1 [x|]]; [cbn; lia|].
    specialize (IH c1 r). destruct (serve s c1 r) as [evs x]. exact IH.
  - pose proof (count_handler_run_blist l c r) as HL.
    destruct (run_blist l c r) as [[evs c1] [x|]]; cbn [fst snd] in *; [lia|].
    specialize (IH c1 r). destruct (serve s c1 r) as [evs2 x]. cbn [fst] in *.
    rewrite count_handler_app. lia.
  - specialize (IH c r). destruct (serve s c r) as [evs x]. cbn [fst] in *.
    rewrite count_handler_app. cbn. lia.
  - destruct (before_eff (ba_b h) c r) as [c1 [x|]]; [cbn; lia|].
    specialize (IH c1 r). destruct (serve s c1 r) as [evs x]. cbn [fst] in *.
    change (EBefore (b_id (ba_b h)) c r :: evs ++ [EAfter (a_id (ba_a h)) c1 x])
      with ([EBefore (b_id (ba_b h)) c r] ++ evs ++ [EAfter (a_id (ba_a h)) c1 x]).
    rewrite !count_handler_app. cbn. lia.
Qed.

(* ---- the deadline travels with the context and decides nothing ---------------------------- *)
(* a chain in front of the handler: whatever the deadline is (elapsed or not), if no hook fails
   every hook runs and the handler is called with the context the chain left *)
Lemma c19_handler_sees_chain_ctx : forall l h c r,
  first_fail (blist_to_list l) c r = None ->
  serve (BeforeList l (Base h)) c r
  = (chain_events (blist_to_list l) c r ++ [EHandler (h_id h) (chain_ctx (blist_to_list l) c r) r],
     handler_eff h (chain_ctx (blist_to_list l) c r) r).
Proof.
  intros l h c r H. pose proof (c19_before_order l (Base h) c r) as B. rewrite H in B. exact B.
Qed.

(* hooks that leave the deadline alone hand it on unchanged *)
Lemma c19_chain_keeps_deadline : forall hs c r,
  (forall h, In h hs -> b_deff h = DKeep) -> c_dl (chain_ctx hs c r) = c_dl c.
Proof.
  induction hs as [|h t IH]; intros c r H; [reflexivity|]. cbn [chain_ctx].
  rewrite IH by (intros x Hx; apply H; right; exact Hx).
  unfold before_eff, apply_ctx. cbn [fst c_dl snd]. rewrite (H h (or_introl eq_refl)). reflexivity.
Qed.

Lemma blind_before h c1 c2 r : blind_b h = true -> c_span c1 = c_span c2 ->
  c_span (fst (before_eff h c1 r)) = c_span (fst (before_eff h c2 r))
  /\ snd (before_eff h c1 r) = snd (before_eff h c2 r).
Proof.
  unfold blind_b, before_eff, apply_ctx. intros B E. cbn [fst snd c_span]. rewrite E. split; [reflexivity|].
  destruct (b_deff h); [|discriminate]. destruct (b_feff h); cbn [apply_feff]; try reflexivity;
    try discriminate. rewrite E. reflexivity.
Qed.

Lemma blind_after h c1 c2 x : blind_a h = true -> c_span c1 = c_span c2 ->
  after_res h c1 x = after_res h c2 x.
Proof.
  unfold blind_a, after_res, after_eff. intros B E. cbn [snd].
  destruct (a_deff h); [|discriminate]. destruct (a_reff h); cbn [apply_reff]; try reflexivity;
    try discriminate. rewrite E. reflexivity.
Qed.

Lemma blind_handler h c1 c2 r : blind_h h = true -> c_span c1 = c_span c2 ->
  handler_eff h c1 r = handler_eff h c2 r.
Proof.
  unfold blind_h, handler_eff. intros B E. destruct (h_eff h); try reflexivity; try discriminate.
  rewrite E. reflexivity.
Qed.

Lemma blind_run_blist l : forall c1 c2 r, blind_l l = true -> c_span c1 = c_span c2 ->
  map erase (fst (fst (run_blist l c1 r))) = map erase (fst (fst (run_blist l c2 r)))
  /\ c_span (snd (fst (run_blist l c1 r))) = c_span (snd (fst (run_blist l c2 r)))
  /\ snd (run_blist l c1 r) = snd (run_blist l c2 r).
Proof.
  induction l as [|h rest IH]; intros c1 c2 r B E.
  - cbn. auto.
  - cbn [blind_l] in B. apply andb_prop in B as [Bh Br]. cbn [run_blist].
    destruct (blind_before h c1 c2 r Bh E) as [Es Ee].
    destruct (before_eff h c1 r) as [d1 e1]. destruct (before_eff h c2 r) as [d2 e2].
    cbn [fst snd] in *. subst e2. destruct e1 as [x|].
    + cbn [fst snd map erase]. rewrite E. auto.
    + specialize (IH d1 d2 r Br Es).
      destruct (run_blist rest d1 r) as [[ev1 f1] o1]. destruct (run_blist rest d2 r) as [[ev2 f2] o2].
      cbn [fst snd map erase] in *. destruct IH as [A [B' C]]. rewrite A, E. auto.
Qed.

Lemma c19_deadline_irrelevant : forall s c1 c2 r,
  blind s = true -> c_span c1 = c_span c2 ->
  map erase (fst (serve s c1 r)) = map erase (fst (serve s c2 r))
  /\ snd (serve s c1 r) = snd (serve s c2 r).
Proof.
  induction s as [h|h s IH|l s IH|s IH h|h s IH]; intros c1 c2 r B E; cbn [blind] in B; cbn [serve].
  - cbn [fst snd map erase]. rewrite E, (blind_handler h c1 c2 r B E). auto.
  - apply andb_prop in B as [Bh Bs]. destruct (blind_before h c1 c2 r Bh E) as [Es Ee].
    destruct (before_eff h c1 r) as [d1 e1]. destruct (before_eff h c2 r) as [d2 e2].
    cbn [fst snd] in *. subst e2. destruct e1 as [x|].
    + cbn [fst snd map erase]. rewrite E. auto.
    + specialize (IH d1 d2 r Bs Es). destruct (serve s d1 r) as [ev1 x1].
      destruct (serve s d2 r) as [ev2 x2]. cbn [fst snd map erase] in *.
      destruct IH as [A C]. rewrite A, C, E. auto.
  - apply andb_prop in B as [Bl Bs]. destruct (blind_run_blist l c1 c2 r Bl E) as [A [Es Ee]].
    destruct (run_blist l c1 r) as [[ev1 d1] e1]. destruct (run_blist l c2 r) as [[ev2 d2] e2].
    cbn [fst snd] in *. subst e2. destruct e1 as [x|]; [cbn [fst snd]; auto|].
    specialize (IH d1 d2 r Bs Es). destruct (serve s d1 r) as [ev1' x1].
    destruct (serve s d2 r) as [ev2' x2]. cbn [fst snd] in *. destruct IH as [A' C].
    rewrite !map_app, A, A', C. auto.
  - apply andb_prop in B as [Bs Ba]. specialize (IH c1 c2 r Bs E).
    destruct (serve s c1 r) as [ev1 x1]. destruct (serve s c2 r) as [ev2 x2].
    cbn [fst snd] in *. destruct IH as [A C]. subst x2.
    rewrite !map_app, A. cbn [map erase]. rewrite E, (blind_after h c1 c2 x1 Ba E). auto.
  - apply andb_prop in B as [B Bs]. apply andb_prop in B as [Bb Ba].
    destruct (blind_before (ba_b h) c1 c2 r Bb E) as [Es Ee].
    destruct (before_eff (ba_b h) c1 r) as [d1 e1]. destruct (before_eff (ba_b h) c2 r) as [d2 e2].
    cbn [fst snd] in *. subst e2. destruct e1 as [x|].
    + cbn [fst snd map erase]. rewrite E. auto.
    + specialize (IH d1 d2 r Bs Es). destruct (serve s d1 r) as [ev1 x1].
      destruct (serve s d2 r) as [ev2 x2]. cbn [fst snd] in *. destruct IH as [A C]. subst x2.
      cbn [map erase]. rewrite !map_app, A. cbn [map erase].
      rewrite E, Es, (blind_after (ba_a h) d1 d2 x1 Ba Es). auto.
Qed.
