(* poll_next of the race model terminates when no other thread interferes: from ANY point of the
   loop the listener reaches PcIdle (poll_next has returned) within 4 * (pending arrivals +
   queued notifications) + 5 of its own atomic actions.  Every action either returns or strictly
   decreases the potential below. *)
From Coq Require Import List Arith Bool Lia.
Import ListNotations.
From TarpcV Require Import PerKey PerKeyRace.

Definition mu (b : st) : nat := length (arrivals b) + length (notifs b).

Definition rank (p : rpc) : nat :=
  match p with
  | PcIdle | PcLoop => 2
  | PcUpgrade _ _ => 4
  | PcClosed (RPend) | PcClosed (REndL) => 1
  | PcClosed _ => 3
  | PcCheck _ _ => 3
  end.

Definition phi (s : rst) : nat := 4 * mu (rb s) + rank (pc s).

Fixpoint lsteps (n : nat) (s : rst) : rst :=
  match n with O => s | S k => lsteps k (fst (lstep s)) end.

Lemma finish_idle_or_loop b w l c :
  pc (fst (finish b w l c)) = PcIdle
  \/ (pc (fst (finish b w l c)) = PcLoop /\ rb (fst (finish b w l c)) = b
      /\ (c = false -> exists k, l = RShed k)).
Proof.
  unfold finish; destruct l as [cid k|k| |]; destruct c; cbn; auto.
  - right; repeat split; intros; try discriminate.
  - right; repeat split; eauto.
  - right; repeat split; intros; discriminate.
  - right; repeat split; intros; discriminate.
Qed.

Lemma listen_phi b w s o : listen b w = (s, o) ->
  4 * mu (rb s) + rank (pc s) < 4 * mu b + 2.
Proof.
  unfold listen, mu. destruct (arrivals b) as [|k r] eqn:Ea.
  - intros H; inversion H; subst; cbn [rb pc]. rewrite Ea. destruct (ended b); cbn; lia.
  - destruct (lookup k (kc (pop_arrival b))) as [t|].
    + destruct (lim (pop_arrival b) <=? strong t (chans (pop_arrival b)));
        intros H; inversion H; subst; cbn [rb pc rank]; unfold pop_arrival; cbn; rewrite Ea; cbn; lia.
    + intros H; inversion H; subst; cbn [rb pc rank]. unfold accept, pop_arrival; cbn. rewrite Ea; cbn; lia.
Qed.

Lemma lstep_progress : forall s, pc (fst (lstep s)) = PcIdle \/ phi (fst (lstep s)) < phi s.
Proof.
  intros s; unfold phi, lstep. destruct (pc s) as [| |k t|l|l k] eqn:Ep.
  - right. destruct (listen (rb s) (owed s)) as [s1 o] eqn:E; cbn [fst]. cbn [rank].
    eapply listen_phi; exact E.
  - right. destruct (listen (rb s) (owed s)) as [s1 o] eqn:E; cbn [fst]. cbn [rank].
    eapply listen_phi; exact E.
  - right. unfold upgrade; cbn [fst rb pc rank].
    destruct (Nat.eqb (strong t (chans (rb s))) 0); unfold accept, mu; cbn; lia.
  - destruct (notifs (rb s)) as [|k r] eqn:En.
    + destruct (finish_idle_or_loop (rb s) (owed s) l false) as [H|[H [Hb Hc]]]; [left; exact H|].
      right. rewrite H, Hb. destruct (Hc eq_refl) as [k ->]. cbn [rank]. lia.
    + right. cbn [fst rb pc rank]. unfold with_notifs, mu; cbn. rewrite En; cbn.
      destruct l; cbn; lia.
  - set (b := snd (poll_closed true (with_notifs (rb s) (k :: notifs (rb s))))).
    destruct (finish_idle_or_loop b (owed s) l true) as [H|[H [Hb _]]]; [left; exact H|].
    right. rewrite H, Hb. cbn [rank]. subst b. unfold poll_closed, with_notifs, mu; cbn. lia.
Qed.

Theorem race_poll_terminates : forall fuel s, phi s < fuel ->
  exists n, 1 <= n <= fuel /\ pc (lsteps n s) = PcIdle.
Proof.
  induction fuel as [|f IH]; intros s H; [lia|].
  destruct (lstep_progress s) as [Hi|Hlt].
  - exists 1; split; [lia | exact Hi].
  - destruct (IH (fst (lstep s))) as [n [Hn Hp]]; [lia|].
    exists (S n); split; [lia | exact Hp].
Qed.

Corollary race_poll_bound : forall s,
  exists n, 1 <= n <= 4 * mu (rb s) + 5 /\ pc (lsteps n s) = PcIdle.
Proof.
  intros s. apply race_poll_terminates. unfold phi. destruct (pc s) as [| | | l |]; cbn [rank]; try lia.
  destruct l; lia.
Qed.
