(* C02, server half, monitor proof, part 3: the invariant that links a wake-driven run of the model,
   the wake monitor of ServerWake.v and a ghost observer of ServerMon.v, and its preservation by
   every micro-step of a wake-driven run (environment ops, one stream poll, one execute() poll). *)
From Coq Require Import List Bool Arith NArith Lia.
Import ListNotations.
From TarpcV Require Import Base Transport TimerWheel Server ServerMon ServerFuel ServerContract
     ServerSim ServerSim2 ServerSim3 ServerSim4 ServerSim5 ServerSim6 ServerSim7 ServerProps ServerState
     ServerProofsPB0 ServerProofsPA0 ServerProofsPA1 ServerProofsPA2 ServerProofsPA3 ServerProofsPA4
     ServerProofsPA5 ServerProofsPC0 ServerProofsPC1 ServerProofsPC11
     ServerWake ServerWakeSpec ServerWakeSettles ServerWakeMon0 ServerWakeMon1 ServerWakeMon2.

(* ================================================================== InvQ through the ops that are not polls *)
Section InvQSteps.
  Context {T : Type}.
  Notation st := (@sstate T).

  (* the table and the handler states change pointwise; the queue does not *)
  Lemma InvQ_pointwise : forall o o' (s s' : st),
    InvQ o s ->
    length (o_incs o') = length (o_incs o) ->
    (forall j x x', nth_error (o_incs o) j = Some x -> nth_error (o_incs o') j = Some x' ->
       oi_id x' = oi_id x /\ oi_done x' = oi_done x /\ (oi_wire x' = WAnswered -> oi_wire x = WAnswered)) ->
    length (s_handlers s') = length (s_handlers s) ->
    (forall j h h', nth_error (s_handlers s) j = Some h -> nth_error (s_handlers s') j = Some h' ->
       (unsent (h_st h') -> unsent (h_st h)) /\ (h_st h = HDone -> h_st h' = HDone)) ->
    s_respq s' = s_respq s -> InvQ o' s'.
  Proof.
    intros o o' s s' [Q1 Q2 Q3] Lo Ho Lh Hh Eq.
    assert (Oback : forall j x', nth_error (o_incs o') j = Some x' -> exists x, nth_error (o_incs o) j = Some x).
    { intros j x' Hj. assert (L : j < length (o_incs o)) by (rewrite <- Lo; apply nth_error_Some; congruence).
      apply nth_error_Some in L. destruct (nth_error (o_incs o) j); [eauto|congruence]. }
    assert (Ofwd : forall j x, nth_error (o_incs o) j = Some x -> exists x', nth_error (o_incs o') j = Some x').
    { intros j x Hj. assert (L : j < length (o_incs o')) by (rewrite Lo; apply nth_error_Some; congruence).
      apply nth_error_Some in L. destruct (nth_error (o_incs o') j); [eauto|congruence]. }
    assert (Hback : forall j h', nth_error (s_handlers s') j = Some h' -> exists h, nth_error (s_handlers s) j = Some h).
    { intros j h' Hj. assert (L : j < length (s_handlers s)) by (rewrite <- Lh; apply nth_error_Some; congruence).
      apply nth_error_Some in L. destruct (nth_error (s_handlers s) j); [eauto|congruence]. }
    assert (Hfwd : forall j h, nth_error (s_handlers s) j = Some h -> exists h', nth_error (s_handlers s') j = Some h').
    { intros j h Hj. assert (L : j < length (s_handlers s')) by (rewrite Lh; apply nth_error_Some; congruence).
      apply nth_error_Some in L. destruct (nth_error (s_handlers s') j); [eauto|congruence]. }
    assert (Hlast : forall j id, lastk (o_incs o) j id -> lastk (o_incs o') j id).
    { intros j id L k' x' Hlt Hk'. destruct (Oback _ _ Hk') as (x & Hx). destruct (Ho _ _ _ Hx Hk') as (E & _).
      rewrite E. exact (L k' x Hlt Hx). }
    constructor; rewrite ?Eq.
    - intros k h' x' Hk Hx Hu. destruct (Hback _ _ Hk) as (h & Hh0). destruct (Oback _ _ Hx) as (x & Hx0).
      destruct (Hh _ _ _ Hh0 Hk) as (U & _). destruct (Ho _ _ _ Hx0 Hx) as (E1 & _ & E3).
      destruct (Q1 k h x Hh0 Hx0 (U Hu)) as (A & B & D). rewrite E1. split; [apply Hlast; exact A|split; [|exact D]].
      intros X. exact (B (E3 X)).
    - exact Q2.
    - intros m Hm. destruct (Q3 m Hm) as (k & h & x & A & B & C & D & E & F & G).
      destruct (Hfwd _ _ A) as (h' & A'). destruct (Ofwd _ _ B) as (x' & B').
      destruct (Hh _ _ _ A A') as (_ & Dn). destruct (Ho _ _ _ B B') as (E1 & E2 & E3).
      exists k, h', x'. repeat split; auto; try congruence.
  Qed.

  Lemma NoDup_app_one' : forall (l : list N) x, NoDup l -> ~ In x l -> NoDup (l ++ [x]).
  Proof. intros. apply NoDup_app_snoc; assumption. Qed.

  (* one poll of an execute() future *)
  Lemma InvQ_hpoll : forall o o' (s s1 : st) k hr oi (g : oinc -> oinc) st' push,
    InvQ o s -> InvU o s ->
    nth_error (s_handlers s) k = Some hr -> nth_error (o_incs o) k = Some oi -> unsent (h_st hr) ->
    o_incs o' = upd_nth k g (o_incs o) ->
    (forall i, oi_id (g i) = oi_id i /\ oi_wire (g i) = oi_wire i) ->
    hshape k hr st' s s1 ->
    s_respq s1 = s_respq s ++ push ->
    ((push = [] /\ (unsent st' \/ st' = HDone))
     \/ (exists b, push = [mkresp (h_id hr) b] /\ st' = HDone /\ oi_done (g oi) = Some b)) ->
    InvQ o' s1.
  Proof.
    intros o o' s s1 k hr oi g st' push [H3 H4 H5] HI Hk Hoi Hun Hi Hg Hsh Hq Hpush.
    pose proof Hsh as (Hm & Hsh').
    destruct (u_hand _ _ HI k hr oi Hk Hoi) as (Eid & _).
    destruct (H3 k hr oi Hk Hoi Hun) as (Lk & Wk & Qk).
    assert (Hgid : forall i, oi_id (g i) = oi_id i) by (intros i; apply Hg).
    assert (Hback : forall j hr', nth_error (s_handlers s1) j = Some hr' ->
              exists hr0, nth_error (s_handlers s) j = Some hr0 /\ h_h hr0 = h_h hr'
                /\ ((j = k /\ hr0 = hr /\ h_st hr' = st')
                    \/ (j <> k /\ (h_st hr' = h_st hr0 \/ exists b, h_st hr0 = HWait b /\ h_st hr' = HPermit b)))).
    { intros j hr' Hj. destruct (nth_map_hh _ _ j hr' Hm Hj) as (hr0 & Hj0 & Ehh). exists hr0.
      split; [exact Hj0|split; [exact Ehh|]].
      destruct (Hsh' j hr' Hj) as [(-> & _ & Hst)|(Hne & hr0' & Hj0' & _ & Hst)].
      - left. rewrite Hk in Hj0. inversion Hj0. auto.
      - right. rewrite Hj0 in Hj0'. inversion Hj0'; subst hr0'. auto. }
    assert (Hfwd : forall j hr0, nth_error (s_handlers s) j = Some hr0 -> j <> k ->
              exists hr', nth_error (s_handlers s1) j = Some hr' /\ h_h hr' = h_h hr0
                /\ (h_st hr' = h_st hr0 \/ exists b, h_st hr0 = HWait b /\ h_st hr' = HPermit b)).
    { intros j hr0 Hj0 Hne.
      destruct (nth_map_hh (s_handlers s1) (s_handlers s) j hr0 (eq_sym Hm) Hj0) as (hr' & Hj & Ehh).
      exists hr'. split; [exact Hj|split; [exact Ehh|]].
      destruct (Hback j hr' Hj) as (hr0' & Hj0' & _ & [(-> & _)|(_ & Hst)]); [congruence|].
      rewrite Hj0 in Hj0'. inversion Hj0'; subst hr0'. exact Hst. }
    assert (Hlast : forall j id, lastk (o_incs o) j id -> lastk (upd_nth k g (o_incs o)) j id)
      by (intros j id; apply lastk_upd; exact Hgid).
    assert (Hqids : forall id, In id (map resp_id (s_respq s1)) ->
              In id (map resp_id (s_respq s)) \/ (id = h_id hr /\ exists b, push = [mkresp (h_id hr) b])).
    { intros id Hin. rewrite Hq, map_app, in_app_iff in Hin. destruct Hin as [Hin|Hin]; [left; exact Hin|].
      destruct Hpush as [(-> & _)|(b & -> & _)]; [destruct Hin|].
      destruct Hin as [<-|[]]. right. split; [reflexivity|eauto]. }
    constructor; rewrite ?Hi.
    - intros j hr' x Hj Hx Hu.
      destruct (Hback j hr' Hj) as (hr0 & Hj0 & _ & D).
      destruct (upd_nth_inv _ _ _ _ _ Hx) as (y & Hy & Dy).
      assert (Hu0 : unsent (h_st hr0)).
      { destruct D as [(-> & -> & _)|(_ & [E|(b & E & _)])]; [exact Hun|rewrite <- E; exact Hu|rewrite E; exact I]. }
      destruct (H3 j hr0 y Hj0 Hy Hu0) as (L & W & Q).
      assert (Ex : oi_id x = oi_id y /\ oi_wire x = oi_wire y).
      { destruct Dy as [(_ & ->)|(_ & ->)]; [apply Hg|auto]. }
      destruct Ex as (Ex1 & Ex2). rewrite Ex1, Ex2. split; [apply Hlast; exact L|split; [exact W|]].
      intros Hin. destruct (Hqids _ Hin) as [Hin'|(Eq & b & Hp)]; [exact (Q Hin')|].
      destruct Hpush as [(Hp' & _)|(b' & _ & Hst' & _)]; [rewrite Hp' in Hp; discriminate|].
      assert (j = k).
      { assert (Eyo : oi_id oi = oi_id y) by congruence.
        apply (lastk_unique (o_incs o) j k y oi (oi_id y) Hy Hoi eq_refl Eyo L). rewrite <- Eyo. exact Lk. }
      subst j. destruct D as [(_ & _ & E)|(Hne & _)]; [|congruence]. rewrite E, Hst' in Hu. exact Hu.
    - rewrite Hq, map_app. destruct Hpush as [(-> & _)|(b & -> & _)]; [cbn; rewrite app_nil_r; exact H4|].
      cbn. apply NoDup_app_one'; [exact H4|]. rewrite <- Eid. exact Qk.
    - intros m Hm'. rewrite Hq in Hm'. apply in_app_or in Hm'. destruct Hm' as [Hm'|Hm'].
      + destruct (H5 m Hm') as (k1 & hr1 & oi1 & A & B & C & D & E & F & G).
        assert (Hne : k1 <> k) by (intros ->; rewrite Hk in A; inversion A; subst hr1; rewrite E in Hun; exact Hun).
        destruct (Hfwd k1 hr1 A Hne) as (hr1' & A' & _ & St).
        exists k1, hr1', oi1. rewrite (upd_nth_other _ _ _ _ (not_eq_sym Hne)).
        repeat split; auto.
        destruct St as [St|(b & St & _)]; [congruence|congruence].
      + destruct Hpush as [(-> & _)|(b & -> & Hst' & Hdn)]; [destruct Hm'|]. destruct Hm' as [<-|[]].
        destruct (nth_map_hh (s_handlers s1) (s_handlers s) k hr (eq_sym Hm) Hk) as (hr' & A' & _).
        destruct (Hback k hr' A') as (_ & _ & _ & [(_ & _ & E)|(Hne & _)]); [|congruence].
        exists k, hr', (g oi). rewrite (upd_nth_same _ _ _ _ Hoi). cbn [resp_id resp_body].
        destruct (Hg oi) as (G1 & G2). rewrite G1, G2, <- Eid. repeat split; auto. congruence.
  Qed.
End InvQSteps.

(* ================================================================== the scripted transport and the monitor's view of it *)
Definition is_item (c : call) : bool := match c with CNext (RItem _) => true | _ => false end.
Definition nitems (l : list call) : nat := length (filter is_item l).

Lemma nitems_rev l : nitems (rev l) = nitems l.
Proof. unfold nitems. rewrite filter_rev, rev_length. reflexivity. Qed.
Lemma nitems_cons c l : nitems (c :: l) = (if is_item c then 1 else 0) + nitems l.
Proof. unfold nitems. cbn [filter]. destruct (is_item c); reflexivity. Qed.

Definition nofail (t : ST) : Prop :=
  st_fail_ready t = false /\ st_fail_send t = false /\ st_fail_flush t = false /\ st_fail_next t = false.

Record TRel (cap : nat) (coupled : bool) (m : wmon) (t : ST) : Prop := {
  tr_ready : wm_ready m = st_ready t;
  tr_flush : wm_flush m = st_flushok t;
  tr_cap : st_cap t = cap;
  tr_coupled : st_coupled t = coupled;
  tr_eof : wm_eof m = st_eof t;
  tr_taint : wm_tainted m = false -> nofail t;
  tr_inbox : wm_delivered m = wm_read m + length (st_inbox t) }.

(* what a poll may do to the transport, as a predicate on (fused, transport, log) *)
Definition TLP (t0 : ST) (f : bool) (t : ST) (l : list call) : Prop :=
  st_ready t = st_ready t0 /\ st_flushok t = st_flushok t0 /\ st_cap t = st_cap t0
  /\ st_coupled t = st_coupled t0 /\ st_eof t = st_eof t0
  /\ (nofail t0 -> nofail t)
  /\ length (st_inbox t) + nitems l = length (st_inbox t0)
  /\ (f = true -> st_inbox t = [] /\ st_eof t = true).

Ltac tlp_fin A6 A8 :=
  cbn [fst snd]; rewrite ?nitems_cons; cbn [is_item];
  cbn [st_with st_ready st_flushok st_cap st_coupled st_eof st_inbox st_fail_ready st_fail_send st_fail_flush st_fail_next];
  (split; [|split; [|split; [|split; [|split; [|split; [|split]]]]]]); auto;
  try (intros X; specialize (A6 X); unfold nofail in *;
       cbn [st_with st_ready st_flushok st_cap st_coupled st_eof st_inbox st_fail_ready st_fail_send st_fail_flush st_fail_next];
       tauto);
  try apply A8; auto.

Lemma TLP_ready t0 f t l : TLP t0 f t l -> TLP t0 f (snd (t_ready stp t)) (CReady (fst (t_ready stp t)) :: l).
Proof.
  intros (A1 & A2 & A3 & A4 & A5 & A6 & A7 & A8). cbn [scripted t_ready]. unfold s_ready, TLP.
  destruct (st_fail_ready t) eqn:E; [|destruct (st_ready t && _)]; tlp_fin A6 A8.
Qed.
Lemma TLP_flush t0 f t l : TLP t0 f t l -> TLP t0 f (snd (t_flush stp t)) (CFlush (fst (t_flush stp t)) :: l).
Proof.
  intros (A1 & A2 & A3 & A4 & A5 & A6 & A7 & A8). cbn [scripted t_flush]. unfold s_flush, TLP.
  destruct (st_fail_flush t) eqn:E; [|destruct (st_flushok t) eqn:EF]; tlp_fin A6 A8; congruence.
Qed.
Lemma TLP_send t0 f t l (m : response) : TLP t0 f t l -> TLP t0 f (snd (t_send stp t m)) (CSend m (fst (t_send stp t m)) :: l).
Proof.
  intros (A1 & A2 & A3 & A4 & A5 & A6 & A7 & A8). cbn [scripted t_send]. unfold s_send, TLP.
  destruct (st_fail_send t) eqn:E; tlp_fin A6 A8.
Qed.
Lemma TLP_next t0 f t l : TLP t0 f t l ->
  TLP t0 f (snd (t_next stp t)) (CNext (fst (t_next stp t)) :: l)
  /\ (fst (t_next stp t) = REof -> TLP t0 true (snd (t_next stp t)) (CNext (fst (t_next stp t)) :: l)).
Proof.
  intros (A1 & A2 & A3 & A4 & A5 & A6 & A7 & A8). cbn [scripted t_next]. unfold s_next, TLP.
  destruct (st_fail_next t) eqn:E.
  - split; [|cbn [fst]; discriminate]. tlp_fin A6 A8.
  - destruct (st_inbox t) as [|x q] eqn:EI.
    + destruct (st_eof t) eqn:EE; (split; [|cbn [fst]; try discriminate]); try (intros _); tlp_fin A6 A8.
      all: try congruence; try (rewrite EI; cbn [length] in *; lia).
      intros X. destruct (A8 X) as (_ & Y). discriminate.
    + split; [|cbn [fst]; discriminate]. cbn [length] in A7. tlp_fin A6 A8; try lia.
      intros X. destruct (A8 X) as (Y & _). discriminate.
Qed.

Lemma poll_TLP c f (s : st) r s2 :
  (s_fused s = true -> st_inbox (s_t s) = [] /\ st_eof (s_t s) = true) ->
  requests_poll_next stp c f (set_log s []) = (r, s2) ->
  TLP (s_t s) (s_fused s2) (s_t s2) (s_log s2).
Proof.
  intros HF H.
  apply (PL_requests stp (TLP (s_t s)) (TLP_ready (s_t s)) (TLP_flush (s_t s))
           (fun f0 t l m X => TLP_send (s_t s) f0 t l m X) (TLP_next (s_t s)) c f (set_log s []) r s2); [|exact H].
  unfold PL, TLP. sproj.
  split; [reflexivity|split; [reflexivity|split; [reflexivity|split; [reflexivity|split; [reflexivity|split; [auto|split; [|exact HF]]]]]]].
  unfold nitems. cbn. lia.
Qed.

(* ---- the monitor's transport fields ------------------------------------------------------- *)
Record MT (m m' : wmon) (extra : nat) : Prop := {
  mt_now : wm_now m' = wm_now m; mt_alive : wm_alive m' = wm_alive m; mt_dropped : wm_dropped m' = wm_dropped m;
  mt_ready : wm_ready m' = wm_ready m; mt_flush : wm_flush m' = wm_flush m; mt_tainted : wm_tainted m' = wm_tainted m;
  mt_eof : wm_eof m' = wm_eof m; mt_delivered : wm_delivered m' = wm_delivered m;
  mt_read : wm_read m' = wm_read m + extra;
  mt_len : length (wm_incs m') = length (wm_incs m);
  mt_gone : forall k mi mi', nth_error (wm_incs m) k = Some mi -> nth_error (wm_incs m') k = Some mi' ->
              mi_gone mi' = mi_gone mi }.

Lemma MT_refl m : MT m m 0.
Proof. constructor; try reflexivity; try lia. intros k mi mi' A B. congruence. Qed.
Lemma MT_trans a b c x y : MT a b x -> MT b c y -> MT a c (x + y).
Proof.
  intros [] []. constructor; try congruence; try lia.
  intros k mi mi' A B. assert (L : k < length (wm_incs b)) by (rewrite mt_len0; apply nth_error_Some; congruence).
  apply nth_error_Some in L. destruct (nth_error (wm_incs b) k) as [mb|] eqn:E; [|congruence].
  rewrite (mt_gone1 k mb mi' E B). exact (mt_gone0 k mi mb A E).
Qed.

Lemma nth_map_some {A B} (f : A -> B) l k y : nth_error (map f l) k = Some y -> exists x, nth_error l k = Some x /\ y = f x.
Proof. rewrite nth_error_map. destruct (nth_error l k); cbn; [intros [= <-]; eauto|discriminate]. Qed.

Lemma wm_call_MT m c : MT m (wm_call m c) (if is_item c then 1 else 0).
Proof.
  destruct c as [r|mm r|r|r|r]; cbn [wm_call is_item]; try apply MT_refl.
  - destruct (resp_body mm); try apply MT_refl;
      (destruct (last_unwritten (resp_id mm) 0 (wm_incs m) None) as [k|]; [|apply MT_refl]);
      (constructor; cbn [upd_inc wm_incs wm_now wm_alive wm_dropped wm_ready wm_flush wm_tainted wm_eof wm_delivered wm_read];
       try reflexivity; try lia; [apply upd_k_length|]);
      intros j mi mi' A B; destruct (upd_k_inv _ _ _ _ _ _ B) as (y & Hy & [(_ & ->)|(_ & ->)]);
      rewrite A in Hy; inversion Hy; reflexivity.
  - destruct r as [[id dl tr body|id tr]| | |]; cbn [is_item]; try apply MT_refl.
    + constructor; cbn [wm_incs wm_now wm_alive wm_dropped wm_ready wm_flush wm_tainted wm_eof wm_delivered wm_read];
        try reflexivity; try lia. intros k mi mi' A B. congruence.
    + constructor; cbn [map_incs wm_incs wm_now wm_alive wm_dropped wm_ready wm_flush wm_tainted wm_eof wm_delivered wm_read];
        try reflexivity; try lia; [apply map_length|].
      intros k mi mi' A B. apply nth_map_some in B. destruct B as (x & Hx & ->). rewrite A in Hx. inversion Hx; subst x.
      destruct (_ && _); reflexivity.
Qed.

Lemma wm_calls_MT l : forall m h, MT m (fst (fold_left wm_call_h l (m, h))) (nitems l).
Proof.
  induction l as [|c l IH]; intros m h; cbn [fold_left]; [apply MT_refl|].
  rewrite nitems_cons. unfold wm_call_h at 2. cbn [fst snd]. eapply MT_trans; [apply wm_call_MT|apply IH].
Qed.

(* ================================================================== the invariant *)
Lemma otail_same : forall o1 g,
  o_incs (otail o1 g) = o_incs o1 /\ o_now (otail o1 g) = o_now o1 /\ o_dropped (otail o1 g) = o_dropped o1.
Proof.
  intros o1 g. unfold otail. destruct g as [[a b]|].
  - destruct (o_dropped o1) eqn:ED; [unfold mark_bad; oproj; auto|].
    destruct (c_err (o_v o1)); [auto|].
    match goal with |- context [o_gauges ?x ?y ?z a b] =>
      destruct (o_gauges_proj x y z a b) as (G1 & G2 & G3 & _) end.
    cbv zeta in *. rewrite G1, G2, G3. oproj. auto.
  - destruct (o_dropped o1) eqn:ED; [auto|unfold mark_bad; oproj; auto].
Qed.

Definition GoneOK (m : wmon) (s : st) : Prop :=
  forall k mi hr, nth_error (wm_incs m) k = Some mi -> nth_error (s_handlers s) k = Some hr ->
                  (mi_gone mi = true <-> h_st hr = HGone).

Section Run.
  Variable c : cfg.
  Variable cap : nat.
  Variable coupled : bool.
  Notation lim := (cfg_limit c).
  Notation sctl := (@s_control cmsg).
  Notation sstep := (step stp sctl sfuel c).
  Notation TF := scripted_tfuel_ok.

  Record WI (w : WST) (m : wmon) (o : ostate) : Prop := {
    wi_top : Top o (w_s w);
    wi_hb : hb_ok (w_s w);
    wi_toph : TopH o (w_s w);
    wi_stop : h_stop (o_v o) = true;
    wi_hyp : h_b1 (o_v o) = true;
    wi_rel : Rel m o;
    wi_oi : OI o;
    wi_invq : InvQ o (w_s w);
    wi_gone : GoneOK m (w_s w);
    wi_pa : PAcc (cfg_buf c) (w_s w);
    wi_da : DA (w_s w);
    wi_qp : QPm (w_s w);
    wi_tr : TRel cap coupled m (s_t (w_s w));
    wi_fused : s_fused (w_s w) = true -> st_inbox (s_t (w_s w)) = [] /\ st_eof (s_t (w_s w)) = true;
    wi_alive : wm_alive m = negb (is_some (w_end w));
    wi_cerr : c_err (o_v o) = true -> is_some (w_end w) = true }.

  (* what every op that is not a stream poll preserves, given the op-specific parts *)
  Lemma wi_nonpoll : forall (w : WST) m o p s' l m' inner rel' e',
    WI w m o -> sstep (w_s w) p = (s', l) -> match p with OPoll => False | _ => True end ->
    ostep lim o p l = otail inner (snd (split_gauges l)) ->
    h_b1 (o_v inner) = true -> h_stop (o_v inner) = true -> c_err (o_v inner) = c_err (o_v o) ->
    Rel m' inner -> OI inner -> InvQ inner s' -> GoneOK m' s' ->
    TRel cap coupled m' (s_t s') ->
    (s_fused s' = true -> st_inbox (s_t s') = [] /\ st_eof (s_t s') = true) ->
    wm_alive m' = wm_alive m -> e' = w_end w ->
    WI (mkw s' rel' e') m' (ostep lim o p l).
  Proof.
    intros w m o p s' l m' inner rel' e' [] ES Hp Eo Hb Hs Hc HR HO HQ HG HT HF HA ->.
    destruct (otail_H inner (snd (split_gauges l))) as (F1 & F2 & F3 & F4 & _).
    destruct (otail_same inner (snd (split_gauges l))) as (S1 & S2 & S3).
    constructor; cbn [w_s w_end].
    - exact (top_step stp sctl sfuel TF c o _ p s' l wi_top0 wi_hb0 ES).
    - pose proof (hb_ok_step stp sctl sfuel c (w_s w) p wi_hb0) as X. rewrite ES in X. exact X.
    - exact (topH_step stp sctl sfuel TF c o _ p s' l wi_top0 wi_hb0 wi_toph0 ES).
    - rewrite Eo, F2. exact Hs.
    - rewrite Eo, F3. exact Hb.
    - rewrite Eo. eapply Rel_same; [reflexivity|reflexivity|reflexivity|exact S1|exact S2|exact S3|exact HR].
    - rewrite Eo. eapply OI_same; [exact S1|exact HO].
    - rewrite Eo. eapply InvQ_frame; [exact HQ|exact S1|reflexivity|reflexivity].
    - exact HG.
    - pose proof (PAcc_step stp sctl sfuel c (w_s w) p wi_pa0) as X. rewrite ES in X. exact X.
    - pose proof (DA_step stp sctl sfuel c (w_s w) p wi_da0) as X. rewrite ES in X. exact X.
    - destruct (wi_top0 wi_stop0) as (HI & _).
      pose proof (QPm_step stp sctl sfuel o c (w_s w) p HI wi_qp0) as X. rewrite ES in X. exact X.
    - exact HT.
    - exact HF.
    - rewrite HA. exact wi_alive0.
    - rewrite Eo, F4, Hc. exact wi_cerr0.
  Qed.

  (* ---- OCtl ------------------------------------------------------------------------------ *)
  Lemma TRel_ctl : forall m t x, TRel cap coupled m t -> TRel cap coupled (wm_op m (OCtl x)) (sctl t x).
  Proof.
    intros m t x [A1 A2 A3 A4 A5 A6 A7]. destruct x as [y| |b|b|b|mm|n]; cbn [wm_op s_control].
    - rewrite <- A5. destruct (wm_eof m) eqn:EE; [constructor; auto; congruence|].
      constructor; cbn [st_with wm_ready wm_flush wm_tainted wm_eof wm_delivered wm_read st_ready st_flushok st_cap st_coupled st_eof st_inbox
                              st_fail_ready st_fail_send st_fail_flush st_fail_next]; auto.
      rewrite app_length. cbn [length]. lia.
    - constructor; cbn [st_with wm_ready wm_flush wm_tainted wm_eof wm_delivered wm_read st_ready st_flushok st_cap st_coupled st_eof st_inbox
                              st_fail_ready st_fail_send st_fail_flush st_fail_next]; auto.
    - constructor; cbn [st_with wm_ready wm_flush wm_tainted wm_eof wm_delivered wm_read st_ready st_flushok st_cap st_coupled st_eof st_inbox
                              st_fail_ready st_fail_send st_fail_flush st_fail_next]; auto.
    - constructor; cbn [st_with wm_ready wm_flush wm_tainted wm_eof wm_delivered wm_read st_ready st_flushok st_cap st_coupled st_eof st_inbox
                              st_fail_ready st_fail_send st_fail_flush st_fail_next]; auto.
    - constructor; cbn [st_with wm_ready wm_flush wm_tainted wm_eof wm_delivered wm_read st_ready st_flushok st_cap st_coupled st_eof st_inbox
                              st_fail_ready st_fail_send st_fail_flush st_fail_next]; auto. discriminate.
    - constructor; cbn [st_with wm_ready wm_flush wm_tainted wm_eof wm_delivered wm_read st_ready st_flushok st_cap st_coupled st_eof st_inbox
                              st_fail_ready st_fail_send st_fail_flush st_fail_next]; auto. discriminate.
    - constructor; cbn [st_with wm_ready wm_flush wm_tainted wm_eof wm_delivered wm_read st_ready st_flushok st_cap st_coupled st_eof st_inbox
                              st_fail_ready st_fail_send st_fail_flush st_fail_next]; auto.
  Qed.

  Lemma wm_op_ctl_same : forall m (x : trop cmsg),
    wm_incs (wm_op m (OCtl x)) = wm_incs m /\ wm_now (wm_op m (OCtl x)) = wm_now m
    /\ wm_dropped (wm_op m (OCtl x)) = wm_dropped m /\ wm_alive (wm_op m (OCtl x)) = wm_alive m.
  Proof. intros m x. destruct x; cbn [wm_op]; try destruct (wm_eof m); auto. Qed.

  Lemma wi_ctl : forall (w : WST) m o x s' l,
    WI w m o -> sstep (w_s w) (OCtl x) = (s', l) ->
    WI (mkw s' (w_rel w) (w_end w)) (wm_op m (OCtl x)) (ostep lim o (OCtl x) l) /\ existsb bad_obs l = false
    /\ s_handlers s' = s_handlers (w_s w).
  Proof.
    intros w m o x s' l HW ES. pose proof HW as [].
    assert (Hshape : s' = set_t (w_s w) (sctl (s_t (w_s w)) x) /\ l = gauges s').
    { unfold step in ES. injection ES as <- <-. auto. }
    destruct Hshape as (Es & El).
    assert (Eo : ostep lim o (OCtl x) l = otail o (snd (split_gauges l))).
    { rewrite (ostep_nonpoll c (OCtl x) o l wi_stop0 I). rewrite El, fst_split_nil'. reflexivity. }
    destruct (wm_op_ctl_same m x) as (M1 & M2 & M3 & M4).
    split; [|split].
    - apply (wi_nonpoll w m o (OCtl x) s' l (wm_op m (OCtl x)) o (w_rel w) (w_end w) HW ES I Eo); auto.
      + eapply Rel_same; [exact M1|exact M2|exact M3|reflexivity..|exact wi_rel0].
      + eapply InvQ_frame; [exact wi_invq0|reflexivity|subst s'; reflexivity|subst s'; reflexivity].
      + intros k mi hr A B. rewrite M1 in A. subst s'. sproj. exact (wi_gone0 k mi hr A B).
      + subst s'. sproj. apply TRel_ctl. exact wi_tr0.
      + subst s'. sproj. intros HF. destruct (wi_fused0 HF) as (A & B).
        destruct x as [y| |b|b|b|mm|n]; cbn [s_control]; rewrite ?B; cbn [st_with st_inbox st_eof]; auto.
    - rewrite El. unfold gauges. destruct (s_dropped s'); [reflexivity|]. destruct (s_bad s'); reflexivity.
    - subst s'. reflexivity.
  Qed.

  (* ---- ODropChannel ---------------------------------------------------------------------- *)
  Lemma gauges_not_bad : forall (s1 : st), existsb bad_obs (gauges s1) = false.
  Proof. intros s1. unfold gauges. destruct (s_dropped s1); [reflexivity|]. destruct (s_bad s1); reflexivity. Qed.

  Lemma wi_drop_channel : forall (w : WST) m o s' l,
    WI w m o -> sstep (w_s w) ODropChannel = (s', l) ->
    WI (mkw s' (w_rel w) (w_end w)) (wm_op m (@ODropChannel (trop cmsg))) (ostep lim o (@ODropChannel (trop cmsg)) l)
    /\ existsb bad_obs l = false /\ s_handlers s' = s_handlers (w_s w).
  Proof.
    intros w m o s' l HW ES. pose proof HW as [].
    assert (Hshape : s' = drop_channel (w_s w) /\ l = gauges s').
    { unfold step in ES. injection ES as <- <-. auto. }
    destruct Hshape as (Es & El).
    pose proof (ostep_nonpoll c (@ODropChannel (trop cmsg)) o l wi_stop0 I) as Eo. cbv beta iota in Eo.
    destruct (rel_drop_channel m o wi_rel0 wi_oi0) as (HR & HO). cbv zeta in HR, HO.
    assert (Hf : s_handlers s' = s_handlers (w_s w) /\ s_respq s' = s_respq (w_s w) /\ s_t s' = s_t (w_s w)
                 /\ s_fused s' = s_fused (w_s w)).
    { subst s'. unfold drop_channel. destruct (s_dropped (w_s w)); sproj; auto. }
    destruct Hf as (F1 & F2 & F3 & F4).
    split; [|split; [rewrite El; apply gauges_not_bad|exact F1]].
    eapply (wi_nonpoll w m o (@ODropChannel (trop cmsg)) s' l _ _ (w_rel w) (w_end w) HW ES I Eo); auto.
    - eapply InvQ_frame; [exact wi_invq0|reflexivity|exact F1|exact F2].
    - intros k mi hr A B. cbn [wm_op wm_incs] in A. rewrite F1 in B. exact (wi_gone0 k mi hr A B).
    - rewrite F3. destruct wi_tr0. constructor; cbn [wm_op wm_ready wm_flush wm_tainted wm_eof wm_delivered wm_read]; auto.
    - rewrite F3, F4. exact wi_fused0.
  Qed.

  (* ---- OAdvance -------------------------------------------------------------------------- *)
  Lemma wi_advance : forall (w : WST) m o dt s' l,
    WI w m o -> sstep (w_s w) (OAdvance dt) = (s', l) ->
    WI (mkw s' (w_rel w) (w_end w)) (wm_op m (@OAdvance (trop cmsg) dt)) (ostep lim o (@OAdvance (trop cmsg) dt) l)
    /\ existsb bad_obs l = false /\ s_handlers s' = s_handlers (w_s w).
  Proof.
    intros w m o dt s' l HW ES. pose proof HW as [].
    assert (Hshape : s' = set_now (w_s w) (s_now (w_s w) + dt)%N /\ l = gauges s').
    { unfold step in ES. injection ES as <- <-. auto. }
    destruct Hshape as (Es & El).
    pose proof (ostep_nonpoll c (@OAdvance (trop cmsg) dt) o l wi_stop0 I) as Eo. cbv beta iota in Eo.
    destruct (rel_advance m o dt wi_rel0 wi_oi0) as (HR & HO). cbv zeta in HR, HO.
    split; [|split; [rewrite El; apply gauges_not_bad|subst s'; reflexivity]].
    eapply (wi_nonpoll w m o (@OAdvance (trop cmsg) dt) s' l _ _ (w_rel w) (w_end w) HW ES I Eo); auto.
    - apply (InvQ_pointwise o _ (w_s w) s' wi_invq0); cbn [o_incs]; subst s'; sproj; auto.
      + unfold age. apply map_length.
      + intros j x x' A B. unfold age in B. rewrite nth_error_map, A in B. cbn in B. inversion B; subst x'.
        destruct (oi_wire x) eqn:E; [destruct (N.leb _ _)|..]; cbn; rewrite ?E;
          (split; [reflexivity|split; [reflexivity|intros X; congruence]]).
      + intros j h h' A B. rewrite A in B. inversion B; subst. auto.
    - intros k mi hr A B. cbn [wm_op wm_incs] in A. subst s'. sproj. exact (wi_gone0 k mi hr A B).
    - subst s'. sproj. destruct wi_tr0. constructor; cbn [wm_op wm_ready wm_flush wm_tainted wm_eof wm_delivered wm_read]; auto.
    - subst s'. sproj. exact wi_fused0.
  Qed.

  (* ---- ODropHandler ---------------------------------------------------------------------- *)
  Definition droppable (x : hstate) : bool :=
    match x with HRunning | HWait _ | HPermit _ => true | _ => false end.

  Lemma drop_handler_cases : forall k (s s1 : st) body,
    drop_handler k s = (s1, body) ->
    (s1 = s /\ body = [] /\ forall hr, nth_error (s_handlers s) k = Some hr -> droppable (h_st hr) = false)
    \/ (exists hr, nth_error (s_handlers s) k = Some hr /\ droppable (h_st hr) = true
          /\ hshape k hr HGone s s1 /\ s_respq s1 = s_respq s /\ s_t s1 = s_t s /\ s_fused s1 = s_fused s
          /\ (body = [] \/ body = [OHDropped k])).
  Proof.
    intros k s s1 body H. unfold drop_handler in H.
    destruct (nth_error (s_handlers s) k) as [hr|] eqn:Hk.
    2: { left. injection H as <- <-. repeat split; auto. intros hr X; discriminate. }
    destruct (add_permit_shape s) as (P1 & P2 & P3 & P4 & P5 & P6 & P7 & P8 & P9 & P10 & P11 & P12 & P13).
    cbv zeta in *.
    assert (Leaf : forall (sx s0 : st), (sx = s \/ sx = add_permit s) ->
              s_handlers s0 = set_hst k HGone (s_handlers sx) -> hshape k hr HGone s s0).
    { intros sx s0 Hsx Hh.
      destruct Hsx as [->| ->]; [eapply (hshape_set s s); eauto; apply hrel_refl|eapply (hshape_set s (add_permit s)); eauto]. }
    assert (Hg : forall (sx : st), s_handlers (guard_cancel (h_id hr) sx) = s_handlers sx
                 /\ s_respq (guard_cancel (h_id hr) sx) = s_respq sx /\ s_t (guard_cancel (h_id hr) sx) = s_t sx
                 /\ s_fused (guard_cancel (h_id hr) sx) = s_fused sx).
    { intros sx. unfold guard_cancel. destruct (s_dropped sx); sproj; auto. }
    destruct (h_st hr) eqn:Est.
    - left. injection H as <- <-. repeat split; auto. intros hr0 X. inversion X; subst. rewrite Est. reflexivity.
    - right. exists hr. rewrite Est. injection H as <- <-.
      match goal with |- context [guard_cancel ?i ?sx] => destruct (Hg sx) as (G1 & G2 & G3 & G4) end.
      split; [reflexivity|split; [reflexivity|split; [apply (Leaf s); [auto|rewrite G1; reflexivity]|]]].
      rewrite G2, G3, G4. sproj. auto.
    - right. exists hr. rewrite Est. injection H as <- <-.
      match goal with |- context [guard_cancel ?i ?sx] => destruct (Hg sx) as (G1 & G2 & G3 & G4) end.
      split; [reflexivity|split; [reflexivity|split; [apply (Leaf s); [auto|rewrite G1; reflexivity]|]]].
      rewrite G2, G3, G4. sproj. auto.
    - right. exists hr. rewrite Est. injection H as <- <-.
      match goal with |- context [guard_cancel ?i ?sx] => destruct (Hg sx) as (G1 & G2 & G3 & G4) end.
      split; [reflexivity|split; [reflexivity|split; [apply (Leaf (add_permit s)); [auto|rewrite G1; reflexivity]|]]].
      rewrite G2, G3, G4. sproj. auto.
    - left. injection H as <- <-. repeat split; auto. intros hr0 X. inversion X; subst. rewrite Est. reflexivity.
    - left. injection H as <- <-. repeat split; auto. intros hr0 X. inversion X; subst. rewrite Est. reflexivity.
  Qed.

  Lemma guard_dropped_incs : forall k need o,
    exists f, o_incs (guard_dropped k need o) = upd_nth k f (o_incs o)
      /\ o_now (guard_dropped k need o) = o_now o /\ o_dropped (guard_dropped k need o) = o_dropped o
      /\ forall i, oi_id (f i) = oi_id i /\ oi_done (f i) = oi_done i
                   /\ (oi_wire (f i) = WAnswered -> oi_wire i = WAnswered).
  Proof.
    intros k need o. unfold guard_dropped.
    assert (Hid : exists f : oinc -> oinc, o_incs o = upd_nth k f (o_incs o) /\ o_now o = o_now o /\ o_dropped o = o_dropped o
              /\ forall i, oi_id (f i) = oi_id i /\ oi_done (f i) = oi_done i /\ (oi_wire (f i) = WAnswered -> oi_wire i = WAnswered)).
    { exists (fun i => i). rewrite upd_nth_id. repeat split; auto. }
    destruct (nth_error (o_incs o) k) as [i0|]; [|exact Hid].
    match goal with |- context [if ?b then _ else _] => destruct b end.
    - exists (fun i => set_ph (match oi_wire i with WOpen => set_wire i WMaybe | _ => i end) PEnded).
      oproj. split; [reflexivity|split; [reflexivity|split; [reflexivity|]]].
      intros i. destruct (oi_wire i) eqn:E; cbn; rewrite ?E; (split; [reflexivity|split; [reflexivity|intros X; congruence]]).
    - match goal with |- context [if ?b then _ else _] => destruct b end; [|exact Hid].
      exists (fun i => set_ph i PEnded). oproj. split; [reflexivity|split; [reflexivity|split; [reflexivity|]]].
      intros i. cbn. auto.
  Qed.

  (* the monitor's "ended" against the model's handler state *)
  Lemma ended_over : forall (w : WST) m o k mi hr,
    WI w m o -> nth_error (wm_incs m) k = Some mi -> nth_error (s_handlers (w_s w)) k = Some hr ->
    (mi_ended mi = true <-> over (h_st hr))
    /\ (h_st hr = HYielded \/ mi_done mi = (match h_st hr with HWait _ | HPermit _ => true | HRunning => false | _ => mi_done mi end)).
  Proof.
    intros w m o k mi hr [] A B. destruct (wi_top0 wi_stop0) as (HI & _).
    destruct wi_rel0 as (HL & _ & _ & HR).
    assert (L : k < length (o_incs o)) by (rewrite <- HL; apply nth_error_Some; congruence).
    apply nth_error_Some in L. destruct (nth_error (o_incs o) k) as [oi|] eqn:Ho; [|congruence].
    destruct (HR k mi oi A Ho) as [R1 R2 R3 R4 R5 R6 R7 R8 R9 R10]. destruct (u_hand _ _ HI k hr oi B Ho) as (_ & Hph & Hdn & _).
    rewrite R4, R3. split.
    - destruct (h_st hr), (oi_ph oi); cbn in *; try contradiction; split; intros; try discriminate; auto.
    - destruct (h_st hr); cbn in *; auto; right; rewrite Hdn; reflexivity.
  Qed.

  Lemma wi_drop_handler : forall (w : WST) m o k s' l,
    WI w m o -> NY (w_s w) -> sstep (w_s w) (ODropHandler k) = (s', l) ->
    WI (mkw s' (w_rel w) (w_end w)) (wm_op m (@ODropHandler (trop cmsg) k)) (ostep lim o (@ODropHandler (trop cmsg) k) l)
    /\ existsb bad_obs l = false /\ NY s'.
  Proof.
    intros w m o k s' l HW Hny ES. pose proof HW as [].
    destruct (wi_top0 wi_stop0) as (HI & _).
    unfold step in ES. destruct (drop_handler k (w_s w)) as [s1 body] eqn:ED. injection ES as <- <-.
    assert (ES : sstep (w_s w) (ODropHandler k) = (s1, body ++ gauges s1)) by (unfold step; rewrite ED; reflexivity).
    pose proof (ostep_nonpoll c (@ODropHandler (trop cmsg) k) o (body ++ gauges s1) wi_stop0 I) as Eo. cbv beta iota in Eo.
    assert (Hbody : body = [] \/ body = [OHDropped k]).
    { destruct (drop_handler_cases _ _ _ _ ED) as [(_ & -> & _)|(_ & _ & _ & _ & _ & _ & _ & X)]; auto. }
    assert (Hfst : fst (split_gauges (body ++ gauges s1)) = body).
    { apply fst_split_body. destruct Hbody as [-> | ->]; reflexivity. }
    rewrite Hfst in Eo.
    assert (Hfold : fold_left o_hevent body o = o) by (destruct Hbody as [-> | ->]; reflexivity).
    rewrite Hfold in Eo.
    (* the incarnation was started *)
    assert (Hph : forall oi, nth_error (o_incs o) k = Some oi -> oi_ph oi <> PFresh).
    { intros oi Hoi E. assert (L : k < length (s_handlers (w_s w))) by (rewrite <- (u_len _ _ HI); apply nth_error_Some; congruence).
      apply nth_error_Some in L. destruct (nth_error (s_handlers (w_s w)) k) as [hr|] eqn:Hk; [|congruence].
      destruct (u_hand _ _ HI k hr oi Hk Hoi) as (_ & P & _). rewrite E in P.
      apply (Hny k). exists hr. split; [exact Hk|]. destruct (h_st hr); cbn in P; try contradiction; reflexivity. }
    destruct (rel_drop_handler m o k wi_rel0 wi_oi0 Hph) as (HR & HO).
    destruct (guard_dropped_incs k PStarted o) as (f & G1 & G2 & G3 & Gf).
    (* the handler table *)
    assert (Hh : length (s_handlers s1) = length (s_handlers (w_s w))
                 /\ (forall j h h', nth_error (s_handlers (w_s w)) j = Some h -> nth_error (s_handlers s1) j = Some h' ->
                       (j = k /\ droppable (h_st h) = true /\ h_st h' = HGone)
                       \/ ((j <> k \/ droppable (h_st h) = false)
                           /\ (h_st h' = h_st h \/ exists b, h_st h = HWait b /\ h_st h' = HPermit b)))
                 /\ s_respq s1 = s_respq (w_s w) /\ s_t s1 = s_t (w_s w) /\ s_fused s1 = s_fused (w_s w)).
    { destruct (drop_handler_cases _ _ _ _ ED) as [(-> & _ & Hno)|(hr & Hk & Hd & (Hm & Hsh) & Q & Tt & Ff & _)].
      - split; [reflexivity|split; [|auto]]. intros j h h' A B. rewrite A in B. inversion B; subst h'. right.
        split; [|auto]. destruct (Nat.eq_dec j k) as [->|N]; [right; exact (Hno h A)|left; exact N].
      - split; [rewrite <- (map_length h_h), Hm, map_length; reflexivity|split; [|auto]].
        intros j h h' A B. destruct (Hsh j h' B) as [(-> & _ & X)|(N & h0 & A0 & _ & X)].
        + left. rewrite Hk in A. inversion A; subst h. auto.
        + right. rewrite A in A0. inversion A0; subst h0. auto. }
    destruct Hh as (Lh & Hh & Q1 & T1 & F1).
    split; [|split].
    - eapply (wi_nonpoll w m o (@ODropHandler (trop cmsg) k) s1 _ _ _ (w_rel w) (w_end w) HW ES I Eo);
        rewrite ?guard_dropped_v; auto.
      + apply (InvQ_pointwise o _ (w_s w) s1 wi_invq0); auto.
        * rewrite G1. apply upd_nth_length.
        * intros j x x' A B. rewrite G1 in B. destruct (upd_nth_inv _ _ _ _ _ B) as (y & Hy & [(_ & ->)|(_ & ->)]);
            rewrite A in Hy; inversion Hy; subst y; [apply Gf|auto].
        * intros j h h' A B. destruct (Hh j h h' A B) as [(_ & D & E)|(_ & [E|(b & E1 & E2)])].
          -- rewrite E. split; [intros []|]. intros X. rewrite X in D. discriminate.
          -- rewrite E. auto.
          -- rewrite E1, E2. split; [auto|discriminate].
      + (* gone <-> HGone *)
        intros j mi' h' A B. cbn [wm_op upd_inc wm_incs] in A.
        destruct (upd_k_inv _ _ _ _ _ _ A) as (mi & Hmi & D).
        assert (L : j < length (s_handlers (w_s w))) by (rewrite <- Lh; apply nth_error_Some; congruence).
        apply nth_error_Some in L. destruct (nth_error (s_handlers (w_s w)) j) as [h|] eqn:Hj; [|congruence].
        destruct (ended_over w m o j mi h HW Hmi Hj) as ((E1 & E2) & _).
        pose proof (wi_gone0 j mi h Hmi Hj) as G.
        destruct (Hh j h h' Hj B) as [(-> & Dd & Eh)|(Nd & St)].
        * destruct D as [(_ & ->)|(N & _)]; [|congruence].
          assert (En : mi_ended mi = false).
          { destruct (mi_ended mi) eqn:X; [|reflexivity]. specialize (E1 eq_refl). destruct (h_st h); cbn in *; try discriminate; contradiction. }
          rewrite En. cbn [mi_gone]. rewrite Eh. tauto.
        * assert (Hsame : h_st h' = HGone <-> h_st h = HGone).
          { destruct St as [X|(b & X1 & X2)]; [rewrite X; tauto|rewrite X1, X2; split; discriminate]. }
          destruct D as [(-> & ->)|(_ & ->)]; [|rewrite Hsame; exact G].
          destruct Nd as [Nd|Nd]; [congruence|].
          assert (En : mi_ended mi = true).
          { apply E2. destruct (h_st h) eqn:X; cbn in *; try discriminate; auto.
            exfalso. apply (Hny k). exists h. auto. }
          rewrite En, Hsame. exact G.
      + rewrite T1. destruct wi_tr0. constructor; cbn [wm_op upd_inc wm_ready wm_flush wm_tainted wm_eof wm_delivered wm_read]; auto.
      + rewrite T1, F1. exact wi_fused0.
    - rewrite existsb_app, gauges_not_bad. destruct Hbody as [-> | ->]; reflexivity.
    - intros j (h' & B & Y). assert (L : j < length (s_handlers (w_s w))) by (rewrite <- Lh; apply nth_error_Some; congruence).
      apply nth_error_Some in L. destruct (nth_error (s_handlers (w_s w)) j) as [h|] eqn:Hj; [|congruence].
      destruct (Hh j h h' Hj B) as [(_ & _ & E)|(_ & [E|(b & _ & E)])]; try congruence.
      apply (Hny j). exists h. split; [exact Hj|congruence].
  Qed.

  (* ---- one poll of an execute() future (inside a settle) --------------------------------- *)
  Lemma execute_poll_t : forall k hs (s : st),
    s_t (fst (execute_poll k hs s)) = s_t s /\ s_fused (fst (execute_poll k hs s)) = s_fused s.
  Proof.
    intros k hs s. unfold execute_poll. destruct (nth_error (s_handlers s) k) as [hr|]; [|auto].
    destruct (add_permit_shape s) as (_ & _ & _ & _ & _ & _ & _ & _ & _ & P10 & _ & _ & P13). cbv zeta in *.
    destruct (h_st hr); try (cbn; auto);
      destruct (existsb (Nat.eqb (h_h hr)) (s_aborted s)); sproj; auto;
      try (destruct hs); try (destruct (s_dropped s)); try (destruct (s_permits s)); sproj; auto.
  Qed.

  Lemma execute_poll_hpok : forall k hs (s s1 : st) body hr,
    execute_poll k hs s = (s1, body) -> nth_error (s_handlers s) k = Some hr ->
    (over (h_st hr) -> body = []) /\ hp_ok false body = true /\ existsb bad_obs body = false.
  Proof.
    intros k hs s s1 body hr H Hk. unfold execute_poll in H. rewrite Hk in H.
    destruct (h_st hr) eqn:Est;
      repeat match type of H with
             | context [if ?b then _ else _] => destruct b
             | context [match s_permits s with _ => _ end] => destruct (s_permits s)
             | context [match hs with _ => _ end] => destruct hs
             end;
      injection H as _ <-; cbn; repeat split; auto; intros [].
  Qed.

  Lemma wstep_ev_gone : forall body mi, mi_gone (fold_left wstep_ev body mi) = mi_gone mi.
  Proof.
    induction body as [|e body IH]; intros mi; cbn [fold_left]; [reflexivity|].
    rewrite IH. destruct e; reflexivity.
  Qed.

  Lemma wi_hpoll : forall (w : WST) m o i hs s1 body rel' ,
    WI w m o -> execute_poll i hs (w_s w) = (s1, body) ->
    WI (mkw s1 rel' (w_end w)) (fold_left wm_event (filter keep_hev body) m)
       (ostep lim o (@OHandlerPoll (trop cmsg) i hs) (body ++ gauges s1))
    /\ existsb bad_obs (filter keep_hev body) = false
    /\ forallb (fun e => match e with OCalls _ => false | _ => true end) (filter keep_hev body) = true.
  Proof.
    intros w m o i hs s1 body rel' HW EE. pose proof HW as [].
    destruct (wi_top0 wi_stop0) as (HI & _).
    destruct (wi_toph0 wi_stop0 wi_hyp0) as (Sf & OT & V8 & V4 & Hinv).
    assert (ES : sstep (w_s w) (OHandlerPoll i hs) = (s1, body ++ gauges s1)) by (unfold step; rewrite EE; reflexivity).
    pose proof (ostep_nonpoll c (@OHandlerPoll (trop cmsg) i hs) o (body ++ gauges s1) wi_stop0 I) as Eo. cbv beta iota in Eo.
    destruct (execute_poll_t i hs (w_s w)) as (T1 & F1). rewrite EE in T1, F1. cbn [fst] in T1, F1.
    destruct (nth_error (s_handlers (w_s w)) i) as [hr|] eqn:Hk.
    2: { assert (X : s1 = w_s w /\ body = []) by (unfold execute_poll in EE; rewrite Hk in EE; injection EE as <- <-; auto).
         destruct X as (-> & ->). cbn [app filter fold_left] in *. rewrite fst_split_nil' in Eo. cbn [fold_left] in Eo.
         split; [|split; reflexivity].
         eapply (wi_nonpoll w m o (@OHandlerPoll (trop cmsg) i hs) (w_s w) _ m o rel' (w_end w) HW ES I Eo); auto. }
    destruct (execute_poll_body i hs (w_s w) s1 body hr EE Hk) as (Hb & _ & _).
    destruct (execute_poll_hpok i hs (w_s w) s1 body hr EE Hk) as (Hov & Hok & Hbad).
    assert (Hfst : fst (split_gauges (body ++ gauges s1)) = body) by (apply fst_split_body; exact (for_k_plain _ _ Hb)).
    rewrite Hfst in Eo.
    assert (Hoi : exists oi, nth_error (o_incs o) i = Some oi).
    { assert (L : i < length (o_incs o)) by (rewrite (u_len _ _ HI); apply nth_error_Some; congruence).
      apply nth_error_Some in L. destruct (nth_error (o_incs o) i); [eauto|congruence]. }
    destruct Hoi as (oi & Hoi).
    destruct (u_hand _ _ HI i hr oi Hk Hoi) as (Eid & Hph & Hdn & _).
    assert (Hpk : hp_ok (ended_ph (oi_ph oi)) body = true).
    { destruct (unsent_or_over (h_st hr)) as [U|O]; [|rewrite (Hov O); reflexivity].
      assert (E : ended_ph (oi_ph oi) = false) by (destruct (h_st hr), (oi_ph oi); cbn in *; try contradiction; reflexivity).
      rewrite E. exact Hok. }
    destruct (rel_hevents i body m o oi wi_rel0 wi_oi0 Hb Hoi Hpk) as (HR & HO).
    rewrite <- (fold_hev_filter i body m Hb) in HR.
    destruct (hevents_proj i body o oi Hb Hoi) as (P1 & P2 & P3 & _ & _ & _ & P7 & P8). cbv zeta in *.
    destruct (wm_hevents i body m Hb) as (M1 & M2 & M3 & M4 & M5 & M6 & M7 & M8 & M9 & M10). cbv zeta in *.
    rewrite <- (fold_hev_filter i body m Hb) in M1, M2, M3, M4, M5, M6, M7, M8, M9, M10.
    assert (Hwire : existsb hpolled_ev body = true -> oi_wire oi <> WCancelled).
    { intros Hp. destruct (execute_polled_live _ _ _ _ _ _ EE Hk Hp) as (Hno & Hna).
      destruct (Sf i hr Hk) as [Ht|[Ha|Ho]]; [|contradiction|contradiction].
      pose proof (trk_open o (w_s w) i oi HI Ht Hoi) as Hop. intros E. rewrite E in Hop. discriminate. }
    destruct (ohevents_flags i body o oi Hb Hoi Hwire) as (_ & _ & E1). cbv zeta in E1.
    split; [|split].
    2: { clear -Hbad. induction body as [|e r IH]; [reflexivity|]. cbn [existsb] in Hbad. apply orb_false_iff in Hbad.
         destruct Hbad as [A B]. cbn [filter]. destruct (keep_hev e); cbn [existsb]; rewrite ?A; auto. }
    2: { clear. induction body as [|e r IH]; [reflexivity|]. cbn [filter]. destruct e; cbn [keep_hev forallb]; auto. }
    eapply (wi_nonpoll w m o (@OHandlerPoll (trop cmsg) i hs) s1 _ _ _ rel' (w_end w) HW ES I Eo); auto; try congruence.
    - (* InvQ *)
      destruct (execute_poll_summary i hs (w_s w) s1 body hr EE Hk) as [(-> & Hbody)|Hch].
      { assert (Hf : fold_left o_hevent body o = o) by (destruct Hbody as [->| ->]; reflexivity).
        rewrite Hf. exact wi_invq0. }
      destruct Hch as (st' & push & Hun & _ & Hsh & Hinf & Hab & Hcan & Hdr & Hq & Hpush).
      apply (InvQ_hpoll o _ (w_s w) s1 i hr oi (fun x => fold_left (fun x e => gstep e x) body x) st' push
               wi_invq0 HI Hk Hoi Hun P1); auto.
      + intros x. destruct (gfold_pres body x) as (A & _ & W). cbv zeta in *. auto.
      + destruct Hpush as [Hp|(b & Hp & Hst & Hd)]; [left; exact Hp|right; exists b; auto].
    - (* gone *)
      intros j mi' h' A B. rewrite M1 in A.
      destruct (upd_k_inv _ _ _ _ _ _ A) as (mi & Hmi & D).
      assert (Eg : mi_gone mi' = mi_gone mi) by (destruct D as [(_ & ->)|(_ & ->)]; [apply wstep_ev_gone|reflexivity]).
      rewrite Eg.
      destruct (execute_poll_summary i hs (w_s w) s1 body hr EE Hk) as [(-> & _)|Hch]; [exact (wi_gone0 j mi h' Hmi B)|].
      destruct Hch as (st' & push & Hun & _ & (Hm & Hsh) & _ & _ & _ & _ & _ & Hpush).
      destruct (nth_map_hh _ _ j h' Hm B) as (h0 & B0 & _).
      rewrite (wi_gone0 j mi h0 Hmi B0).
      destruct (Hsh j h' B) as [(-> & _ & X)|(N & h0' & B0' & _ & X)].
      + rewrite Hk in B0. inversion B0; subst h0. rewrite X.
        assert (N1 : h_st hr <> HGone) by (intros Y; rewrite Y in Hun; exact Hun).
        assert (N2 : st' <> HGone).
        { destruct Hpush as [(_ & [U| ->])|(b & _ & -> & _)]; try discriminate. intros Y; rewrite Y in U; exact U. }
        split; intros; contradiction.
      + rewrite B0 in B0'. inversion B0'; subst h0'. destruct X as [X|(b & X1 & X2)]; [rewrite X; tauto|].
        rewrite X1, X2. split; discriminate.
    - rewrite T1. destruct wi_tr0 as [A1 A2 A3 A4 A5 A6 A7]. constructor; try congruence. intros X. apply A6. congruence.
    - rewrite T1, F1. exact wi_fused0.
  Qed.

  (* ---- one poll of the stream (inside a settle) ------------------------------------------ *)
  Lemma poll_tail_same : forall o1 R a b,
    o_incs (poll_tail c o1 R a b) = o_incs o1 /\ o_now (poll_tail c o1 R a b) = o_now o1
    /\ o_dropped (poll_tail c o1 R a b) = o_dropped o1
    /\ h_stop (o_v (poll_tail c o1 R a b)) = h_stop (o_v o1) /\ h_b1 (o_v (poll_tail c o1 R a b)) = h_b1 (o_v o1)
    /\ c_err (o_v (poll_tail c o1 R a b)) = c_err (o_v o1) /\ v08 (o_v (poll_tail c o1 R a b)) = v08 (o_v o1).
  Proof.
    intros o1 R a b. unfold poll_tail. destruct (c_err (o_v o1)) eqn:EC; [repeat split; auto|].
    match goal with |- context [o_gauges ?x ?y ?z a b] =>
      destruct (o_gauges_proj x y z a b) as (G1 & G2 & G3 & _ & _ & G6 & G7 & _);
      destruct (o_gauges_flags x y z a b) as (F1 & _ & F3) end.
    cbv zeta in *. rewrite G1, G2, G3, G6, G7, F1, F3. oproj. rewrite ?andb_true_r. repeat split; auto.
  Qed.

  Lemma wm_event_h_nocalls : forall mh e, (match e with OCalls _ => False | _ => True end) ->
    wm_event_h mh e = (wm_event (fst mh) e, snd mh).
  Proof. intros mh e H. destruct e; try contradiction; reflexivity. Qed.

  (* the events of the calls of one poll, as the monitor folds them *)
  Lemma fold_pre : forall log mh,
    fold_left wm_event_h (match filter keep_call log with [] => [] | _ => [OCalls (filter keep_call log)] end) mh
    = fold_left wm_call_h log mh.
  Proof.
    intros log mh. rewrite <- (fold_wm_filter log mh). destruct (filter keep_call log); reflexivity.
  Qed.

  Lemma w_eta : forall (w : WST), mkw (w_s w) (w_rel w) (w_end w) = w.
  Proof. intros []. reflexivity. Qed.

  Lemma wi_stream : forall (w : WST) m o s1 e1 ev1,
    WI w m o -> stream_half c w = (s1, e1, ev1, false) ->
    existsb bad_obs ev1 = false
    /\ (snd (fold_left wm_event_h ev1 (m, true)) = true ->
        exists o1, WI (mkw s1 (w_rel w) e1) (fst (fold_left wm_event_h ev1 (m, true))) o1).
  Proof.
    intros w m o s1 e1 ev1 HW ES. pose proof HW as [].
    unfold stream_half in ES. cbv zeta in ES.
    destruct (s_dropped (w_s w) || is_some (w_end w)) eqn:EB.
    { injection ES as <- <- <-. split; [reflexivity|]. intros _. exists o. cbn [fold_left fst]. rewrite w_eta. exact HW. }
    apply orb_false_iff in EB. destruct EB as [ED EE].
    assert (Hend : w_end w = None) by (destruct (w_end w); [discriminate|reflexivity]).
    destruct (wi_top0 wi_stop0) as (HI & Hnt & Hrest).
    assert (Hod : o_dropped o = false) by (rewrite (u_dropped _ _ HI); exact ED).
    assert (EC : c_err (o_v o) = false).
    { destruct (c_err (o_v o)) eqn:X; [|reflexivity]. specialize (wi_cerr0 eq_refl). congruence. }
    destruct (Hrest EC) as (Hh & Hg). specialize (Hg ED).
    destruct (poll_requests stp sfuel c (w_s w)) as [s' l] eqn:EP.
    assert (EStep : sstep (w_s w) OPoll = (s', l ++ gauges s')) by (unfold step; rewrite EP; reflexivity).
    pose proof (top_step stp sctl sfuel TF c o _ OPoll s' _ wi_top0 wi_hb0 EStep) as HT'.
    pose proof (topH_step stp sctl sfuel TF c o _ OPoll s' _ wi_top0 wi_hb0 wi_toph0 EStep) as HTH'.
    pose proof (hb_ok_step stp sctl sfuel c (w_s w) OPoll wi_hb0) as Hhb'. rewrite EStep in Hhb'. cbn [fst] in Hhb'.
    pose proof (PAcc_step stp sctl sfuel c (w_s w) OPoll wi_pa0) as HPA'. rewrite EStep in HPA'. cbn [fst] in HPA'.
    pose proof (DA_step stp sctl sfuel c (w_s w) OPoll wi_da0) as HDA'. rewrite EStep in HDA'. cbn [fst] in HDA'.
    pose proof (QPm_step stp sctl sfuel o c (w_s w) OPoll HI wi_qp0) as HQP'. rewrite EStep in HQP'. cbn [fst] in HQP'.
    set (o' := ostep lim o (@OPoll (trop cmsg)) (l ++ gauges s')) in *.
    unfold poll_requests in EP. rewrite ED in EP.
    destruct (requests_poll_next stp c (poll_fuel sfuel (w_s w)) (set_log (w_s w) [])) as [r s2] eqn:ER.
    pose proof (requests_not_fuel stp sfuel TF c _ _ _ ER) as Hnf.
    assert (HB0 : BInv (start_poll o) (set_log (w_s w) [])).
    { split; [apply InvU_start_poll; auto|split; [|exact EC]]. eapply handled_sub; eauto. }
    assert (HH0 : BH (start_poll o) (set_log (w_s w) [])).
    { split; [apply pend_ok_none; reflexivity|]. intros Hb.
      destruct (wi_toph0 wi_stop0 wi_hyp0) as (_ & _ & V8 & _ & A). split; [|exact V8].
      eapply InvH_frame; [exact (A EC)|reflexivity..]. }
    destruct (requests_invP stp lim c _ _ _ _ _ eq_refl HB0 Hnt HH0 eq_refl ER) as (new & X & Post & Hnt2 & PostH & Pv & PostQ).
    assert (Hlog : rev (s_log s2) = new).
    { unfold ext in X. sproj. rewrite X, app_nil_r, rev_involutive. reflexivity. }
    set (oc := fold_left (o_call lim) new (start_poll o)) in *.
    destruct (ocs_proj lim new (start_poll o)) as (Pn & Pd & Ph & _ & Pc). fold oc in Pn, Pd, Ph, Pc.
    cbn [start_poll o_now o_dropped o_v] in Pn, Pd, Ph, Pc.
    pose proof (dropped_requests stp _ _ _ _ _ ER) as Hd2. sproj.
    pose proof (hrel_requests stp _ _ _ _ _ ER) as Hhr.
    pose proof (poll_TLP c _ (w_s w) r s2 wi_fused0 ER) as (L1 & L2 & L3 & L4 & L5 & L6 & L7 & L8).
    (* the monitor through the calls *)
    destruct (fold_left wm_call_h new (m, true)) as [mc hc] eqn:EM.
    pose proof (wm_calls_MT new m true) as MTc. rewrite EM in MTc. cbn [fst] in MTc.
    assert (Hcalls : hc = true -> Rel mc oc /\ OI oc /\ h_b1 (o_v oc) = true /\ v08 (o_v oc) = true).
    { intros ->.
      assert (R0 : Rel m (start_poll o)) by (eapply Rel_same; [reflexivity..|exact wi_rel0]).
      assert (O0 : OI (start_poll o)) by (eapply OI_same; [reflexivity|exact wi_oi0]).
      destruct (rel_calls lim new m true (start_poll o) R0 O0 Pv wi_hyp0) as (A & B & D & E & _).
      { rewrite EM. reflexivity. }
      cbv zeta in *. rewrite EM in A. cbn [fst] in A. fold oc in A, B, D, E. auto. }
    (* the transport *)
    assert (HTR : TRel cap coupled mc (s_t s2)).
    { destruct wi_tr0 as [A1 A2 A3 A4 A5 A6 A7]. destruct MTc.
      constructor; try congruence.
      - intros Y. apply L6. apply A6. congruence.
      - rewrite mt_delivered0, mt_read0, A7, <- L7, <- Hlog, nitems_rev. lia. }
    assert (HFU : s_fused s2 = true -> st_inbox (s_t s2) = [] /\ st_eof (s_t s2) = true) by exact L8.
    (* the shape of the observer's step *)
    assert (Hshape : forall R, rshape R -> l = [OCalls new; R] -> s_dropped s' = false ->
              o' = poll_tail c (o_result oc R) R (length (s_inflight s')) (length (s_timers s'))).
    { intros R HR -> Hds. unfold o'. rewrite (ostep_poll_eq (C := trop cmsg) c o s' new R wi_stop0 Hod EC Hds HR). reflexivity. }
    (* the common part of the conclusion *)
    assert (Hfin : forall R m1 e1',
              rshape R -> l = [OCalls new; R] -> s_dropped s' = false ->
              s_t s' = s_t s2 -> s_fused s' = s_fused s2 ->
              hc = true ->
              Rel m1 (o_result oc R) -> OI (o_result oc R) -> h_b1 (o_v (o_result oc R)) = true ->
              (c_err (o_v (o_result oc R)) = true -> InvQ (o_result oc R) s') ->
              GoneOK m1 s' ->
              (wm_ready m1 = wm_ready mc /\ wm_flush m1 = wm_flush mc /\ wm_tainted m1 = wm_tainted mc
               /\ wm_eof m1 = wm_eof mc /\ wm_delivered m1 = wm_delivered mc /\ wm_read m1 = wm_read mc) ->
              wm_alive m1 = negb (is_some e1') ->
              (c_err (o_v (o_result oc R)) = true -> is_some e1' = true) ->
              WI (mkw s' (w_rel w) e1') m1 o').
    { intros R m1 e1' HR El Hds Ht Hf Hhc R1 O1 B1 Q1 G1 MT1 Al Ce.
      rewrite (Hshape R HR El Hds).
      destruct (poll_tail_same (o_result oc R) R (length (s_inflight s')) (length (s_timers s'))) as (S1 & S2 & S3 & S4 & S5 & S6 & S7).
      destruct (oresult_dropped oc R HR) as (_ & Hs1).
      assert (Hstop' : h_stop (o_v (poll_tail c (o_result oc R) R (length (s_inflight s')) (length (s_timers s')))) = true)
        by (rewrite S4, Hs1, Ph; exact wi_stop0).
      assert (Hb1' : h_b1 (o_v (poll_tail c (o_result oc R) R (length (s_inflight s')) (length (s_timers s')))) = true)
        by (rewrite S5; exact B1).
      rewrite (Hshape R HR El Hds) in HT', HTH'.
      constructor; cbn [w_s w_end]; auto.
      - eapply Rel_same; [reflexivity|reflexivity|reflexivity|exact S1|exact S2|exact S3|exact R1].
      - eapply OI_same; [exact S1|exact O1].
      - destruct (c_err (o_v (o_result oc R))) eqn:Ece.
        + eapply InvQ_frame; [exact (Q1 eq_refl)|exact S1|reflexivity|reflexivity].
        + destruct (HTH' Hstop' Hb1') as (_ & _ & _ & _ & A). apply InvQ_of_InvH. apply A. rewrite S6. reflexivity.
      - rewrite Ht. destruct HTR as [A1 A2 A3 A4 A5 A6 A7]. destruct MT1 as (M1 & M2 & M3 & M4 & M5 & M6).
        constructor; try congruence. intros Y. apply A6. congruence.
      - rewrite Ht, Hf. exact HFU.
      - rewrite S6. exact Ce. }
    rewrite Hlog in EP.
    destruct r as [q| |a| |]; [| | | |exfalso; apply Hnf; reflexivity]; injection EP as <- <-.
    - (* a request is yielded *)
      set (R := OYield (length (s_handlers s2)) (q_id q) (q_dl q) (q_tr q) (q_body q)) in *.
      injection ES as <- <- <-.
      split. { rewrite existsb_app. cbn. destruct (filter keep_call new); reflexivity. }
      rewrite fold_left_app, fold_pre, EM. cbn [fold_left wm_event_h fst snd]. intros Hhc.
      destruct (Hcalls Hhc) as (Rc & Oc & Bc & Vc).
      set (s' := set_handlers s2 (s_handlers s2 ++ [{| h_h := q_h q; h_id := q_id q; h_st := HYielded |}])) in *.
      assert (Hds : s_dropped s' = false) by (subst s'; sproj; congruence).
      exists o'.
      destruct (o_result_yield_flags oc (length (s_handlers s2)) (q_id q) (q_dl q) (q_tr q) (q_body q)) as (_ & _ & Yb).
      destruct (o_result_yield_proj oc (length (s_handlers s2)) (q_id q) (q_dl q) (q_tr q) (q_body q)) as (_ & _ & _ & _ & _ & Q6 & Q7 & _).
      cbv zeta in Yb, Q6, Q7. fold R in Yb, Q6, Q7.
      assert (B1 : h_b1 (o_v (o_result oc R)) = true) by (rewrite Yb; exact Bc).
      (* v08 after the yield, from TopH of the final state *)
      assert (V8 : v08 (o_v (o_result oc R)) = true).
      { pose proof (Hshape R I eq_refl Hds) as Eo'.
        destruct (poll_tail_same (o_result oc R) R (length (s_inflight s')) (length (s_timers s'))) as (_ & _ & _ & S4 & S5 & _ & S7).
        destruct (oresult_dropped oc R I) as (_ & Hs1).
        rewrite Eo' in HTH'. destruct HTH' as (_ & _ & V & _).
        - rewrite S4, Hs1, Ph. exact wi_stop0.
        - rewrite S5. exact B1.
        - rewrite S7 in V. exact V. }
      destruct (rel_yield mc oc (length (s_handlers s2)) (q_id q) (q_dl q) (q_tr q) (q_body q) Rc Oc V8) as (R1 & O1).
      fold R in R1, O1.
      assert (Ll : length (wm_incs mc) = length (s_handlers s2)).
      { destruct R1 as (LL & _). cbn [wm_event R wm_incs] in LL. rewrite app_length in LL. cbn [length] in LL.
        pose proof (Hshape R I eq_refl Hds) as Eo'.
        destruct (poll_tail_same (o_result oc R) R (length (s_inflight s')) (length (s_timers s'))) as (S1 & _ & _ & S4 & _).
        destruct (oresult_dropped oc R I) as (_ & Hs1).
        assert (Hst : h_stop (o_v o') = true) by (rewrite Eo', S4, Hs1, Ph; exact wi_stop0).
        destruct (HT' Hst) as (Ho' & _). pose proof (u_len _ _ Ho') as UL. rewrite Eo', S1 in UL.
        subst s'. sproj. rewrite app_length in UL. cbn [length] in UL. lia. }
      apply (Hfin R (wm_event mc R) None I eq_refl Hds eq_refl eq_refl Hhc R1 O1 B1).
      + intros Xc. rewrite Q6, Pc in Xc. congruence.
      + (* gone *)
        intros k mi hr A B. cbn [wm_event R wm_incs] in A. subst s'. sproj.
        destruct (Nat.lt_ge_cases k (length (wm_incs mc))) as [Lk|Lk].
        * rewrite nth_error_app1 in A by exact Lk. rewrite nth_error_app1 in B by (rewrite <- Ll; exact Lk).
          destruct (Hhr k hr B) as (hr0 & B0 & St). sproj.
          assert (Lm : k < length (wm_incs m)) by (rewrite <- (mt_len _ _ _ MTc); exact Lk).
          apply nth_error_Some in Lm. destruct (nth_error (wm_incs m) k) as [mi0|] eqn:A0; [|congruence].
          rewrite (mt_gone _ _ _ MTc k mi0 mi A0 A), (wi_gone0 k mi0 hr0 A0 B0).
          destruct St as [St|(b & S1 & S2)]; [rewrite St; tauto|rewrite S1, S2; split; discriminate].
        * rewrite nth_error_app2 in A by exact Lk. rewrite nth_error_app2 in B by (rewrite <- Ll; exact Lk).
          rewrite Ll in A. destruct (k - length (s_handlers s2)) as [|n]; cbn in A, B; [|destruct n; discriminate].
          inversion A; subst mi. inversion B; subst hr. cbn. split; discriminate.
      + repeat split; reflexivity.
      + cbn [wm_event R wm_alive is_some negb]. rewrite (mt_alive _ _ _ MTc), wi_alive0, Hend. reflexivity.
      + intros Xc. rewrite Q6, Pc in Xc. congruence.
    - (* end of stream *)
      injection ES as <- <- <-.
      split. { rewrite existsb_app. cbn. destruct (filter keep_call new); reflexivity. }
      rewrite fold_left_app, fold_pre, EM. cbn [fold_left wm_event_h fst snd]. intros Hhc.
      destruct (Hcalls Hhc) as (Rc & Oc & Bc & Vc).
      assert (Hds : s_dropped s2 = false) by congruence.
      exists o'.
      set (oc1 := chk10 oc (o_eof oc && negb (o_dirty oc))).
      assert (Rc1 : Rel mc oc1) by (eapply Rel_same; [reflexivity..|exact Rc]).
      assert (Oc1 : OI oc1) by (eapply OI_same; [reflexivity|exact Oc]).
      destruct (rel_finish_idle mc oc1 Rc1 Oc1) as (R1 & O1).
      destruct (finish_idle_flags oc1) as (_ & _ & Yb).
      destruct (finish_idle_proj oc1) as (_ & _ & _ & _ & _ & F6 & _). cbv zeta in F6.
      apply (Hfin OStreamEnd (wm_event mc OStreamEnd) (Some None) I eq_refl Hds eq_refl eq_refl Hhc).
      + eapply Rel_same; [reflexivity..|exact R1].
      + exact O1.
      + cbn [o_result]. fold oc1. rewrite Yb. unfold oc1. oproj. exact Bc.
      + intros Xc. cbn [o_result] in Xc. fold oc1 in Xc. rewrite F6 in Xc. unfold oc1 in Xc. oproj. rewrite Pc in Xc. congruence.
      + intros k mi hr A B. cbn [wm_event wm_incs] in A. destruct (Hhr k hr B) as (hr0 & B0 & St). sproj.
        assert (Lm : k < length (wm_incs m)) by (rewrite <- (mt_len _ _ _ MTc); apply nth_error_Some; congruence).
        apply nth_error_Some in Lm. destruct (nth_error (wm_incs m) k) as [mi0|] eqn:A0; [|congruence].
        rewrite (mt_gone _ _ _ MTc k mi0 mi A0 A), (wi_gone0 k mi0 hr0 A0 B0).
        destruct St as [St|(b & S1 & S2)]; [rewrite St; tauto|rewrite S1, S2; split; discriminate].
      + repeat split; reflexivity.
      + reflexivity.
      + reflexivity.
    - (* an error *)
      injection ES as <- <- <-.
      split. { rewrite existsb_app. cbn. destruct (filter keep_call new); reflexivity. }
      rewrite fold_left_app, fold_pre, EM. cbn [fold_left wm_event_h fst snd]. intros Hhc.
      destruct (Hcalls Hhc) as (Rc & Oc & Bc & Vc).
      assert (Hds : s_dropped s2 = false) by congruence.
      exists o'.
      destruct (o_result_err_proj oc a) as (E1 & E2 & E3 & _). cbv zeta in E1, E2, E3.
      destruct (o_result_err_flags oc a) as (_ & _ & Yb). cbv zeta in Yb.
      apply (Hfin (OStreamErr a) (wm_event mc (OStreamErr a)) (Some (Some a)) I eq_refl Hds eq_refl eq_refl Hhc).
      + eapply Rel_same; [reflexivity|reflexivity|reflexivity|exact E1|exact E2|exact E3|exact Rc].
      + eapply OI_same; [exact E1|exact Oc].
      + rewrite Yb. exact Bc.
      + intros _. eapply InvQ_frame; [exact (PostQ Bc)|exact E1|reflexivity|reflexivity].
      + intros k mi hr A B. cbn [wm_event wm_incs] in A. destruct (Hhr k hr B) as (hr0 & B0 & St). sproj.
        assert (Lm : k < length (wm_incs m)) by (rewrite <- (mt_len _ _ _ MTc); apply nth_error_Some; congruence).
        apply nth_error_Some in Lm. destruct (nth_error (wm_incs m) k) as [mi0|] eqn:A0; [|congruence].
        rewrite (mt_gone _ _ _ MTc k mi0 mi A0 A), (wi_gone0 k mi0 hr0 A0 B0).
        destruct St as [St|(b & S1 & S2)]; [rewrite St; tauto|rewrite S1, S2; split; discriminate].
      + repeat split; reflexivity.
      + reflexivity.
      + reflexivity.
    - (* pending *)
      injection ES as <- <- <-.
      split. { destruct (filter keep_call new); reflexivity. }
      rewrite fold_pre, EM. cbn [fst snd]. intros Hhc.
      destruct (Hcalls Hhc) as (Rc & Oc & Bc & Vc).
      assert (Hds : s_dropped s2 = false) by congruence.
      exists o'.
      destruct (rel_finish_idle mc oc Rc Oc) as (R1 & O1).
      destruct (finish_idle_flags oc) as (_ & _ & Yb).
      destruct (finish_idle_proj oc) as (_ & _ & _ & _ & _ & F6 & _). cbv zeta in F6.
      apply (Hfin OPending mc None I eq_refl Hds eq_refl eq_refl Hhc R1 O1).
      + cbn [o_result]. rewrite Yb. exact Bc.
      + intros Xc. cbn [o_result] in Xc. rewrite F6, Pc in Xc. congruence.
      + intros k mi hr A B. destruct (Hhr k hr B) as (hr0 & B0 & St). sproj.
        assert (Lm : k < length (wm_incs m)) by (rewrite <- (mt_len _ _ _ MTc); apply nth_error_Some; congruence).
        apply nth_error_Some in Lm. destruct (nth_error (wm_incs m) k) as [mi0|] eqn:A0; [|congruence].
        rewrite (mt_gone _ _ _ MTc k mi0 mi A0 A), (wi_gone0 k mi0 hr0 A0 B0).
        destruct St as [St|(b & S1 & S2)]; [rewrite St; tauto|rewrite S1, S2; split; discriminate].
      + repeat split; reflexivity.
      + rewrite (mt_alive _ _ _ MTc), wi_alive0, Hend. reflexivity.
      + intros Xc. cbn [o_result] in Xc. rewrite F6, Pc in Xc. congruence.
  Qed.

  (* ---- the handler half of a round ------------------------------------------------------- *)
  Definition nocalls (e : obs) : bool := match e with OCalls _ => false | _ => true end.

  Lemma wi_handlers : forall n (s : st) i acc s2 hev rel e,
    poll_handlers rel s i n acc = (s2, hev) ->
    exists evs, hev = acc ++ evs /\ existsb bad_obs evs = false /\ forallb nocalls evs = true
      /\ forall m o, WI (mkw s rel e) m o -> exists o2, WI (mkw s2 rel e) (fold_left wm_event evs m) o2.
  Proof.
    induction n as [|n IH]; intros s i acc s2 hev rel e H; cbn [poll_handlers] in H.
    { injection H as <- <-. exists []. rewrite app_nil_r. repeat split; auto. intros m o HW. exists o. exact HW. }
    destruct (nth_error (s_handlers s) i) as [hr|] eqn:Hi.
    2: { injection H as <- <-. exists []. rewrite app_nil_r. repeat split; auto. intros m o HW. exists o. exact HW. }
    destruct (h_live (h_st hr)).
    - destruct (execute_poll i (rel_of i rel) s) as [s1 l] eqn:EX.
      destruct (IH _ _ _ _ _ rel e H) as (evs & -> & B1 & N1 & Hrest).
      exists (filter keep_hev l ++ evs). rewrite app_assoc. split; [reflexivity|].
      assert (Hl : existsb bad_obs (filter keep_hev l) = false /\ forallb nocalls (filter keep_hev l) = true).
      { clear -EX. unfold execute_poll in EX. destruct (nth_error (s_handlers s) i) as [h0|]; [|injection EX as _ <-; auto].
        destruct (h_st h0);
          repeat match type of EX with
                 | context [if ?b then _ else _] => destruct b
                 | context [match s_permits s with _ => _ end] => destruct (s_permits s)
                 | context [match rel_of i rel with _ => _ end] => destruct (rel_of i rel)
                 end; injection EX as _ <-; cbn; auto. }
      destruct Hl as (Hl1 & Hl2).
      split; [rewrite existsb_app, Hl1, B1; reflexivity|]. split; [rewrite forallb_app, Hl2, N1; reflexivity|].
      intros m o HW. destruct (wi_hpoll (mkw s rel e) m o i (rel_of i rel) s1 l rel HW EX) as (HW1 & _).
      cbn [w_end] in HW1. rewrite fold_left_app. exact (Hrest _ _ HW1).
    - exact (IH _ _ _ _ _ rel e H).
  Qed.

  Lemma fold_h_false : forall evs mh, snd mh = false -> snd (fold_left wm_event_h evs mh) = false.
  Proof.
    induction evs as [|e evs IH]; intros mh H; cbn [fold_left]; [exact H|]. apply IH.
    destruct e; cbn [wm_event_h snd]; try exact H.
    destruct (snd (fold_left wm_call_h l mh)) eqn:E; [|reflexivity].
    pose proof (fold_hyp_true l mh E). congruence.
  Qed.

  Lemma fold_h_prefix : forall a b mh,
    snd (fold_left wm_event_h (a ++ b) mh) = true -> snd (fold_left wm_event_h a mh) = true.
  Proof.
    intros a b mh H. rewrite fold_left_app in H. destruct (snd (fold_left wm_event_h a mh)) eqn:E; [reflexivity|].
    rewrite (fold_h_false b _ E) in H. discriminate.
  Qed.

  Lemma fold_nocalls : forall evs m h, forallb nocalls evs = true ->
    fold_left wm_event_h evs (m, h) = (fold_left wm_event evs m, h).
  Proof. intros evs m h H. apply fold_event_h. exact H. Qed.

  (* ---- a whole settle --------------------------------------------------------------------- *)
  Lemma wi_settle : forall r (w : WST) so w' so',
    ssettle c r w so = (w', so') -> so_fuel so' = false ->
    exists evs, so_ev so' = so_ev so ++ evs /\ existsb bad_obs evs = false
      /\ forall m o, WI w m o -> snd (fold_left wm_event_h evs (m, true)) = true ->
                     exists o', WI w' (fst (fold_left wm_event_h evs (m, true))) o'.
  Proof.
    induction r as [|r IH]; intros w so w' so' H HF.
    { cbn in H. injection H as _ <-. cbn in HF. discriminate. }
    rewrite settle_S in H.
    destruct (stream_half c w) as [[[s1 e1] ev1] fuel1] eqn:ES.
    destruct (stream_pot _ _ _ _ _ _ ES) as (-> & _).
    destruct (poll_handlers (w_rel w) s1 0 (length (s_handlers s1)) []) as [s2 hev] eqn:EH.
    destruct (wi_handlers _ _ _ _ _ _ _ e1 EH) as (hevs & Ehev & B2 & N2 & Hh). cbn [app] in Ehev. subst hevs.
    cbv zeta in H. cbn match in H.
    assert (Hround : forall m o, WI w m o -> snd (fold_left wm_event_h (ev1 ++ hev) (m, true)) = true ->
              exists o2, WI (mkw s2 (w_rel w) e1) (fst (fold_left wm_event_h (ev1 ++ hev) (m, true))) o2).
    { intros m o HW Hs. destruct (wi_stream w m o s1 e1 ev1 HW ES) as (_ & Hst).
      pose proof (fold_h_prefix _ _ _ Hs) as Hs1. destruct (Hst Hs1) as (o1 & HW1).
      rewrite fold_left_app. destruct (fold_left wm_event_h ev1 (m, true)) as [m1 h1]. cbn [fst snd] in *. subst h1.
      rewrite (fold_nocalls hev m1 true N2). cbn [fst]. exact (Hh m1 o1 HW1). }
    assert (Hbad : existsb bad_obs (ev1 ++ hev) = false).
    { rewrite existsb_app, B2. destruct (existsb bad_obs ev1) eqn:E; [|reflexivity].
      exfalso. clear -ES E. unfold stream_half in ES. cbv zeta in ES.
      destruct (s_dropped (w_s w) || is_some (w_end w)); [injection ES as _ _ <-; discriminate|].
      destruct (poll_requests stp sfuel c (w_s w)) as [s' l].
      destruct l as [|[log| | | | | | | | | | | | |] [|res [|x y]]]; try (injection ES as _ _ <-; discriminate).
      destruct (filter keep_call log); destruct res; injection ES as _ _ <-; discriminate. }
    match type of H with (if ?q then _ else _) = _ => destruct q end.
    - injection H as <- <-. cbn [so_ev]. exists (ev1 ++ hev). split; [reflexivity|split; [exact Hbad|exact Hround]].
    - destruct (IH _ _ _ _ H HF) as (evs & E & B & Hrest). cbn [so_ev] in E.
      exists ((ev1 ++ hev) ++ evs). split; [rewrite E, <- !app_assoc; reflexivity|].
      split; [rewrite existsb_app, Hbad, B; reflexivity|].
      intros m o HW Hs. pose proof (fold_h_prefix _ _ _ Hs) as Hs1.
      destruct (Hround m o HW Hs1) as (o2 & HW2). rewrite fold_left_app in Hs |- *.
      destruct (fold_left wm_event_h (ev1 ++ hev) (m, true)) as [m2 h2]. cbn [fst snd] in *. subst h2.
      exact (Hrest m2 o2 HW2 Hs).
  Qed.

  (* ---- the initial state ------------------------------------------------------------------ *)
  Lemma wi_init : WI (mkw (init c (st_init cmsg cap coupled)) [] None) wm0 o_init /\ NY (init (T := ST) c (st_init cmsg cap coupled)).
  Proof.
    assert (E : forall A (x : A) (i : nat), nth_error (@nil A) i = Some x -> False) by (intros A x [|i]; discriminate).
    destruct (top_init (T := ST) c (st_init cmsg cap coupled)) as (HT & Hb).
    split.
    - constructor; cbn [w_s w_end].
      + exact HT.
      + exact Hb.
      + exact (topH_init c (st_init cmsg cap coupled)).
      + reflexivity.
      + reflexivity.
      + split; [reflexivity|split; [reflexivity|split; [reflexivity|]]]. intros k mi oi A. exfalso. exact (E _ _ _ A).
      + intros k oi A. exfalso. exact (E _ _ _ A).
      + constructor; cbn.
        * intros k hr oi A. exfalso. exact (E _ _ _ A).
        * constructor.
        * intros mm [].
      + intros k mi hr A. exfalso. exact (E _ _ _ A).
      + apply PAcc_init.
      + apply DA_init.
      + apply QPm_init.
      + constructor; cbn; auto. intros _. repeat split; reflexivity.
      + cbn. discriminate.
      + reflexivity.
      + cbn. discriminate.
    - intros j (hr & A & _). exact (E _ _ _ A).
  Qed.
End Run.
