(* Timer wheel proofs, part 2: the wheel invariant and what next_expiration returns. *)
From Coq Require Import List Bool Arith NArith Lia Permutation.
Import ListNotations.
From TarpcV Require Import TimerWheel TimerWheelProofs0 TimerWheelProofs1.
Local Open Scope N_scope.

Notation rr := slot_range.
Definition sstart (lv : nat) (w : N) : N := rr lv * (w / rr lv).

(* ---------------------------------------------------------------- arithmetic *)
Lemma rr_nz lv : rr lv <> 0. Proof. pose proof (slot_range_pos lv). lia. Qed.
Lemma div_S lv w : w / rr (S lv) = (w / rr lv) / 64.
Proof. rewrite slot_range_S, N.mul_comm, N.div_div by (try apply rr_nz; discriminate). reflexivity. Qed.
Lemma div_decomp lv w : w / rr lv = 64 * (w / rr (S lv)) + slot_for w lv.
Proof. rewrite slot_for_div, div_S. apply N.div_mod. discriminate. Qed.
Lemma sstart_decomp lv w : sstart lv w = rr (S lv) * (w / rr (S lv)) + slot_for w lv * rr lv.
Proof. unfold sstart. rewrite (div_decomp lv w), slot_range_S. lia. Qed.
Lemma sstart_le lv w : sstart lv w <= w.
Proof. unfold sstart. apply N.mul_div_le, rr_nz. Qed.
Lemma sstart_lt lv w : w < sstart lv w + rr lv.
Proof. unfold sstart. pose proof (N.mul_succ_div_gt w (rr lv) (rr_nz lv)) as H. rewrite N.mul_succ_r in H. lia. Qed.
Lemma sstart_div lv w : sstart lv w / rr lv = w / rr lv.
Proof. unfold sstart. rewrite N.mul_comm. apply N.div_mul, rr_nz. Qed.
Lemma level_start lv E : E - E mod rr (S lv) = rr (S lv) * (E / rr (S lv)).
Proof. pose proof (N.div_mod E (rr (S lv)) (rr_nz _)). dlia. Qed.

Lemma slot_order lv E w :
  w / rr (S lv) = E / rr (S lv) -> E <= sstart lv w -> slot_for E lv <= slot_for w lv.
Proof.
  intros B L. assert (D : E / rr lv <= w / rr lv).
  { rewrite <- (sstart_div lv w). apply N.div_le_mono; [apply rr_nz|exact L]. }
  rewrite (div_decomp lv E), (div_decomp lv w), B in D. lia.
Qed.
Lemma dist_simpl s ns : ns <= s -> s < 64 -> (s + 64 - ns) mod 64 = s - ns.
Proof.
  intros A B. replace (s + 64 - ns) with ((s - ns) + 1 * 64) by lia.
  rewrite N.mod_add by discriminate. apply N.mod_small. lia.
Qed.

Lemma rr_add a b : rr (a + b) = rr a * rr b.
Proof. unfold slot_range. rewrite Nat2N.inj_add, N.pow_add_r. reflexivity. Qed.
Lemma rr_mult lv lv' : (lv < lv')%nat -> exists c, 0 < c /\ rr lv' = rr (S lv) * c.
Proof.
  intro L. exists (rr (lv' - S lv)). split; [apply slot_range_pos|].
  rewrite <- rr_add. f_equal. lia.
Qed.

(* an entry of a higher level whose slot has not begun lies after every entry of a lower level
   in the current block *)
Lemma cross_level lv lv' E wa wb :
  (lv < lv')%nat -> wa / rr (S lv) = E / rr (S lv) -> E < sstart lv' wb -> wa < sstart lv' wb.
Proof.
  intros L B H. destruct (rr_mult lv lv' L) as (c & C0 & C).
  unfold sstart in *. rewrite C in *. set (P := rr (S lv)) in *. set (k := wb / (P * c)) in *.
  assert (PN : P <> 0) by apply rr_nz.
  pose proof (N.mul_succ_div_gt wa P PN) as U. rewrite B in U.
  pose proof (N.mul_div_le E P PN) as V.
  assert (E / P < c * k).
  { apply N.nle_gt. intro Q. assert (P * (c * k) <= P * (E / P)) by (apply N.mul_le_mono_l; exact Q). lia. }
  assert (P * N.succ (E / P) <= P * (c * k)) by (apply N.mul_le_mono_l; lia).
  rewrite <- N.mul_assoc. lia.
Qed.

(* ---------------------------------------------------------------- the invariant *)
(* entry with deadline w in slot sl of level lv, wheel at elapsed E; m = the working level of a
   poll in progress (1 between API calls): levels below m-1 are empty, levels from m up have not
   begun their slots *)
Record eok (E : N) (m lv : nat) (sl w : N) : Prop := {
  eo_lv : (lv <= 5)%nat;
  eo_rng : w < RNG;
  eo_slot : sl = slot_for w lv;
  eo_blk : w / rr (S lv) = E / rr (S lv);
  eo_le : E <= sstart lv w;
  eo_lt : (m <= lv)%nat -> E < sstart lv w;
  eo_low : (m <= S lv)%nat }.

Record WI (m : nat) (w : wheel) : Prop := {
  wi_rng : w_elapsed w < RNG;
  wi_wf : wf (w_slots w);
  wi_ok : forall lv sl e, In e (stack_of lv sl (w_slots w)) -> eok (w_elapsed w) m lv sl (we_when e) }.

Lemma eok_weaken E m m' lv sl w : (m' <= m)%nat -> (forall lv', (m' <= lv')%nat -> (lv' < m)%nat -> lv' <> lv \/ E < sstart lv w) ->
  eok E m lv sl w -> eok E m' lv sl w.
Proof.
  intros L S []. constructor; try assumption; [|lia].
  intro H. destruct (Nat.le_gt_cases m lv) as [A|A]; [auto|]. destruct (S lv H A) as [X|X]; [congruence|exact X].
Qed.

(* ---------------------------------------------------------------- one level *)
Definition occ (lv : nat) (l : list wslot) : list N := map ws_slot (filter (fun x => Nat.eqb (ws_level x) lv) l).

Lemma occ_in lv l s : wf l -> (In s (occ lv l) <-> stack_of lv s l <> []).
Proof.
  intros [K NE]. unfold occ. rewrite in_map_iff. split.
  - intros (x & <- & I). apply filter_In in I. destruct I as [I L]. apply Nat.eqb_eq in L. subst lv.
    rewrite (stack_of_wf l x K I). apply NE, I.
  - intro H. destruct (stack_of lv s l) as [|e st] eqn:S; [congruence|].
    destruct (stack_of_in lv s l e) as (x & I & Kx & _); [rewrite S; left; reflexivity|].
    exists x. injection Kx as <- <-. split; [reflexivity|]. apply filter_In. split; [exact I|apply Nat.eqb_refl].
Qed.

Lemma fold_min (d : N -> N) r : forall s0,
  let b := fold_left (fun b s => if d s <? d b then s else b) r s0 in
  In b (s0 :: r) /\ forall s, In s (s0 :: r) -> d b <= d s.
Proof.
  induction r as [|x r IH]; intro s0; cbn [fold_left].
  - split; [left; reflexivity|]. intros s [<-|[]]. lia.
  - destruct (d x <? d s0) eqn:C.
    + apply N.ltb_lt in C. destruct (IH x) as [I M]. split.
      * destruct I as [I|I]; [right; left; exact I|right; right; exact I].
      * intros s [<-|[<-|H]]; [specialize (M x (or_introl eq_refl)); lia|apply M; left; reflexivity|apply M; right; exact H].
    + apply N.ltb_ge in C. destruct (IH s0) as [I M]. split.
      * destruct I as [I|I]; [left; exact I|right; right; exact I].
      * intros s [<-|[<-|H]]; [apply M; left; reflexivity|specialize (M s0 (or_introl eq_refl)); lia|apply M; right; exact H].
Qed.

(* what level_next returns under the invariant: the occupied slot with the least start *)
Lemma level_next_spec m lv w :
  WI m w ->
  match level_next lv (w_elapsed w) (w_slots w) with
  | None => forall sl, stack_of lv sl (w_slots w) = []
  | Some (sl, dl) =>
    stack_of lv sl (w_slots w) <> [] /\
    (forall e, In e (stack_of lv sl (w_slots w)) -> sstart lv (we_when e) = dl) /\
    (forall sl' e', In e' (stack_of lv sl' (w_slots w)) -> sl' <> sl -> dl < sstart lv (we_when e'))
  end.
Proof.
  intros [RG W OK]. set (E := w_elapsed w) in *. set (l := w_slots w) in *.
  unfold level_next. fold (occ lv l). destruct (occ lv l) as [|s0 r] eqn:EO.
  - intro sl. destruct (stack_of lv sl l) eqn:S; [reflexivity|].
    assert (In sl (occ lv l)) by (apply occ_in; [exact W|congruence]). rewrite EO in H. destruct H.
  - cbv zeta.
    set (ns := (E / rr lv) mod 64). set (d := fun s => (s + 64 - ns) mod 64).
    destruct (fold_min d r s0) as [IB MB]. cbv zeta in IB, MB. set (b := fold_left _ r s0) in *.
    rewrite <- EO in IB, MB.
    assert (NS : ns = slot_for E lv) by (unfold ns; rewrite slot_for_div; reflexivity).
    (* every occupied slot s of this level: ns <= s < 64, d s = s - ns, start = level start + s * r *)
    assert (F : forall s e, In e (stack_of lv s l) ->
                  ns <= s /\ s < 64 /\ d s = s - ns /\ sstart lv (we_when e) = rr (S lv) * (E / rr (S lv)) + s * rr lv
                  /\ E <= sstart lv (we_when e)).
    { intros s e I. destruct (OK _ _ _ I) as [_ _ SL BL LE _ _].
      assert (A : ns <= s) by (rewrite NS, SL; apply slot_order; assumption).
      assert (B : s < 64) by (rewrite SL; apply slot_for_lt).
      split; [exact A|]. split; [exact B|]. split; [apply dist_simpl; assumption|].
      split; [rewrite sstart_decomp, BL, <- SL; reflexivity|exact LE]. }
    assert (NEb : stack_of lv b l <> []) by (apply occ_in; assumption).
    destruct (stack_of lv b l) as [|eb stb] eqn:Sb; [congruence|].
    destruct (F b eb) as (B1 & B2 & B3 & B4 & B5); [rewrite Sb; left; reflexivity|].
    rewrite level_range_S, level_start.
    assert (DL : (rr (S lv) * (E / rr (S lv)) + b * rr lv <? E) = false).
    { apply N.ltb_ge. rewrite <- B4. exact B5. }
    rewrite DL. split; [congruence|]. split.
    + intros e I. rewrite <- Sb in I. destruct (F b e I) as (_ & _ & _ & X & _). exact X.
    + intros sl' e' I NEQ. destruct (F sl' e' I) as (C1 & C2 & C3 & C4 & _).
      assert (IO : In sl' (occ lv l)) by (apply occ_in; [exact W|intro Z; rewrite Z in I; destruct I]).
      specialize (MB sl' IO). rewrite B3, C3 in MB. rewrite C4.
      assert (b < sl') by lia. pose proof (slot_range_pos lv). nia.
Qed.

(* ---------------------------------------------------------------- all levels *)
Record nexp (w : wheel) (lv : nat) (sl dl : N) : Prop := {
  ne_below : forall lv' sl', (lv' < lv)%nat -> stack_of lv' sl' (w_slots w) = [];
  ne_lv : (lv <= 5)%nat;
  ne_occ : stack_of lv sl (w_slots w) <> [];
  ne_dl : forall e, In e (stack_of lv sl (w_slots w)) -> sstart lv (we_when e) = dl;
  ne_min : forall lv' sl' e', In e' (stack_of lv' sl' (w_slots w)) -> (lv', sl') <> (lv, sl) ->
             dl < sstart lv' (we_when e');
  ne_ge : w_elapsed w <= dl }.

Lemma next_exp_from_spec m w n : forall lv0,
  WI m w -> (lv0 + n = 6)%nat ->
  (forall lv' sl', (lv' < lv0)%nat -> stack_of lv' sl' (w_slots w) = []) ->
  match next_exp_from lv0 n (w_elapsed w) (w_slots w) with
  | None => forall lv sl, stack_of lv sl (w_slots w) = []
  | Some (lv, sl, dl) => nexp w lv sl dl
  end.
Proof.
  induction n as [|n IH]; intros lv0 I S B; cbn [next_exp_from].
  - intros lv sl. destruct (stack_of lv sl (w_slots w)) as [|e st] eqn:Q; [reflexivity|].
    destruct (Nat.lt_ge_cases lv lv0) as [L|L]; [rewrite (B lv sl L) in Q; discriminate|].
    destruct (wi_ok _ _ I lv sl e) as [LV _ _ _ _ _ _]; [rewrite Q; left; reflexivity|]. lia.
  - pose proof (level_next_spec m lv0 w I) as LN.
    destruct (level_next lv0 (w_elapsed w) (w_slots w)) as [[sl dl]|].
    + destruct LN as (NE & DL & MIN).
      destruct (stack_of lv0 sl (w_slots w)) as [|e0 st0] eqn:Q0; [congruence|].
      destruct (wi_ok _ _ I lv0 sl e0) as [LV0 _ _ BL0 LE0 _ LOW0]; [rewrite Q0; left; reflexivity|].
      assert (D0 : sstart lv0 (we_when e0) = dl) by (apply DL; left; reflexivity).
      constructor; try assumption.
      * congruence.
      * rewrite Q0. exact DL.
      * intros lv' sl' e' I' NEQ. destruct (lt_eq_lt_dec lv' lv0) as [[L|L]|L]; [| subst lv' |].
        -- rewrite (B lv' sl' L) in I'. destruct I'.
        -- apply (MIN sl'); [exact I'|]. intro Z. apply NEQ. congruence.
        -- destruct (wi_ok _ _ I lv' sl' e' I') as [_ _ _ _ _ LT' _].
           rewrite <- D0. eapply N.le_lt_trans; [apply sstart_le|].
           eapply cross_level; [exact L|exact BL0|]. apply LT'. lia.
      * rewrite <- D0. exact LE0.
    + apply IH; [exact I|lia|]. intros lv' sl' L. destruct (Nat.eq_dec lv' lv0) as [->|NE]; [apply LN|apply B; lia].
Qed.

Lemma next_expiration_spec m w :
  WI m w ->
  match next_expiration w with
  | None => forall lv sl, stack_of lv sl (w_slots w) = []
  | Some (lv, sl, dl) => nexp w lv sl dl
  end.
Proof. intro I. unfold next_expiration. apply (next_exp_from_spec m w 6 0 I eq_refl). intros lv' sl' L. lia. Qed.
