(* Client proofs, group G3, part d: the observer/model relation behind C10 and C03 -- every
   written request is in flight, cancelled on the wire or ended; an abandoned call whose
   request is in flight has its cancel message queued; oneshot receivers of abandoned calls
   are closed; timers fire no earlier than deadline / clamp; after poll_close nothing can be
   queued -- and its preservation by every micro-step of a dispatch poll and by every op. *)
From Coq Require Import List Bool Arith NArith Lia ZifyBool ZifyNat ZifyN.
Import ListNotations.
From TarpcV Require Import Base Transport Client ClientS ClientMon ClientSpec ClientLemmas
  ClientProofsG1Frames ClientSimBase ClientProofsG3a ClientProofsG3b ClientProofsG3c.
Local Open Scope N_scope.

Arguments N.modulo : simpl never.
Arguments N.add : simpl never.
Arguments N.min : simpl never.
Arguments N.sub : simpl never.

(* ================================================================== the simulation at every micro-step *)
Section DsimStep.
  Context {T : Type} (tp : transport T cmsg resp) (maxif : nat) (mb : mst).
  Notation cstate := (@cstate T).
  Implicit Types (s : cstate).

  Lemma dsim_mstep e s s' : mstep tp e s s' -> dsim maxif mb s -> dsim maxif mb s'.
  Proof.
    intros H D. destruct H.
    - pose proof (dsim_do_ready tp maxif mb s D) as K. rewrite H in K. exact K.
    - pose proof (dsim_do_flush tp maxif mb s D) as K. rewrite H in K. exact K.
    - pose proof (dsim_do_close tp maxif mb s D) as K. rewrite H3 in K. exact K.
    - pose proof (dsim_pump_read tp maxif mb s D) as K. unfold pump_read in K. rewrite H in K. exact K.
    - pose proof (dsim_pump_read tp maxif mb s D) as K. unfold pump_read in K. rewrite H in K.
      destruct r; try exact K. exfalso. eapply H0; reflexivity.
    - pose proof (dsim_next_request_loop maxif mb 1 s D) as K. cbn [next_request_loop] in K.
      rewrite H, H0 in K. exact K.
    - pose proof (dsim_next_request_loop maxif mb 1 s D) as K. cbn [next_request_loop] in K.
      rewrite H, H0 in K. cbn [fst snd] in K.
      revert H1. unfold do_send.
      destruct (t_send tp (tr (insert_request s1 q)) (MReq (q_id q) (q_deadline q) (q_tc q) (q_body q)))
        as [w' t]. intros [= <- <-].
      pose proof (sim_send_request (cur mb s1) s1 q w' t (fused (insert_request s1 q))
                    (plog (insert_request s1 q) ++ [req_call q w']) (ds_sim _ _ _ K)) as S2.
      pose proof (v18_send_request maxif (cur mb s1) s1 q w' (ds_sim _ _ _ K)) as V2.
      apply dsim_withq_drop in K.
      destruct w'.
      + eapply dsim_step; [exact K|reflexivity|exact S2|exact V2].
      + eapply dsim_step; [exact K|rewrite plog_complete_request; reflexivity|exact S2|exact V2].
    - pose proof (dsim_next_cancel_loop maxif mb 1 s D) as [K _]. cbn [next_cancel_loop] in K.
      rewrite H, H0 in K. exact K.
    - pose proof (dsim_next_cancel_loop maxif mb 1 s D) as [K C]. cbn [next_cancel_loop] in K, C.
      rewrite H, H0 in K, C. cbn [fst snd] in K, C.
      revert H1. unfold do_send. destruct (t_send tp (tr s2) (MCancel id (if_tc e))) as [w' t].
      intros [= <- <-].
      assert (H3 : dsim maxif mb (upd_tr s2 t (fused s2) (plog s2 ++ [CSend (MCancel id (if_tc e)) w']))).
      { apply dsim_other; [exact K|reflexivity|reflexivity|]. apply v18_cancel, C. reflexivity. }
      exact H3.
    - pose proof (dsim_poll_expired maxif mb s D) as K. rewrite H in K. exact K.
  Qed.

  Lemma dsim_msteps e s s' : msteps tp e s s' -> dsim maxif mb s -> dsim maxif mb s'.
  Proof.
    induction 1 as [s|a s s' H|e s s1 s2 H1 H2 IH]; intro D; [exact D|eapply dsim_mstep; eassumption|].
    apply IH. eapply dsim_mstep; eassumption.
  Qed.
End DsimStep.

(* ================================================================== observer facts *)
Definition cancel_id (c : tcall cmsg resp) (id : N) : bool :=
  match c with CSend (MCancel id' _) _ => N.eqb id' id | _ => false end.

Lemma cancelled_rec_call m c id : cancelled (rec_call m c) id = cancelled m id || cancel_id c id.
Proof.
  unfold cancelled. rewrite rec_call_cancels, existsb_app.
  destruct c as [x|[id' dl tc b|id' tc] x|x|x|[x| | |]]; cbn; rewrite ?orb_false_r; reflexivity.
Qed.

Lemma read_any_after_mono m c id q :
  read_any_after m id q = true -> read_any_after (rec_call m c) id q = true.
Proof. unfold read_any_after. rewrite rec_call_read, existsb_app. intros ->. reflexivity. Qed.

Lemma ended_rec_call m c sr : ended m sr = true -> ended (rec_call m c) sr = true.
Proof.
  unfold ended. rewrite rec_call_now. intro H.
  apply orb_true_iff in H. destruct H as [H|H]; [|rewrite H; apply orb_true_r].
  apply orb_true_iff in H. destruct H as [H|H]; [|rewrite H; rewrite orb_true_r; reflexivity].
  apply orb_true_iff in H. destruct H as [H|H]; [rewrite H; reflexivity|].
  rewrite (read_any_after_mono _ _ _ _ H). rewrite orb_true_r. reflexivity.
Qed.

Lemma ended_read m x sr :
  s_id sr = r_id x -> (s_seq sr <= m_seq m)%nat -> ended (rec_call m (CNext (RItem x))) sr = true.
Proof.
  intros Hid Hq. unfold ended.
  assert (H : read_any_after (rec_call m (CNext (RItem x))) (s_id sr) (s_seq sr) = true).
  { unfold read_any_after. cbn [rec_call m_read]. rewrite existsb_app. cbn [existsb].
    rewrite Hid, N.eqb_refl. replace (s_seq sr <? S (m_seq m))%nat with true by lia.
    cbn. rewrite orb_true_r. reflexivity. }
  rewrite H, orb_true_r. reflexivity.
Qed.

Lemma ended_failed m sr : s_ok sr = false -> ended m sr = true.
Proof. unfold ended. intros ->. reflexivity. Qed.

Lemma ended_time m sr w :
  (s_deadline sr <= w \/ s_time sr + max_timeout_ms <= w) -> w <= m_now m -> ended m sr = true.
Proof.
  unfold ended. intros [H|H] Hw.
  - replace (s_deadline sr <=? m_now m) with true by lia. rewrite orb_true_r. reflexivity.
  - replace (s_time sr + max_timeout_ms <=? m_now m) with true by lia. apply orb_true_r.
Qed.

Lemma ended_now m m' sr :
  m_read m' = m_read m -> m_now m <= m_now m' -> ended m sr = true -> ended m' sr = true.
Proof.
  intros Er Hn. unfold ended, read_any_after. rewrite Er. intro H.
  apply orb_true_iff in H. destruct H as [H|H].
  - apply orb_true_iff in H. destruct H as [H|H].
    + rewrite H. reflexivity.
    + apply N.leb_le in H. replace (s_deadline sr <=? m_now m') with true by lia.
      rewrite orb_true_r. reflexivity.
  - apply N.leb_le in H. replace (s_time sr + max_timeout_ms <=? m_now m') with true by lia.
    apply orb_true_r.
Qed.

Definition livep (p : phase) : bool :=
  match p with PAcquiring | PAssigned | PAcqClosed | PAwaiting => true | _ => false end.

Section RA.
  Context {T : Type}.
  Variable tp : transport T cmsg resp.
  Notation cstate := (@cstate T).
  Notation op := (@op T).
  Notation Inv := (InvX []).
  Implicit Types (s : cstate) (m : mst).

  Record RA m s : Prop := {
    ra_ie : forall sr, In sr (m_sent m) ->
      In (s_id sr) (map fst (inflight s)) \/ cancelled m (s_id sr) = true \/ ended m sr = true \/
      terminal s <> None \/ dropped s = true;
    ra_ac : forall i c, nth_error (calls s) i = Some c -> c_phase c = PGone -> In i (m_polled m) ->
      In (c_id c) (map fst (inflight s)) -> In (c_id c) (cancels s) \/ dropped s = true;
    ra_rxc : forall i c, nth_error (calls s) i = Some c -> c_phase c = PClosing \/ c_phase c = PGone ->
      In i (m_polled m) -> sl_rx_closed (slotv (slots s) (c_id c)) = true;
    ra_ti : forall id w sr, In (id, w) (timers s) -> In sr (m_sent m) -> s_id sr = id ->
      s_deadline sr <= w \/ s_time sr + max_timeout_ms <= w;
    ra_cc : m_close_called m = true -> senders s = 0%nat /\ queue s = [] /\ cancels s = [] }.

  (* what RA reads of the observer: sent, cancels, read, now, polled, close_called *)
  Lemma RA_frame m m' s s' :
    m_sent m' = m_sent m -> m_cancels m' = m_cancels m -> m_read m' = m_read m ->
    m_now m' = m_now m -> m_polled m' = m_polled m -> m_close_called m' = m_close_called m ->
    calls s' = calls s -> handles s' = handles s -> inflight s' = inflight s -> timers s' = timers s ->
    slots s' = slots s -> queue s' = queue s -> cancels s' = cancels s -> terminal s' = terminal s ->
    dropped s' = dropped s -> RA m s -> RA m' s'.
  Proof.
    intros M1 M2 M3 M4 M5 M6 E1 E2 E3 E4 E5 E6 E7 E8 E9 [].
    assert (Hc : forall id, cancelled m' id = cancelled m id) by (intro; unfold cancelled; rewrite M2; reflexivity).
    assert (He : forall sr, ended m' sr = ended m sr)
      by (intro; unfold ended, read_any_after; rewrite M3, M4; reflexivity).
    constructor; unfold senders in *;
      rewrite ?M1, ?M5, ?M6, ?E1, ?E2, ?E3, ?E4, ?E5, ?E6, ?E7, ?E8, ?E9; try assumption.
    intros sr Hsr. rewrite Hc, He. apply ra_ie0, Hsr.
  Qed.

  (* the observer moves on by a call that is neither a request write, a cancel write nor a close *)
  Lemma close_called_rec_call m c :
    m_close_called (rec_call m c) = match c with CClose _ => true | _ => m_close_called m end.
  Proof. destruct c as [x|[id' dl tc b|id' tc] x|x|x|[x| | |]]; reflexivity. Qed.

  Lemma RA_rec_mono m s c :
    sent_of m c = [] -> (forall r, c <> CClose r) -> RA m s -> RA (rec_call m c) s.
  Proof.
    intros Es Hc []. constructor; rewrite ?rec_call_sent, ?Es, ?app_nil_r, ?rec_call_polled; try assumption.
    - intros sr Hsr. destruct (ra_ie0 sr Hsr) as [H|[H|[H|H]]]; [tauto| |right; right; left; apply ended_rec_call, H|tauto].
      right; left. rewrite cancelled_rec_call, H. reflexivity.
    - rewrite close_called_rec_call. destruct c; try assumption. exfalso. eapply Hc; reflexivity.
  Qed.

  Lemma RA_rec_close m s r :
    senders s = 0%nat -> queue s = [] -> cancels s = [] -> RA m s -> RA (rec_call m (CClose r)) s.
  Proof.
    intros H1 H2 H3 []. constructor; try assumption. intros _. auto.
  Qed.

  (* the model moves on, losing (not gaining) tracked state *)
  Definition calls_ok s s' : Prop :=
    forall i c', nth_error (calls s') i = Some c' ->
      exists c, nth_error (calls s) i = Some c /\ c_id c' = c_id c /\
                (c_phase c' = c_phase c \/ (c_phase c = PAcquiring /\ c_phase c' = PAssigned)).

  Lemma calls_ok_eq s s' : calls s' = calls s -> calls_ok s s'.
  Proof. intros E i c' H. rewrite E in H. exists c'. auto. Qed.
  Lemma calls_ok_trans s1 s2 s3 : calls_ok s1 s2 -> calls_ok s2 s3 -> calls_ok s1 s3.
  Proof.
    intros H1 H2 i c3 H. destruct (H2 i c3 H) as (c2 & Hc2 & E2 & P2).
    destruct (H1 i c2 Hc2) as (c1 & Hc1 & E1 & P1). exists c1. split; [exact Hc1|]. split; [congruence|].
    destruct P2 as [P2|[P2 P2']]; destruct P1 as [P1|[P1 P1']].
    - left; congruence.
    - right. rewrite P2. auto.
    - right. rewrite <- P1. auto.
    - right. auto.
  Qed.

  Lemma RA_shrink m s s' :
    calls_ok s s' -> (senders s = 0%nat -> senders s' = 0%nat) ->
    (queue s = [] -> queue s' = []) -> (cancels s = [] -> cancels s' = []) ->
    (forall id, In id (map fst (inflight s')) -> In id (map fst (inflight s))) ->
    (forall id, In id (cancels s) -> In id (map fst (inflight s')) -> In id (cancels s')) ->
    (forall sr, In sr (m_sent m) -> In (s_id sr) (map fst (inflight s)) ->
        In (s_id sr) (map fst (inflight s')) \/ cancelled m (s_id sr) = true \/ ended m sr = true) ->
    (forall x, In x (timers s') -> In x (timers s)) ->
    (forall id, sl_rx_closed (slotv (slots s) id) = true -> sl_rx_closed (slotv (slots s') id) = true) ->
    terminal s' = terminal s -> dropped s' = dropped s -> RA m s -> RA m s'.
  Proof.
    intros Hc Hs Hq Hcn Hif Hcan Hie Hti Hsl Et Ed []. constructor; rewrite ?Et, ?Ed.
    - intros sr Hsr. destruct (ra_ie0 sr Hsr) as [H|H]; [|tauto].
      destruct (Hie sr Hsr H) as [H'|[H'|H']]; tauto.
    - intros i c' Hc' Hp Hpol Hin. destruct (Hc i c' Hc') as (c & Hc0 & Eid & Pp).
      assert (Hp0 : c_phase c = PGone).
      { destruct Pp as [Pp|[_ Pp]]; [congruence|rewrite Hp in Pp; discriminate]. }
      rewrite Eid in *. destruct (ra_ac0 i c Hc0 Hp0 Hpol (Hif _ Hin)) as [H|H]; [|tauto].
      left. apply Hcan; assumption.
    - intros i c' Hc' Hp Hpol. destruct (Hc i c' Hc') as (c & Hc0 & Eid & Pp).
      rewrite Eid. apply Hsl. apply (ra_rxc0 i c Hc0); [|exact Hpol].
      destruct Pp as [Pp|[_ Pp]]; [rewrite <- Pp; exact Hp|].
      destruct Hp as [Hp|Hp]; rewrite Hp in Pp; discriminate.
    - intros id w sr Hin. apply ra_ti0, Hti, Hin.
    - intro H. destruct (ra_cc0 H) as (H1 & H2 & H3). auto.
  Qed.

  (* ---------------------------------------------------------------- the request queue *)
  Lemma live_phase_livep p : livep p = true -> live_phase p = true.
  Proof. destruct p; try discriminate; reflexivity. Qed.

  Lemma filter_live_phase_calls l i p c :
    nth_error l i = Some c -> live_phase (c_phase c) = live_phase p ->
    length (filter (fun c => live_phase (c_phase c)) (phase_calls l i p)) =
    length (filter (fun c => live_phase (c_phase c)) l).
  Proof.
    unfold phase_calls. intros H Hp. rewrite H. clear - H Hp. revert i H.
    induction l as [|y r IH]; intros [|i] H; cbn in *; try discriminate.
    - injection H as ->. cbn [c_phase with_phase]. rewrite <- Hp.
      destruct (live_phase (c_phase c)); reflexivity.
    - destruct (live_phase (c_phase y)); cbn; rewrite (IH i H); reflexivity.
  Qed.

  Lemma release_permit_calls s :
    winv s -> calls_ok s (release_permit s) /\ senders (release_permit s) = senders s.
  Proof.
    intros [Wa _]. unfold release_permit. destruct (waiters s) as [|w r] eqn:Ew.
    - split; [apply calls_ok_eq; reflexivity|reflexivity].
    - destruct (Wa w) as (c & Hc & Hp); [first [left; reflexivity|rewrite Ew; left; reflexivity]|].
      rewrite set_phase_alt. split.
      + intros i c' H. cbn [calls upd_calls upd_q] in H. apply nth_error_phase_calls_inv in H.
        destruct H as [[-> (c0 & Hc0 & ->)]|[Hn H]].
        * exists c0. split; [exact Hc0|]. split; [reflexivity|]. right.
          assert (c0 = c) by congruence. subst c0. rewrite Hp. split; reflexivity.
        * exists c'. auto.
      + unfold senders. cbn [handles calls upd_calls upd_q]. f_equal.
        apply (filter_live_phase_calls _ _ _ c Hc). rewrite Hp. reflexivity.
  Qed.

  Lemma q_pop_fields s q s1 :
    q_poll_recv s = (RvSome q, s1) -> winv s ->
    queue s = q :: queue s1 /\ calls_ok s s1 /\ senders s1 = senders s /\
    inflight s1 = inflight s /\ timers s1 = timers s /\ slots s1 = slots s /\ cancels s1 = cancels s /\
    terminal s1 = terminal s /\ dropped s1 = dropped s /\ now s1 = now s.
  Proof.
    unfold q_poll_recv. destruct (queue s) as [|y r] eqn:Eq;
      [destruct (Nat.eqb _ _); [discriminate|]; destruct (_ && _); discriminate|].
    intros [= <- <-] W.
    set (s0 := upd_q s (permits s) r (waiters s) (rx_closed s)).
    assert (W0 : winv s0) by (eapply winv_frame; [exact W|reflexivity..]).
    destruct (release_permit_calls s0 W0) as [C S].
    pose proof (IFrame_release_permit s0) as F.
    assert (G : queue (release_permit s0) = r /\ inflight (release_permit s0) = inflight s /\
                timers (release_permit s0) = timers s /\ slots (release_permit s0) = slots s /\
                cancels (release_permit s0) = cancels s).
    { unfold release_permit. destruct (waiters s0); [repeat split|]. rewrite set_phase_alt. repeat split. }
    destruct G as (G1 & G2 & G3 & G4 & G5).
    rewrite G1, G2, G3, G4, G5. repeat split; try assumption.
    - apply (pf_terminal _ _ (if_p _ _ F)).
    - apply (pf_dropped _ _ (if_p _ _ F)).
    - apply (pf_now _ _ (if_p _ _ F)).
  Qed.

  (* ---------------------------------------------------------------- oneshot receivers stay closed *)
  Lemma rxc_set_slot s id x id' :
    (sl_rx_closed (slotv (slots s) id) = true -> sl_rx_closed x = true) ->
    sl_rx_closed (slotv (slots s) id') = true -> sl_rx_closed (slotv (slots (set_slot s id x)) id') = true.
  Proof.
    intros H. unfold set_slot. cbn [slots upd_slots]. rewrite slotv_aset.
    destruct (N.eqb id' id) eqn:E; [|tauto]. apply N.eqb_eq in E; subst. exact H.
  Qed.
  Lemma rxc_slot_send s id o id' :
    sl_rx_closed (slotv (slots s) id') = true -> sl_rx_closed (slotv (slots (slot_send s id o)) id') = true.
  Proof.
    rewrite slot_send_alt. apply rxc_set_slot. rewrite <- get_slot_slotv. unfold send_val.
    intros ->. reflexivity.
  Qed.
  Lemma rxc_slot_tx_drop s id id' :
    sl_rx_closed (slotv (slots s) id') = true -> sl_rx_closed (slotv (slots (slot_tx_drop s id)) id') = true.
  Proof. unfold slot_tx_drop. apply rxc_set_slot. rewrite <- get_slot_slotv. cbn. tauto. Qed.
  Lemma rxc_slot_rx_close s id id' :
    sl_rx_closed (slotv (slots s) id') = true -> sl_rx_closed (slotv (slots (slot_rx_close s id)) id') = true.
  Proof. unfold slot_rx_close. apply rxc_set_slot. reflexivity. Qed.

  Lemma rxc_complete_request s id o id' :
    sl_rx_closed (slotv (slots s) id') = true ->
    sl_rx_closed (slotv (slots (snd (complete_request s id o))) id') = true.
  Proof.
    unfold complete_request. destruct (alookup id (inflight s)); cbn [snd]; [|tauto].
    intro H. apply rxc_slot_send. exact H.
  Qed.

  (* complete_request as a shrinking step *)
  Lemma complete_request_fields s id o :
    let s' := snd (complete_request s id o) in
    calls s' = calls s /\ handles s' = handles s /\ queue s' = queue s /\ cancels s' = cancels s /\
    terminal s' = terminal s /\ dropped s' = dropped s /\
    (forall id', In id' (map fst (inflight s')) -> In id' (map fst (inflight s)) /\
                 (alookup id (inflight s) <> None -> id' <> id)) /\
    (forall id', In id' (map fst (inflight s)) -> id' <> id -> In id' (map fst (inflight s'))) /\
    (forall x, In x (timers s') -> In x (timers s)).
  Proof.
    unfold complete_request. destruct (alookup id (inflight s)) eqn:E; cbn [snd].
    - rewrite slot_send_alt. cbn [calls handles queue cancels terminal dropped inflight timers
                                  set_slot upd_slots upd_if].
      do 6 (split; [reflexivity|]). split; [|split].
      + intros id' H. apply in_map_fst_aremove in H. tauto.
      + intros id' H Hn. apply in_map_fst_aremove. tauto.
      + intros [k v] H. apply In_aremove in H. tauto.
    - do 6 (split; [reflexivity|]). split; [|split]; tauto.
  Qed.

  Lemma senders_eq s s' : calls s' = calls s -> handles s' = handles s -> senders s' = senders s.
  Proof. intros E1 E2. unfold senders. rewrite E1, E2. reflexivity. Qed.

  (* ---------------------------------------------------------------- one micro-step *)
  Lemma RA_xframe m s s' : XFrame s s' -> RA m s -> RA m s'.
  Proof.
    intros [[] ] R. eapply RA_frame; [reflexivity..| | | | | | | | | |exact R]; assumption.
  Qed.

  Lemma RA_send_request m s1 q w :
    sim m (withq s1 q) -> RA m s1 -> sl_rx_closed (slotv (slots s1) (q_id q)) = false ->
    RA (rec_call m (req_call q w)) (insert_request s1 q).
  Proof.
    intros Sq R Hrx. pose proof (sim_withq_drop _ _ _ Sq) as S.
    assert (Huns : forall x, In x (m_sent m) -> s_id x <> q_id q).
    { intros x Hx. apply (sd_queue_unsent _ _ (sim_d _ _ Sq) q x); [left; reflexivity|exact Hx]. }
    pose proof (sc_now _ _ (sim_c _ _ S)) as Hnow.
    destruct R. unfold req_call, insert_request. constructor;
      cbn [calls inflight timers slots queue cancels terminal dropped upd_if];
      rewrite ?rec_call_sent, ?rec_call_polled; cbn [sent_of].
    - intros sr Hsr. rewrite cancelled_rec_call. cbn [cancel_id]. rewrite orb_false_r.
      rewrite In_map_fst_aset. apply in_app_or in Hsr. destruct Hsr as [Hsr|[<-|[]]].
      + destruct (ra_ie0 sr Hsr) as [H|[H|[H|H]]]; [tauto|tauto| |tauto].
        right; right; left. apply ended_rec_call, H.
      + left; left; reflexivity.
    - intros i c Hc Hp Hpol Hin. apply In_map_fst_aset in Hin. destruct Hin as [Hin|Hin].
      + exfalso. pose proof (ra_rxc0 i c Hc (or_intror Hp) Hpol) as H. rewrite Hin in H. congruence.
      + apply (ra_ac0 i c); assumption.
    - exact ra_rxc0.
    - intros id w0 sr Hin Hsr Hid. apply In_aset in Hin. apply in_app_or in Hsr.
      destruct Hin as [[-> ->]|[Hin Hne]].
      + destruct Hsr as [Hsr|[<-|[]]]; [exfalso; eapply Huns; eassumption|].
        cbn [s_deadline s_time]. rewrite Hnow. unfold timer_instant.
        destruct (N.min_spec (q_deadline q - now s1) max_timeout_ms) as [[_ ->]|[_ ->]]; lia.
      + destruct Hsr as [Hsr|[<-|[]]]; [eapply ra_ti0; eassumption|]. cbn [s_id] in Hid. congruence.
    - rewrite close_called_rec_call. exact ra_cc0.
  Qed.

  Lemma RA_rec_cancel m s id tc w : RA m s -> RA (rec_call m (CSend (MCancel id tc) w)) s.
  Proof.
    intros []. constructor; rewrite ?rec_call_sent, ?rec_call_polled; cbn [sent_of];
      rewrite ?app_nil_r; try assumption.
    - intros sr Hsr. rewrite cancelled_rec_call.
      destruct (ra_ie0 sr Hsr) as [H|[H|[H|H]]]; [tauto| | |tauto].
      + right; left. rewrite H. reflexivity.
      + right; right; left. apply ended_rec_call, H.
  Qed.

  Lemma RA_mstep m e s s' :
    mstep tp e s s' -> sim m s -> RA m s ->
    forall seg, plog s' = plog s ++ seg -> RA (mrun m seg) s'.
  Proof.
    intros H S R seg Hseg.
    assert (Seg1 : forall c, plog s' = plog s ++ [c] -> seg = [c]).
    { intros c E. rewrite E in Hseg. apply app_inv_head in Hseg. congruence. }
    assert (Seg0 : plog s' = plog s -> seg = []).
    { intros E. rewrite E in Hseg. rewrite <- (app_nil_r (plog s)) in Hseg at 1.
      apply app_inv_head in Hseg. congruence. }
    destruct H.
    - (* ready *)
      pose proof (XFrame_do_ready tp _ _ _ H) as X. apply do_ready_eq in H.
      rewrite (Seg1 (CReady r)) by (rewrite H; reflexivity). cbn [mrun fold_left].
      eapply RA_xframe; [exact X|]. apply RA_rec_mono; [reflexivity|discriminate|exact R].
    - pose proof (XFrame_do_flush tp _ _ _ H) as X. apply do_flush_eq in H.
      rewrite (Seg1 (CFlush r)) by (rewrite H; reflexivity). cbn [mrun fold_left].
      eapply RA_xframe; [exact X|]. apply RA_rec_mono; [reflexivity|discriminate|exact R].
    - (* close *)
      pose proof (XFrame_do_close tp _ _ _ H3) as X. apply do_close_eq in H3.
      rewrite (Seg1 (CClose r)) by (rewrite H3; reflexivity). cbn [mrun fold_left].
      eapply RA_xframe; [exact X|]. apply RA_rec_close; assumption.
    - (* read an item *)
      pose proof (XFrame_do_next tp _ _ _ H) as X. apply do_next_eq in H.
      destruct H as [(_ & [=] & _)|(_ & H)].
      rewrite (Seg1 (CNext (RItem x))) by (rewrite plog_complete, H; reflexivity). cbn [mrun fold_left].
      assert (R1 : RA (rec_call m (CNext (RItem x))) s1).
      { eapply RA_xframe; [exact X|]. apply RA_rec_mono; [reflexivity|discriminate|exact R]. }
      unfold complete.
      destruct (complete_request_fields s1 (r_id x)
                  (match r_body x with BOk v => OReply v | BErr k => OSrvErr k end))
        as (F1 & F2 & F3 & F4 & F5 & F6 & F7 & F8 & F9).
      eapply RA_shrink; [apply calls_ok_eq; exact F1|intro; rewrite (senders_eq _ _ F1 F2); assumption
                        |rewrite F3; tauto|rewrite F4; tauto|intros id Hid; apply (F7 id Hid)
                        |rewrite F4; tauto| |exact F9|apply rxc_complete_request|exact F5|exact F6|exact R1].
      intros sr Hsr Hin. destruct (N.eq_dec (s_id sr) (r_id x)) as [E|E].
      + right; right. rewrite rec_call_sent in Hsr. cbn [sent_of] in Hsr. rewrite app_nil_r in Hsr.
        apply ended_read; [exact E|]. apply (sd_sent_seq _ _ (sim_d _ _ S) sr Hsr).
      + left. apply F8; assumption.
    - (* other reads *)
      pose proof (XFrame_do_next tp _ _ _ H) as X. apply do_next_eq in H.
      destruct H as [(_ & -> & ->)|(_ & H)].
      + rewrite Seg0 by reflexivity. exact R.
      + rewrite (Seg1 (CNext r)) by (rewrite H; reflexivity). cbn [mrun fold_left].
        eapply RA_xframe; [exact X|]. apply RA_rec_mono; [|discriminate|exact R].
        destruct r; reflexivity.
    - (* skip a request whose caller is gone *)
      destruct (q_pop_fields _ _ _ H (sim_w _ _ S)) as (Q & C & Sn & F1 & F2 & F3 & F4 & F5 & F6 & _).
      rewrite Seg0; [|unfold slot_tx_drop, set_slot; cbn [plog upd_slots];
                      pose proof (plog_q_poll_recv s) as L; rewrite H in L; exact L].
      cbn [mrun fold_left].
      eapply RA_shrink; [| | | | | | | | | | |exact R].
      + eapply calls_ok_trans; [exact C|apply calls_ok_eq; reflexivity].
      + intro. rewrite (senders_eq s1 (slot_tx_drop s1 (q_id q))) by reflexivity. congruence.
      + rewrite Q. discriminate.
      + unfold slot_tx_drop, set_slot. cbn [cancels upd_slots]. rewrite F4. tauto.
      + unfold slot_tx_drop, set_slot. cbn [inflight upd_slots]. rewrite F1. tauto.
      + unfold slot_tx_drop, set_slot. cbn [cancels upd_slots]. rewrite F4. tauto.
      + unfold slot_tx_drop, set_slot. cbn [inflight upd_slots]. rewrite F1. tauto.
      + unfold slot_tx_drop, set_slot. cbn [timers upd_slots]. rewrite F2. tauto.
      + intros id Hid. apply rxc_slot_tx_drop. rewrite F3. exact Hid.
      + unfold slot_tx_drop, set_slot. cbn [terminal upd_slots]. exact F5.
      + unfold slot_tx_drop, set_slot. cbn [dropped upd_slots]. exact F6.
    - (* write a request *)
      destruct (q_pop_fields _ _ _ H (sim_w _ _ S)) as (Q & C & Sn & F1 & F2 & F3 & F4 & F5 & F6 & _).
      pose proof (sim_q_poll_recv _ _ S) as Sq. rewrite H in Sq. cbn [fst snd] in Sq.
      assert (R1 : RA m s1).
      { eapply RA_shrink; [exact C|congruence|rewrite Q; discriminate|rewrite F4; tauto|rewrite F1; tauto
                          |rewrite F4; tauto|rewrite F1; tauto|rewrite F2; tauto|rewrite F3; tauto
                          |exact F5|exact F6|exact R]. }
      rewrite get_slot_slotv in H0.
      pose proof (RA_send_request m s1 q w Sq R1 H0) as R2.
      pose proof (XFrame_do_send tp _ _ _ _ H1) as X. apply do_send_eq in H1.
      assert (L3 : plog s3 = plog s ++ [req_call q w]).
      { rewrite H1. cbn [plog upd_tr insert_request upd_if].
        pose proof (plog_q_poll_recv s) as L; rewrite H in L; cbn [snd] in L. rewrite L. reflexivity. }
      assert (R3 : RA (rec_call m (req_call q w)) s3) by (eapply RA_xframe; [exact X|exact R2]).
      destruct w.
      + rewrite (Seg1 _ L3). exact R3.
      + rewrite (Seg1 (req_call q SErr)) by (rewrite plog_complete_request; exact L3).
        cbn [mrun fold_left].
        destruct (complete_request_fields s3 (q_id q) OSendErr)
          as (G1 & G2 & G3 & G4 & G5 & G6 & G7 & G8 & G9).
        eapply RA_shrink; [apply calls_ok_eq; exact G1|intro; rewrite (senders_eq _ _ G1 G2); assumption
                          |rewrite G3; tauto|rewrite G4; tauto|intros id Hid; apply (G7 id Hid)
                          |rewrite G4; tauto| |exact G9|apply rxc_complete_request|exact G5|exact G6|exact R3].
        intros sr Hsr Hin. destruct (N.eq_dec (s_id sr) (q_id q)) as [E|E]; [|left; apply G8; assumption].
        right; right. rewrite rec_call_sent in Hsr. cbn [req_call sent_of] in Hsr.
        apply in_app_or in Hsr. destruct Hsr as [Hsr|[<-|[]]]; [|apply ended_failed; reflexivity].
        exfalso. apply (sd_queue_unsent _ _ (sim_d _ _ Sq) q sr); [left; reflexivity|exact Hsr|exact E].
    - (* a cancellation for nothing *)
      assert (E : cancels s = id :: cancels s2 /\ s2 = upd_cancels s (cancels s2)).
      { revert H H0. unfold c_poll_recv, cancel_request.
        destruct (cancels s) as [|y l]; [destruct (Nat.eqb _ _); discriminate|]. intros [= -> <-].
        cbn [inflight upd_cancels]. destruct (alookup id (inflight s)); [discriminate|].
        intros [= <-]. split; reflexivity. }
      destruct E as [E1 E2]. rewrite Seg0 by (rewrite E2; reflexivity). cbn [mrun fold_left].
      assert (Hn : ~ In id (map fst (inflight s))).
      { revert H H0. unfold c_poll_recv, cancel_request.
        destruct (cancels s) as [|y l]; [destruct (Nat.eqb _ _); discriminate|]. intros [= -> <-].
        cbn [inflight upd_cancels]. destruct (alookup id (inflight s)) eqn:Ea; [discriminate|].
        intros _. apply alookup_none_notin, Ea. }
      rewrite E2. apply (RA_shrink m s); [apply calls_ok_eq; reflexivity|tauto|tauto|rewrite E1; discriminate
                                    |tauto| |tauto|tauto|tauto|reflexivity|reflexivity|exact R].
      cbn [cancels inflight upd_cancels]. intros id' Hin Hif. rewrite E1 in Hin.
      destruct Hin as [<-|Hin]; [contradiction|exact Hin].
    - (* a cancellation on the wire *)
      assert (E : cancels s = id :: cancels s2 /\
                  s2 = upd_if (upd_cancels s (cancels s2)) (aremove id (inflight s)) (aremove id (timers s))).
      { revert H H0. unfold c_poll_recv, cancel_request.
        destruct (cancels s) as [|y l]; [destruct (Nat.eqb _ _); discriminate|]. intros [= -> <-].
        cbn [inflight timers upd_cancels]. destruct (alookup id (inflight s)); [|discriminate].
        intros [= _ <-]. split; reflexivity. }
      destruct E as [E1 E2].
      pose proof (XFrame_do_send tp _ _ _ _ H1) as X. apply do_send_eq in H1.
      rewrite (Seg1 (CSend (MCancel id (if_tc e)) w)) by (rewrite H1, E2; reflexivity).
      cbn [mrun fold_left]. eapply RA_xframe; [exact X|].
      rewrite E2. apply (RA_shrink (rec_call m (CSend (MCancel id (if_tc e)) w)) s);
        [apply calls_ok_eq; reflexivity|tauto|tauto|rewrite E1; discriminate
        | | | | |tauto|reflexivity|reflexivity|apply RA_rec_cancel, R];
        cbn [cancels inflight timers upd_cancels upd_if].
      + intros id' Hin. apply in_map_fst_aremove in Hin. tauto.
      + intros id' Hin Hif. apply in_map_fst_aremove in Hif. rewrite E1 in Hin.
        destruct Hin as [<-|Hin]; [tauto|exact Hin].
      + intros sr Hsr Hin. destruct (N.eq_dec (s_id sr) id) as [<-|Hn].
        * right; left. rewrite cancelled_rec_call. cbn [cancel_id]. rewrite N.eqb_refl. apply orb_true_r.
        * left. apply in_map_fst_aremove. tauto.
      + intros [k v] Hin. apply In_aremove in Hin. tauto.
    - (* an expired timer *)
      pose proof (plog_poll_expired s) as L. rewrite H in L. cbn [snd] in L.
      rewrite (Seg0 L). cbn [mrun fold_left]. revert H. unfold poll_expired.
      destruct (min_timer (timers s) None) as [[idx w]|] eqn:Em; [|discriminate].
      destruct (N.leb w (now s)) eqn:Ew; [|discriminate]. apply N.leb_le in Ew.
      apply min_timer_In in Em. destruct Em as [Hin|]; [|discriminate].
      cbn [inflight timers upd_if].
      destruct (alookup idx (inflight s)) as [e|] eqn:Ea; intros [= _ <-].
      + rewrite slot_send_alt. unfold set_slot.
        apply (RA_shrink m s); [apply calls_ok_eq; reflexivity|tauto|tauto|tauto| | | | | |reflexivity|reflexivity|exact R];
          cbn [cancels inflight timers slots upd_slots upd_if].
        * intros id' Hid. apply in_map_fst_aremove in Hid. tauto.
        * tauto.
        * intros sr Hsr Hif. destruct (N.eq_dec (s_id sr) idx) as [E|E].
          -- right; right. apply (ended_time m sr w).
             ++ eapply (ra_ti _ _ R); eassumption.
             ++ rewrite (sc_now _ _ (sim_c _ _ S)). exact Ew.
          -- left. apply in_map_fst_aremove. tauto.
        * intros [k v] Hx. apply In_aremove in Hx. tauto.
        * intros id' Hid. rewrite slotv_aset. destruct (N.eqb id' idx) eqn:E; [|exact Hid].
          apply N.eqb_eq in E; subst. unfold send_val. rewrite get_slot_slotv. cbn [slots upd_if].
          rewrite Hid. reflexivity.
      + apply (RA_shrink m s); [apply calls_ok_eq; reflexivity|tauto|tauto|tauto|tauto|tauto|tauto| |tauto
                          |reflexivity|reflexivity|exact R].
        cbn [timers upd_if]. intros [k v] Hx. apply In_aremove in Hx. tauto.
  Qed.

  (* ---------------------------------------------------------------- what the relation buys *)
  Lemma filter_nil_forall {A} (f : A -> bool) (l : list A) :
    length (filter f l) = 0%nat -> forall x, In x l -> f x = false.
  Proof.
    induction l as [|y r IH]; cbn; [intros _ x []|].
    destruct (f y) eqn:E; [discriminate|]. intros H x [<-|Hx]; [exact E|apply IH; assumption].
  Qed.

  Lemma senders0 s : senders s = 0%nat ->
    (forall b, In b (handles s) -> b = false) /\
    (forall c, In c (calls s) -> live_phase (c_phase c) = false).
  Proof.
    unfold senders. intro H. split.
    - apply (filter_nil_forall (fun b => b)). lia.
    - apply (filter_nil_forall (fun c => live_phase (c_phase c))). lia.
  Qed.

  Lemma ab_cov m s :
    sim m s -> RA m s -> cancels s = [] -> terminal s = None -> dropped s = false ->
    abandoned_covered m = true.
  Proof.
    intros [C W D] R Hc Ht Hd. unfold abandoned_covered.
    apply forallb_forall. intros i Hi. apply forallb_forall. intros sr Hsr.
    unfold sent_for in Hsr. destruct (id_of m i) as [id|] eqn:Eid; [|destruct Hsr].
    apply filter_In in Hsr. destruct Hsr as [Hsr He]. apply N.eqb_eq in He.
    destruct (id_of_bound m i id (sc_nowrap _ _ C) Eid) as [Hpol _].
    pose proof (sc_range_a _ _ C i Hi) as Hlt. rewrite (sc_len _ _ C) in Hlt.
    destruct (nth_error (calls s) i) as [c|] eqn:Ec; [|apply nth_error_None in Ec; lia].
    pose proof (sc_phase _ _ C i c Ec) as Dc.
    assert (Hp : c_phase c = PGone).
    { pose proof (d_aband _ _ _ Dc) as H. apply mem_nat_In in Hi. rewrite Hi in H.
      destruct (c_phase c); try discriminate. reflexivity. }
    pose proof (sc_id _ _ C i c Ec Hpol) as Hid. rewrite Eid in Hid. injection Hid as Hid.
    destruct (ra_ie _ _ R sr Hsr) as [H|[H|[H|[H|H]]]].
    - exfalso. rewrite He, Hid in H. destruct (ra_ac _ _ R i c Ec Hp Hpol H) as [H'|H']; [|congruence].
      rewrite Hc in H'. exact H'.
    - rewrite H. reflexivity.
    - rewrite H. apply orb_true_r.
    - congruence.
    - congruence.
  Qed.

  Lemma close_v10 maxif m s r :
    sim m s -> RA m s -> senders s = 0%nat -> cancels s = [] -> terminal s = None -> dropped s = false ->
    v10 (chk_call maxif m (CClose r)) = true.
  Proof.
    intros S R Hs Hc Ht Hd. cbn [chk_call v10]. destruct (senders0 s Hs) as [Hh Hl].
    rewrite (ab_cov m s S R Hc Ht Hd), andb_true_r. destruct S as [C W D].
    apply andb_true_iff. split.
    - rewrite (sc_handles _ _ C). apply forallb_forall. intros b Hb. rewrite (Hh b Hb). reflexivity.
    - apply forallb_forall. intros i Hi. apply in_seq in Hi. rewrite (sc_len _ _ C) in Hi.
      destruct (nth_error (calls s) i) as [c|] eqn:Ec; [|apply nth_error_None in Ec; lia].
      pose proof (sc_phase _ _ C i c Ec) as Dc. pose proof (Hl c (nth_error_In _ _ Ec)) as Hlive.
      rewrite (d_done _ _ _ Dc), (d_aband _ _ _ Dc). destruct (c_phase c); try discriminate; reflexivity.
  Qed.
End RA.

Lemma phase_eq_dec (p q : phase) : {p = q} + {p <> q}.
Proof. decide equality. Qed.

(* ================================================================== ops outside the dispatch *)
Section OpFrames.
  Context {T : Type}.
  Notation cstate := (@cstate T).
  Implicit Types (s : cstate) (m : mst).

  (* call tables that agree except at index i, up to changes between live phases *)
  Definition lok (l l' : list call) (i : nat) : Prop :=
    forall j c', j <> i -> nth_error l' j = Some c' ->
      exists c, nth_error l j = Some c /\ c_id c' = c_id c /\
                (c_phase c' = c_phase c \/ (c_phase c = PAcquiring /\ c_phase c' = PAssigned)).

  Lemma lok_refl l i : lok l l i.
  Proof. intros j c' _ H. exists c'. auto. Qed.
  Lemma lok_trans l1 l2 l3 i : lok l1 l2 i -> lok l2 l3 i -> lok l1 l3 i.
  Proof.
    intros H1 H2 j c3 Hn H. destruct (H2 j c3 Hn H) as (c2 & Hc2 & E2 & P2).
    destruct (H1 j c2 Hn Hc2) as (c1 & Hc1 & E1 & P1). exists c1. split; [exact Hc1|]. split; [congruence|].
    destruct P2 as [P2|[P2 P2']]; destruct P1 as [P1|[P1 P1']].
    - left; congruence.
    - right. rewrite P2. auto.
    - right. rewrite <- P1. auto.
    - right. auto.
  Qed.
  Lemma lok_phase_self l i p : lok l (phase_calls l i p) i.
  Proof.
    intros j c' Hn H. apply nth_error_phase_calls_inv in H. destruct H as [[-> _]|[_ H]]; [congruence|].
    exists c'. auto.
  Qed.
  Lemma lok_phase_assign l w c i :
    nth_error l w = Some c -> c_phase c = PAcquiring -> lok l (phase_calls l w PAssigned) i.
  Proof.
    intros Hc Hl j c' Hn H. apply nth_error_phase_calls_inv in H.
    destruct H as [[-> (c0 & Hc0 & ->)]|[_ H]]; [|exists c'; auto].
    exists c0. split; [exact Hc0|]. split; [reflexivity|]. right.
    assert (c0 = c) by congruence. subst. auto.
  Qed.
  Lemma lok_set_nth l i c : lok l (set_nth i c l) i.
  Proof.
    intros j c' Hn H. rewrite nth_error_set_nth_other in H by congruence. exists c'. auto.
  Qed.
  Lemma lok_app l c i : i = length l -> lok l (l ++ [c]) i.
  Proof.
    intros -> j c' Hn H. apply nth_error_app_inv in H. destruct H as [[H _]|[H _]]; [|congruence].
    exists c'. auto.
  Qed.

  Definition rxc s (id : N) : Prop := sl_rx_closed (slotv (slots s) id) = true.

  (* what an op on call i leaves alone *)
  Record OpFr s s' (i : nat) : Prop := {
    of_calls : lok (calls s) (calls s') i;
    of_cancels : forall id, In id (cancels s) -> In id (cancels s');
    of_inflight : inflight s' = inflight s;
    of_timers : timers s' = timers s;
    of_terminal : terminal s' = terminal s;
    of_dropped : dropped s' = dropped s;
    of_next : next_id s <= next_id s';
    of_rxc : forall id, id < next_id s -> rxc s id -> rxc s' id }.

  Lemma OpFr_refl s i : OpFr s s i.
  Proof. constructor; try reflexivity; try tauto; try lia; apply lok_refl. Qed.
  Lemma OpFr_trans s1 s2 s3 i : OpFr s1 s2 i -> OpFr s2 s3 i -> OpFr s1 s3 i.
  Proof.
    intros [] []. constructor; try congruence.
    - eapply lok_trans; eassumption.
    - auto.
    - lia.
    - intros id Hlt H. apply of_rxc1; [lia|]. apply of_rxc0; assumption.
  Qed.

  Lemma OpFr_set_phase s i p : OpFr s (set_phase s i p) i.
  Proof.
    rewrite set_phase_alt. constructor; try reflexivity; try tauto; try lia; apply lok_phase_self.
  Qed.
  Lemma OpFr_set_phase_assign s w c i :
    nth_error (calls s) w = Some c -> c_phase c = PAcquiring -> OpFr s (set_phase s w PAssigned) i.
  Proof.
    intros Hc Hl. rewrite set_phase_alt. constructor; try reflexivity; try tauto; try lia.
    eapply lok_phase_assign; eassumption.
  Qed.
  Lemma OpFr_upd_q s a b c d i : OpFr s (upd_q s a b c d) i.
  Proof. constructor; try reflexivity; try tauto; try lia; apply lok_refl. Qed.
  Lemma OpFr_push_cancel s id i : OpFr s (push_cancel s id) i.
  Proof.
    rewrite push_cancel_alt. constructor; try reflexivity; try tauto; try lia; [apply lok_refl|].
    cbn [cancels upd_cancels]. intros id' H. destruct (dropped s); [exact H|apply in_or_app; left; exact H].
  Qed.
  Lemma OpFr_slot_tx_drop s id i : OpFr s (slot_tx_drop s id) i.
  Proof.
    constructor; try reflexivity; try tauto; try lia; [apply lok_refl|].
    intros id' _. apply rxc_slot_tx_drop.
  Qed.
  Lemma OpFr_slot_rx_close s id i : OpFr s (slot_rx_close s id) i.
  Proof.
    constructor; try reflexivity; try tauto; try lia; [apply lok_refl|].
    intros id' _. apply rxc_slot_rx_close.
  Qed.
  Lemma OpFr_release_permit s i : winv s -> OpFr s (release_permit s) i.
  Proof.
    intros [Wa _]. unfold release_permit. destruct (waiters s) as [|w r] eqn:Ew; [apply OpFr_upd_q|].
    destruct (Wa w) as (c & Hc & Hp); [first [left; reflexivity|rewrite Ew; left; reflexivity]|].
    eapply OpFr_trans; [apply OpFr_upd_q|]. eapply (OpFr_set_phase_assign _ w c); [exact Hc|exact Hp].
  Qed.
  Lemma OpFr_fail_shutdown s i id : OpFr s (snd (fail_shutdown s i id)) i.
  Proof.
    unfold fail_shutdown. cbn [snd].
    eapply OpFr_trans; [apply OpFr_slot_tx_drop|]. eapply OpFr_trans; [apply OpFr_slot_rx_close|].
    eapply OpFr_trans; [apply OpFr_push_cancel|apply OpFr_set_phase].
  Qed.
  Lemma OpFr_poll_slot s i id : OpFr s (snd (poll_slot s i id)) i.
  Proof.
    unfold poll_slot. destruct (sl_val _); cbn [snd].
    - eapply OpFr_trans; [apply OpFr_slot_rx_close|apply OpFr_set_phase].
    - destruct (sl_tx_gone _); cbn [snd]; [|apply OpFr_refl].
      eapply OpFr_trans; [apply OpFr_slot_rx_close|apply OpFr_set_phase].
  Qed.
  Lemma OpFr_enqueue s i c id tc : OpFr s (snd (enqueue s i c id tc)) i.
  Proof.
    unfold enqueue. eapply OpFr_trans; [apply OpFr_upd_q|].
    eapply OpFr_trans; [apply OpFr_set_phase|apply OpFr_poll_slot].
  Qed.

  Lemma OpFr_assign s i c :
    next_id s + 1 < two64 ->
    OpFr s (set_slot (with_id (upd_misc s (N.modulo (next_id s + 1) 18446744073709551616) (handles s) (now s))
                              i c (next_id s)) (next_id s) slot0) i.
  Proof.
    intro Hw. unfold with_id, set_slot. constructor;
      cbn [calls cancels inflight timers terminal dropped next_id slots upd_slots upd_calls upd_misc];
      try reflexivity; try tauto.
    - apply lok_set_nth.
    - rewrite N.mod_small by exact Hw. lia.
    - intros id Hlt H. unfold rxc. cbn [slots upd_slots]. rewrite slotv_aset.
      destruct (N.eqb id (next_id s)) eqn:E; [apply N.eqb_eq in E; lia|exact H].
  Qed.

  Lemma OpFr_release_permit' s i :
    (forall w, In w (waiters s) -> exists c, nth_error (calls s) w = Some c /\ c_phase c = PAcquiring) ->
    OpFr s (release_permit s) i.
  Proof.
    intros Wa. unfold release_permit. destruct (waiters s) as [|w r] eqn:Ew; [apply OpFr_upd_q|].
    destruct (Wa w) as (c & Hc & Hp); [first [left; reflexivity|rewrite Ew; left; reflexivity]|].
    eapply OpFr_trans; [apply OpFr_upd_q|]. eapply (OpFr_set_phase_assign _ w c); [exact Hc|exact Hp].
  Qed.

  Lemma OpFr_poll_call s i : next_id s + 1 < two64 -> OpFr s (snd (poll_call s i)) i.
  Proof.
    intro Hw. unfold poll_call. destruct (nth_error (calls s) i) as [c|]; [|apply OpFr_refl].
    destruct (c_phase c); try apply OpFr_refl.
    - set (s1 := set_slot _ _ _).
      assert (F1 : OpFr s s1 i) by (apply OpFr_assign, Hw).
      destruct (rx_closed s1).
      + eapply OpFr_trans; [exact F1|apply OpFr_fail_shutdown].
      + destruct (permits s1).
        * cbn [snd]. eapply OpFr_trans; [exact F1|].
          eapply OpFr_trans; [apply OpFr_upd_q|apply OpFr_set_phase].
        * eapply OpFr_trans; [exact F1|].
          eapply OpFr_trans; [apply OpFr_upd_q|apply OpFr_enqueue].
    - destruct (rx_closed s).
      + eapply OpFr_trans; [apply OpFr_upd_q|apply OpFr_fail_shutdown].
      + apply OpFr_enqueue.
    - apply OpFr_fail_shutdown.
    - apply OpFr_poll_slot.
  Qed.

  Lemma OpFr_guard_close s i : winv s -> OpFr s (guard_close s i) i.
  Proof.
    intros W. unfold guard_close. destruct (nth_error (calls s) i) as [c|] eqn:Ec; [|apply OpFr_refl].
    destruct (c_phase c) eqn:Ep; try apply OpFr_refl.
    - apply OpFr_set_phase.
    - eapply OpFr_trans; [apply OpFr_upd_q|].
      eapply OpFr_trans; [apply OpFr_slot_tx_drop|].
      eapply OpFr_trans; [apply OpFr_slot_rx_close|apply OpFr_set_phase].
    - eapply OpFr_trans; [apply OpFr_set_phase|].
      eapply OpFr_trans; [|eapply OpFr_trans; [apply OpFr_slot_tx_drop|apply OpFr_slot_rx_close]].
      destruct (rx_closed _); [apply OpFr_upd_q|]. apply OpFr_release_permit'.
      intros w Hw. rewrite set_phase_alt in Hw |- *. cbn [waiters calls upd_calls] in Hw |- *.
      destruct (w_acq _ W w Hw) as (cw & Hcw & Hpw).
      assert (Hn : w <> i) by (intros ->; congruence).
      exists cw. rewrite nth_error_phase_calls. apply Nat.eqb_neq in Hn. rewrite Nat.eqb_sym, Hn.
      split; [exact Hcw|exact Hpw].
    - eapply OpFr_trans; [apply OpFr_slot_tx_drop|].
      eapply OpFr_trans; [apply OpFr_slot_rx_close|apply OpFr_set_phase].
    - eapply OpFr_trans; [apply OpFr_slot_rx_close|apply OpFr_set_phase].
  Qed.

  Lemma OpFr_guard_cancel s i : OpFr s (guard_cancel s i) i.
  Proof.
    unfold guard_cancel. destruct (nth_error (calls s) i) as [c|]; [|apply OpFr_refl].
    destruct (c_phase c); try apply OpFr_refl.
    eapply OpFr_trans; [apply OpFr_push_cancel|apply OpFr_set_phase].
  Qed.

  (* ---------------------------------------------------------------- the relation across an op on call i *)
  Definition ARi m s (i : nat) : Prop :=
    forall c, nth_error (calls s) i = Some c -> In i (m_polled m) ->
      (c_phase c = PGone -> In (c_id c) (map fst (inflight s)) -> In (c_id c) (cancels s) \/ dropped s = true) /\
      (c_phase c = PClosing \/ c_phase c = PGone -> rxc s (c_id c)).

  Lemma RA_ARi m s i : RA m s -> ARi m s i.
  Proof.
    intros R c Hc Hp. split.
    - intros Hph Hin. apply (ra_ac _ _ R i c); assumption.
    - intro Hph. apply (ra_rxc _ _ R i c); assumption.
  Qed.

  Lemma RA_op_gen m m' s s' i :
    m_sent m' = m_sent m -> m_cancels m' = m_cancels m -> m_read m' = m_read m -> m_now m' = m_now m ->
    m_close_called m' = m_close_called m ->
    (forall j, In j (m_polled m') -> j <> i -> In j (m_polled m)) ->
    OpFr s s' i ->
    (forall j c, j <> i -> In j (m_polled m) -> nth_error (calls s) j = Some c ->
                 rxc s (c_id c) -> rxc s' (c_id c)) ->
    ARi m' s' i ->
    (m_close_called m = true -> senders s' = 0%nat /\ queue s' = [] /\ cancels s' = []) ->
    RA m s -> RA m' s'.
  Proof.
    intros M1 M2 M3 M4 M5 Hpol F Hrx Hi Hcc R. destruct F.
    assert (Hc : forall id, cancelled m' id = cancelled m id) by (intro; unfold cancelled; rewrite M2; reflexivity).
    assert (He : forall sr, ended m' sr = ended m sr)
      by (intro; unfold ended, read_any_after; rewrite M3, M4; reflexivity).
    constructor; rewrite ?M1, ?M5, ?of_inflight0, ?of_timers0, ?of_terminal0, ?of_dropped0.
    - intros sr Hsr. rewrite Hc, He. apply (ra_ie _ _ R), Hsr.
    - intros j c' Hc' Hp Hpj Hin. destruct (Nat.eq_dec j i) as [->|Hn].
      + rewrite <- of_inflight0 in Hin. rewrite <- of_dropped0. apply (Hi c' Hc' Hpj); assumption.
      + destruct (of_calls0 j c' Hn Hc') as (c & Hc0 & Eid & Pp).
        assert (Hp0 : c_phase c = PGone).
        { destruct Pp as [Pp|[_ Pp]]; [congruence|rewrite Hp in Pp; discriminate]. }
        rewrite Eid in *. destruct (ra_ac _ _ R j c Hc0 Hp0 (Hpol j Hpj Hn) Hin) as [H|H]; [|tauto].
        left. apply of_cancels0, H.
    - intros j c' Hc' Hp Hpj. destruct (Nat.eq_dec j i) as [->|Hn].
      + apply (Hi c' Hc' Hpj); assumption.
      + destruct (of_calls0 j c' Hn Hc') as (c & Hc0 & Eid & Pp).
        rewrite Eid. apply (Hrx j c Hn (Hpol j Hpj Hn) Hc0).
        apply (ra_rxc _ _ R j c Hc0); [|apply Hpol; assumption].
        destruct Pp as [Pp|[_ Pp]]; [rewrite <- Pp; exact Hp|].
        destruct Hp as [Hp|Hp]; rewrite Hp in Pp; discriminate.
    - apply (ra_ti _ _ R).
    - exact Hcc.
  Qed.

  Lemma Hrx_of_OpFr m s s' i :
    sim m s -> OpFr s s' i ->
    forall j c, j <> i -> In j (m_polled m) -> nth_error (calls s) j = Some c ->
                rxc s (c_id c) -> rxc s' (c_id c).
  Proof.
    intros [C _ _] F j c _ Hp Hc. apply (of_rxc _ _ _ F).
    pose proof (sc_id _ _ C j c Hc Hp) as Hid.
    destruct (id_of_bound m j _ (sc_nowrap _ _ C) Hid) as [_ H]. rewrite (sc_next _ _ C). exact H.
  Qed.

  (* ---------------------------------------------------------------- call i after the op *)
  Lemma poll_call_dead s i :
    (forall c, nth_error (calls s) i = Some c -> live_phase (c_phase c) = false \/ c_phase c = PClosing) ->
    poll_call s i = (CNothing, s).
  Proof.
    intro H. unfold poll_call. destruct (nth_error (calls s) i) as [c|]; [|reflexivity].
    destruct (H c eq_refl) as [H'|H']; destruct (c_phase c); try discriminate; reflexivity.
  Qed.

  Lemma phl_set_phase_self s i p :
    phl (calls (set_phase s i p)) i = match phl (calls s) i with Some _ => Some p | None => None end.
  Proof.
    rewrite set_phase_alt. cbn [calls upd_calls]. rewrite phl_phase_calls, Nat.eqb_refl.
    destruct (phl (calls s) i); reflexivity.
  Qed.

  Definition fresh_phase (o : option phase) : Prop :=
    o = None \/ o = Some PDone \/ o = Some PAcquiring \/ o = Some PAwaiting.

  Lemma fresh_set_phase s i p :
    p = PDone \/ p = PAcquiring \/ p = PAwaiting -> fresh_phase (phl (calls (set_phase s i p)) i).
  Proof.
    intro Hp. rewrite phl_set_phase_self. unfold fresh_phase.
    destruct (phl (calls s) i); [|tauto]. destruct Hp as [Hp|[Hp|Hp]]; subst p; tauto.
  Qed.

  Lemma poll_slot_phase s i id :
    phl (calls s) i = Some PAwaiting \/ phl (calls s) i = None ->
    fresh_phase (phl (calls (snd (poll_slot s i id))) i).
  Proof.
    intro H. unfold poll_slot.
    assert (K : fresh_phase (phl (calls (set_phase (slot_rx_close s id) i PDone)) i))
      by (apply fresh_set_phase; tauto).
    destruct (sl_val _); cbn [snd]; [exact K|]. destruct (sl_tx_gone _); cbn [snd]; [exact K|].
    unfold fresh_phase. tauto.
  Qed.

  Lemma poll_call_phase s i r s' :
    poll_call s i = (r, s') -> s' = s \/ fresh_phase (phl (calls s') i).
  Proof.
    unfold poll_call. destruct (nth_error (calls s) i) as [c|] eqn:Ec; [|intros [= _ <-]; left; reflexivity].
    pose proof (phl_nth _ _ _ Ec) as Hph.
    assert (FS : forall (st : cstate) id, fresh_phase (phl (calls (snd (fail_shutdown st i id))) i)).
    { intros st id. unfold fail_shutdown. cbn [snd]. apply fresh_set_phase. tauto. }
    assert (EQ : forall (st : cstate) cc id tc, phl (calls st) i <> None ->
               fresh_phase (phl (calls (snd (enqueue st i cc id tc))) i)).
    { intros st cc id tc Hn. unfold enqueue. apply poll_slot_phase. left.
      rewrite phl_set_phase_self. cbn [calls upd_q]. destruct (phl (calls st) i); [reflexivity|congruence]. }
    destruct (c_phase c) eqn:Ep; try (intros [= _ <-]; left; reflexivity).
    - set (s1 := set_slot _ (next_id s) slot0).
      assert (P1 : phl (calls s1) i <> None).
      { unfold s1, set_slot, with_id. cbn [calls upd_slots upd_calls upd_misc].
        rewrite phl_set_nth by (apply nth_error_Some; congruence). rewrite Nat.eqb_refl. discriminate. }
      destruct (rx_closed s1).
      + intro H. right. replace s' with (snd (fail_shutdown s1 i (next_id s))) by (rewrite H; reflexivity). apply FS.
      + destruct (permits s1).
        * intros [= _ <-]. right. apply fresh_set_phase. tauto.
        * intro H. right.
          match type of H with enqueue ?st _ ?cc ?id ?tc = _ =>
            replace s' with (snd (enqueue st i cc id tc)) by (rewrite H; reflexivity); apply EQ end.
          exact P1.
    - destruct (rx_closed s).
      + intro H. right.
        match type of H with fail_shutdown ?st _ ?id = _ =>
          replace s' with (snd (fail_shutdown st i id)) by (rewrite H; reflexivity); apply FS end.
      + intro H. right.
        match type of H with enqueue ?st _ ?cc ?id ?tc = _ =>
          replace s' with (snd (enqueue st i cc id tc)) by (rewrite H; reflexivity); apply EQ end.
        congruence.
    - intro H. right. replace s' with (snd (fail_shutdown s i (c_id c))) by (rewrite H; reflexivity). apply FS.
    - intro H. right. replace s' with (snd (poll_slot s i (c_id c))) by (rewrite H; reflexivity).
      apply poll_slot_phase. left. exact Hph.
  Qed.

  Lemma polled_poll_call m s i c :
    sim m s -> nth_error (calls s) i = Some c -> c_phase c <> PNew ->
    m_polled (rec_op (T:=T) m (PollCall i)) = m_polled m.
  Proof.
    intros [C _ _] Hc Hn. pose proof (sc_phase _ _ C i c Hc) as [Dp Da Dc Dd].
    cbn [rec_op m_polled upd_m]. rewrite Da, Dc.
    destruct (c_phase c); try congruence; cbn [ph_polled ph_aband ph_closing] in *;
      try (rewrite (Dp _ eq_refl)); cbn; rewrite ?orb_true_r; reflexivity.
  Qed.

  Lemma ARi_poll_call m s i r s' :
    sim m s -> RA m s -> poll_call s i = (r, s') -> ARi (rec_op (T:=T) m (PollCall i)) s' i.
  Proof.
    intros S R H c' Hc' Hp.
    destruct (poll_call_phase _ _ _ _ H) as [->|Hf].
    - destruct (phase_eq_dec (c_phase c') PNew) as [E|E].
      + split; intros Hph; [congruence|destruct Hph; congruence].
      + rewrite (polled_poll_call m s i c' S Hc' E) in Hp. apply (RA_ARi m s i R c' Hc' Hp).
    - pose proof (phl_nth _ _ _ Hc') as Hph. rewrite Hph in Hf.
      unfold fresh_phase in Hf.
      split; intros Hx; exfalso; [|destruct Hx as [Hx|Hx]]; rewrite Hx in Hf;
        destruct Hf as [Hf|[Hf|[Hf|Hf]]]; discriminate Hf.
  Qed.

  Lemma nth_set_phase_self s i p c :
    nth_error (calls s) i = Some c -> nth_error (calls (set_phase s i p)) i = Some (with_phase c p).
  Proof.
    intro H. rewrite set_phase_alt. cbn [calls upd_calls]. rewrite nth_error_phase_calls, Nat.eqb_refl, H.
    reflexivity.
  Qed.

  Lemma rxc_after_close s id : rxc (slot_rx_close s id) id.
  Proof.
    unfold rxc, slot_rx_close, set_slot. cbn [slots upd_slots]. rewrite slotv_aset, N.eqb_refl. reflexivity.
  Qed.

  Lemma ARi_guard_close m s i : sim m s -> RA m s -> ARi m (guard_close s i) i.
  Proof.
    intros S R c' Hc' Hp. revert Hc'. unfold guard_close.
    destruct (nth_error (calls s) i) as [c|] eqn:Ec; [|intro H; exact (RA_ARi m s i R c' H Hp)].
    pose proof (sc_phase _ _ (sim_c _ _ S) i c Ec) as [Dp _ _ _].
    assert (K : forall (st : cstate), nth_error (calls st) i = Some (with_phase c PClosing) ->
              rxc st (c_id c) -> nth_error (calls st) i = Some c' ->
              (c_phase c' = PGone -> In (c_id c') (map fst (inflight st)) ->
               In (c_id c') (cancels st) \/ dropped st = true) /\
              (c_phase c' = PClosing \/ c_phase c' = PGone -> rxc st (c_id c'))).
    { intros st H1 H2 H3. rewrite H1 in H3. injection H3 as <-. cbn [c_phase c_id with_phase].
      split; [discriminate|intros _; exact H2]. }
    destruct (c_phase c) eqn:Ep; try (intro H; exact (RA_ARi m s i R c' H Hp)).
    - exfalso. pose proof (Dp false eq_refl) as H. apply mem_nat_In in Hp. congruence.
    - apply K.
      + apply nth_set_phase_self. exact Ec.
      + rewrite set_phase_alt. apply rxc_after_close.
    - apply K.
      + unfold slot_rx_close, slot_tx_drop, set_slot. cbn [calls upd_slots].
        assert (H1 : nth_error (calls (set_phase s i PClosing)) i = Some (with_phase c PClosing))
          by (apply nth_set_phase_self; exact Ec).
        destruct (rx_closed (set_phase s i PClosing)); [exact H1|].
        unfold release_permit. destruct (waiters (set_phase s i PClosing)) as [|w r] eqn:Ew; [exact H1|].
        rewrite set_phase_alt. cbn [calls upd_calls upd_q]. rewrite nth_error_phase_calls.
        destruct (Nat.eqb w i) eqn:E; [|exact H1]. exfalso. apply Nat.eqb_eq in E. subst w.
        rewrite set_phase_alt in Ew. cbn [waiters upd_calls] in Ew.
        destruct (w_acq _ (sim_w _ _ S) i) as (cw & Hcw & Hpw); [rewrite Ew; left; reflexivity|]. congruence.
      + apply rxc_after_close.
    - apply K.
      + apply nth_set_phase_self. exact Ec.
      + rewrite set_phase_alt. apply rxc_after_close.
    - apply K.
      + apply nth_set_phase_self. exact Ec.
      + rewrite set_phase_alt. apply rxc_after_close.
  Qed.

  Lemma ARi_guard_cancel m s i : RA m s -> ARi m (guard_cancel s i) i.
  Proof.
    intros R c' Hc' Hp. revert Hc'. unfold guard_cancel.
    destruct (nth_error (calls s) i) as [c|] eqn:Ec; [|intro H; exact (RA_ARi m s i R c' H Hp)].
    destruct (c_phase c) eqn:Ep; try (intro H; exact (RA_ARi m s i R c' H Hp)).
    intro H. rewrite (nth_set_phase_self (push_cancel s (c_id c)) i PGone c) in H
      by (rewrite push_cancel_alt; exact Ec).
    injection H as <-. cbn [c_phase c_id with_phase]. rewrite set_phase_alt, push_cancel_alt.
    cbn [cancels inflight dropped upd_calls upd_cancels]. split.
    - intros _ _. destruct (dropped s); [right; reflexivity|left; apply in_or_app; right; left; reflexivity].
    - intros _. apply (ra_rxc _ _ R i c Ec); [left; exact Ep|exact Hp].
  Qed.

  (* ---------------------------------------------------------------- with no sender left nothing moves *)
  Variable tp : transport T cmsg resp.
  Variable fuel_of : cstate -> nat.
  Notation op := (@op T).

  Lemma senders_app s c :
    senders (upd_calls s (calls s ++ [c])) = (senders s + if live_phase (c_phase c) then 1 else 0)%nat.
  Proof.
    unfold senders. cbn [handles calls upd_calls]. rewrite filter_app, app_length. cbn [filter].
    destruct (live_phase (c_phase c)); cbn [length]; lia.
  Qed.

  Lemma cc_step s (o : op) :
    senders s = 0%nat -> queue s = [] -> cancels s = [] -> o <> PollDispatch -> o <> DropDispatch ->
    senders (fst (step tp fuel_of s o)) = 0%nat /\ queue (fst (step tp fuel_of s o)) = [] /\
    cancels (fst (step tp fuel_of s o)) = [].
  Proof.
    intros Hs Hq Hc N1 N2. destruct (senders0 s Hs) as [Hh Hl].
    assert (Hdead : forall i c, nth_error (calls s) i = Some c -> c_phase c = PDone \/ c_phase c = PGone).
    { intros i c H. pose proof (Hl c (nth_error_In _ _ H)) as L. destruct (c_phase c); try discriminate; auto. }
    destruct o; cbn [step fst]; try congruence.
    - destruct (nth_error (handles s) h) as [[|]|] eqn:E; auto.
      exfalso. pose proof (Hh true (nth_error_In _ _ E)). discriminate.
    - destruct (nth_error (handles s) h) as [[|]|] eqn:E; auto.
      exfalso. pose proof (Hh true (nth_error_In _ _ E)). discriminate.
    - destruct (nth_error (handles s) h) as [[|]|] eqn:E;
        [exfalso; pose proof (Hh true (nth_error_In _ _ E)); discriminate|..];
        rewrite senders_app; cbn [c_phase live_phase queue cancels upd_calls]; (split; [lia|auto]).
    - rewrite poll_call_dead; [auto|]. intros c H. left. apply Hl. eapply nth_error_In, H.
    - destruct (nth_error (calls s) i) as [c|] eqn:E; cbn [option_map].
      + destruct (Hdead i c E) as [P|P]; rewrite P; unfold guard_cancel, guard_close; rewrite E, P, E, P; auto.
      + rewrite guard_close_none, guard_cancel_none by exact E. auto.
    - destruct (nth_error (calls s) i) as [c|] eqn:E; cbn [option_map].
      + destruct (Hdead i c E) as [P|P]; rewrite P; unfold guard_close; rewrite E, P; auto.
      + rewrite guard_close_none by exact E. auto.
    - destruct (nth_error (calls s) i) as [c|] eqn:E.
      + destruct (Hdead i c E) as [P|P]; unfold guard_cancel; rewrite E, P; auto.
      + rewrite guard_cancel_none by exact E. auto.
    - auto.
    - auto.
  Qed.

  (* ---------------------------------------------------------------- the observer across an op *)
  Variable maxif : nat.

  Ltac rec_op_frame o :=
    destruct o; cbn [rec_op];
    repeat match goal with |- context [match ?x with _ => _ end] => destruct x end; reflexivity.
  Lemma rec_op_read m (o : op) : m_read (rec_op m o) = m_read m.
  Proof. rec_op_frame o. Qed.
  Lemma rec_op_polled m (o : op) : (forall i, o <> PollCall i) -> m_polled (rec_op m o) = m_polled m.
  Proof.
    intro H. destruct o; cbn [rec_op];
      repeat match goal with |- context [match ?x with _ => _ end] => destruct x end; try reflexivity.
    all: exfalso; eapply H; reflexivity.
  Qed.
  Lemma rec_op_now_le m (o : op) : m_now m <= m_now (rec_op m o).
  Proof.
    destruct o; cbn [rec_op];
      repeat match goal with |- context [match ?x with _ => _ end] => destruct x end; cbn; lia.
  Qed.

  Record MFr (m m' : mst) : Prop := {
    mf_sent : m_sent m' = m_sent m;
    mf_cancels : m_cancels m' = m_cancels m;
    mf_read : m_read m' = m_read m;
    mf_cc : m_close_called m' = m_close_called m }.

  Lemma MFr_rec_op m (o : op) : MFr m (rec_op m o).
  Proof.
    constructor; [apply rec_op_sent|apply rec_op_cancels|apply rec_op_read|apply rec_op_close_called].
  Qed.

  Lemma chk_obs_mframe (o : op) m os :
    o <> PollDispatch ->
    MFr m (snd (chk_obs maxif o m os)) /\
    m_polled (snd (chk_obs maxif o m os)) = m_polled (rec_op m o) /\
    m_now (snd (chk_obs maxif o m os)) = m_now (rec_op m o).
  Proof.
    intro N. pose proof (MFr_rec_op m o) as [F1 F2 F3 F4].
    assert (K : forall v, MFr m (snd (v : verdicts, rec_op m o)) /\
              m_polled (snd (v, rec_op m o)) = m_polled (rec_op m o) /\
              m_now (snd (v, rec_op m o)) = m_now (rec_op m o)).
    { intro v. cbn [snd]. split; [constructor; assumption|split; reflexivity]. }
    unfold chk_obs. destruct o; try congruence; try (destruct os as [|? ?]; apply K).
    destruct os as [|[| |[|out|]| | |] [|? ?]]; try apply K.
    cbn [snd]. split; [constructor; assumption|split; reflexivity].
  Qed.

  (* ---------------------------------------------------------------- RA across an op that leaves the call table alone *)
  Lemma RA_env m m' s s' :
    MFr m m' -> m_polled m' = m_polled m -> m_now m <= m_now m' ->
    calls s' = calls s -> inflight s' = inflight s -> timers s' = timers s -> slots s' = slots s ->
    queue s' = queue s -> cancels s' = cancels s -> terminal s' = terminal s -> dropped s' = dropped s ->
    (m_close_called m = true -> senders s' = 0%nat) ->
    RA m s -> RA m' s'.
  Proof.
    intros [M1 M2 M3 M4] Mp Mn E1 E3 E4 E5 E6 E7 E8 E9 Hs [].
    assert (Hc : forall id, cancelled m' id = cancelled m id) by (intro; unfold cancelled; rewrite M2; reflexivity).
    constructor; rewrite ?M1, ?M4, ?Mp, ?E1, ?E3, ?E4, ?E5, ?E6, ?E7, ?E8, ?E9; try assumption.
    - intros sr Hsr. rewrite Hc. destruct (ra_ie0 sr Hsr) as [H|[H|[H|H]]]; [tauto|tauto| |tauto].
      right; right; left. apply (ended_now m m' sr M3 Mn H).
    - intro H. destruct (ra_cc0 H) as (_ & H2 & H3). auto.
  Qed.

  Lemma dead_calls s : senders s = 0%nat ->
    forall i c, nth_error (calls s) i = Some c -> c_phase c = PDone \/ c_phase c = PGone.
  Proof.
    intros Hs i c H. destruct (senders0 s Hs) as [_ Hl].
    pose proof (Hl c (nth_error_In _ _ H)) as L. destruct (c_phase c); try discriminate; auto.
  Qed.
  Lemma guard_close_dead s i : senders s = 0%nat -> guard_close s i = s.
  Proof.
    intro Hs. unfold guard_close. destruct (nth_error (calls s) i) as [c|] eqn:E; [|reflexivity].
    destruct (dead_calls s Hs i c E) as [P|P]; rewrite P; reflexivity.
  Qed.
  Lemma guard_cancel_dead s i : senders s = 0%nat -> guard_cancel s i = s.
  Proof.
    intro Hs. unfold guard_cancel. destruct (nth_error (calls s) i) as [c|] eqn:E; [|reflexivity].
    destruct (dead_calls s Hs i c E) as [P|P]; rewrite P; reflexivity.
  Qed.

  Lemma RA_guard_close_st m s i : sim m s -> RA m s -> RA m (guard_close s i).
  Proof.
    intros S R. apply (RA_op_gen m m s (guard_close s i) i); try reflexivity; try tauto.
    - apply OpFr_guard_close, S.
    - eapply Hrx_of_OpFr; [exact S|apply OpFr_guard_close, S].
    - apply ARi_guard_close; assumption.
    - intro H. destruct (ra_cc _ _ R H) as (H1 & H2 & H3). rewrite guard_close_dead by exact H1. auto.
  Qed.
  Lemma RA_guard_cancel_st m s i : RA m s -> RA m (guard_cancel s i).
  Proof.
    intros R. apply (RA_op_gen m m s (guard_cancel s i) i); try reflexivity; try tauto.
    - apply OpFr_guard_cancel.
    - intros j c _ _ _. assert (E : slots (guard_cancel s i) = slots s).
      { unfold guard_cancel. destruct (nth_error (calls s) i) as [c0|]; [|reflexivity].
        destruct (c_phase c0); try reflexivity. rewrite set_phase_alt, push_cancel_alt. reflexivity. }
      unfold rxc. rewrite E. tauto.
    - apply ARi_guard_cancel; assumption.
    - intro H. destruct (ra_cc _ _ R H) as (H1 & H2 & H3). rewrite guard_cancel_dead by exact H1. auto.
  Qed.

  Lemma RA_step m s (o : op) :
    o <> PollDispatch -> o <> DropDispatch -> sim m s -> next_id s + 1 < two64 -> RA m s ->
    RA (snd (chk_obs maxif o m (snd (step tp fuel_of s o)))) (fst (step tp fuel_of s o)).
  Proof.
    intros N1 N2 S Hw R.
    destruct (chk_obs_mframe o m (snd (step tp fuel_of s o)) N1) as (MF & Mp & Mn).
    set (m' := snd (chk_obs maxif o m (snd (step tp fuel_of s o)))) in *.
    assert (Hcc : m_close_called m = true ->
              senders (fst (step tp fuel_of s o)) = 0%nat /\ queue (fst (step tp fuel_of s o)) = [] /\
              cancels (fst (step tp fuel_of s o)) = []).
    { intro H. destruct (ra_cc _ _ R H) as (H1 & H2 & H3). apply cc_step; assumption. }
    assert (Env : forall s', s' = fst (step tp fuel_of s o) -> (forall i, o <> PollCall i) ->
              calls s' = calls s -> inflight s' = inflight s -> timers s' = timers s -> slots s' = slots s ->
              queue s' = queue s -> cancels s' = cancels s -> terminal s' = terminal s ->
              dropped s' = dropped s -> RA m' s').
    { intros s' Es Hn E1 E2 E3 E4 E5 E6 E7 E8. apply (RA_env m m' s s'); try assumption.
      - rewrite Mp. apply rec_op_polled, Hn.
      - rewrite Mn. apply rec_op_now_le.
      - intro H. rewrite Es. apply Hcc, H. }
    assert (Gen : forall i s', s' = fst (step tp fuel_of s o) ->
              (forall j, In j (m_polled m') -> j <> i -> In j (m_polled m)) -> m_now m' = m_now m ->
              OpFr s s' i -> ARi m' s' i -> RA m' s').
    { intros i s' Es Hp Hn F A. destruct MF. apply (RA_op_gen m m' s s' i); try assumption.
      - eapply Hrx_of_OpFr; eassumption.
      - intro H. rewrite Es. apply Hcc, H. }
    destruct o; try congruence.
    - (* CloneHandle *)
      apply Env; try reflexivity; try discriminate; cbn [step fst];
        destruct (nth_error (handles s) h) as [[|]|]; reflexivity.
    - apply Env; try reflexivity; try discriminate; cbn [step fst];
        destruct (nth_error (handles s) h) as [[|]|]; reflexivity.
    - (* Call *)
      apply (Gen (length (calls s))); [reflexivity| | | |].
      + intros j Hj _. rewrite Mp, rec_op_polled in Hj by discriminate. exact Hj.
      + rewrite Mn. reflexivity.
      + cbn [step fst]. constructor; try reflexivity; try tauto; try lia. apply lok_app. reflexivity.
      + intros c' _ Hp. exfalso. rewrite Mp, rec_op_polled in Hp by discriminate.
        pose proof (sc_range_p _ _ (sim_c _ _ S) _ Hp) as H. rewrite (sc_len _ _ (sim_c _ _ S)) in H. lia.
    - (* PollCall *)
      cbn [step] in *. destruct (poll_call s i) as [r s1] eqn:E. cbn [fst snd] in *.
      apply (Gen i); [reflexivity| | | |].
      + intros j Hj Hn. rewrite Mp in Hj. cbn [rec_op m_polled upd_m] in Hj.
        destruct (_ || _) in Hj; [exact Hj|]. apply in_app_or in Hj. destruct Hj as [Hj|[Hj|[]]]; congruence.
      + rewrite Mn. reflexivity.
      + pose proof (OpFr_poll_call s i Hw) as F. rewrite E in F. exact F.
      + intros c' Hc' Hp. rewrite Mp in Hp. exact (ARi_poll_call m s i r s1 S R E c' Hc' Hp).
    - (* DropCall *)
      cbn [step fst] in *.
      assert (R1 : RA m (match option_map c_phase (nth_error (calls s) i) with
                         | Some PClosing => s | _ => guard_cancel (guard_close s i) i end)).
      { destruct (option_map c_phase (nth_error (calls s) i)) as [[]|]; try exact R;
          apply RA_guard_cancel_st, RA_guard_close_st; assumption. }
      eapply (RA_env m m'); [exact MF|rewrite Mp; apply rec_op_polled; discriminate
                            |rewrite Mn; apply rec_op_now_le|reflexivity..| |exact R1].
      intro H. apply (ra_cc _ _ R1 H).
    - (* GuardClose *)
      cbn [step fst] in *.
      assert (R1 : RA m (match option_map c_phase (nth_error (calls s) i) with
                         | Some PClosing => s | _ => guard_close s i end)).
      { destruct (option_map c_phase (nth_error (calls s) i)) as [[]|]; try exact R;
          apply RA_guard_close_st; assumption. }
      eapply (RA_env m m'); [exact MF|rewrite Mp; apply rec_op_polled; discriminate
                            |rewrite Mn; apply rec_op_now_le|reflexivity..| |exact R1].
      intro H. apply (ra_cc _ _ R1 H).
    - (* GuardCancel *)
      cbn [step fst] in *. pose proof (RA_guard_cancel_st m s i R) as R1.
      eapply (RA_env m m'); [exact MF|rewrite Mp; apply rec_op_polled; discriminate
                            |rewrite Mn; apply rec_op_now_le|reflexivity..| |exact R1].
      intro H. apply (ra_cc _ _ R1 H).
    - (* Advance *)
      apply Env; try reflexivity; discriminate.
    - (* Tr *)
      apply Env; try reflexivity; discriminate.
  Qed.
End OpFrames.

(* ================================================================== a running dispatch poll *)
Section Run.
  Context {T : Type} (tp : transport T cmsg resp) (maxif : nat) (mb : mst).
  Notation cstate := (@cstate T).
  Implicit Types (s : cstate).

  (* what a micro-step appends to the log, and in which situation *)
  Lemma mstep_entry e s s' : mstep tp e s s' ->
    (plog s' = plog s /\ fused s' = fused s) \/
    (exists c, plog s' = plog s ++ [c] /\ (fused s' = fused s \/ c = CNext REof) /\
       match c with
       | CSend (MReq _ _ _ _) _ => queue s <> []
       | CSend (MCancel id _) _ => In id (cancels s) /\ In id (map fst (inflight s))
       | CClose _ => senders s = 0%nat /\ cancels s = []
       | _ => True
       end).
  Proof.
    intro H. destruct H.
    - right. exists (CReady r). apply do_ready_eq in H. rewrite H. split; [reflexivity|]. split; [left; reflexivity|exact I].
    - right. exists (CFlush r). apply do_flush_eq in H. rewrite H. split; [reflexivity|]. split; [left; reflexivity|exact I].
    - right. exists (CClose r). apply do_close_eq in H3. rewrite H3. split; [reflexivity|]. split; [left; reflexivity|auto].
    - right. exists (CNext (RItem x)). apply do_next_eq in H. destruct H as [(_ & [=] & _)|(Hf & H)].
      rewrite plog_complete, (fused_T _ _ (TFrame_complete s1 x)), H. cbn [plog fused upd_tr].
      split; [reflexivity|]. split; [left; congruence|exact I].
    - apply do_next_eq in H. destruct H as [(_ & -> & ->)|(Hf & H)]; [left; split; reflexivity|].
      right. exists (CNext r). rewrite H. cbn [plog fused upd_tr]. split; [reflexivity|]. split; [|exact I].
      destruct r; try (left; congruence). right; reflexivity.
    - left. pose proof (IFrame_q_poll_recv s) as F. rewrite H in F. cbn [snd] in F.
      pose proof (TFrame_I _ _ (TFrame_slot_tx_drop s1 (q_id q))) as F2.
      split; [rewrite (if_plog _ _ F2); apply F|rewrite (if_fused _ _ F2); apply F].
    - right. exists (req_call q w). pose proof (IFrame_q_poll_recv s) as F. rewrite H in F. cbn [snd] in F.
      apply do_send_eq in H1.
      assert (E : plog s3 = plog s ++ [req_call q w] /\ fused s3 = fused s).
      { rewrite H1. cbn [plog fused upd_tr insert_request upd_if]. rewrite (if_plog _ _ F), (if_fused _ _ F).
        split; reflexivity. }
      destruct E as [E1 E2].
      assert (Q : queue s <> []).
      { revert H. unfold q_poll_recv. destruct (queue s); [|discriminate].
        destruct (Nat.eqb _ _); [discriminate|]. destruct (_ && _); discriminate. }
      destruct w; (split; [|split; [left|exact Q]]).
      + exact E1.
      + exact E2.
      + rewrite plog_complete_request. exact E1.
      + rewrite (fused_T _ _ (TFrame_complete_request s3 (q_id q) OSendErr)). exact E2.
    - left. pose proof (IFrame_c_poll_recv s) as F. rewrite H in F. cbn [snd] in F.
      pose proof (TFrame_cancel_request s1 id) as F2. rewrite H0 in F2. cbn [snd] in F2. apply TFrame_I in F2.
      split; [rewrite (if_plog _ _ F2); apply F|rewrite (if_fused _ _ F2); apply F].
    - right. exists (CSend (MCancel id (if_tc e)) w).
      pose proof (IFrame_c_poll_recv s) as F. rewrite H in F. cbn [snd] in F.
      pose proof (TFrame_cancel_request s1 id) as F2. rewrite H0 in F2. cbn [snd] in F2. apply TFrame_I in F2.
      apply do_send_eq in H1. rewrite H1. cbn [plog fused upd_tr].
      rewrite (if_plog _ _ F2), (if_plog _ _ F), (if_fused _ _ F2), (if_fused _ _ F).
      split; [reflexivity|]. split; [left; reflexivity|].
      revert H H0. unfold c_poll_recv, cancel_request.
      destruct (cancels s) as [|y l]; [destruct (Nat.eqb _ _); discriminate|]. intros [= -> <-].
      cbn [inflight upd_cancels]. destruct (alookup id (inflight s)) eqn:Ea; [|discriminate]. intros _.
      split; [left; reflexivity|]. apply alookup_in in Ea. apply in_map_iff. exists (id, i). auto.
    - left. pose proof (TFrame_poll_expired s) as F. rewrite H in F. apply TFrame_I in F.
      split; apply F.
  Qed.

  Record DRun s : Prop := {
    dr_sim : dsim maxif mb s;
    dr_ra : RA (cur mb s) s;
    dr_v10 : v10 (fst (chk_calls maxif mb (plog s))) = true;
    dr_j : fused s = true -> In (CNext REof) (plog s);
    dr_t : terminal s = None;
    dr_d : dropped s = false }.

  Lemma DRun_mstep e s s' : mstep tp e s s' -> DRun s -> DRun s'.
  Proof.
    intros H [D R V J Ht Hd]. pose proof (mstep_PFrame tp _ _ _ H) as PF.
    pose proof (dsim_mstep tp maxif mb _ _ _ H D) as D'.
    assert (R' : RA (cur mb s') s').
    { destruct (mstep_entry _ _ _ H) as [[E _]|(c & E & _)].
      - unfold cur. rewrite E. rewrite <- (app_nil_r (plog s)) in E.
        pose proof (RA_mstep tp (cur mb s) _ _ _ H (ds_sim _ _ _ D) R [] E) as K. exact K.
      - unfold cur. rewrite E, mrun_app.
        exact (RA_mstep tp (cur mb s) _ _ _ H (ds_sim _ _ _ D) R [c] E). }
    constructor; try assumption.
    - destruct (mstep_entry _ _ _ H) as [[E _]|(c & E & _ & K)]; [rewrite E; exact V|].
      rewrite E, chk_calls_snoc. cbn [vand v10]. rewrite V. cbn [andb]. fold (cur mb s).
      destruct c as [x|[id dl tc b|id tc] x|x|x|x]; try reflexivity.
      + cbn [chk_call v10]. apply negb_true_iff. destruct (m_close_called (cur mb s)) eqn:Ec; [|reflexivity].
        exfalso. apply K. apply (ra_cc _ _ R Ec).
      + cbn [chk_call v10]. apply negb_true_iff. destruct (m_close_called (cur mb s)) eqn:Ec; [|reflexivity].
        exfalso. destruct K as [K _]. destruct (ra_cc _ _ R Ec) as (_ & _ & K3). rewrite K3 in K. exact K.
      + destruct K as [K1 K2]. apply (close_v10 maxif (cur mb s) s x (ds_sim _ _ _ D) R K1 K2 Ht Hd).
    - intro Hf. destruct (mstep_entry _ _ _ H) as [[E Ef]|(c & E & [Ef| ->] & _)].
      + rewrite E. apply J. congruence.
      + rewrite E. apply in_or_app. left. apply J. congruence.
      + rewrite E. apply in_or_app. right; left; reflexivity.
    - rewrite (pf_terminal _ _ PF). exact Ht.
    - rewrite (pf_dropped _ _ PF). exact Hd.
  Qed.

  Lemma DRun_msteps e s s' : msteps tp e s s' -> DRun s -> DRun s'.
  Proof.
    induction 1 as [s|a s s' H|e s s1 s2 H1 H2 IH]; intro D; [exact D|eapply DRun_mstep; eassumption|].
    apply IH. eapply DRun_mstep; eassumption.
  Qed.

  Definition end_mark (c : tcall cmsg resp) : bool :=
    match c with CNext REof | CClose TOk => true | _ => false end.

  Lemma plog_grows_msteps e s s' : msteps tp e s s' -> exists seg, plog s' = plog s ++ seg.
  Proof. intro H. destruct (msteps_log tp _ _ _ H) as (seg & E & _). exists seg. exact E. Qed.

  Lemma pump_read_none s s1 : pump_read tp s = (PNone, s1) -> fused s1 = true.
  Proof.
    intro H. apply pump_read_inv in H. destruct H as (x & sx & Hn & Hr & ->).
    destruct x; try discriminate. apply do_next_eq in Hn.
    destruct Hn as [(Hf & _ & ->)|(_ & ->)]; [exact Hf|reflexivity].
  Qed.

  Lemma pump_read_fused s rd s1 :
    pump_read tp s = (rd, s1) -> rd = PSome tt \/ rd = PPend -> fused s = false -> fused s1 = false.
  Proof.
    intros H Hr Hf. apply pump_read_inv in H. destruct H as (x & sx & Hn & -> & ->).
    apply do_next_eq in Hn. destruct Hn as [(Hf' & _)|(_ & ->)]; [congruence|].
    destruct x; cbn [read_res] in Hr; try (destruct Hr; discriminate).
    - rewrite (fused_T _ _ (TFrame_complete _ _)). reflexivity.
    - reflexivity.
  Qed.

  Lemma pump_write_none s s' : pump_write tp s = (PNone, s') -> exists l, plog s' = l ++ [CClose TOk].
  Proof.
    intro H. apply pump_write_inv in H. inversion H as [| | | | |sa sb sc c sd H1 H2 H3 H4 Hc|r1 sa r2 sb sc f sd H1 I1 H2 I2 Hp H3 H4 Hf]; subst.
    - destruct c; try discriminate. apply do_close_eq in H4. rewrite H4. eexists; reflexivity.
    - destruct f; discriminate.
  Qed.

  Lemma run_loop_ok_log f : forall s s', run_loop tp f s = (RunOk, s') -> DRun s ->
    existsb end_mark (plog s') = true.
  Proof.
    induction f as [|f IH]; intros s s' H D; [discriminate|].
    apply run_loop_inv in H.
    inversion H as [| |s1 wr s2 H1 H2 Hw|rd s1 s2 H1 Hr H2 Hl| |rd s1 wr s2 r0 s3 H1 H2 Hc H3]; subst.
    - pose proof (pump_read_none _ _ H1) as Hf.
      pose proof (DRun_msteps _ _ _ (pump_read_msteps tp _ _ _ H1) D) as D1.
      pose proof (dr_j _ D1 Hf) as Hin.
      destruct (plog_grows_msteps _ _ _ (pump_write_msteps tp _ _ _ H2)) as (seg & E).
      apply existsb_exists. exists (CNext REof). split; [rewrite E; apply in_or_app; left; exact Hin|reflexivity].
    - destruct (pump_write_none _ _ H2) as (l & E). rewrite E, existsb_app. cbn. apply orb_true_r.
    - apply (IH s2 s' H3).
      apply (DRun_msteps _ _ _ (pump_write_msteps tp _ _ _ H2)).
      apply (DRun_msteps _ _ _ (pump_read_msteps tp _ _ _ H1)). exact D.
  Qed.

  Lemma run_loop_fused f : forall s r s', run_loop tp f s = (r, s') -> fused s = false ->
    r = RunPending \/ r = RunFuel -> fused s' = false.
  Proof.
    induction f as [|f IH]; intros s r s' H Hf Hr; [injection H as _ <-; exact Hf|].
    apply run_loop_inv in H.
    inversion H as [| | | |s1 wr s2 H1 H2 Hw|rd s1 wr s2 r0 s3 H1 H2 Hc H3]; subst;
      try (destruct Hr; discriminate).
    - rewrite (fused_pump_write tp _ _ _ H2). apply (pump_read_fused _ _ _ H1); [right; reflexivity|exact Hf].
    - apply (IH s2 r s' H3); [|exact Hr].
      rewrite (fused_pump_write tp _ _ _ H2). apply (pump_read_fused _ _ _ H1); [|exact Hf].
      destruct Hc as [[-> _]|[-> _]]; auto.
  Qed.
End Run.

(* ================================================================== C10 *)
Section C10.
  Context {T : Type}.
  Variable tp : transport T cmsg resp.
  Variable fuel_of : @cstate T -> nat.
  Variable maxif : nat.
  Notation cstate := (@cstate T).
  Notation op := (@op T).
  Notation Inv := (InvX []).
  Implicit Types (s : cstate) (m : mst).

  Definition running s : Prop := terminal s = None /\ dropped s = false /\ finished s = None.

  Record R10 m s : Prop := {
    r10_09 : R09 m s;
    r10_ra : running s -> RA m s;
    r10_fu : running s -> fused s = false }.

  Lemma RA_init t0 qcap mif : RA m0 (init (T:=T) t0 qcap mif).
  Proof.
    constructor; cbn [m_sent m_polled m_close_called m0 calls timers init]; try (intros; contradiction);
      try discriminate.
  Qed.

  Lemma R10_init t0 qcap mif : R10 m0 (init (T:=T) t0 qcap mif).
  Proof. constructor; [apply R09_init|intros _; apply RA_init|reflexivity]. Qed.

  (* the pump loop of one poll *)
  Lemma c10_run_loop m s0 f rr sA :
    run_loop tp f s0 = (rr, sA) -> plog s0 = [] -> sim m s0 -> RA m s0 -> fused s0 = false ->
    terminal s0 = None -> dropped s0 = false ->
    v10 (fst (chk_calls maxif m (plog sA))) = true /\
    RA (mrun m (plog sA)) sA /\
    (rr = RunOk -> existsb end_mark (plog sA) = true) /\
    (rr = RunPending \/ rr = RunFuel -> fused sA = false).
  Proof.
    intros H Hp S R Hf Ht Hd.
    assert (D0 : DRun maxif m s0).
    { constructor; try assumption.
      - constructor; unfold cur; rewrite Hp; [exact S|reflexivity].
      - unfold cur. rewrite Hp. exact R.
      - rewrite Hp. reflexivity.
      - congruence. }
    pose proof (DRun_msteps tp maxif m _ _ _ (run_loop_msteps tp _ _ _ _ H) D0) as D1.
    split; [apply D1|]. split; [apply D1|]. split.
    - intros ->. eapply run_loop_ok_log; eassumption.
    - intro Hr. eapply run_loop_fused; eassumption.
  Qed.

  Lemma running_UFrame s s' : UFrame s s' -> running s' -> running s.
  Proof. intros [] (H1 & H2 & H3). repeat split; congruence. Qed.

  Lemma poll_dispatch_frames f s0 r s1 :
    poll_dispatch tp f s0 = (r, s1) -> finished s1 = finished s0 /\ dropped s1 = dropped s0.
  Proof.
    unfold poll_dispatch. destruct (terminal s0) as [a|].
    - destruct (shut_down s0 a) as [b sx] eqn:Ex. apply PFrame_shut_down in Ex.
      destruct b; intros [= _ <-]; split; apply Ex.
    - destruct (run_loop tp f s0) as [rr sx] eqn:Ex. apply PFrame_run_loop in Ex.
      destruct rr as [|a| |]; try (intros [= _ <-]; split; apply Ex).
      destruct (shut_down (upd_term sx (Some a)) a) as [b sy] eqn:Ey. apply PFrame_shut_down in Ey.
      destruct b; intros [= _ <-]; (split; [rewrite (pf_finished _ _ Ey)|rewrite (pf_dropped _ _ Ey)]);
        apply Ex.
  Qed.

  Lemma c10_step m s (o : op) :
    sim m s -> N.of_nat (S (length (m_polled m))) < two64 -> Inv s -> R10 m s ->
    v10 (fst (chk_obs maxif o m (snd (step tp fuel_of s o)))) = true /\
    R10 (snd (chk_obs maxif o m (snd (step tp fuel_of s o)))) (fst (step tp fuel_of s o)).
  Proof.
    intros HS Hw Iv [R9 RAr Fu].
    destruct (c09_step tp fuel_of maxif m s o HS Hw Iv R9) as [V9 R9'].
    assert (Hnid : next_id s + 1 < two64) by (rewrite (sc_next _ _ (sim_c _ _ HS)); lia).
    assert (Nil : forall o' : op, (forall i, o' <> PollCall i) -> o' <> PollDispatch -> o' <> DropDispatch ->
              R09 (snd (chk_obs maxif o' m (snd (step tp fuel_of s o')))) (fst (step tp fuel_of s o')) ->
              v10 (fst (chk_obs maxif o' m (snd (step tp fuel_of s o')))) = true /\
              R10 (snd (chk_obs maxif o' m (snd (step tp fuel_of s o')))) (fst (step tp fuel_of s o'))).
    { intros o' H1 H2 H3 R9o. pose proof (step_nil_obs tp fuel_of s o' H1 H2) as E.
      split; [rewrite E, chk_obs_nil; reflexivity|].
      assert (F : UFrame s (fst (step tp fuel_of s o'))).
      { destruct (step tp fuel_of s o') as [sx osx] eqn:Es. eapply (UFrame_step tp fuel_of); eassumption. }
      constructor; [exact R9o| |].
      - intro Hr. apply RA_step; try assumption. apply RAr. eapply running_UFrame; eassumption.
      - intro Hr. rewrite (uf_fused _ _ F). apply Fu. eapply running_UFrame; eassumption. }
    destruct o; try (apply Nil; [intros j; discriminate|discriminate|discriminate|exact R9']).
    - (* PollCall *)
      clear Nil. split.
      + revert V9. cbn [step]. destruct (poll_call s i) as [r s']. cbn [fst snd].
        destruct r as [|out|]; cbn [fst snd chk_obs]; [cbn [v09 v10]; tauto|reflexivity|reflexivity].
      + assert (F : UFrame s (fst (step tp fuel_of s (PollCall i)))).
        { destruct (step tp fuel_of s (PollCall i)) as [sx osx] eqn:Es.
          eapply (UFrame_step tp fuel_of); [exact Es|discriminate|discriminate]. }
        constructor; [exact R9'| |].
        * intro Hr. apply RA_step; try assumption; try discriminate. apply RAr. eapply running_UFrame; eassumption.
        * intro Hr. rewrite (uf_fused _ _ F). apply Fu. eapply running_UFrame; eassumption.
    - (* PollDispatch *)
      clear Nil.
      destruct (finished s) as [d|] eqn:Ef.
      { revert R9'. cbn [step]. rewrite Ef. cbn. intro R9'. split; [reflexivity|].
        constructor; [exact R9'|intros (_ & _ & H); congruence|intros (_ & _ & H); congruence]. }
      destruct (dropped s) eqn:Ed.
      { revert R9'. cbn [step]. rewrite Ef, Ed. cbn. intro R9'. split; [reflexivity|].
        constructor; [exact R9'|intros (_ & H & _); congruence|intros (_ & H & _); congruence]. }
      set (s0 := upd_tr s (tr s) (fused s) []).
      destruct (poll_dispatch tp (fuel_of s0) s0) as [r s1] eqn:E.
      set (s2 := match r with DReady d => upd_fin s1 (Some d) (dropped s1) | _ => s1 end).
      assert (Est : step tp fuel_of s PollDispatch =
                    (upd_tr s2 (tr s2) (fused s2) [],
                     [OCalls (plog s1); ODisp r;
                      OGauge (N.of_nat (length (inflight s2))) (N.of_nat (length (timers s2)))])).
      { cbn [step]. rewrite Ef, Ed. fold s0. rewrite E. reflexivity. }
      revert R9'. rewrite Est. cbn [fst snd]. intro R9'.
      destruct (poll_dispatch_frames _ _ _ _ E) as [PF1 PF2]. cbn [finished dropped upd_tr s0] in PF1, PF2.
      (* what the poll did *)
      assert (K : v10 (fst (chk_calls maxif m (plog s1))) = true /\
                  (r = DReady DOk -> existsb end_mark (plog s1) = true) /\
                  (running s2 -> RA (mrun m (plog s1)) s1 /\ fused s1 = false)).
      { revert E. unfold poll_dispatch. destruct (terminal s0) as [a|] eqn:Et.
        - destruct (shut_down s0 a) as [b sx] eqn:Ex.
          pose proof (plog_shut_down _ _ _ _ Ex) as P1. pose proof (PFrame_shut_down _ _ _ _ Ex) as F1.
          assert (Pl : plog s1 = [] -> terminal s1 = Some a ->
                       v10 (fst (chk_calls maxif m (plog s1))) = true /\
                       (r = DReady DOk -> existsb end_mark (plog s1) = true) /\
                       (running s2 -> RA (mrun m (plog s1)) s1 /\ fused s1 = false) ->
                       v10 (fst (chk_calls maxif m (plog s1))) = true /\
                       (r = DReady DOk -> existsb end_mark (plog s1) = true) /\
                       (running s2 -> RA (mrun m (plog s1)) s1 /\ fused s1 = false)) by tauto.
          destruct b; intros [= <- <-]; rewrite P1; cbn [plog upd_tr s0 chk_calls fst];
            (split; [reflexivity|split; [discriminate|]]); intros (H1 & _ & _); exfalso;
            unfold s2 in H1; cbn [terminal upd_fin] in H1; rewrite (pf_terminal _ _ F1) in H1; congruence.
        - destruct (run_loop tp (fuel_of s0) s0) as [rr sA] eqn:Ex.
          assert (Hrun : running s) by (repeat split; [exact Et|exact Ed|exact Ef]).
          assert (S0 : sim m s0) by (eapply sim_frame; [exact HS|reflexivity..]).
          assert (R0 : RA m s0).
          { exact (RA_frame m m s s0 eq_refl eq_refl eq_refl eq_refl eq_refl eq_refl
                     eq_refl eq_refl eq_refl eq_refl eq_refl eq_refl eq_refl eq_refl eq_refl (RAr Hrun)). }
          destruct (c10_run_loop m s0 _ _ _ Ex eq_refl S0 R0 (Fu Hrun) Et Ed) as (V & RA1 & Hok & Hfu).
          destruct rr as [|a| |].
          + intros [= <- <-]. split; [exact V|]. split; [intros _; apply Hok; reflexivity|].
            intros (_ & _ & H). unfold s2 in H. cbn in H. discriminate.
          + destruct (shut_down (upd_term sA (Some a)) a) as [b sy] eqn:Ey.
            pose proof (plog_shut_down _ _ _ _ Ey) as P2. pose proof (PFrame_shut_down _ _ _ _ Ey) as F2.
            cbn [plog upd_term] in P2.
            destruct b; intros [= <- <-]; rewrite P2; (split; [exact V|split; [discriminate|]]);
              intros (H1 & _ & _); exfalso; unfold s2 in H1; cbn [terminal upd_fin] in H1;
              rewrite (pf_terminal _ _ F2) in H1; discriminate.
          + intros [= <- <-]. split; [exact V|]. split; [discriminate|]. intros _.
            split; [exact RA1|apply Hfu; left; reflexivity].
          + intros [= <- <-]. split; [exact V|]. split; [discriminate|]. intros _.
            split; [exact RA1|apply Hfu; right; reflexivity]. }
      destruct K as (V & Hok & Hrun').
      revert R9'. cbn [chk_obs rec_op].
      pose proof (chk_calls_snd maxif m (plog s1)) as Esnd.
      destruct (chk_calls maxif m (plog s1)) as [v m2]. cbn [fst snd] in V, Esnd. subst m2.
      destruct (c_poll _ _ _) as [okc c2]. cbn [fst snd vand v10]. intro R9'. rewrite V. cbn [andb]. split.
      * destruct r as [[|a]| |]; try reflexivity. apply Hok. reflexivity.
      * constructor; [exact R9'| |].
        -- intros Hr. assert (Hr2 : running s2) by exact Hr. destruct (Hrun' Hr2) as [RA1 _].
           assert (Es2 : s2 = s1).
           { unfold s2 in *. destruct r as [d| |]; try reflexivity.
             destruct Hr2 as (_ & _ & H). cbn in H. discriminate. }
           rewrite Es2.
           match goal with |- RA ?mm ?ss =>
             exact (RA_frame (mrun m (plog s1)) mm s1 ss eq_refl eq_refl eq_refl eq_refl eq_refl eq_refl
                      eq_refl eq_refl eq_refl eq_refl eq_refl eq_refl eq_refl eq_refl eq_refl RA1) end.
        -- intros Hr. assert (Hr2 : running s2) by exact Hr. destruct (Hrun' Hr2) as [_ F1].
           assert (Es2 : s2 = s1).
           { unfold s2 in *. destruct r as [d| |]; try reflexivity.
             destruct Hr2 as (_ & _ & H). cbn in H. discriminate. }
           rewrite Es2. exact F1.
    - (* DropDispatch *)
      clear Nil. split; [reflexivity|]. revert R9'. cbn [step fst snd]. rewrite chk_obs_nil. cbn [snd].
      intro R9'. constructor; [exact R9'| |]; intros (_ & H & _); exfalso; revert H;
        (destruct (dropped s) eqn:Ed; [congruence|]); destruct (drop_dispatch_frame s) as (_ & _ & F3); congruence.
  Qed.

  Lemma c10_run (ops : list op) : forall m s,
    sim m s -> N.of_nat (length (m_polled m) + length ops) < two64 -> Inv s -> R10 m s ->
    v10 (chk_run maxif m ops (fst (run_from tp fuel_of s ops))) = true.
  Proof.
    induction ops as [|o ops IH]; intros m s HS Hw Iv R; cbn [run_from chk_run fst]; [reflexivity|].
    assert (Hw1 : N.of_nat (S (length (m_polled m))) < two64) by (cbn [length] in Hw; lia).
    destruct (c10_step m s o HS Hw1 Iv R) as [V R'].
    pose proof (sim_step tp fuel_of maxif m s o HS Hw1) as HS'.
    pose proof (polled_chk_obs_le maxif m o (snd (step tp fuel_of s o))) as Hle.
    assert (Iv' : Inv (fst (step tp fuel_of s o))).
    { destruct (step tp fuel_of s o) as [s1 l] eqn:Es. cbn [fst].
      eapply (Inv_step tp fuel_of); [exact Es| |exact Iv].
      rewrite (sc_next _ _ (sim_c _ _ HS)). lia. }
    destruct (step tp fuel_of s o) as [s1 l]. cbn [fst snd] in *.
    destruct (run_from tp fuel_of s1 ops) as [ls s2] eqn:Er. cbn [fst].
    destruct (chk_obs maxif o m l) as [v m']. cbn [fst snd] in *. cbn [vand v10].
    rewrite V. cbn [andb].
    specialize (IH m' s1 HS'). rewrite Er in IH. apply IH; [|exact Iv'|exact R'].
    cbn [length] in Hw. lia.
  Qed.
End C10.

Theorem c10_orderly_shutdown {T : Type} : @stmt_c10 T.
Proof.
  intros tp fuel_of t0 qcap maxif ops Hw. unfold c10_ok, monitors, client_trace.
  apply c10_run; [apply sim_init| |apply Inv_init|apply R10_init].
  unfold no_wrap in Hw. cbn. unfold two64. lia.
Qed.
Print Assumptions c10_orderly_shutdown.
