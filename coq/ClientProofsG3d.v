(* Client proofs, group G3, part d: the observer/model relation behind C10 and C03 -- every
   written request is in flight, cancelled on the wire or ended; an abandoned call whose
   request is in flight has its cancel message queued; oneshot receivers of abandoned calls
   are closed; timers fire no earlier than deadline / clamp; after poll_close nothing can be
   queued -- and its preservation by every micro-step of a dispatch poll and by every op. *)
From Coq Require Import List Bool Arith NArith Lia ZifyBool ZifyNat ZifyN.
Import ListNotations.
From TarpcV Require Import Base Transport Client ClientS ClientMon ClientSpec ClientLemmas
  ClientProofsG1Frames ClientSimBase ClientProofsG3a ClientProofsG3b ClientProofsG3c.
Local Open Scope N_scope.

Arguments N.modulo : simpl never.
Arguments N.add : simpl never.
Arguments N.min : simpl never.
Arguments N.sub : simpl never.

(* ================================================================== the simulation at every micro-step *)
Section DsimStep.
  Context {T : Type} (tp : transport T cmsg resp) (maxif : nat) (mb : mst).
  Notation cstate := (@cstate T).
  Implicit Types (s : cstate).

  Lemma dsim_mstep e s s' : mstep tp e s s' -> dsim maxif mb s -> dsim maxif mb s'.
  Proof.
    intros H D. destruct H.
    - pose proof (dsim_do_ready tp maxif mb s D) as K. rewrite H in K. exact K.
    - pose proof (dsim_do_flush tp maxif mb s D) as K. rewrite H in K. exact K.
    - pose proof (dsim_do_close tp maxif mb s D) as K. rewrite H3 in K. exact K.
    - pose proof (dsim_pump_read tp maxif mb s D) as K. unfold pump_read in K. rewrite H in K. exact K.
    - pose proof (dsim_pump_read tp maxif mb s D) as K. unfold pump_read in K. rewrite H in K.
      destruct r; try exact K. exfalso. eapply H0; reflexivity.
    - pose proof (dsim_next_request_loop maxif mb 1 s D) as K. cbn [next_request_loop] in K.
      rewrite H, H0 in K. exact K.
    - pose proof (dsim_next_request_loop maxif mb 1 s D) as K. cbn [next_request_loop] in K.
      rewrite H, H0 in K. cbn [fst snd] in K.
      revert H1. unfold do_send.
      destruct (t_send tp (tr (insert_request s1 q)) (MReq (q_id q) (q_deadline q) (q_tc q) (q_body q)))
        as [w' t]. intros [= <- <-].
      pose proof (sim_send_request (cur mb s1) s1 q w' t (fused (insert_request s1 q))
                    (plog (insert_request s1 q) ++ [req_call q w']) (ds_sim _ _ _ K)) as S2.
      pose proof (v18_send_request maxif (cur mb s1) s1 q w' (ds_sim _ _ _ K)) as V2.
      apply dsim_withq_drop in K.
      destruct w'.
      + eapply dsim_step; [exact K|reflexivity|exact S2|exact V2].
      + eapply dsim_step; [exact K|rewrite plog_complete_request; reflexivity|exact S2|exact V2].
    - pose proof (dsim_next_cancel_loop maxif mb 1 s D) as [K _]. cbn [next_cancel_loop] in K.
      rewrite H, H0 in K. exact K.
    - pose proof (dsim_next_cancel_loop maxif mb 1 s D) as [K C]. cbn [next_cancel_loop] in K, C.
      rewrite H, H0 in K, C. cbn [fst snd] in K, C.
      revert H1. unfold do_send. destruct (t_send tp (tr s2) (MCancel id (if_tc e))) as [w' t].
      intros [= <- <-].
      assert (H3 : dsim maxif mb (upd_tr s2 t (fused s2) (plog s2 ++ [CSend (MCancel id (if_tc e)) w']))).
      { apply dsim_other; [exact K|reflexivity|reflexivity|]. apply v18_cancel, C. reflexivity. }
      exact H3.
    - pose proof (dsim_poll_expired maxif mb s D) as K. rewrite H in K. exact K.
  Qed.

  Lemma dsim_msteps e s s' : msteps tp e s s' -> dsim maxif mb s -> dsim maxif mb s'.
  Proof.
    induction 1 as [s|a s s' H|e s s1 s2 H1 H2 IH]; intro D; [exact D|eapply dsim_mstep; eassumption|].
    apply IH. eapply dsim_mstep; eassumption.
  Qed.
End DsimStep.

(* ================================================================== observer facts *)
Definition cancel_id (c : tcall cmsg resp) (id : N) : bool :=
  match c with CSend (MCancel id' _) _ => N.eqb id' id | _ => false end.

Lemma cancelled_rec_call m c id : cancelled (rec_call m c) id = cancelled m id || cancel_id c id.
Proof.
  unfold cancelled. rewrite rec_call_cancels, existsb_app.
  destruct c as [x|[id' dl tc b|id' tc] x|x|x|[x| | |]]; cbn; rewrite ?orb_false_r; reflexivity.
Qed.

Lemma read_any_after_mono m c id q :
  read_any_after m id q = true -> read_any_after (rec_call m c) id q = true.
Proof. unfold read_any_after. rewrite rec_call_read, existsb_app. intros ->. reflexivity. Qed.

Lemma ended_rec_call m c sr : ended m sr = true -> ended (rec_call m c) sr = true.
Proof.
  unfold ended. rewrite rec_call_now. intro H.
  apply orb_true_iff in H. destruct H as [H|H]; [|rewrite H; apply orb_true_r].
  apply orb_true_iff in H. destruct H as [H|H]; [|rewrite H; rewrite orb_true_r; reflexivity].
  apply orb_true_iff in H. destruct H as [H|H]; [rewrite H; reflexivity|].
  rewrite (read_any_after_mono _ _ _ _ H). rewrite orb_true_r. reflexivity.
Qed.

Lemma ended_read m x sr :
  s_id sr = r_id x -> (s_seq sr <= m_seq m)%nat -> ended (rec_call m (CNext (RItem x))) sr = true.
Proof.
  intros Hid Hq. unfold ended.
  assert (H : read_any_after (rec_call m (CNext (RItem x))) (s_id sr) (s_seq sr) = true).
  { unfold read_any_after. cbn [rec_call m_read]. rewrite existsb_app. cbn [existsb].
    rewrite Hid, N.eqb_refl. replace (s_seq sr <? S (m_seq m))%nat with true by lia.
    cbn. rewrite orb_true_r. reflexivity. }
  rewrite H, orb_true_r. reflexivity.
Qed.

Lemma ended_failed m sr : s_ok sr = false -> ended m sr = true.
Proof. unfold ended. intros ->. reflexivity. Qed.

Lemma ended_time m sr w :
  (s_deadline sr <= w \/ s_time sr + max_timeout_ms <= w) -> w <= m_now m -> ended m sr = true.
Proof.
  unfold ended. intros [H|H] Hw.
  - replace (s_deadline sr <=? m_now m) with true by lia. rewrite orb_true_r. reflexivity.
  - replace (s_time sr + max_timeout_ms <=? m_now m) with true by lia. apply orb_true_r.
Qed.

Lemma ended_now m m' sr :
  m_read m' = m_read m -> m_now m <= m_now m' -> ended m sr = true -> ended m' sr = true.
Proof.
  intros Er Hn. unfold ended, read_any_after. rewrite Er. intro H.
  apply orb_true_iff in H. destruct H as [H|H].
  - apply orb_true_iff in H. destruct H as [H|H].
    + rewrite H. reflexivity.
    + apply N.leb_le in H. replace (s_deadline sr <=? m_now m') with true by lia.
      rewrite orb_true_r. reflexivity.
  - apply N.leb_le in H. replace (s_time sr + max_timeout_ms <=? m_now m') with true by lia.
    apply orb_true_r.
Qed.

Definition livep (p : phase) : bool :=
  match p with PAcquiring | PAssigned | PAcqClosed | PAwaiting => true | _ => false end.

Section RA.
  Context {T : Type}.
  Variable tp : transport T cmsg resp.
  Notation cstate := (@cstate T).
  Notation op := (@op T).
  Notation Inv := (InvX []).
  Implicit Types (s : cstate) (m : mst).

  Record RA m s : Prop := {
    ra_ie : forall sr, In sr (m_sent m) ->
      In (s_id sr) (map fst (inflight s)) \/ cancelled m (s_id sr) = true \/ ended m sr = true \/
      terminal s <> None \/ dropped s = true;
    ra_ac : forall i c, nth_error (calls s) i = Some c -> c_phase c = PGone -> In i (m_polled m) ->
      In (c_id c) (map fst (inflight s)) -> In (c_id c) (cancels s) \/ dropped s = true;
    ra_rxc : forall i c, nth_error (calls s) i = Some c -> c_phase c = PClosing \/ c_phase c = PGone ->
      In i (m_polled m) -> sl_rx_closed (slotv (slots s) (c_id c)) = true;
    ra_ti : forall id w sr, In (id, w) (timers s) -> In sr (m_sent m) -> s_id sr = id ->
      s_deadline sr <= w \/ s_time sr + max_timeout_ms <= w;
    ra_cc : m_close_called m = true -> senders s = 0%nat /\ queue s = [] /\ cancels s = [] }.

  (* what RA reads of the observer: sent, cancels, read, now, polled, close_called *)
  Lemma RA_frame m m' s s' :
    m_sent m' = m_sent m -> m_cancels m' = m_cancels m -> m_read m' = m_read m ->
    m_now m' = m_now m -> m_polled m' = m_polled m -> m_close_called m' = m_close_called m ->
    calls s' = calls s -> handles s' = handles s -> inflight s' = inflight s -> timers s' = timers s ->
    slots s' = slots s -> queue s' = queue s -> cancels s' = cancels s -> terminal s' = terminal s ->
    dropped s' = dropped s -> RA m s -> RA m' s'.
  Proof.
    intros M1 M2 M3 M4 M5 M6 E1 E2 E3 E4 E5 E6 E7 E8 E9 [].
    assert (Hc : forall id, cancelled m' id = cancelled m id) by (intro; unfold cancelled; rewrite M2; reflexivity).
    assert (He : forall sr, ended m' sr = ended m sr)
      by (intro; unfold ended, read_any_after; rewrite M3, M4; reflexivity).
    constructor; unfold senders in *;
      rewrite ?M1, ?M5, ?M6, ?E1, ?E2, ?E3, ?E4, ?E5, ?E6, ?E7, ?E8, ?E9; try assumption.
    intros sr Hsr. rewrite Hc, He. apply ra_ie0, Hsr.
  Qed.
End RA.
