(* Chain proofs: end-to-end response integrity, value provenance (stmt_resp_val), for every
   depth, every op list, every state.  Invariant: on every node i, every Ok value held in a
   oneshot slot of the client, in the inbound side of the link, in the server's response queue or
   in a pending response send is a value some handler of node i finished with (as the monitor
   recorded it).  A value enters node i's server only when a handler finishes with it
   (ChainRespSrv.sv_execute_poll); a non-leaf handler finishes with v only if its nested call on
   node i+1 resolved with Ok v, i.e. a slot of client i+1 held it (ChainRespCli.cv_poll_call). *)
From Coq Require Import List Bool Arith NArith Lia.
Import ListNotations.
From TarpcV Require Import Base Transport TimerWheel Chain ChainSpec ChainBase ChainRespSpec.
From TarpcV Require Client Server ChainCli ChainSrv ChainRespCli ChainRespSrv.

Notation dnl := (list (nat * nat * N)).

(* ------------------------------------------------------------------------------------------ *)
(* the part of the monitor that matters here: the finished handlers and the flag rm_val *)
Definition vstep (d : nat) (p : dnl * bool) (e : cobs) : dnl * bool :=
  (dn_obs (fst p) e, snd p && val_chk d (fst p) e).

Lemma fold_rm_val d l : forall x,
  (rm_dn (fold_left (rm_obs d) l x), rm_val (fold_left (rm_obs d) l x))
  = fold_left (vstep d) l (rm_dn x, rm_val x).
Proof. induction l as [|e r IH]; intro x; cbn [fold_left]; [reflexivity|]. rewrite IH. reflexivity. Qed.

Definition V (dn : dnl) (i : nat) (v : N) : Prop := exists k, In (i, k, v) dn.

Lemma has_dn_V dn i v : V dn i v -> has_dn dn i v = true.
Proof.
  intros (k & H). unfold has_dn. apply existsb_exists. exists (i, k, v). split; [exact H|].
  rewrite Nat.eqb_refl, N.eqb_refl. reflexivity.
Qed.
Lemma V_mono dn dn' i v : incl dn dn' -> V dn i v -> V dn' i v.
Proof. intros I (k & H). exists k. apply I, H. Qed.

Definition vneutral (e : cobs) : bool :=
  match e with
  | KHDone _ _ (Server.BOk _) | KCall _ (Client.CDone (Client.OReply _)) => false
  | _ => true
  end.
Lemma vstep_neutral d p e : vneutral e = true -> vstep d p e = p.
Proof.
  destruct p as [dn ok]. unfold vstep. cbn [fst snd].
  destruct e; cbn; intro H; try (rewrite andb_true_r; reflexivity).
  - destruct r as [|o|]; try (rewrite andb_true_r; reflexivity).
    destruct o; try discriminate; rewrite andb_true_r; reflexivity.
  - destruct b; try discriminate; rewrite andb_true_r; reflexivity.
Qed.
Lemma fold_neutral d l : forall p, forallb vneutral l = true -> fold_left (vstep d) l p = p.
Proof.
  induction l as [|e r IH]; intros p H; cbn [fold_left]; [reflexivity|].
  cbn [forallb] in H. apply andb_true_iff in H. destruct H as [H1 H2].
  rewrite (vstep_neutral d p e H1). apply IH, H2.
Qed.
Lemma nonevent_neutral e : is_event e = false -> vneutral e = true.
Proof.
  destruct e; cbn; try discriminate; try reflexivity.
  - destruct r as [|o|]; try discriminate; reflexivity.
Qed.
Lemma fold_filter_event d l : forall p,
  fold_left (vstep d) (filter is_event l) p = fold_left (vstep d) l p.
Proof.
  induction l as [|e r IH]; intro p; cbn; [reflexivity|]. destruct (is_event e) eqn:E; cbn.
  - apply IH.
  - rewrite (vstep_neutral d p e (nonevent_neutral e E)). apply IH.
Qed.

(* ------------------------------------------------------------------------------------------ *)
(* one node *)
Record vn (P : N -> N -> Prop) (nd : node) : Prop := {
  vn_c : ChainRespCli.cl_ok P (n_cli nd);
  vn_l : ChainRespCli.lk_ok P (n_link nd);
  vn_q : forall r, In r (Server.s_respq (n_srv nd)) -> ChainRespSrv.b_ok P (Server.resp_id r) (Server.resp_body r);
  vn_h : forall hr, In hr (Server.s_handlers (n_srv nd)) -> ChainRespSrv.st_ok P (Server.h_id hr) (Server.h_st hr) }.

(* the value-only instance: P id v = "some handler of node i finished with v" *)
Definition Vc (dn : dnl) (i : nat) : N -> N -> Prop := fun _ v => V dn i v.

Lemma vn_sv P nd : vn P nd -> ChainRespSrv.sv P (Server.set_t (n_srv nd) (n_link nd)).
Proof. intros [A B C D]. constructor; assumption. Qed.
Lemma vn_cv P nd :
  vn P nd -> ChainRespCli.cv P (Client.upd_tr (n_cli nd) (n_link nd) (Client.fused (n_cli nd)) (Client.plog (n_cli nd))).
Proof. intros [A B C D]. split; assumption. Qed.

Lemma vn_mono (P P' : N -> N -> Prop) nd : (forall id v, P id v -> P' id v) -> vn P nd -> vn P' nd.
Proof.
  intros M H. pose proof (ChainRespSrv.sv_mono P P' _ M (vn_sv P nd H)) as [A B C].
  pose proof (ChainRespCli.cv_mono P P' _ M (vn_cv P nd H)) as [D E].
  constructor; assumption.
Qed.

(* a client step on a node *)
Lemma vn_cstep P nd o nd' l :
  cstep nd o = (nd', l) -> (forall g, o <> Client.Tr g) -> vn P nd ->
  vn P nd' /\ forall v, In (Client.OCall (Client.CDone (Client.OReply v))) l -> exists id, P id v.
Proof.
  unfold cstep. intros E HT H. pose proof (vn_cv P nd H) as K.
  destruct (Client.step ctp cfuel _ o) as [c1 l1] eqn:ES. injection E as <- <-.
  destruct (ChainRespCli.cv_step P cfuel _ _ _ _ ES HT K) as [[A B] R]. split.
  - destruct H as [_ _ C D]. constructor; assumption.
  - intros v Hin. destruct (R v Hin) as (i & c & _ & _ & Pc). eexists. exact Pc.
Qed.

(* server steps on a node *)
Lemma vn_of_sv P nd s1 :
  ChainRespSrv.sv P s1 -> ChainRespCli.cl_ok P (n_cli nd) ->
  vn P (mknode (n_cli nd) (Server.s_t s1) s1 (n_hs nd) (n_over nd)).
Proof. intros [A B C] D. constructor; assumption. Qed.

Lemma vn_sstep_poll P nd nd' l : sstep nd Server.OPoll = (nd', l) -> vn P nd -> vn P nd'.
Proof.
  unfold sstep. intros E H. pose proof (vn_sv P nd H) as K.
  destruct (Server.step _ _ _ _ _ _) as [s1 l1] eqn:ES. injection E as <- _.
  apply vn_of_sv; [|apply H]. eapply ChainRespSrv.sv_step_poll; eassumption.
Qed.
Lemma vn_sstep_drop P nd nd' l : sstep nd Server.ODropChannel = (nd', l) -> vn P nd -> vn P nd'.
Proof.
  unfold sstep. intros E H. pose proof (vn_sv P nd H) as K.
  destruct (Server.step _ _ _ _ _ _) as [s1 l1] eqn:ES. injection E as <- _.
  apply vn_of_sv; [|apply H]. eapply ChainRespSrv.sv_step_drop; eassumption.
Qed.
Lemma vn_sstep_advance P dt nd nd' l : sstep nd (Server.OAdvance dt) = (nd', l) -> vn P nd -> vn P nd'.
Proof.
  unfold sstep. intros E H. pose proof (vn_sv P nd H) as K.
  destruct (Server.step _ _ _ _ _ _) as [s1 l1] eqn:ES. injection E as <- _.
  apply vn_of_sv; [|apply H]. eapply ChainRespSrv.sv_step_advance; eassumption.
Qed.

(* what a poll of execute() can report as finished *)
Lemma hdone_execute_poll k st (s : Server.sstate (T := link)) k' v :
  In (Server.OHDone k' (Server.BOk v)) (snd (Server.execute_poll k st s)) -> st = Server.SFinish v /\ k' = k.
Proof.
  unfold Server.execute_poll. destruct (nth_error _ k) as [hr|]; [|intros []].
  destruct (Server.h_st hr); cbn [snd]; try (intros []);
    destruct (existsb _ _); cbn [snd];
    try (intros [H|[H|[]]]; discriminate); try (intros [H|[]]; discriminate);
    try (destruct (Server.s_dropped s); cbn [snd]; intros [H|[]]; discriminate).
  all: destruct st as [|v0|]; cbn [snd]; try (intros [H|[H|[]]]; discriminate).
  all: destruct (Server.s_dropped s); [|destruct (Server.s_permits s)]; cbn [snd app];
    intros [H|[H|[H|[]]]]; try discriminate; injection H as <- <-; split; reflexivity.
Qed.

Lemma vn_sstep_handler (P P' : N -> N -> Prop) k st nd nd' l :
  sstep nd (Server.OHandlerPoll k st) = (nd', l) -> vn P nd -> (forall id v, P id v -> P' id v) ->
  (forall hr v, nth_error (Server.s_handlers (n_srv nd)) k = Some hr ->
                In (Server.OHDone k (Server.BOk v)) l -> P' (Server.h_id hr) v) ->
  vn P' nd' /\ n_cli nd' = n_cli nd.
Proof.
  unfold sstep. intros E H M F. pose proof (vn_sv P nd H) as K.
  unfold Server.step in E.
  destruct (Server.execute_poll k st _) as [s1 l1] eqn:EX. injection E as <- <-.
  split; [|reflexivity]. apply vn_of_sv.
  - eapply ChainRespSrv.sv_execute_poll; [exact EX|exact K|exact M|].
    intros hr v Eh Hin. apply (F hr v Eh). apply in_or_app. left. exact Hin.
  - intros id x Hx v Ev. apply M. eapply (vn_c _ _ H); eassumption.
Qed.

Lemma hdone_sstep k st nd nd' l k' v :
  sstep nd (Server.OHandlerPoll k st) = (nd', l) -> In (Server.OHDone k' (Server.BOk v)) l ->
  st = Server.SFinish v /\ k' = k.
Proof.
  unfold sstep, Server.step. intros E Hin.
  destruct (Server.execute_poll k st _) as [s1 l1] eqn:EX. injection E as _ <-.
  apply in_app_or in Hin. destruct Hin as [Hin|Hin].
  - pose proof (hdone_execute_poll k st (Server.set_t (n_srv nd) (n_link nd)) k' v) as X.
    rewrite EX in X. apply X, Hin.
  - exfalso. unfold Server.gauges in Hin. destruct (Server.s_dropped s1); [destruct Hin|].
    destruct Hin as [Hin|Hin]; [discriminate|]. destruct (Server.s_bad s1); [destruct Hin as [Hin|[]]; discriminate|destruct Hin].
Qed.

(* ------------------------------------------------------------------------------------------ *)
(* the chain *)
Record VS (d : nat) (p : dnl * bool) (ch : chain) : Prop := {
  vs_ok : snd p = true;
  vs_len : length ch = d;
  vs_n : forall i nd, nth_error ch i = Some nd -> vn (Vc (fst p) i) nd }.

Lemma vs_set_node d p i nd ch : VS d p ch -> vn (Vc (fst p) i) nd -> VS d p (set_node i nd ch).
Proof.
  intros [A B C] H. constructor; [exact A|rewrite length_set_node; exact B|].
  intros j x E. destruct (Nat.eq_dec i j) as [->|Ne].
  - pose proof (nth_error_lt _ _ _ E) as L. rewrite length_set_node in L.
    rewrite (nth_set_node_same j nd ch L) in E. injection E as <-. exact H.
  - rewrite (nth_set_node_other i j nd ch Ne) in E. apply C, E.
Qed.

(* a component without values: the state part is all there is *)
Lemma vs_neutral d p ch' l :
  forallb vneutral l = true -> VS d p ch' -> VS d (fold_left (vstep d) l p) ch'.
Proof. intros N H. rewrite (fold_neutral d l p N). exact H. Qed.

Lemma neutral_tr_cobs i l : forallb vneutral (flat_map (tr_cobs i) l) = true.
Proof.
  apply forallb_forall. intros e H. apply in_flat_map in H. destruct H as (o & _ & H).
  destruct o; cbn in H; try contradiction; destruct H as [<-|[]]; reflexivity.
Qed.

Lemma vs_poll_dispatch d p i ch ch' l :
  VS d p ch -> Chain.poll_dispatch i ch = (ch', l) -> VS d (fold_left (vstep d) l p) ch'.
Proof.
  intros S E. unfold Chain.poll_dispatch in E. destruct (nth_error ch i) as [nd|] eqn:E0.
  - destruct (cstep nd Client.PollDispatch) as [nd1 l1] eqn:ES. pinj E.
    apply vs_neutral; [apply neutral_tr_cobs|].
    apply vs_set_node; [exact S|].
    exact (proj1 (vn_cstep _ _ _ _ _ ES ltac:(discriminate) (vs_n _ _ _ S _ _ E0))).
  - pinj E. exact S.
Qed.

Lemma vs_poll_head d p j ch ch' l :
  VS d p ch -> poll_head j ch = (ch', l) -> VS d (fold_left (vstep d) l p) ch'.
Proof.
  intros S E. unfold poll_head in E. destruct (nth_error ch 0) as [nd|] eqn:E0; [|pinj E; exact S].
  destruct (cstep nd (Client.PollCall j)) as [nd1 l1] eqn:ES. pinj E.
  destruct (vn_cstep _ _ _ _ _ ES ltac:(discriminate) (vs_n _ _ _ S _ _ E0)) as [K R].
  assert (F : fold_left (vstep d)
                (flat_map (fun o => match o with Client.OCall r => [KCall j r] | _ => [] end) l1) p = p).
  { clear ES K. destruct p as [dn ok]. cbn [fst] in R. induction l1 as [|o r IH]; [reflexivity|].
    cbn [flat_map]. rewrite fold_left_app.
    assert (E1 : fold_left (vstep d) (match o with Client.OCall r => [KCall j r] | _ => [] end) (dn, ok)
                 = (dn, ok)).
    { destruct o as [| |rc|lc|rd|ga gb]; try reflexivity. cbn [fold_left].
      destruct rc as [|oc|]; try (unfold vstep; cbn; rewrite andb_true_r; reflexivity).
      destruct oc; try (unfold vstep; cbn; rewrite andb_true_r; reflexivity).
      unfold vstep. cbn [fst snd dn_obs val_chk]. rewrite (has_dn_V dn 0 v), andb_true_r; [reflexivity|].
      destruct (R v (or_introl eq_refl)) as [id0 X]. exact X. }
    rewrite E1. apply IH. intros v Hv. apply R. right. exact Hv. }
  rewrite F. apply vs_set_node; [exact S|exact K].
Qed.

Lemma neutral_poll_obs nd nd' l i :
  sstep nd Server.OPoll = (nd', l) -> forallb vneutral (flat_map (tr_sobs i) l) = true.
Proof.
  intro E. apply forallb_forall. intros e H. apply in_flat_map in H. destruct H as (o & Ho & H).
  destruct o; cbn in H; try contradiction; destruct H as [<-|[]]; try reflexivity.
  exfalso. unfold sstep in E. unfold Server.step in E.
  destruct (Server.poll_requests _ _ _ _) as [s1 l1] eqn:EP. injection E as _ <-.
  apply in_app_or in Ho. destruct Ho as [Ho|Ho].
  - unfold Server.poll_requests in EP. destruct (Server.s_dropped _); [injection EP as _ <-; destruct Ho|].
    destruct (Server.requests_poll_next _ _ _ _) as [r s2].
    destruct r; injection EP as _ <-; destruct Ho as [Ho|[Ho|[]]]; discriminate.
  - unfold Server.gauges in Ho. destruct (Server.s_dropped s1); [destruct Ho|].
    destruct Ho as [Ho|Ho]; [discriminate|]. destruct (Server.s_bad s1); [destruct Ho as [Ho|[]]; discriminate|destruct Ho].
Qed.

Lemma vs_poll_requests d p i ch ch' l :
  VS d p ch -> poll_requests i ch = (ch', l) -> VS d (fold_left (vstep d) l p) ch'.
Proof.
  intros S E. unfold poll_requests in E. destruct (nth_error ch i) as [nd|] eqn:E0; [|pinj E; exact S].
  destruct (n_over nd || _); [pinj E; exact S|].
  destruct (sstep nd Server.OPoll) as [nd1 l1] eqn:ES. pinj E.
  apply vs_neutral; [eapply neutral_poll_obs, ES|].
  apply vs_set_node; [exact S|].
  destruct (vn_sstep_poll _ _ _ _ ES (vs_n _ _ _ S _ _ E0)) as [A B C D]. constructor; assumption.
Qed.

(* the observations of one poll of execute(): at most the value st finishes with *)
Lemma fold_hobs d i k v l : forall dn,
  (forall k' v', In (Server.OHDone k' (Server.BOk v')) l -> v' = v /\ k' = k) ->
  negb (S i <? d) || has_dn dn (S i) v = true ->
  exists dn', fold_left (vstep d) (flat_map (tr_sobs i) l) (dn, true) = (dn', true)
              /\ incl dn dn'
              /\ (forall k' v', In (Server.OHDone k' (Server.BOk v')) l -> In (i, k', v') dn').
Proof.
  induction l as [|o r IH]; intros dn HD HV; cbn [flat_map fold_left].
  - exists dn. split; [reflexivity|]. split; [apply incl_refl|]. intros k' v' [].
  - rewrite fold_left_app.
    assert (ST : exists dn1, fold_left (vstep d) (tr_sobs i o) (dn, true) = (dn1, true)
                 /\ incl dn dn1
                 /\ (forall k' v', o = Server.OHDone k' (Server.BOk v') -> In (i, k', v') dn1)).
    { destruct o; cbn [tr_sobs fold_left];
        try (exists dn; split; [reflexivity|split; [apply incl_refl|intros k' v' [=]]]).
      destruct b as [v'| | |];
        try (exists dn; split; [reflexivity|split; [apply incl_refl|intros k' v0 [=]]]).
      destruct (HD k0 v' (or_introl eq_refl)) as [-> ->].
      exists ((i, k, v) :: dn). unfold vstep. cbn [fst snd dn_obs val_chk]. rewrite HV.
      split; [reflexivity|]. split; [apply incl_tl, incl_refl|]. intros k' v0 [= <- <-]. left. reflexivity. }
    destruct ST as (dn1 & -> & I1 & J1).
    destruct (IH dn1) as (dn' & E' & I' & J').
    + intros k' v' Hin. apply HD. right. exact Hin.
    + apply orb_true_iff in HV. apply orb_true_iff. destruct HV as [HV|HV]; [left; exact HV|right].
      unfold has_dn in *. apply existsb_exists in HV. destruct HV as (x & Hx & Ex).
      apply existsb_exists. exists x. split; [apply I1, Hx|exact Ex].
    + exists dn'. split; [exact E'|]. split; [eapply incl_tran; eassumption|].
      intros k' v' [->|Hin]; [apply I', (J1 _ _ eq_refl)|apply J', Hin].
Qed.

Lemma vs_mono d dn dn' ch : incl dn dn' -> VS d (dn, true) ch -> VS d (dn', true) ch.
Proof.
  intros I [A B C]. constructor; [reflexivity|exact B|]. intros i nd E.
  eapply vn_mono; [|apply C, E]. intros id0 v. apply V_mono, I.
Qed.

Lemma vs_inner_poll (P : N -> N -> Prop) k nd nx nd1 nx1 st :
  inner_poll k nd nx = (nd1, nx1, st) -> vn P nx ->
  vn P nx1 /\ n_cli nd1 = n_cli nd /\ n_link nd1 = n_link nd /\ n_srv nd1 = n_srv nd
  /\ forall v, st = Server.SFinish v -> exists id, P id v.
Proof.
  unfold inner_poll. destruct (nth_error (n_hs nd) k) as [h|].
  2: { intros [= <- <- <-] H. split; [exact H|]. split; [reflexivity|]. split; [reflexivity|].
       split; [reflexivity|intros v [=]]. }
  intros E H.
  assert (G : forall nxc nx2 l j, cstep nxc (Client.PollCall j) = (nx2, l) -> vn P nxc ->
              vn P nx2 /\ forall v,
                match l with
                | [Client.OCall (Client.CDone (Client.OReply v0))] => Server.SFinish v0
                | [Client.OCall (Client.CDone _)] => Server.SFail
                | _ => Server.SRun
                end = Server.SFinish v -> exists id, P id v).
  { intros nxc nx2 l j ES Hc. destruct (vn_cstep P _ _ _ _ ES ltac:(discriminate) Hc) as [K R].
    split; [exact K|]. intros v Ev. apply R.
    destruct l as [|o1 rest]; [discriminate|].
    destruct o1 as [| |rc|lc|rd|ga gb]; try discriminate.
    destruct rc as [|oc|]; try discriminate; destruct rest; try discriminate;
      destruct oc; try discriminate.
    injection Ev as ->. left. reflexivity. }
  destruct (hi_call h) as [j|].
  - destruct (cstep nx (Client.PollCall j)) as [nx2 l] eqn:ES. injection E as <- <- <-.
    destruct (G _ _ _ _ ES H) as [K R].
    split; [exact K|]. split; [reflexivity|]. split; [reflexivity|]. split; [reflexivity|exact R].
  - match type of E with context [cstep ?n _] => set (nxc := n) in * end.
    destruct (cstep nxc _) as [nx2 l] eqn:ES. injection E as <- <- <-.
    assert (Hc : vn P nxc) by (destruct H as [A B C D]; constructor; assumption).
    destruct (G _ _ _ _ ES Hc) as [K R].
    split; [exact K|]. split; [reflexivity|]. split; [reflexivity|]. split; [reflexivity|exact R].
Qed.

Lemma neutral_first (b : bool) i k : forallb vneutral (if b then [KHStart i k] else []) = true.
Proof. destruct b; reflexivity. Qed.

(* one handler poll with the step st on node i: the common part *)
Lemma vs_handler_step d dn i k st nd nd1 l (first : list cobs) :
  vn (Vc dn i) nd -> forallb vneutral first = true ->
  sstep nd (Server.OHandlerPoll k st) = (nd1, l) ->
  (forall v, st = Server.SFinish v -> negb (S i <? d) || has_dn dn (S i) v = true) ->
  exists dn', fold_left (vstep d) (first ++ flat_map (tr_sobs i) l) (dn, true) = (dn', true)
              /\ incl dn dn' /\ vn (Vc dn' i) nd1 /\ n_cli nd1 = n_cli nd.
Proof.
  intros Hn NF ES HV. rewrite fold_left_app, (fold_neutral d first _ NF).
  assert (FH : exists dn', fold_left (vstep d) (flat_map (tr_sobs i) l) (dn, true) = (dn', true)
               /\ incl dn dn'
               /\ (forall k' v', In (Server.OHDone k' (Server.BOk v')) l -> In (i, k', v') dn')).
  { destruct st as [|v|].
    - exists dn. split; [|split; [apply incl_refl|]].
      + apply fold_neutral. apply forallb_forall. intros e H. apply in_flat_map in H. destruct H as (o & Ho & H).
        destruct o; cbn in H; try contradiction; destruct H as [<-|[]]; try reflexivity.
        destruct b; try reflexivity. destruct (hdone_sstep _ _ _ _ _ _ _ ES Ho) as [[=] _].
      + intros k' v' Hin. destruct (hdone_sstep _ _ _ _ _ _ _ ES Hin) as [[=] _].
    - apply (fold_hobs d i k v l dn); [|apply HV; reflexivity].
      intros k' v' Hin. destruct (hdone_sstep _ _ _ _ _ _ _ ES Hin) as [[= ->] ->]. split; reflexivity.
    - exists dn. split; [|split; [apply incl_refl|]].
      + apply fold_neutral. apply forallb_forall. intros e H. apply in_flat_map in H. destruct H as (o & Ho & H).
        destruct o; cbn in H; try contradiction; destruct H as [<-|[]]; try reflexivity.
        destruct b; try reflexivity. destruct (hdone_sstep _ _ _ _ _ _ _ ES Ho) as [[=] _].
      + intros k' v' Hin. destruct (hdone_sstep _ _ _ _ _ _ _ ES Hin) as [[=] _]. }
  destruct FH as (dn' & E' & I' & J'). exists dn'. split; [exact E'|]. split; [exact I'|].
  eapply (vn_sstep_handler (Vc dn i) (Vc dn' i)); [exact ES|exact Hn| |].
  - intros id0 v. apply V_mono, I'.
  - intros hr v _ Hin. exists k. apply J', Hin.
Qed.

Lemma vn_eq P nd nd' :
  n_cli nd' = n_cli nd -> n_link nd' = n_link nd -> n_srv nd' = n_srv nd -> vn P nd -> vn P nd'.
Proof. intros E1 E2 E3 [A B C D]. constructor; rewrite ?E1, ?E2, ?E3; assumption. Qed.

Lemma vs_abort d dn i k ch nd nd1 l1 :
  VS d (dn, true) ch -> nth_error ch i = Some nd ->
  sstep nd (Server.OHandlerPoll k Server.SRun) = (nd1, l1) ->
  VS d (fold_left (vstep d) (flat_map (tr_sobs i) l1) (dn, true))
     (match option_map hi_call (nth_error (n_hs nd) k), nth_error (set_node i nd1 ch) (S i) with
      | Some (Some j), Some nx =>
        set_node (S i) (fst (cstep nx (Client.DropCall j))) (set_node i nd1 ch)
      | _, _ => set_node i nd1 ch
      end).
Proof.
  intros HS E0 ES. pose proof (vs_n _ _ _ HS _ _ E0) as Hn. cbn [fst] in Hn.
  destruct (vs_handler_step d dn i k Server.SRun nd nd1 l1 [] Hn eq_refl ES ltac:(intros v [=]))
    as (dn' & E' & I' & K & _).
  cbn [app] in E'. rewrite E'.
  pose proof (vs_mono d dn dn' ch I' HS) as S1.
  assert (S2 : VS d (dn', true) (set_node i nd1 ch)) by (apply vs_set_node; [exact S1|exact K]).
  set (ch1 := set_node i nd1 ch) in *.
  destruct (option_map hi_call _) as [[j|]|]; try exact S2.
  destruct (nth_error ch1 (S i)) as [nx|] eqn:EX; [|exact S2].
  apply vs_set_node; [exact S2|].
  destruct (cstep nx (Client.DropCall j)) as [nx1 lx] eqn:EC. cbn [fst].
  exact (proj1 (vn_cstep _ _ _ _ _ EC ltac:(discriminate) (vs_n _ _ _ S2 _ _ EX))).
Qed.

Lemma vs_run d dn i k st ch nd (first : list cobs) ch' l :
  VS d (dn, true) ch -> nth_error ch i = Some nd -> forallb vneutral first = true ->
  (match nth_error ch (S i) with
   | Some nx =>
     let '(nd1, nx1, st1) := inner_poll k nd nx in
     let '(nd2, l0) := sstep nd1 (Server.OHandlerPoll k st1) in
     (set_node (S i) nx1 (set_node i nd2 ch), first ++ flat_map (tr_sobs i) l0)
   | None =>
     let '(nd1, l0) := sstep nd (Server.OHandlerPoll k st) in
     (set_node i nd1 ch, first ++ flat_map (tr_sobs i) l0)
   end) = (ch', l) -> VS d (fold_left (vstep d) l (dn, true)) ch'.
Proof.
  intros HS E0 NF E1. pose proof (vs_n _ _ _ HS _ _ E0) as Hn. cbn [fst] in Hn.
  destruct (nth_error ch (S i)) as [nx|] eqn:EX.
  - destruct (inner_poll k nd nx) as [[nd1 nx1] st1] eqn:EI.
    destruct (sstep nd1 (Server.OHandlerPoll k st1)) as [nd2 l0] eqn:ES. pinj E1.
    pose proof (vs_n _ _ _ HS _ _ EX) as Hx. cbn [fst] in Hx.
    destruct (vs_inner_poll _ _ _ _ _ _ _ EI Hx) as (Kx & C1 & C2 & C3 & R).
    assert (Hn1 : vn (Vc dn i) nd1) by (eapply vn_eq; eassumption).
    destruct (vs_handler_step d dn i k st1 nd1 nd2 l0 first Hn1 NF ES) as (dn' & E' & I' & K & _).
    { intros v Ev. destruct (R v Ev) as [id0 X]. rewrite (has_dn_V dn (S i) v X). apply orb_true_r. }
    rewrite E'. pose proof (vs_mono d dn dn' ch I' HS) as S1.
    apply vs_set_node; [apply vs_set_node; [exact S1|exact K]|].
    cbn [fst]. eapply vn_mono; [|exact Kx]. intros id0 v. apply V_mono, I'.
  - destruct (sstep nd (Server.OHandlerPoll k st)) as [nd1 l0] eqn:ES. pinj E1.
    destruct (vs_handler_step d dn i k st nd nd1 l0 first Hn NF ES) as (dn' & E' & I' & K & _).
    { intros v _. apply nth_error_None in EX. rewrite (vs_len _ _ _ HS) in EX.
      destruct (Nat.ltb_spec (S i) d) as [L|L]; [lia|reflexivity]. }
    rewrite E'. pose proof (vs_mono d dn dn' ch I' HS) as S1.
    apply vs_set_node; [exact S1|exact K].
Qed.

Lemma vs_poll_handler d p i k st ch ch' l :
  VS d p ch -> poll_handler i k st ch = (ch', l) -> VS d (fold_left (vstep d) l p) ch'.
Proof.
  intros S E. destruct p as [dn ok]. pose proof (vs_ok _ _ _ S) as EO. cbn [snd] in EO. subst ok.
  unfold poll_handler in E. destruct (nth_error ch i) as [nd|] eqn:E0; [|pinj E; exact S].
  destruct (nth_error (Server.s_handlers (n_srv nd)) k) as [hr|]; [|pinj E; exact S].
  assert (PL : forall nd1 l1, sstep nd (Server.OHandlerPoll k Server.SRun) = (nd1, l1) ->
               VS d (fold_left (vstep d) (flat_map (tr_sobs i) l1) (dn, true)) (set_node i nd1 ch)).
  { intros nd1 l1 ES. pose proof (vs_n _ _ _ S _ _ E0) as Hn. cbn [fst] in Hn.
    destruct (vs_handler_step d dn i k Server.SRun nd nd1 l1 [] Hn eq_refl ES ltac:(intros v [=]))
      as (dn' & E' & I' & K & _).
    cbn [app] in E'. rewrite E'. apply vs_set_node; [exact (vs_mono d dn dn' ch I' S)|exact K]. }
  destruct (Server.h_st hr).
  - destruct (is_aborted _ _).
    + destruct (sstep nd (Server.OHandlerPoll k Server.SRun)) as [nd1 l1] eqn:ES. pinj E.
      eapply vs_abort; eassumption.
    + apply (vs_run d dn i k st ch nd [KHStart i k]); [exact S|exact E0|reflexivity|exact E].
  - destruct (is_aborted _ _).
    + destruct (sstep nd (Server.OHandlerPoll k Server.SRun)) as [nd1 l1] eqn:ES. pinj E.
      eapply vs_abort; eassumption.
    + apply (vs_run d dn i k st ch nd []); [exact S|exact E0|reflexivity|exact E].
  - destruct (sstep nd (Server.OHandlerPoll k Server.SRun)) as [nd1 l1] eqn:ES. pinj E. apply PL. reflexivity.
  - destruct (sstep nd (Server.OHandlerPoll k Server.SRun)) as [nd1 l1] eqn:ES. pinj E. apply PL. reflexivity.
  - pinj E. exact S.
  - pinj E. exact S.
Qed.

(* ------------------------------------------------------------------------------------------ *)
(* SettleAll *)
Lemma vs_poll_heads d n : forall j ch acc ch' l p,
  VS d (fold_left (vstep d) acc p) ch -> poll_heads j n ch acc = (ch', l) ->
  VS d (fold_left (vstep d) l p) ch'.
Proof.
  induction n as [|n IH]; intros j ch acc ch' l p S E; cbn [poll_heads] in E; [pinj E; exact S|].
  match type of E with (if ?b then _ else _) = _ => destruct b end.
  - destruct (poll_head j ch) as [ch1 l1] eqn:EP.
    eapply IH; [|exact E]. rewrite fold_left_app. eapply vs_poll_head; eassumption.
  - eapply IH; eassumption.
Qed.
Lemma vs_poll_handlers d i n : forall k ch acc ch' l p,
  VS d (fold_left (vstep d) acc p) ch -> poll_handlers i k n ch acc = (ch', l) ->
  VS d (fold_left (vstep d) l p) ch'.
Proof.
  induction n as [|n IH]; intros k ch acc ch' l p S E; cbn [poll_handlers] in E; [pinj E; exact S|].
  destruct (poll_handler i k Server.SRun ch) as [ch1 l1] eqn:EP.
  eapply IH; [|exact E]. rewrite fold_left_app. eapply vs_poll_handler; eassumption.
Qed.
Lemma vs_settle_node d p i ch ch' l :
  VS d p ch -> settle_node i ch = (ch', l) -> VS d (fold_left (vstep d) l p) ch'.
Proof.
  intros S E. unfold settle_node in E.
  destruct (Chain.poll_dispatch i ch) as [ch1 l1] eqn:E1.
  destruct (poll_requests i ch1) as [ch2 l2] eqn:E2.
  destruct (poll_handlers i 0 _ ch2 []) as [ch3 l3] eqn:E3. pinj E.
  rewrite !fold_left_app.
  eapply (vs_poll_handlers d i _ 0 ch2 [] ch3 l3); [|exact E3]. cbn [fold_left].
  eapply vs_poll_requests; [|exact E2]. eapply vs_poll_dispatch; eassumption.
Qed.
Lemma vs_settle_nodes d n : forall i ch acc ch' l p,
  VS d (fold_left (vstep d) acc p) ch -> settle_nodes i n ch acc = (ch', l) ->
  VS d (fold_left (vstep d) l p) ch'.
Proof.
  induction n as [|n IH]; intros i ch acc ch' l p S E; cbn [settle_nodes] in E; [pinj E; exact S|].
  destruct (settle_node i ch) as [ch1 l1] eqn:EP.
  eapply IH; [|exact E]. rewrite fold_left_app. eapply vs_settle_node; eassumption.
Qed.
Lemma vs_round d p ch ch' ev :
  VS d p ch -> round ch = (ch', ev) -> VS d (fold_left (vstep d) ev p) ch'.
Proof.
  intros S E. unfold round in E.
  destruct (poll_heads 0 _ ch []) as [ch1 l1] eqn:E1.
  destruct (settle_nodes 0 _ ch1 []) as [ch2 l2] eqn:E2. pinj E.
  rewrite fold_filter_event, fold_left_app.
  eapply (vs_settle_nodes d _ 0 ch1 [] ch2 l2); [|exact E2]. cbn [fold_left].
  eapply (vs_poll_heads d _ 0 ch [] ch1 l1); [exact S|exact E1].
Qed.
Lemma vs_settle d n : forall ch acc ch' evs q p,
  VS d (fold_left (vstep d) acc p) ch -> settle n ch acc = (ch', evs, q) ->
  VS d (fold_left (vstep d) evs p) ch'.
Proof.
  induction n as [|n IH]; intros ch acc ch' evs q p S E; cbn [settle] in E.
  - pinj E. match goal with H : (_, _) = (_, _) |- _ => pinj H end. exact S.
  - destruct (round ch) as [ch1 ev] eqn:ER.
    pose proof (vs_round d _ _ _ _ S ER) as S1.
    match type of E with (if ?b then _ else _) = _ => destruct b eqn:EB end.
    + pinj E. match goal with H : (_, _) = (_, _) |- _ => pinj H end.
      apply andb_true_iff in EB. destruct EB as [_ EB]. destruct ev; [|discriminate]. exact S1.
    + eapply IH; [|exact E]. rewrite fold_left_app. exact S1.
Qed.
Lemma neutral_gauges ch : forall i, forallb vneutral (all_gauges i ch) = true.
Proof.
  induction ch as [|nd r IH]; intro i; cbn [all_gauges]; [reflexivity|].
  rewrite !forallb_app, IH. unfold cgauge, sgauge.
  destruct (Server.s_dropped _); [reflexivity|]. destruct (Server.s_bad _); reflexivity.
Qed.
Lemma vs_settle_all d p ch ch' l :
  VS d p ch -> settle_all ch = (ch', l) -> VS d (fold_left (vstep d) l p) ch'.
Proof.
  intros S E. unfold settle_all in E. destruct (settle _ ch []) as [[ch1 ev] q] eqn:ES. pinj E.
  pose proof (vs_settle d _ ch [] ch1 ev q p S ES) as S1.
  rewrite fold_left_app. apply vs_neutral; [|exact S1].
  rewrite forallb_app, neutral_gauges. destruct q; reflexivity.
Qed.

(* ------------------------------------------------------------------------------------------ *)
(* one op *)
Lemma vs_step d p ch o ch' l :
  VS d p ch -> step ch o = (ch', l) -> VS d (fold_left (vstep d) l p) ch'.
Proof.
  intros S E.
  assert (CS : forall i nd oc, nth_error ch i = Some nd -> (forall g, oc <> Client.Tr g) ->
               VS d p (set_node i (fst (cstep nd oc)) ch)).
  { intros i nd oc E0 HT. apply vs_set_node; [exact S|].
    destruct (cstep nd oc) as [nd1 l1] eqn:ES. cbn [fst].
    exact (proj1 (vn_cstep _ _ _ _ _ ES HT (vs_n _ _ _ S _ _ E0))). }
  destruct o; cbn [step] in E.
  - destruct (nth_error ch 0) as [nd|] eqn:E0; pinj E; [|exact S]. apply CS; [exact E0|discriminate].
  - eapply vs_poll_head; eassumption.
  - destruct (nth_error ch 0) as [nd|] eqn:E0; pinj E; [|exact S]. apply CS; [exact E0|discriminate].
  - eapply vs_poll_dispatch; eassumption.
  - eapply vs_poll_requests; eassumption.
  - eapply vs_poll_handler; eassumption.
  - destruct (nth_error ch i) as [nd|] eqn:E0; [|pinj E; exact S].
    destruct (Client.dropped _); [pinj E; exact S|].
    destruct (cstep nd Client.DropDispatch) as [nd1 l1] eqn:ES. pinj E. cbn [fold_left].
    apply vs_set_node; [exact S|].
    destruct (proj1 (vn_cstep _ _ _ _ _ ES ltac:(discriminate) (vs_n _ _ _ S _ _ E0))) as [A B C D].
    constructor; assumption.
  - destruct (nth_error ch i) as [nd|] eqn:E0; [|pinj E; exact S].
    destruct (Server.s_dropped _); [pinj E; exact S|].
    destruct (sstep nd Server.ODropChannel) as [nd1 l1] eqn:ES. pinj E. cbn [fold_left].
    apply vs_set_node; [exact S|].
    destruct (vn_sstep_drop _ _ _ _ ES (vs_n _ _ _ S _ _ E0)) as [A B C D]. constructor; assumption.
  - pinj E. cbn [fold_left]. destruct S as [A B C]. constructor; [exact A|rewrite map_length; exact B|].
    intros j x Hx. rewrite nth_error_map in Hx.
    destruct (nth_error ch j) as [nd|] eqn:E0; [|discriminate]. injection Hx as <-.
    unfold advance_node. destruct (cstep nd (Client.Advance dt)) as [nd1 l1] eqn:E1.
    destruct (sstep nd1 (Server.OAdvance dt)) as [nd2 l2] eqn:E2.
    eapply vn_sstep_advance; [exact E2|].
    exact (proj1 (vn_cstep _ _ _ _ _ E1 ltac:(discriminate) (C _ _ E0))).
  - eapply vs_settle_all; eassumption.
Qed.

(* the monitor along a run *)
Definition dv (x : rmon) : dnl * bool := (rm_dn x, rm_val x).

Lemma dv_step d x o l : dv (rm_step d x o l) = fold_left (vstep d) l (dv x).
Proof.
  unfold rm_step, dv.
  assert (E : forall y, (rm_dn y, rm_val y) = (rm_dn x, rm_val x) ->
              (rm_dn (fold_left (rm_obs d) l y), rm_val (fold_left (rm_obs d) l y))
              = fold_left (vstep d) l (rm_dn x, rm_val x)).
  { intros y <-. apply fold_rm_val. }
  destruct o; apply E; reflexivity.
Qed.

Lemma vs_run_from d : forall ops x ch,
  VS d (dv x) ch ->
  exists x', rm_run d x ops (fst (run_from ch ops)) = Some x' /\ rm_val x' = true.
Proof.
  induction ops as [|o r IH]; intros x ch S; cbn [run_from].
  - exists x. split; [reflexivity|apply (vs_ok _ _ _ S)].
  - destruct (step ch o) as [ch1 l] eqn:ES. destruct (run_from ch1 r) as [ls ch2] eqn:ER.
    cbn [fst rm_run]. specialize (IH (rm_step d x o l) ch1). rewrite ER in IH. apply IH.
    rewrite dv_step. eapply vs_step; eassumption.
Qed.

Lemma vs_init d : VS d (dv rmon0) (init d).
Proof.
  constructor; [reflexivity|apply repeat_length|].
  intros i nd E. apply nth_error_In in E. unfold init in E. apply repeat_spec in E. subst nd.
  constructor; cbn.
  - intros id x [].
  - intros r v [].
  - intros r [].
  - intros hr [].
Qed.

Theorem chain_resp_val : stmt_resp_val.
Proof.
  intros d ops. unfold c01c_val, rm_flag, run.
  destruct (vs_run_from d ops rmon0 (init d) (vs_init d)) as (x' & -> & A). exact A.
Qed.
Print Assumptions chain_resp_val.
