(* Hops.v -- C07: a deadline travelling down a chain of 1..3 hops (no proofs in this file).

   client_1 -> server_1 (its handler calls) client_2 -> server_2 -> ... Every handler records the
   deadline of the context it was given and makes a nested call with that same context.
   The script controls the clock and every link:
     Call rem     the root caller issues a call whose deadline is now + rem ns (queued in client_1)
     Advance ms   the clock moves
     Send k       client_k's dispatch is polled: every queued call is serialised NOW (the remaining
                  time is computed, context.rs serialize) and is then in transit on link k
     Inject k     (JSON) a hand-written request WITHOUT a deadline is put in transit on link k
     Recv k       (first time only) everything in transit on link k reaches server_k, which
                  deserialises NOW (context.rs deserialize / the default), hands the context to
                  its handler, which records it and queues the nested call in client_(k+1)
   Over the in-memory transport the Instant itself is carried.  Time.v does the arithmetic. *)
From Coq Require Import List NArith ZArith Bool.
Import ListNotations.
From TarpcV Require Import Base Time.
Local Open Scope Z_scope.

Inductive lcodec := LJson | LBincode | LChan.
Record ccfg := { lcodec_of : lcodec; hops : nat }.

Inductive cop :=
| Call (rem_ns : Z)
| Advance (ms : Z)
| Send (k : nat)
| Inject (k : nat)
| Recv (k : nat).

Inductive cobs :=
| OSent (k : nat) (secs nanos : Z)        (* the remaining Duration written on link k *)
| OHandler (k : nat) (deadline_ns : Z)    (* ctx.deadline seen by server_k's handler, in ns since the clock's origin *)
| OErr.                                   (* an arithmetic panic (never observed) *)

Definition cobs_eqb (a b : cobs) : bool :=
  match a, b with
  | OSent k s n, OSent k' s' n' => Nat.eqb k k' && (s =? s') && (n =? n')
  | OHandler k d, OHandler k' d' => Nat.eqb k k' && (d =? d')
  | OErr, OErr => true
  | _, _ => false
  end.

(* what is in transit on a link *)
Inductive transit := TDur (d : duration) | TOmitted | TInstant (D : timespec).

Record link := { queued : list timespec; in_transit : list transit; delivered : bool }.
Definition link0 : link := {| queued := []; in_transit := []; delivered := false |}.

Record cst := { c_now : timespec; links : list link }.   (* links: index 0 = link 1 *)

(* the clock's origin (the harness's virtual monotonic clock starts at 1 000 000 s) *)
Definition origin : timespec := {| t_secs := 1000000; t_nanos := 0 |}.
Definition cinit (c : ccfg) : cst := {| c_now := origin; links := repeat link0 (hops c) |}.

Definition dur_of_ns (n : Z) : duration := {| d_secs := n / NS; d_nanos := n mod NS |}.

Fixpoint upd {A} (l : list A) (i : nat) (f : A -> A) : list A :=
  match l, i with
  | [], _ => []
  | x :: r, O => f x :: r
  | x :: r, S j => x :: upd r j f
  end.
Definition link_at (s : cst) (k : nat) : option link :=
  match k with O => None | S j => nth_error (links s) j end.
Definition set_link (s : cst) (k : nat) (f : link -> link) : cst :=
  match k with O => s | S j => {| c_now := c_now s; links := upd (links s) j f |} end.

Definition enqueue (s : cst) (k : nat) (Ds : list timespec) : cst :=
  set_link s k (fun l => {| queued := queued l ++ Ds; in_transit := in_transit l; delivered := delivered l |}).

(* deserialisation of one item in transit, at the receiver's clock *)
Definition arrive (now : timespec) (t : transit) : result timespec :=
  match t with
  | TDur d => de_deadline now d
  | TOmitted => ten_seconds_from_now now
  | TInstant D => Ok D
  end.
Fixpoint arrive_all (now : timespec) (ts : list transit) : list (result timespec) :=
  match ts with [] => [] | t :: r => arrive now t :: arrive_all now r end.
Fixpoint oks (l : list (result timespec)) : list timespec :=
  match l with [] => [] | Ok D :: r => D :: oks r | Panic _ :: r => oks r end.

Definition cstep (c : ccfg) (s : cst) (o : cop) : cst * list cobs :=
  match o with
  | Call rem =>
    if rem <? 0 then (s, [])
    else match ts_checked_add (c_now s) (dur_of_ns rem) with
         | Some D => (enqueue s 1 [D], [])
         | None => (s, [])                      (* not an Instant: the caller cannot build it *)
         end
  | Advance ms =>
    if ms <? 0 then (s, [])
    else match ts_checked_add (c_now s) (dur_of_ns (ms * 1000000)) with
         | Some t => ({| c_now := t; links := links s |}, [])
         | None => (s, [])
         end
  | Send k =>
    match link_at s k with
    | None => (s, [])
    | Some l =>
      let items := map (fun D => match lcodec_of c with
                                 | LChan => TInstant D
                                 | _ => TDur (ser_deadline (c_now s) D) end) (queued l) in
      (set_link s k (fun l => {| queued := []; in_transit := in_transit l ++ items; delivered := delivered l |}),
       flat_map (fun t => match t with TDur d => [OSent k (d_secs d) (d_nanos d)] | _ => [] end) items)
    end
  | Inject k =>
    match lcodec_of c, link_at s k with
    | LJson, Some l =>
      if delivered l then (s, [])
      else (set_link s k (fun l => {| queued := queued l; in_transit := in_transit l ++ [TOmitted];
                                      delivered := delivered l |}), [])
    | _, _ => (s, [])
    end
  | Recv k =>
    match link_at s k with
    | None => (s, [])
    | Some l =>
      if delivered l then (s, [])
      else
        let rs := arrive_all (c_now s) (in_transit l) in
        let s1 := set_link s k (fun l => {| queued := queued l; in_transit := []; delivered := true |}) in
        (enqueue s1 (S k) (oks rs),
         map (fun r => match r with
                       | Ok D => OHandler k (ts_ns D - ts_ns origin)
                       | Panic _ => OErr end) rs)
    end
  end.

Fixpoint crun_from (c : ccfg) (s : cst) (ops : list cop) : list (list cobs) * cst :=
  match ops with
  | [] => ([], s)
  | o :: r => let '(s1, l) := cstep c s o in
              let '(ls, s2) := crun_from c s1 r in (l :: ls, s2)
  end.
Definition crun (c : ccfg) (ops : list cop) : list (list cobs) * cst := crun_from c (cinit c) ops.

(* ------------------------------------------------------------------------------------------ *)
(* The monitor for C07, over ops and observations only.  It keeps, per link, the deadlines
   (in ns since the origin) of the calls queued in the client, and of the requests in transit
   together with the time they were sent; it never computes a deadline itself, it only checks
     in transit from a client (sent at ts, caller's deadline D), received at tr:
         D <= D' <= max(D, ts) + (tr - ts)        and  D' = tr when D < ts
     injected without a deadline, received at tr:   D' = tr + 10 s
     in-memory transport:                           D' = D                                     *)
Inductive mtransit := MSent (D ts : Z) | MOmitted | MVerbatim (D : Z).
Record mlink := { mqueued : list Z; mtrans : list mtransit; mdone : bool }.
Definition mlink0 : mlink := {| mqueued := []; mtrans := []; mdone := false |}.
Record mst := { m_now : Z; mlinks : list mlink }.

Definition mlink_at (s : mst) (k : nat) : option mlink :=
  match k with O => None | S j => nth_error (mlinks s) j end.
Definition mset (s : mst) (k : nat) (f : mlink -> mlink) : mst :=
  match k with O => s | S j => {| m_now := m_now s; mlinks := upd (mlinks s) j f |} end.
Definition menqueue (s : mst) (k : nat) (Ds : list Z) : mst :=
  mset s k (fun l => {| mqueued := mqueued l ++ Ds; mtrans := mtrans l; mdone := mdone l |}).

Definition ten_s_ns : Z := default_deadline_secs * NS.

(* one received item against one handler observation; yields the handler's deadline *)
Definition arrive_ok (k : nat) (tr : Z) (t : mtransit) (o : cobs) : option Z :=
  match o with
  | OHandler k' D' =>
    if negb (Nat.eqb k k') then None
    else match t with
         | MSent D ts =>
           if (D <=? D') && (D' <=? Z.max D ts + (tr - ts)) && ((ts <=? D) || (D' =? tr))
           then Some D' else None
         | MOmitted => if D' =? tr + ten_s_ns then Some D' else None
         | MVerbatim D => if D' =? D then Some D' else None
         end
  | _ => None
  end.
Fixpoint arrive_all_ok (k : nat) (tr : Z) (ts : list mtransit) (os : list cobs) : option (list Z) :=
  match ts, os with
  | [], [] => Some []
  | t :: ts', o :: os' =>
    match arrive_ok k tr t o, arrive_all_ok k tr ts' os' with
    | Some D, Some r => Some (D :: r)
    | _, _ => None
    end
  | _, _ => None
  end.

(* the remaining time written for a queued deadline D at clock ts must be max(0, D - ts) *)
Fixpoint sent_ok (k : nat) (ts : Z) (Ds : list Z) (os : list cobs) : bool :=
  match Ds, os with
  | [], [] => true
  | D :: Ds', OSent k' s n :: os' =>
    Nat.eqb k k' && (s * NS + n =? Z.max 0 (D - ts)) && (0 <=? n) && (n <? NS) && sent_ok k ts Ds' os'
  | _, _ => false
  end.

Definition limit_ns : Z := (i64_max + 1) * NS - ts_ns origin.

Definition mstep (c : ccfg) (s : mst) (o : cop) (l : list cobs) : option mst :=
  match o with
  | Call rem =>
    match l with
    | [] => if (0 <=? rem) && (m_now s + rem <? limit_ns) then Some (menqueue s 1 [m_now s + rem]) else Some s
    | _ => None end
  | Advance ms =>
    match l with
    | [] => if (0 <=? ms) && (m_now s + ms * 1000000 <? limit_ns)
            then Some {| m_now := m_now s + ms * 1000000; mlinks := mlinks s |} else Some s
    | _ => None end
  | Send k =>
    match mlink_at s k with
    | None => match l with [] => Some s | _ => None end
    | Some ml =>
      let ok := match lcodec_of c with LChan => match l with [] => true | _ => false end
                                  | _ => sent_ok k (m_now s) (mqueued ml) l end in
      if ok then
        Some (mset s k (fun ml => {| mqueued := [];
                                     mtrans := mtrans ml ++ map (fun D => match lcodec_of c with
                                                                          | LChan => MVerbatim D
                                                                          | _ => MSent D (m_now s) end) (mqueued ml);
                                     mdone := mdone ml |}))
      else None
    end
  | Inject k =>
    match l with
    | [] =>
      match lcodec_of c, mlink_at s k with
      | LJson, Some ml => if mdone ml then Some s
                          else Some (mset s k (fun ml => {| mqueued := mqueued ml; mtrans := mtrans ml ++ [MOmitted];
                                                            mdone := mdone ml |}))
      | _, _ => Some s
      end
    | _ => None end
  | Recv k =>
    match mlink_at s k with
    | None => match l with [] => Some s | _ => None end
    | Some ml =>
      if mdone ml then match l with [] => Some s | _ => None end
      else match arrive_all_ok k (m_now s) (mtrans ml) l with
           | Some Ds =>
             Some (menqueue (mset s k (fun ml => {| mqueued := mqueued ml; mtrans := []; mdone := true |})) (S k) Ds)
           | None => None
           end
    end
  end.

Fixpoint mrun (c : ccfg) (s : mst) (ops : list cop) (tr : list (list cobs)) : bool :=
  match ops, tr with
  | [], [] => true
  | o :: ops', l :: tr' =>
    match mstep c s o l with Some s' => mrun c s' ops' tr' | None => false end
  | _, _ => false
  end.

Definition c07_ok (c : ccfg) (ops : list cop) (tr : list (list cobs)) : bool :=
  mrun c {| m_now := 0; mlinks := repeat mlink0 (hops c) |} ops tr.
