(* Server proofs, engineer B, part 3: C12 (c) -- a request is refused only while L requests may
   be in flight, unless capacity was freed earlier in the same Requests poll (flags v12c_rel, v12c,
   class c_k1).  Observer-only facts first: what a call does to the table (wires only close,
   o_freed and the loss of h_b1 are permanent within a poll), the counting lemma
   |s_inflight| <= count_open, and the verdict of one throttle write. *)
From Coq Require Import List Bool Arith NArith Lia.
Import ListNotations.
From TarpcV Require Import Base Transport TimerWheel Server ServerMon ServerFuel ServerContract
     ServerSim ServerSim2 ServerSim3 ServerSim4 ServerSim5 ServerSim6 ServerSim7 ServerState
     ServerSpec ServerProofsPB0 ServerProofsPB2.

(* ---- the observer within a poll only closes incarnations ------------------------------------ *)
Definition OM (o o' : ostate) : Prop :=
  (o_freed o = true -> o_freed o' = true)
  /\ (h_b1 (o_v o') = true -> h_b1 (o_v o) = true)
  /\ length (o_incs o') = length (o_incs o)
  /\ (forall k oi', nth_error (o_incs o') k = Some oi' ->
        exists oi, nth_error (o_incs o) k = Some oi /\ oi_id oi' = oi_id oi
                   /\ (oi_wire oi' = oi_wire oi \/ is_open (oi_wire oi') = false)).

Lemma OM_refl : forall o, OM o o.
Proof. intros o. repeat split; auto. intros k oi' H. exists oi'. auto. Qed.
Lemma OM_trans : forall a b c, OM a b -> OM b c -> OM a c.
Proof.
  intros a b c (A1 & A2 & A3 & A4) (B1 & B2 & B3 & B4). repeat split; auto; try congruence.
  intros k oc Hc. destruct (B4 k oc Hc) as (ob & Hb & Eb & Wb). destruct (A4 k ob Hb) as (oa & Ha & Ea & Wa).
  exists oa. split; [exact Ha|split; [congruence|]].
  destruct Wb as [Wb|Wb]; [|right; exact Wb]. rewrite Wb. exact Wa.
Qed.

Lemma OM_close : forall o o' kopt w,
  o_incs o' = close_at kopt w (o_incs o) -> is_open w = false ->
  (o_freed o = true -> o_freed o' = true) -> (h_b1 (o_v o') = true -> h_b1 (o_v o) = true) -> OM o o'.
Proof.
  intros o o' kopt w Hi Hw Hf Hb. split; [exact Hf|split; [exact Hb|split]].
  - rewrite Hi. apply close_at_length.
  - intros k oi' Hk. rewrite Hi in Hk. destruct (close_at_nth _ _ _ _ _ Hk) as (y & Hy & E1 & _ & _ & _ & _ & Hwire).
    exists y. split; [exact Hy|split; [exact E1|]].
    destruct Hwire as [[_ ->]|[_ ->]]; [right; exact Hw|left; reflexivity].
Qed.

Lemma ocall_hb1 : forall lim o c, h_b1 (o_v (o_call lim o c)) = true -> h_b1 (o_v o) = true.
Proof.
  intros lim o c. unfold o_call.
  assert (P : h_b1 (o_v (match o_errcall o with Some _ => chk09 o false | None => o end)) = h_b1 (o_v o)).
  { destruct (o_errcall o); oproj; auto. }
  set (o0 := match o_errcall o with Some _ => chk09 o false | None => o end) in *.
  destruct c as [r|m r|r|r|r].
  - oproj. congruence.
  - destruct (resp_body m).
    1,2,4: (destruct (last_open (resp_id m) (o_incs o0)); oproj; rewrite ?andb_true_r; congruence).
    unfold accept_id. destruct (last_open (resp_id m) _); oproj; rewrite ?andb_true_r, ?orb_false_r; congruence.
  - oproj. congruence.
  - oproj. rewrite ?andb_true_r. congruence.
  - unfold resolve_ignored. destruct (o_pend o0) as [[[[a b] d] e]|];
      destruct r as [[id dl tr body|id tr]| | |]; oproj; rewrite ?andb_true_r, ?orb_false_r; try congruence;
      try (destruct (last_open id _); oproj; rewrite ?andb_true_r, ?orb_false_r; congruence);
      intro H; apply andb_true_iff in H; destruct H as [H _]; congruence.
Qed.

Lemma ocall_incs : forall lim o c,
  exists kopt w, o_incs (o_call lim o c) = close_at kopt w (o_incs o) /\ is_open w = false.
Proof.
  intros lim o c. destruct c as [r|m r|r|r|r].
  - exists None, WClosed. destruct (ocall_ready_tab lim o r) as ((E & _) & _). split; [exact E|reflexivity].
  - destruct (ocall_send_proj lim o m r) as (_ & _ & _ & _ & _ & _ & Hm). cbv zeta in Hm.
    destruct (resp_body m); destruct Hm as [Hm _]; eexists _, _; (split; [exact Hm|reflexivity]).
  - exists None, WClosed. destruct (ocall_flush_tab lim o r) as ((E & _) & _). split; [exact E|reflexivity].
  - exists None, WClosed. split; [|reflexivity]. unfold o_call. destruct (o_errcall o); oproj; reflexivity.
  - destruct (ocall_next_proj lim o r) as (_ & _ & _ & _ & _ & _ & Hr). cbv zeta in Hr.
    destruct r as [[id dl tr body|id tr]| | |].
    + exists None, WClosed. split; [apply Hr|reflexivity].
    + eexists _, _. split; [apply Hr|reflexivity].
    + exists None, WClosed. split; [apply Hr|reflexivity].
    + exists None, WClosed. split; [apply Hr|reflexivity].
    + exists None, WClosed. split; [apply Hr|reflexivity].
Qed.

Lemma OM_call : forall lim o c, OM o (o_call lim o c).
Proof.
  intros lim o c. destruct (ocall_incs lim o c) as (kopt & w & Hi & Hw).
  apply (OM_close o _ kopt w Hi Hw).
  - destruct (ocall_flags lim o c) as (_ & _ & _ & F & _). exact F.
  - apply ocall_hb1.
Qed.

Lemma OM_calls : forall lim new o, OM o (fold_left (o_call lim) new o).
Proof.
  intros lim new; induction new as [|c new IH]; intros o; cbn [fold_left]; [apply OM_refl|].
  eapply OM_trans; [apply OM_call|apply IH].
Qed.

(* a WMaybe incarnation licenses o_freed for the rest of the poll *)
Definition FM (o : ostate) : Prop :=
  forall k oi, nth_error (o_incs o) k = Some oi -> oi_wire oi = WMaybe -> o_freed o = true.

Lemma FM_start_poll : forall o, FM (start_poll o).
Proof.
  intros o k oi Hk Hw. cbn [start_poll o_freed o_incs] in *. unfold any_maybe.
  apply existsb_exists. exists oi. split; [eapply nth_error_In; eauto|rewrite Hw; reflexivity].
Qed.

Lemma FM_OM : forall o o', FM o -> OM o o' -> FM o'.
Proof.
  intros o o' HF (A1 & _ & _ & A4) k oi' Hk Hw. destruct (A4 k oi' Hk) as (oi & Ho & _ & W).
  apply A1. apply (HF k oi Ho). destruct W as [W|W]; [congruence|rewrite Hw in W; discriminate].
Qed.

(* ---- the counting lemma ------------------------------------------------------------------------ *)
Fixpoint oidx (k : nat) (l : list oinc) : list nat :=
  match l with
  | [] => []
  | x :: r => if is_open (oi_wire x) then k :: oidx (S k) r else oidx (S k) r
  end.

Lemma oidx_length : forall l k, length (oidx k l) = count_open l.
Proof.
  induction l as [|x r IH]; intros k; cbn; [reflexivity|]. unfold count_open in *. cbn.
  destruct (is_open (oi_wire x)); cbn; rewrite IH; reflexivity.
Qed.

Lemma oidx_in : forall l k0 j x, nth_error l j = Some x -> is_open (oi_wire x) = true -> In (k0 + j) (oidx k0 l).
Proof.
  induction l as [|y r IH]; intros k0 j x Hn Ho; [destruct j; discriminate|].
  destruct j; cbn in Hn.
  - inversion Hn; subst. cbn. rewrite Ho, Nat.add_0_r. left; reflexivity.
  - cbn. specialize (IH (S k0) j x Hn Ho). rewrite Nat.add_succ_r.
    destruct (is_open (oi_wire y)); [right|]; exact IH.
Qed.

Section Count.
  Context {T : Type}.
  Notation st := (@sstate T).

  Lemma owners_list : forall o (s : st) es,
    NoDup (map e_id es) -> (forall e, In e es -> exists k, owns o s k e) ->
    exists ks, length ks = length es /\ NoDup ks
      /\ (forall k, In k ks -> exists e oi, In e es /\ nth_error (o_incs o) k = Some oi
                                        /\ oi_id oi = e_id e /\ is_open (oi_wire oi) = true).
  Proof.
    intros o s es. induction es as [|e es IH]; intros Hnd Hown.
    - exists []. split; [reflexivity|split; [constructor|intros k []]].
    - cbn in Hnd. inversion Hnd as [|? ? Hni Hnd']; subst.
      destruct (IH Hnd' (fun e' He' => Hown e' (or_intror He'))) as (ks & Hl & Hn & Hk).
      destruct (Hown e (or_introl eq_refl)) as (k & hr & oi & A & B & C & D & E & _).
      exists (k :: ks). split; [cbn; congruence|split].
      + constructor; [|exact Hn]. intros Hin. destruct (Hk k Hin) as (e' & oi' & He' & Hoi' & Hid' & _).
        apply Hni. rewrite B in Hoi'. inversion Hoi'; subst oi'. rewrite <- D, Hid'. apply in_map. exact He'.
      + intros k' [<-|Hin].
        * exists e, oi. split; [left; reflexivity|auto].
        * destruct (Hk k' Hin) as (e' & oi' & He' & R). exists e', oi'. split; [right; exact He'|exact R].
  Qed.

  Lemma count_le : forall o (s : st),
    InvU o s -> handled s -> c_err (o_v o) = false ->
    length (s_inflight s) <= count_open (o_incs o).
  Proof.
    intros o s HI Hh Hce.
    pose proof (all_owned_of_handled o s HI Hh Hce) as Hown.
    destruct (owners_list o s (s_inflight s) (u_idnodup _ _ HI) Hown) as (ks & Hl & Hn & Hk).
    rewrite <- Hl, <- (oidx_length (o_incs o) 0).
    apply NoDup_incl_length; [exact Hn|]. intros k Hin.
    destruct (Hk k Hin) as (e & oi & _ & Hoi & _ & Hop). exact (oidx_in _ 0 k oi Hoi Hop).
  Qed.
End Count.

(* ---- the verdict of one call on the C12 (c) flags ------------------------------------------------ *)
Definition G (o : ostate) : Prop :=
  h_b1 (o_v o) = true -> v12c_rel (o_v o) = true /\ (c_k1 (o_v o) = false -> v12c (o_v o) = true).

Lemma ocall_12c_other : forall lim o c,
  match c with CSend m _ => resp_body m <> BThrottle | _ => True end ->
  v12c (o_v (o_call lim o c)) = v12c (o_v o) /\ v12c_rel (o_v (o_call lim o c)) = v12c_rel (o_v o)
  /\ c_k1 (o_v (o_call lim o c)) = c_k1 (o_v o).
Proof.
  intros lim o c Hc. unfold o_call.
  assert (P : v12c (o_v (match o_errcall o with Some _ => chk09 o false | None => o end)) = v12c (o_v o)
              /\ v12c_rel (o_v (match o_errcall o with Some _ => chk09 o false | None => o end)) = v12c_rel (o_v o)
              /\ c_k1 (o_v (match o_errcall o with Some _ => chk09 o false | None => o end)) = c_k1 (o_v o)).
  { destruct (o_errcall o); oproj; rewrite ?andb_true_r; auto. }
  destruct P as (P1 & P2 & P3).
  set (o0 := match o_errcall o with Some _ => chk09 o false | None => o end) in *.
  destruct c as [r|m r|r|r|r].
  - oproj. auto.
  - destruct (resp_body m); try congruence;
      (destruct (last_open (resp_id m) (o_incs o0)); oproj; rewrite ?andb_true_r, ?orb_false_r; auto).
  - oproj. auto.
  - oproj. rewrite ?andb_true_r. auto.
  - unfold resolve_ignored. destruct (o_pend o0) as [[[[a b] d] e]|];
      destruct r as [[id dl tr body|id tr]| | |]; oproj; rewrite ?andb_true_r, ?orb_false_r; auto;
      destruct (last_open id _); oproj; rewrite ?andb_true_r, ?orb_false_r; auto.
Qed.

Lemma ocall_G_other : forall lim o c,
  match c with CSend m _ => resp_body m <> BThrottle | _ => True end -> G o -> G (o_call lim o c).
Proof.
  intros lim o c Hc HG Hb. destruct (ocall_12c_other lim o c Hc) as (A & B & D). rewrite A, B, D.
  apply HG. eapply ocall_hb1; eauto.
Qed.

Definition enough_at (lim : option nat) (o : ostate) (id : N) : bool :=
  match lim with
  | Some l => Nat.leb l (count_open (close_at (last_open id (o_incs o)) WClosed (o_incs o)))
  | None => false
  end.

Lemma ocall_12c_thr : forall lim o id r,
  let o' := o_call lim o (CSend (mkresp id BThrottle) r) in
  v12c (o_v o') = v12c (o_v o) && enough_at lim o id
  /\ v12c_rel (o_v o') = v12c_rel (o_v o) && (enough_at lim o id || o_freed o)
  /\ c_k1 (o_v o') = c_k1 (o_v o) || (negb (enough_at lim o id) && o_freed o)
  /\ h_b1 (o_v o') = h_b1 (o_v o).
Proof.
  intros lim o id r. cbv zeta. unfold o_call. fold (pre_err o).
  destruct (pre_err_proj o) as (A1 & _ & _ & _ & A5 & _ & _ & _ & _ & A10 & _ & _ & _ & _ & A15 & _).
  assert (P : v12c (o_v (pre_err o)) = v12c (o_v o) /\ v12c_rel (o_v (pre_err o)) = v12c_rel (o_v o)
              /\ c_k1 (o_v (pre_err o)) = c_k1 (o_v o)).
  { unfold pre_err. destruct (o_errcall o); oproj; rewrite ?andb_true_r; auto. }
  destruct P as (P1 & P2 & P3).
  cbn [resp_body resp_id].
  match goal with |- context [accept_id id ?x] =>
    destruct (accept_id_proj id x) as (D1 & _ & _ & _ & _ & _ & D7 & _);
    assert (DV : v12c (o_v (accept_id id x)) = v12c (o_v x) /\ v12c_rel (o_v (accept_id id x)) = v12c_rel (o_v x)
                 /\ c_k1 (o_v (accept_id id x)) = c_k1 (o_v x) /\ h_b1 (o_v (accept_id id x)) = h_b1 (o_v x))
      by (unfold accept_id; destruct (last_open id (o_incs x)); oproj; rewrite ?andb_true_r; auto)
  end.
  destruct DV as (V1 & V2 & V3 & V4).
  oproj. rewrite ?orb_false_r, ?andb_true_r.
  unfold enough_at. rewrite D1, D7, V1, V2, V3, V4. oproj. rewrite A1, A10, P1, P2, P3, A15.
  rewrite ?andb_true_r. destruct lim; repeat split; reflexivity.
Qed.

Lemma ocall_G_thr : forall lim o id r,
  G o -> (h_b1 (o_v o) = true -> enough_at lim o id = true \/ o_freed o = true) ->
  G (o_call lim o (CSend (mkresp id BThrottle) r)).
Proof.
  intros lim o id r HG HE. destruct (ocall_12c_thr lim o id r) as (A & B & D & E). cbv zeta in *.
  intros Hb. rewrite E in Hb. destruct (HG Hb) as (G1 & G2). specialize (HE Hb).
  rewrite A, B, D, G1. split.
  - destruct HE as [-> | ->]; [reflexivity|rewrite orb_true_r; reflexivity].
  - intros Hk. apply orb_false_iff in Hk. destruct Hk as [Hk1 Hk2]. rewrite (G2 Hk1).
    destruct (enough_at lim o id); [reflexivity|]. destruct HE as [HE|HE]; [discriminate|].
    rewrite HE in Hk2. discriminate.
Qed.

(* ---- the model within a poll only forgets, except for the request it has just accepted --------- *)
Section PollMono.
  Context {T : Type}.
  Variable tp : transport T response cmsg.
  Variable lim : option nat.
  Notation st := (@sstate T).
  Notation ocs := (fold_left (o_call lim)).

  Definition SM (s0 s : st) : Prop :=
    (forall e, In e (s_inflight s) -> In e (s_inflight s0) \/ s_next_h s0 <= e_h e)
    /\ (forall id, In id (s_cancels s) -> In id (s_cancels s0))
    /\ map h_h (s_handlers s) = map h_h (s_handlers s0)
    /\ s_next_h s0 <= s_next_h s.

  Lemma SM_refl : forall s, SM s s.
  Proof. intros s. repeat split; auto. Qed.
  Lemma SM_trans : forall a b c, SM a b -> SM b c -> SM a c.
  Proof.
    intros a b c (A1 & A2 & A3 & A4) (B1 & B2 & B3 & B4). repeat split; auto; try congruence; try lia.
    intros e He. destruct (B1 e He) as [H|H]; [|right; lia]. destruct (A1 e H) as [H'|H']; auto.
  Qed.
  (* one forgetting step *)
  Lemma SM_shrink : forall s0 s s',
    SM s0 s -> (forall e, In e (s_inflight s') -> In e (s_inflight s)) ->
    (forall id, In id (s_cancels s') -> In id (s_cancels s)) ->
    map h_h (s_handlers s') = map h_h (s_handlers s) -> s_next_h s' = s_next_h s -> SM s0 s'.
  Proof.
    intros s0 s s' HS H1 H2 H3 H4. eapply SM_trans; [exact HS|]. repeat split; auto; lia.
  Qed.
  Lemma SM_core : forall s0 s s', SM s0 s -> same_core s s' -> SM s0 s'.
  Proof.
    intros s0 s s' HS (C1 & C2 & C3 & C4 & C5 & C6 & C7 & C8).
    apply (SM_shrink s0 s s' HS); rewrite ?C1, ?C2, ?C3, ?C6; auto.
  Qed.

  (* the clause needed of the hypothesis-dependent invariant (ServerSpec: "no stale server
     cancel"), in terms of the handler that holds the entry's abort handle *)
  Definition NSh (o : ostate) (s : st) : Prop :=
    forall e k hr oi, In e (s_inflight s) -> In (e_id e) (s_cancels s) ->
      nth_error (s_handlers s) k = Some hr -> h_h hr = e_h e -> nth_error (o_incs o) k = Some oi ->
      oi_wire oi <> WOpen.

  Lemma NSh_transfer : forall o0 (s0 : st) o s,
    InvU o0 s0 -> NSh o0 s0 -> OM o0 o -> SM s0 s -> NSh o s.
  Proof.
    intros o0 s0 o s HI HN (_ & _ & _ & M4) (S1 & S2 & S3 & _) e k hr oi He Hc Hk Hh Hoi Hw.
    destruct (M4 k oi Hoi) as (oi0 & Hoi0 & _ & W).
    assert (Hk0 : exists hr0, nth_error (s_handlers s0) k = Some hr0 /\ h_h hr0 = h_h hr).
    { assert (E : nth_error (map h_h (s_handlers s)) k = Some (h_h hr)) by (rewrite nth_error_map, Hk; reflexivity).
      rewrite S3, nth_error_map in E. destruct (nth_error (s_handlers s0) k) as [hr0|]; [|discriminate].
      exists hr0. split; [reflexivity|]. cbn in E. congruence. }
    destruct Hk0 as (hr0 & Hk0 & Hh0).
    destruct (S1 e He) as [He0|Hfresh].
    - apply (HN e k hr0 oi0 He0 (S2 _ Hc) Hk0); [congruence|exact Hoi0|].
      destruct W as [W|W]; [congruence|rewrite Hw in W; discriminate].
    - destruct (u_hand _ _ HI k hr0 oi0 Hk0 Hoi0) as (_ & _ & _ & Hlt). lia.
  Qed.

  (* the owner of a tracked entry, when every entry has a handler *)
  Lemma owner_of : forall o (s : st) e,
    InvU o s -> handled s -> c_err (o_v o) = false -> In e (s_inflight s) ->
    exists k hr oi, nth_error (s_handlers s) k = Some hr /\ nth_error (o_incs o) k = Some oi
      /\ h_h hr = e_h e /\ oi_id oi = e_id e /\ is_open (oi_wire oi) = true.
  Proof.
    intros o s e HI Hh Hce He.
    destruct (all_owned_of_handled o s HI Hh Hce e He) as (k & hr & oi & A & B & C & D & E & _).
    exists k, hr, oi. auto.
  Qed.

  Definition LB (n : nat) (o : ostate) (s : st) : Prop :=
    h_b1 (o_v o) = true -> n <= length (s_inflight s) \/ o_freed o = true.

  Lemma LB_mono : forall n o (s : st) o' s',
    (h_b1 (o_v o') = true -> h_b1 (o_v o) = true) -> (o_freed o = true -> o_freed o' = true) ->
    length (s_inflight s) <= length (s_inflight s') -> LB n o s -> LB n o' s'.
  Proof. intros n o s o' s' Hb Hf Hl H Hb'. destruct (H (Hb Hb')) as [H1|H1]; [left; lia|right; auto]. Qed.
  Lemma LB_freed : forall n o (s : st), (h_b1 (o_v o) = true -> o_freed o = true) -> LB n o s.
  Proof. intros n o s H Hb. right. auto. Qed.
  Lemma LB_OM : forall n o (s : st) o' s', OM o o' -> length (s_inflight s) <= length (s_inflight s') ->
    LB n o s -> LB n o' s'.
  Proof. intros n o s o' s' (A1 & A2 & _) Hl. apply LB_mono; auto. Qed.

  (* a Cancel for an id that may be tracked sets o_freed *)
  Lemma cancel_sets_freed : forall o id tr k oi,
    nth_error (o_incs o) k = Some oi -> oi_id oi = id -> is_open (oi_wire oi) = true ->
    o_freed (o_call lim o (CNext (RItem (MCancel id tr)))) = true.
  Proof.
    intros o id tr k oi Hk Hid Hop. unfold o_call. fold (pre_err o).
    destruct (pre_err_proj o) as (A1 & _).
    destruct (resolve_ignored_proj (pre_err o)) as (B1 & _).
    destruct (last_open id (o_incs (resolve_ignored (pre_err o)))) as [j|] eqn:EL.
    - destruct (last_open id (o_incs (resolve_ignored (pre_err o)))); oproj; [reflexivity|discriminate].
    - exfalso. rewrite B1, A1 in EL. pose proof (last_open_none _ _ EL k oi Hk) as H.
      unfold open_id in H. rewrite Hid, N.eqb_refl, Hop in H. discriminate.
  Qed.
End PollMono.

(* ---- the read side of a poll: the in-flight count drops only with o_freed ------------------------- *)
Section Count12.
  Context {T : Type}.
  Variable tp : transport T response cmsg.
  Variable lim : option nat.
  Notation st := (@sstate T).
  Notation ocs := (fold_left (o_call lim)).

  (* the poll started from (o0, s0) *)
  Variable o0 : ostate.
  Variable s0 : st.
  Hypothesis HI0 : InvU o0 s0.
  Hypothesis HN0 : h_b1 (o_v o0) = true -> NSh o0 s0.
  Hypothesis HF0 : FM o0.

  Lemma drop_entry_same_len : forall id (s : st), find_entry id s = None ->
    length (drop_entry id (s_inflight s)) = length (s_inflight s).
  Proof. intros id s H. rewrite (drop_entry_none id s H). reflexivity. Qed.

  (* forgetting a tracked entry whose owner is not surely open *)
  Lemma LB_drop_maybe : forall n o (s s' : st) e k hr oi,
    OM o0 o -> In e (s_inflight s) ->
    nth_error (s_handlers s) k = Some hr -> nth_error (o_incs o) k = Some oi -> h_h hr = e_h e ->
    is_open (oi_wire oi) = true -> (h_b1 (o_v o) = true -> oi_wire oi <> WOpen) -> LB n o s'.
  Proof.
    intros n o s s' e k hr oi HOM He Hk Hoi Hh Hop Hw. apply LB_freed. intros Hb.
    apply (FM_OM o0 o HF0 HOM k oi Hoi). specialize (Hw Hb). destruct (oi_wire oi); try discriminate; congruence.
  Qed.

  Lemma base_c : forall f (s : st) r s' o n,
    BInv o s -> OM o0 o -> SM s0 s -> LB n o s -> base_poll_next tp f s = (r, s') ->
    exists new, ext s s' new /\ post r (ocs new o) s' /\ SM s0 s'
      /\ LB (n + match r with PReady _ => 1 | _ => 0 end) (ocs new o) s'.
  Proof.
    induction f as [|f IH]; intros s r s' o n HB HOM HSM HLB H; cbn [base_poll_next] in H.
    { injection H as <- <-. exists []. rewrite Nat.add_0_r. split; [apply ext_refl|auto]. }
    destruct HB as (HI & Hh & Hce).
    (* cancel queue *)
    set (cs := match s_cancels s with
               | id :: r0 => (RSReady, snd (remove_request id (set_cancels s r0)))
               | [] => (RSClosed, s) end) in H.
    assert (Hc : BInv o (snd cs) /\ s_log (snd cs) = s_log s /\ SM s0 (snd cs) /\ LB n o (snd cs)).
    { subst cs. destruct (s_cancels s) as [|id r0] eqn:EC; cbn [snd];
        [split; [exact (conj HI (conj Hh Hce))|split; [reflexivity|split; assumption]]|].
      assert (HI1 : InvU o (snd (remove_request id (set_cancels s r0)))) by (apply InvU_server_cancel; auto).
      destruct (remove_request_shape id (set_cancels s r0)) as [(_ & Heq & _)|(_ & (e & He) & B1 & B2 & B3 & B4 & B5 & B6 & _)];
        cbv zeta in *.
      - rewrite Heq in *. split; [exact (conj HI1 (conj Hh Hce))|split; [reflexivity|split]].
        + apply (SM_shrink s0 s _ HSM); sproj; auto. intros id' Hid'. rewrite EC. right; exact Hid'.
        + exact HLB.
      - split; [split; [exact HI1|split; [eapply (handled_remove s); eauto|exact Hce]]|].
        split; [rewrite log_remove_request; reflexivity|split].
        + apply (SM_shrink s0 s _ HSM); rewrite ?B1, ?B3, ?B4, ?B6; sproj; auto.
          * intros e0 He0. apply in_drop_entry in He0. tauto.
          * intros id' Hid'. rewrite EC. right; exact Hid'.
        + (* the forgotten entry was held by a handler whose guard was dropped *)
          assert (He' : find_entry id s = Some e) by exact He.
          destruct (find_entry_some _ _ _ He') as [Hin Hid].
          destruct (owner_of o s e HI Hh Hce Hin) as (k & hr & oi & Hk & Hoi & Hhh & _ & Hop).
          apply (LB_drop_maybe n o s _ e k hr oi HOM Hin Hk Hoi Hhh Hop).
          intros Hb. destruct HOM as (M1 & M2 & M3 & M4).
          apply (NSh_transfer o0 s0 o s HI0 (HN0 (M2 Hb)) (conj M1 (conj M2 (conj M3 M4))) HSM e k hr oi Hin); auto.
          rewrite Hid, EC. left; reflexivity. }
    destruct cs as [cst s1]. cbn [snd] in Hc. destruct Hc as ((HI1 & Hh1 & _) & Hl1 & HSM1 & HLB1).
    (* expiry *)
    destruct (poll_expired s1) as [est s2] eqn:EE.
    assert (HI2 : InvU o s2) by (eapply InvU_poll_expired; eauto).
    pose proof (log_poll_expired s1) as Hl2. rewrite EE in Hl2. cbn [snd] in Hl2.
    destruct (poll_expired_shape _ _ _ EE) as (A1 & A2 & A3 & A4 & A5 & A6 & _ & _ & _ & _ & _ & HH).
    assert (Hh2 : handled s2).
    { destruct HH as [(_ & B1 & _)|(_ & id & w & _ & _ & _ & C4 & _)].
      - apply (handled_sub s1 s2 Hh1); [rewrite B1; auto|rewrite A1; reflexivity].
      - eapply (handled_remove s1); eauto. }
    assert (HSM2 : SM s0 s2).
    { apply (SM_shrink s0 s1 s2 HSM1); rewrite ?A1, ?A2, ?A3; auto.
      destruct HH as [(_ & B1 & _)|(_ & id & w & _ & _ & _ & C4 & _)]; [rewrite B1; auto|].
      intros e0 He0. rewrite C4 in He0. apply in_drop_entry in He0. tauto. }
    assert (HLB2 : LB n o s2).
    { destruct HH as [(_ & B1 & _)|(_ & id & w & C1 & C2 & _ & C4 & _)].
      - intros Hb. rewrite B1. exact (HLB1 Hb).
      - destruct (find_entry id s1) as [e|] eqn:EF.
        + destruct (find_entry_some _ _ _ EF) as [Hin Hid].
          destruct (owner_of o s1 e HI1 Hh1 Hce Hin) as (k & hr & oi & Hk & Hoi & Hhh & _ & Hop).
          apply (LB_drop_maybe n o s1 _ e k hr oi HOM Hin Hk Hoi Hhh Hop). intros _.
          eapply (due_owner_not_open o s1 id w e k hr oi); eauto.
        + intros Hb. rewrite C4, (drop_entry_same_len id s1 EF). exact (HLB1 Hb). }
    assert (Hown2 : pend_id o = None \/ all_owned o s2) by (right; apply all_owned_of_handled; auto).
    assert (H02 : ext s s2 []) by (apply ext_same; congruence).
    assert (HB2 : BInv o s2) by (exact (conj HI2 (conj Hh2 Hce))).
    (* the final status *)
    assert (Hfin : forall rst sx new0 r s',
               ext s sx new0 -> BInv (ocs new0 o) sx -> SM s0 sx -> LB n (ocs new0 o) sx ->
               match combine (combine cst est) rst with
               | RSReady => base_poll_next tp f sx
               | RSClosed => (PEnd, sx)
               | RSPending => (PPending, sx)
               end = (r, s') ->
               exists new, ext s s' new /\ post r (ocs new o) s' /\ SM s0 s'
                 /\ LB (n + match r with PReady _ => 1 | _ => 0 end) (ocs new o) s').
    { intros rst sx new0 r0 s0' Hx HBx HSx HLx HHf. destruct (combine (combine cst est) rst).
      - assert (HOMx : OM o0 (ocs new0 o)) by (eapply OM_trans; [exact HOM|apply OM_calls]).
        destruct (IH _ _ _ _ _ HBx HOMx HSx HLx HHf) as (n1 & E1 & Post & S1 & L1). exists (new0 ++ n1).
        split; [eapply ext_trans; eauto|]. rewrite ocs_app. auto.
      - injection HHf as <- <-. exists new0. rewrite Nat.add_0_r. auto.
      - injection HHf as <- <-. exists new0. rewrite Nat.add_0_r. auto. }
    destruct (s_fused s2) eqn:EF.
    - apply (Hfin RSClosed s2 []); [exact H02|exact HB2|exact HSM2|exact HLB2|exact H].
    - destruct (do_next tp s2) as [rr s3] eqn:EN.
      destruct (do_next_core tp _ _ _ EN) as (C3 & F3 & _ & _ & _ & L3).
      assert (H23 : ext s s3 [CNext rr]).
      { unfold ext in *. rewrite L3, H02. reflexivity. }
      assert (Hh3 : handled s3).
      { destruct C3 as (D1 & D2 & D3 & _). apply (handled_sub s2 s3 Hh2); [rewrite D3; auto|rewrite D1; reflexivity]. }
      assert (HSM3 : SM s0 s3) by (eapply SM_core; eauto).
      assert (N3 : length (s_inflight s3) = length (s_inflight s2)) by (destruct C3 as (_ & _ & D3 & _); rewrite D3; reflexivity).
      assert (HLB3 : forall c0, LB n (o_call lim o c0) s3).
      { intros c0. eapply LB_OM; [apply OM_call| |exact HLB2]. lia. }
      destruct rr as [m| | |].
      + destruct m as [id dl tr body|id tr].
        * destruct (start_request id dl s3) as [[h s4]|] eqn:ES.
          -- injection H as <- <-.
             destruct (step_next_accept tp lim o s2 id dl tr body s3 h s4 HI2 Hown2 Hce EN ES) as (A & B & C & D).
             destruct (start_request_shape _ _ _ _ _ ES) as (_ & Hhn & Si & _ & Sn & Sh & _ & Sc & _).
             exists [CNext (RItem (MReq id dl tr body))]. split; [|cbn [fold_left post]; split; [exact (conj (conj A (conj B C)) D)|split]].
             ++ unfold ext in *. rewrite (log_start_request _ _ _ _ _ ES). exact H23.
             ++ destruct HSM3 as (S1 & S2 & S3 & S4). split; [|split; [|split]].
                ** intros e0 He0. rewrite Si in He0. apply in_app_or in He0. destruct He0 as [He0|[<-|[]]]; [auto|].
                   right. cbn [e_h]. lia.
                ** rewrite Sc. exact S2.
                ** rewrite Sh. exact S3.
                ** rewrite Sn. lia.
             ++ intros Hb. destruct (HLB3 _ Hb) as [Hl|Hf]; [left|right; exact Hf].
                rewrite Si, app_length. cbn [length]. lia.
          -- destruct (step_next_dup tp lim o s2 id dl tr body s3 HI2 Hown2 Hce EN) as (A & B & C).
             assert (HB3 : BInv (ocs [CNext (RItem (MReq id dl tr body))] o) s3)
               by (cbn [fold_left]; exact (conj A (conj Hh3 C))).
             assert (HOM3 : OM o0 (ocs [CNext (RItem (MReq id dl tr body))] o))
               by (eapply OM_trans; [exact HOM|apply OM_calls]).
             destruct (IH _ _ _ _ _ HB3 HOM3 HSM3 (HLB3 _) H) as (n1 & E1 & Post & S1 & L1).
             exists ([CNext (RItem (MReq id dl tr body))] ++ n1). split; [eapply ext_trans; eauto|].
             rewrite ocs_app. auto.
        * destruct (step_next_cancel tp lim o s2 id tr s3 HI2 Hown2 Hce EN) as (A & B).
          apply (Hfin RSReady (cancel_request id s3) [CNext (RItem (MCancel id tr))]); [| | | |exact H].
          -- unfold ext in *. rewrite log_cancel_request. exact H23.
          -- cbn [fold_left]. split; [exact A|split].
             ++ destruct (cancel_request_shape id s3) as [(Heq & _)|(e & _ & B1 & _ & _ & B4 & _)]; cbv zeta in *.
                ** rewrite Heq. exact Hh3.
                ** eapply (handled_remove s3); eauto.
             ++ destruct (ocall_next_proj lim o (RItem (MCancel id tr))) as (_ & _ & P3 & _). cbv zeta in P3. congruence.
          -- destruct (cancel_request_shape id s3) as [(Heq & _)|(e & _ & B1 & _ & _ & B4 & B5 & B6 & _)]; cbv zeta in *.
             ++ rewrite Heq. exact HSM3.
             ++ apply (SM_shrink s0 s3 _ HSM3); rewrite ?B1, ?B4, ?B5, ?B6; auto.
                intros e0 He0. apply in_drop_entry in He0. tauto.
          -- cbn [fold_left].
             destruct (cancel_request_shape id s3) as [(Heq & _)|(e & Hfe & _)]; cbv zeta in *.
             ++ rewrite Heq. apply HLB3.
             ++ apply LB_freed. intros _. destruct (find_entry_some _ _ _ Hfe) as [Hin Hid].
                assert (HI3 : InvU o s3).
                { eapply InvU_frame; [exact HI2|repeat split; reflexivity|exact C3|].
                  rewrite F3. exact (u_eof _ _ HI2). }
                destruct (owner_of o s3 e HI3 Hh3 Hce Hin) as (k & hr & oi & _ & Hoi & _ & Hoid & Hop).
                eapply cancel_sets_freed; eauto. congruence.
      + injection H as <- <-.
        destruct (step_next_idle tp lim o s2 RErr s3 HI2 Hown2 Hce EN I) as (A & B).
        exists [CNext RErr]. rewrite Nat.add_0_r. split; [exact H23|]. cbn [fold_left post].
        split; [split; [exact A|split; [exact Hh3|]]|split; [exact HSM3|apply HLB3]].
        destruct (ocall_next_proj lim o RErr) as (_ & _ & P3 & _). cbv zeta in P3. congruence.
      + destruct (step_next_idle tp lim o s2 REof s3 HI2 Hown2 Hce EN I) as (A & B).
        apply (Hfin RSClosed (set_fused s3 true) [CNext REof]); [exact H23| | | |exact H].
        * cbn [fold_left]. split; [exact A|split; [exact Hh3|]].
          destruct (ocall_next_proj lim o REof) as (_ & _ & P3 & _). cbv zeta in P3. congruence.
        * exact HSM3.
        * cbn [fold_left]. apply HLB3.
      + destruct (step_next_idle tp lim o s2 RPending s3 HI2 Hown2 Hce EN I) as (A & B).
        apply (Hfin RSPending s3 [CNext RPending]); [exact H23| |exact HSM3| |exact H].
        * cbn [fold_left]. split; [exact A|split; [exact Hh3|]].
          destruct (ocall_next_proj lim o RPending) as (_ & _ & P3 & _). cbv zeta in P3. congruence.
        * cbn [fold_left]. apply HLB3.
  Qed.
End Count12.

Definition nonthr (c : call) : Prop :=
  match c with CSend m _ => resp_body m <> BThrottle | _ => True end.

Lemma ocs_G_nonthr : forall lim new o, Forall nonthr new -> G o -> G (fold_left (o_call lim) new o).
Proof.
  intros lim new; induction new as [|c new IH]; intros o Hn HG; cbn [fold_left]; [exact HG|].
  inversion Hn; subst. apply IH; [assumption|]. apply ocall_G_other; assumption.
Qed.

Lemma nexts_nonthr : forall new, Forall is_next new -> Forall nonthr new.
Proof. intros new H. eapply Forall_impl; [|exact H]. intros c Hc. destruct c; try contradiction; exact I. Qed.

Lemma drop_entry_one : forall l e, NoDup (map e_id l) -> In e l -> length l = S (length (drop_entry (e_id e) l)).
Proof.
  induction l as [|x r IH]; intros e Hnd Hin; [destruct Hin|]. cbn in Hnd. inversion Hnd as [|? ? Hni Hnd']; subst.
  cbn [drop_entry filter]. destruct Hin as [->|Hin].
  - rewrite N.eqb_refl. cbn [negb]. f_equal.
    assert (E : filter (fun e0 => negb (N.eqb (e_id e0) (e_id e))) r = r).
    { clear -Hni. induction r as [|y r IH]; [reflexivity|]. cbn.
      destruct (N.eqb (e_id y) (e_id e)) eqn:E.
      - exfalso. apply Hni. left. apply N.eqb_eq in E. exact E.
      - cbn. f_equal. apply IH. intro H. apply Hni. right. exact H. }
    unfold drop_entry. rewrite E. reflexivity.
  - destruct (N.eqb (e_id x) (e_id e)) eqn:E.
    + exfalso. apply Hni. apply N.eqb_eq in E. rewrite E. apply in_map. exact Hin.
    + cbn [negb length]. f_equal. apply (IH e Hnd' Hin).
Qed.

Section Count12b.
  Context {T : Type}.
  Variable tp : transport T response cmsg.
  Variable lim : option nat.
  Notation st := (@sstate T).
  Notation ocs := (fold_left (o_call lim)).
  Variable o0 : ostate.
  Variable s0 : st.
  Hypothesis HI0 : InvU o0 s0.
  Hypothesis HN0 : h_b1 (o_v o0) = true -> NSh o0 s0.
  Hypothesis HF0 : FM o0.

  Lemma base_c' : forall f (s : st) r s' o n,
    BInv o s -> OM o0 o -> SM s0 s -> LB n o s -> G o -> base_poll_next tp f s = (r, s') ->
    exists new, ext s s' new /\ post r (ocs new o) s' /\ SM s0 s'
      /\ LB (n + match r with PReady _ => 1 | _ => 0 end) (ocs new o) s' /\ G (ocs new o).
  Proof.
    intros f s r s' o n HB HOM HSM HLB HG H.
    destruct (base_c tp lim o0 s0 HI0 HN0 HF0 f s r s' o n HB HOM HSM HLB H) as (new & X & P & S & L).
    exists new. split; [exact X|split; [exact P|split; [exact S|split; [exact L|]]]].
    destruct (base_ext tp _ _ _ _ H) as (new' & X' & Fn).
    assert (new' = new) by (eapply ocs_ext_unique; eauto). subst new'.
    apply ocs_G_nonthr; [apply nexts_nonthr, Fn|exact HG].
  Qed.

  (* MaxRequests::poll_next *)
  Lemma maxreq_c : forall f limit (s : st) r s' o,
    lim = Some limit -> BInv o s -> OM o0 o -> SM s0 s -> G o ->
    maxreq_poll_next tp f limit s = (r, s') ->
    exists new, ext s s' new /\ post r (ocs new o) s' /\ SM s0 s' /\ G (ocs new o).
  Proof.
    induction f as [|f IH]; intros limit s r s' o Hlim HB HOM HSM HG H; cbn [maxreq_poll_next] in H.
    { injection H as <- <-. exists []. split; [apply ext_refl|auto]. }
    destruct (limit <=? length (s_inflight s)) eqn:EL.
    2: { assert (HL0 : LB 0 o s) by (intros _; left; lia).
         destruct (base_c' _ _ _ _ _ 0 HB HOM HSM HL0 HG H) as (new & A & B & D & _ & E). exists new. auto. }
    apply Nat.leb_le in EL.
    destruct (do_ready tp s) as [x s1] eqn:ER.
    pose proof (BInv_ready tp lim _ _ _ _ HB ER) as HB1.
    destruct (do_ready_core tp _ _ _ ER) as (C1 & _ & _ & _ & _ & L1).
    assert (E01 : ext s s1 [CReady x]) by (unfold ext; rewrite L1; reflexivity).
    assert (HOM1 : OM o0 (o_call lim o (CReady x))) by (eapply OM_trans; [exact HOM|apply OM_call]).
    assert (HSM1 : SM s0 s1) by (eapply SM_core; eauto).
    assert (HG1 : G (o_call lim o (CReady x))) by (apply ocall_G_other; [exact I|exact HG]).
    assert (HL1 : LB limit (o_call lim o (CReady x)) s1).
    { intros _. left. destruct C1 as (_ & _ & D3 & _). rewrite D3. exact EL. }
    destruct x; try (injection H as <- <-; eexists; split; [exact E01|auto]).
    destruct (base_poll_next tp (S f) s1) as [y s2] eqn:EB.
    destruct (base_c' _ _ _ _ _ limit HB1 HOM1 HSM1 HL1 HG1 EB) as (n2 & E2 & Post2 & HSM2 & HL2 & HG2).
    assert (E02 : ext s s2 ([CReady TOk] ++ n2)) by (eapply ext_trans; eauto).
    destruct y as [q| |a| |];
      try (injection H as <- <-; eexists; split; [exact E02|]; rewrite ocs_app; cbn [fold_left]; auto).
    destruct Post2 as ((HI2 & HP2 & Hce2) & Hin2).
    set (o2 := ocs n2 (o_call lim o (CReady TOk))) in *.
    destruct (base_start_send tp (mkresp (q_id q) BThrottle) s2) as [e s3] eqn:ESS.
    destruct (step_throttle tp lim _ s2 q e s3 HI2 HP2 Hce2 Hin2 ESS) as (rr & L3 & He & HI3 & Hp3 & Hce3 & Hi3).
    cbv zeta in *.
    set (o3 := o_call lim o2 (CSend (mkresp (q_id q) BThrottle) rr)) in *.
    assert (E03 : ext s s3 (([CReady TOk] ++ n2) ++ [CSend (mkresp (q_id q) BThrottle) rr])).
    { eapply ext_trans; [exact E02|]. unfold ext. rewrite L3. reflexivity. }
    assert (Hh3 : handled s3).
    { intros e0 He0. rewrite Hi3 in He0. apply in_drop_entry in He0. destruct He0 as [He0 Hne].
      destruct HP2 as (_ & Q2 & _).
      destruct (base_start_send_shape tp _ _ _ _ ESS) as [(_ & _ & ->)|(_ & _ & _ & _ & _ & _ & B3 & _)].
      - destruct (classic_handled s2 e0) as [Hy|Hn]; [exact Hy|].
        exfalso. pose proof (Q2 e0 He0 Hn) as ->. cbn in Hne. congruence.
      - rewrite B3. destruct (classic_handled s2 e0) as [Hy|Hn]; [exact Hy|].
        exfalso. pose proof (Q2 e0 He0 Hn) as ->. cbn in Hne. congruence. }
    assert (Hocs3 : ocs (([CReady TOk] ++ n2) ++ [CSend (mkresp (q_id q) BThrottle) rr]) o = o3).
    { rewrite ocs_app. cbn [fold_left]. rewrite ocs_app. cbn [fold_left]. reflexivity. }
    assert (HB3 : BInv o3 s3) by exact (conj HI3 (conj Hh3 Hce3)).
    assert (HSM3 : SM s0 s3).
    { destruct (base_start_send_shape tp _ _ _ _ ESS) as [(_ & _ & ->)|(_ & _ & _ & _ & B1 & _ & B3 & B4 & _ & B6 & _)];
        [exact HSM2|].
      apply (SM_shrink s0 s2 s3 HSM2); rewrite ?B1, ?B3, ?B4, ?B6; auto.
      intros e0 He0. apply in_drop_entry in He0. tauto. }
    assert (HG3 : G o3).
    { apply ocall_G_thr; [exact HG2|]. intros Hb. destruct (HL2 Hb) as [Hl|Hf]; [left|right; exact Hf].
      unfold enough_at. rewrite Hlim. apply Nat.leb_le.
      destruct (ocall_send_proj lim o2 (mkresp (q_id q) BThrottle) rr) as (_ & _ & _ & _ & _ & _ & Hinc & _).
      cbv zeta in Hinc. cbn [resp_body resp_id] in Hinc. fold o3 in Hinc. rewrite <- Hinc.
      pose proof (count_le o3 s3 HI3 Hh3 Hce3) as Hcnt.
      pose proof (drop_entry_one (s_inflight s2) _ (u_idnodup _ _ HI2) Hin2) as Hone. unfold entry_of in Hone; cbn [e_id] in Hone.
      rewrite <- Hi3 in Hone. lia. }
    destruct e as [a|].
    - injection H as <- <-. eexists; split; [exact E03|]. rewrite Hocs3. auto.
    - assert (HOM3 : OM o0 o3).
      { eapply OM_trans; [exact HOM1|]. eapply OM_trans; [apply (OM_calls lim n2)|apply OM_call]. }
      destruct (IH _ _ _ _ o3 Hlim HB3 HOM3 HSM3 HG3 H) as (n4 & E4 & Post4 & S4 & G4).
      eexists; split; [eapply ext_trans; [exact E03|exact E4]|]. rewrite ocs_app, Hocs3. auto.
  Qed.
End Count12b.

(* ---- the write side never writes a throttle reply --------------------------------------------------- *)
Section WriteSide.
  Context {T : Type}.
  Variable tp : transport T response cmsg.
  Notation st := (@sstate T).

  Lemma ensure_nonthr : forall (s : st) w s', ensure_writeable tp s = (w, s') ->
    exists new, ext s s' new /\ Forall nonthr new /\ s_respq s' = s_respq s.
  Proof.
    intros s w s' H. unfold ensure_writeable in H.
    destruct (do_ready tp s) as [r s1] eqn:E1. destruct (do_ready_core tp _ _ _ E1) as (_ & _ & Q1 & _ & _ & L1).
    assert (X1 : ext s s1 [CReady r]) by (unfold ext; rewrite L1; reflexivity).
    assert (F1 : Forall nonthr [CReady r]) by (repeat constructor).
    destruct r; try (injection H as <- <-; eexists; split; [exact X1|split; [exact F1|exact Q1]]).
    destruct (do_flush tp s1) as [f s2] eqn:E2. destruct (do_flush_core tp _ _ _ E2) as (_ & _ & Q2 & _ & _ & L2).
    assert (X2 : ext s s2 ([CReady TPending] ++ [CFlush f])).
    { eapply ext_trans; [exact X1|]. unfold ext; rewrite L2; reflexivity. }
    assert (F2 : Forall nonthr ([CReady TPending] ++ [CFlush f])) by (repeat constructor).
    destruct f; try (injection H as <- <-; eexists; split; [exact X2|split; [exact F2|congruence]]).
    destruct (do_ready tp s2) as [r2 s3] eqn:E3. destruct (do_ready_core tp _ _ _ E3) as (_ & _ & Q3 & _ & _ & L3).
    assert (X3 : ext s s3 (([CReady TPending] ++ [CFlush TOk]) ++ [CReady r2])).
    { eapply ext_trans; [exact X2|]. unfold ext; rewrite L3; reflexivity. }
    destruct r2; injection H as <- <-; eexists; (split; [exact X3|]);
      (split; [repeat constructor|congruence]).
  Qed.

  Lemma pump_write_nonthr : forall rc (s : st) w s',
    no_thr s -> pump_write tp rc s = (w, s') ->
    exists new, ext s s' new /\ Forall nonthr new.
  Proof.
    intros rc s w s' Hnt H. unfold pump_write, poll_next_response in H.
    destruct (ensure_writeable tp s) as [x s1] eqn:EW.
    destruct (ensure_nonthr _ _ _ EW) as (n1 & X1 & F1 & Q1).
    assert (Hnt1 : no_thr s1) by (intros m Hm; apply Hnt; rewrite <- Q1; exact Hm).
    assert (Hflush : forall w s',
      (let '(f, s2) := do_flush tp s1 in
       match f with
       | TOk => if rc && Nat.eqb (length (s_inflight s2)) 0 then (@PEnd unit, s2) else (PPending, s2)
       | TErr => (PErr AFlush, s2)
       | TPending => (PPending, s2)
       end) = (w, s') ->
      exists new, ext s s' new /\ Forall nonthr new).
    { intros w0 s0 HH. destruct (do_flush tp s1) as [f s2] eqn:EF.
      destruct (do_flush_core tp _ _ _ EF) as (_ & _ & _ & _ & _ & L2).
      assert (R : exists new, ext s s2 new /\ Forall nonthr new).
      { exists (n1 ++ [CFlush f]). split; [eapply ext_trans; [exact X1|unfold ext; rewrite L2; reflexivity]|].
        apply Forall_app. split; [exact F1|repeat constructor]. }
      destruct f; [destruct (rc && _)| |]; injection HH as <- <-; exact R. }
    destruct x as [| |a].
    - destruct (s_respq s1) as [|m q] eqn:EQ.
      + apply (Hflush w s'). exact H.
      + destruct (base_start_send tp m (add_permit (set_respq s1 q))) as [e s2] eqn:ES.
        assert (Hm : resp_body m <> BThrottle) by (apply Hnt1; rewrite EQ; left; reflexivity).
        destruct (add_permit_shape (set_respq s1 q)) as (A1 & A2 & A3 & A4 & A5 & A6 & A7 & A8 & A9 & A10 & A11 & A12 & A13).
        cbv zeta in *. sproj.
        assert (R : exists new, ext s s2 new /\ Forall nonthr new).
        { destruct (base_start_send_shape tp _ _ _ _ ES) as [(_ & _ & ->)|(en & rr & _ & _ & _ & _ & _ & _ & _ & _ & _ & _ & _ & _ & _ & _ & LL)].
          - exists n1. split; [unfold ext in *; rewrite A12; exact X1|exact F1].
          - exists (n1 ++ [CSend m rr]). split; [eapply ext_trans; [exact X1|unfold ext; rewrite LL, A12; reflexivity]|].
            apply Forall_app. split; [exact F1|]. constructor; [exact Hm|constructor]. }
        destruct e; injection H as <- <-; exact R.
    - apply (Hflush w s'). exact H.
    - injection H as <- <-. exists n1. split; [exact X1|exact F1].
  Qed.
End WriteSide.

Section Count12c.
  Context {T : Type}.
  Variable tp : transport T response cmsg.
  Variable lim : option nat.
  Notation st := (@sstate T).
  Notation ocs := (fold_left (o_call lim)).
  Variable o0 : ostate.
  Variable s0 : st.
  Hypothesis HI0 : InvU o0 s0.
  Hypothesis HN0 : h_b1 (o_v o0) = true -> NSh o0 s0.
  Hypothesis HF0 : FM o0.

  Lemma SM_wframe : forall (s s' : st), SM s0 s -> wframe s s' -> SM s0 s'.
  Proof.
    intros s s' HS (W1 & W2 & W3 & W4 & W5 & W6 & W7).
    apply (SM_shrink s0 s s' HS); auto. rewrite W5. auto.
  Qed.

  (* impl Stream for Requests: poll_next *)
  Lemma requests_c : forall c f (s : st) r s' o,
    cfg_limit c = lim -> BInv o s -> no_thr s -> OM o0 o -> SM s0 s -> G o ->
    requests_poll_next tp c f s = (r, s') ->
    exists new, ext s s' new /\ G (ocs new o).
  Proof.
    intros c f; induction f as [|f IH]; intros s r s' o Hlim HB Hnt HOM HSM HG H; cbn [requests_poll_next] in H.
    { injection H as <- <-. exists []. split; [apply ext_refl|exact HG]. }
    destruct (pump_read tp c (S f) s) as [rd s1] eqn:ER.
    assert (Hrd : exists n1, ext s s1 n1 /\ post rd (ocs n1 o) s1 /\ SM s0 s1 /\ G (ocs n1 o)
                             /\ s_respq s1 = s_respq s).
    { unfold pump_read in ER. destruct (cfg_limit c) as [l|] eqn:El.
      - destruct (maxreq_c tp lim o0 s0 HI0 HN0 HF0 _ _ _ _ _ _ (eq_sym Hlim) HB HOM HSM HG ER) as (n1 & A & B & D & E).
        exists n1. repeat (split; [assumption|]). exact (respq_maxreq tp _ _ _ _ _ ER).
      - assert (HL0 : LB 0 o s) by (intros _; left; lia).
        destruct (base_c' tp lim o0 s0 HI0 HN0 HF0 _ _ _ _ _ 0 HB HOM HSM HL0 HG ER) as (n1 & A & B & D & _ & E).
        exists n1. repeat (split; [assumption|]). exact (respq_base tp _ _ _ _ ER). }
    destruct Hrd as (n1 & X1 & Post1 & HSM1 & HG1 & Hq1).
    assert (Hnt1 : no_thr s1) by (intros m Hm; apply Hnt; rewrite <- Hq1; exact Hm).
    assert (HOM1 : OM o0 (ocs n1 o)) by (eapply OM_trans; [exact HOM|apply OM_calls]).
    (* the write side *)
    assert (W : forall rc wr s2, InvU (ocs n1 o) s1 -> c_err (o_v (ocs n1 o)) = false ->
              pump_write tp rc s1 = (wr, s2) ->
              exists n2, ext s s2 (n1 ++ n2) /\ wpost (ocs n1 o) s1 (ocs (n1 ++ n2) o) s2 /\ no_thr s2
                         /\ SM s0 s2 /\ G (ocs (n1 ++ n2) o) /\ OM o0 (ocs (n1 ++ n2) o)).
    { intros rc wr s2 HI1 Hce1 EW.
      destruct (pump_write_inv tp lim _ _ _ _ _ HI1 Hce1 Hnt1 EW) as (n2 & X2 & WP & Hnt2).
      destruct (pump_write_nonthr tp _ _ _ _ Hnt1 EW) as (n2' & X2' & F2).
      assert (n2' = n2) by (eapply ocs_ext_unique; eauto). subst n2'.
      exists n2. rewrite ocs_app. split; [eapply ext_trans; eauto|]. split; [exact WP|split; [exact Hnt2|]].
      destruct WP as (_ & _ & _ & Wf).
      split; [eapply SM_wframe; eauto|]. split; [apply ocs_G_nonthr; assumption|].
      eapply OM_trans; [exact HOM1|apply OM_calls]. }
    destruct rd as [q| |a| |].
    - destruct Post1 as ((HI1 & HP1 & Hce1) & Hin1).
      destruct (pump_write tp false s1) as [wr s2] eqn:EW.
      destruct (W _ _ _ HI1 Hce1 EW) as (n2 & X02 & _ & _ & _ & HG2 & _).
      destruct wr as [u| |a| |]; injection H as <- <-; exists (n1 ++ n2);
        (split; [first [exact X02|unfold ext in *; sproj; exact X02]|exact HG2]).
    - destruct Post1 as (HI1 & Hh1 & Hce1).
      destruct (pump_write tp true s1) as [wr s2] eqn:EW.
      destruct (W _ _ _ HI1 Hce1 EW) as (n2 & X02 & WP & Hnt2 & HSM2 & HG2 & HOM2).
      pose proof (BInv_wpost _ _ _ _ (conj HI1 (conj Hh1 Hce1)) WP) as HB2.
      destruct wr as [u| |a| |]; try (injection H as <- <-; exists (n1 ++ n2); split; [exact X02|exact HG2]).
      destruct (IH _ _ _ _ Hlim HB2 Hnt2 HOM2 HSM2 HG2 H) as (n3 & X3 & G3).
      exists ((n1 ++ n2) ++ n3). split; [eapply ext_trans; eauto|]. rewrite ocs_app. exact G3.
    - injection H as <- <-. exists n1. split; [exact X1|exact HG1].
    - destruct Post1 as (HI1 & Hh1 & Hce1).
      destruct (pump_write tp false s1) as [wr s2] eqn:EW.
      destruct (W _ _ _ HI1 Hce1 EW) as (n2 & X02 & WP & Hnt2 & HSM2 & HG2 & HOM2).
      pose proof (BInv_wpost _ _ _ _ (conj HI1 (conj Hh1 Hce1)) WP) as HB2.
      destruct wr as [u| |a| |]; try (injection H as <- <-; exists (n1 ++ n2); split; [exact X02|exact HG2]).
      destruct (IH _ _ _ _ Hlim HB2 Hnt2 HOM2 HSM2 HG2 H) as (n3 & X3 & G3).
      exists ((n1 ++ n2) ++ n3). split; [eapply ext_trans; eauto|]. rewrite ocs_app. exact G3.
    - injection H as <- <-. exists n1. split; [exact X1|exact HG1].
  Qed.
End Count12c.
