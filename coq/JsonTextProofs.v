(* JsonTextProofs.v -- proofs about the JSON text layer (JsonText.v): the parser inverts the
   printer (compact, or with any whitespace string at every token boundary) on well-formed
   trees; trees produced by the shape-directed encoder are well-formed; composed with the
   tree-level theorems of WireProofs.v this gives the round trips of whole messages as text. *)
From Coq Require Import String Ascii.
From Coq Require Import List NArith ZArith Bool Arith Lia.
Import ListNotations.
From TarpcV Require Import Base Schema Wire WireProofs JsonText.
From Coq Require DecimalFacts DecimalN.
Local Open Scope N_scope.

(* ---------- small tactics ---------- *)
Ltac kill_eqb :=
  repeat match goal with
  | |- context [N.eqb ?a ?b] =>
    first [ replace (N.eqb a b) with false by (symmetry; apply N.eqb_neq; lia)
          | replace (N.eqb a b) with true by (symmetry; apply N.eqb_eq; lia) ]
  end.
Ltac kill_ltb :=
  repeat match goal with
  | |- context [N.ltb ?a ?b] =>
    first [ replace (N.ltb a b) with false by (symmetry; apply N.ltb_ge; lia)
          | replace (N.ltb a b) with true by (symmetry; apply N.ltb_lt; lia) ]
  end.
Ltac kill_leb :=
  repeat match goal with
  | |- context [N.leb ?a ?b] =>
    first [ replace (N.leb a b) with false by (symmetry; apply N.leb_gt; lia)
          | replace (N.leb a b) with true by (symmetry; apply N.leb_le; lia) ]
  end.

(* ---------- whitespace ---------- *)
Lemma is_ws_cases c : is_ws c = true -> c = 32 \/ c = 10 \/ c = 13 \/ c = 9.
Proof.
  unfold is_ws. intros H.
  destruct (c =? 32) eqn:E1; [apply N.eqb_eq in E1; auto|].
  destruct (c =? 10) eqn:E2; [apply N.eqb_eq in E2; auto|].
  destruct (c =? 13) eqn:E3; [apply N.eqb_eq in E3; auto|].
  destruct (c =? 9) eqn:E4; [apply N.eqb_eq in E4; auto|]. discriminate.
Qed.
Lemma is_ws_false c : c <> 32 -> c <> 10 -> c <> 13 -> c <> 9 -> is_ws c = false.
Proof. intros. unfold is_ws. kill_eqb. reflexivity. Qed.

Lemma skip_ws_app pre bs : all_ws pre = true -> skip_ws (pre ++ bs) = skip_ws bs.
Proof.
  induction pre as [|c pre IH]; intros H; [reflexivity|].
  cbn [all_ws forallb] in H. apply andb_true_iff in H. destruct H as [H1 H2].
  cbn [app skip_ws]. rewrite H1. now apply IH.
Qed.
Lemma skip_ws_nows c tl : is_ws c = false -> skip_ws (c :: tl) = c :: tl.
Proof. intros H. cbn [skip_ws]. now rewrite H. Qed.
Lemma skip_ws_all sp : all_ws sp = true -> skip_ws sp = [].
Proof. intros H. rewrite <- (app_nil_r sp). now rewrite skip_ws_app. Qed.
Lemma all_ws_app a b : all_ws (a ++ b) = all_ws a && all_ws b.
Proof. unfold all_ws. apply forallb_app. Qed.

(* ---------- delimiters: what may follow a number ---------- *)
Definition nd (c : N) : bool := negb (is_digit c || (c =? 46) || (c =? 101) || (c =? 69)).
Definition delimb (rest : bytes) : bool := match rest with [] => true | c :: _ => nd c end.
Lemma nd_ws c : is_ws c = true -> nd c = true.
Proof.
  intros H. apply is_ws_cases in H. unfold nd, is_digit.
  destruct H as [ -> | [ -> | [ -> | -> ] ] ]; reflexivity.
Qed.
Lemma delimb_ws_app sp c r : all_ws sp = true -> nd c = true -> delimb (sp ++ c :: r) = true.
Proof.
  destruct sp as [|s sp]; intros H1 H2; [exact H2|].
  cbn [all_ws forallb] in H1. apply andb_true_iff in H1. cbn [app delimb]. apply nd_ws, H1.
Qed.
Lemma delimb_ws sp : all_ws sp = true -> delimb sp = true.
Proof.
  destruct sp as [|s sp]; intros H1; [reflexivity|].
  cbn [all_ws forallb] in H1. apply andb_true_iff in H1. cbn [delimb]. apply nd_ws, H1.
Qed.
Lemma nd_digit c : nd c = true -> is_digit c = false.
Proof. unfold nd. intros H. apply negb_true_iff in H. repeat (apply orb_false_iff in H; destruct H as [H ?]). exact H. Qed.
Lemma nd_dot c : nd c = true -> (c =? 46) || (c =? 101) || (c =? 69) = false.
Proof.
  unfold nd. intros H. apply negb_true_iff in H.
  destruct (is_digit c); [discriminate|]. exact H.
Qed.

(* ---------- strings ---------- *)
Lemma parse_str_raw b r : b <> 34 -> b <> 92 -> 32 <= b ->
  parse_str (b :: r) = match parse_str r with Some (s, rest) => Some (b :: s, rest) | None => None end.
Proof. intros. cbn [parse_str]. kill_eqb. kill_ltb. reflexivity. Qed.
Lemma parse_str_simple e c r : e <> 117 -> simple_escape e = Some c ->
  parse_str (92 :: e :: r) = match parse_str r with Some (s, rest) => Some (c :: s, rest) | None => None end.
Proof.
  intros H1 H2. cbn [parse_str]. change (92 =? 34) with false. change (92 =? 92) with true. cbv iota.
  kill_eqb. rewrite H2. reflexivity.
Qed.
Lemma parse_str_u h3 h4 cp r : hex4 48 48 h3 h4 = Some cp -> cp < 55296 ->
  parse_str (92 :: 117 :: 48 :: 48 :: h3 :: h4 :: r) =
  match parse_str r with Some (s, rest) => Some ((utf8 cp ++ s)%list, rest) | None => None end.
Proof.
  intros H1 H2. cbn [parse_str]. change (92 =? 34) with false. change (92 =? 92) with true.
  change (117 =? 117) with true. cbv iota. rewrite H1.
  replace (55296 <=? cp) with false by (symmetry; apply N.leb_gt; lia).
  replace (56320 <=? cp) with false by (symmetry; apply N.leb_gt; lia).
  cbn [andb]. reflexivity.
Qed.
Lemma parse_str_end r : parse_str (34 :: r) = Some ([], r).
Proof. reflexivity. Qed.

Lemma hex_val_digit x : x < 16 -> hex_val (hex_digit x) = Some x.
Proof.
  intros H. unfold hex_digit. destruct (x <? 10) eqn:E.
  - apply N.ltb_lt in E. unfold hex_val. kill_leb. cbn [andb]. f_equal. lia.
  - apply N.ltb_ge in E. unfold hex_val.
    replace (87 + x <=? 57) with false by (symmetry; apply N.leb_gt; lia).
    rewrite andb_false_r.
    replace (97 <=? 87 + x) with true by (symmetry; apply N.leb_le; lia).
    replace (87 + x <=? 102) with true by (symmetry; apply N.leb_le; lia).
    cbn [andb]. f_equal. lia.
Qed.

Lemma hex4_esc b : b < 32 -> hex4 48 48 (hex_digit (b / 16)) (hex_digit (b mod 16)) = Some b.
Proof.
  intros H. unfold hex4. change (hex_val 48) with (Some 0).
  assert (b / 16 < 16) by (apply N.div_lt_upper_bound; lia).
  assert (b mod 16 < 16) by (apply N.mod_lt; lia).
  rewrite !hex_val_digit by assumption. f_equal.
  pose proof (N.div_mod' b 16). lia.
Qed.

Lemma parse_str_esc_byte b tl :
  parse_str (esc_byte b ++ tl) =
  match parse_str tl with Some (s, rest) => Some (b :: s, rest) | None => None end.
Proof.
  unfold esc_byte.
  destruct (b =? 34) eqn:E1. { apply N.eqb_eq in E1. subst. reflexivity. }
  destruct (b =? 92) eqn:E2. { apply N.eqb_eq in E2. subst. reflexivity. }
  destruct (b =? 8) eqn:E3. { apply N.eqb_eq in E3. subst. reflexivity. }
  destruct (b =? 12) eqn:E4. { apply N.eqb_eq in E4. subst. reflexivity. }
  destruct (b =? 10) eqn:E5. { apply N.eqb_eq in E5. subst. reflexivity. }
  destruct (b =? 13) eqn:E6. { apply N.eqb_eq in E6. subst. reflexivity. }
  destruct (b =? 9) eqn:E7. { apply N.eqb_eq in E7. subst. reflexivity. }
  apply N.eqb_neq in E1, E2.
  destruct (b <? 32) eqn:E8.
  - apply N.ltb_lt in E8. cbn [app].
    rewrite (parse_str_u _ _ b) by (try apply hex4_esc; lia).
    unfold utf8. replace (b <? 128) with true by (symmetry; apply N.ltb_lt; lia). reflexivity.
  - apply N.ltb_ge in E8. cbn [app]. apply parse_str_raw; assumption.
Qed.

Lemma parse_str_print s rest : parse_str (flat_map esc_byte s ++ 34 :: rest) = Some (s, rest).
Proof.
  induction s as [|b s IH]; [reflexivity|].
  cbn [flat_map]. rewrite <- app_assoc, parse_str_esc_byte, IH. reflexivity.
Qed.

Lemma str_bytes_app s rest : str_bytes s ++ rest = 34 :: flat_map esc_byte s ++ 34 :: rest.
Proof. unfold str_bytes. cbn [app]. rewrite <- app_assoc. reflexivity. Qed.

Lemma string_of_sbytes k : string_of_bytes (sbytes k) = k.
Proof.
  unfold sbytes, string_of_bytes. induction k as [|a k IH]; [reflexivity|].
  cbn [list_ascii_of_string map fold_right]. rewrite ascii_N_embedding. f_equal. exact IH.
Qed.
Lemma sbytes_ok k : bytes_ok (sbytes k) = true.
Proof.
  unfold sbytes, bytes_ok. induction k as [|a k IH]; [reflexivity|].
  cbn [list_ascii_of_string map forallb]. rewrite IH, andb_true_r.
  unfold byte_ok. apply N.ltb_lt. apply N_ascii_bounded.
Qed.
(* ---------- numbers ---------- *)
Lemma uint_bytes_digits u : forallb is_digit (uint_bytes u) = true.
Proof. induction u; cbn [uint_bytes forallb]; try rewrite IHu; reflexivity. Qed.
Lemma uint_of_digits_bytes u : uint_of_digits (uint_bytes u) = u.
Proof. induction u; cbn [uint_bytes uint_of_digits]; try rewrite IHu; reflexivity. Qed.

Lemma span_digits_app ds rest : forallb is_digit ds = true -> delimb rest = true ->
  span_digits (ds ++ rest) = (ds, rest).
Proof.
  induction ds as [|d ds IH]; intros H1 H2.
  - cbn [app]. destruct rest as [|c r]; [reflexivity|]. cbn [delimb] in H2.
    cbn [span_digits]. now rewrite (nd_digit _ H2).
  - cbn [forallb] in H1. apply andb_true_iff in H1. destruct H1 as [Hd Hds].
    cbn [app span_digits]. rewrite Hd, (IH Hds H2). reflexivity.
Qed.

Lemma is_digit_range c : is_digit c = true -> 48 <= c <= 57.
Proof. unfold is_digit. intros H. apply andb_true_iff in H. destruct H as [H1 H2]. apply N.leb_le in H1, H2. lia. Qed.

Lemma parse_int_tail (neg : bool) c tl rest :
  (c = 48 -> tl = []) -> delimb rest = true ->
  match c :: tl with
  | [] => None
  | d :: more =>
    if (d =? 48) && negb (match more with [] => true | _ => false end) then None
    else
      match rest with
      | c' :: _ => if (c' =? 46) || (c' =? 101) || (c' =? 69) then None else
                  let n := N.of_uint (uint_of_digits (c :: tl)) in
                  if neg then (if n =? 0 then None else Some ((- Z.of_N n)%Z, rest)) else Some (Z.of_N n, rest)
      | [] =>
        let n := N.of_uint (uint_of_digits (c :: tl)) in
        if neg then (if n =? 0 then None else Some ((- Z.of_N n)%Z, rest)) else Some (Z.of_N n, rest)
      end
  end =
  let n := N.of_uint (uint_of_digits (c :: tl)) in
  if neg then (if n =? 0 then None else Some ((- Z.of_N n)%Z, rest)) else Some (Z.of_N n, rest).
Proof.
  intros Hz Hr. cbv iota beta.
  replace ((c =? 48) && negb (match tl with [] => true | _ :: _ => false end)) with false.
  2:{ symmetry. destruct (c =? 48) eqn:E; [|reflexivity]. apply N.eqb_eq in E. rewrite (Hz E). reflexivity. }
  destruct rest as [|c' r]; [reflexivity|]. cbn [delimb] in Hr. rewrite (nd_dot _ Hr). reflexivity.
Qed.

Lemma parse_int_gen (neg : bool) c tl rest :
  forallb is_digit (c :: tl) = true -> (c = 48 -> tl = []) -> delimb rest = true ->
  parse_int ((if neg then [45] else []) ++ (c :: tl) ++ rest) =
  let n := N.of_uint (uint_of_digits (c :: tl)) in
  if neg then (if n =? 0 then None else Some ((- Z.of_N n)%Z, rest)) else Some (Z.of_N n, rest).
Proof.
  intros Hd Hz Hr.
  assert (Hc: 48 <= c <= 57).
  { cbn [forallb] in Hd. apply andb_true_iff in Hd. apply is_digit_range, Hd. }
  unfold parse_int. destruct neg.
  - change ([45] ++ (c :: tl) ++ rest) with (45 :: (c :: tl) ++ rest).
    cbv iota beta. change (45 =? 45) with true. cbv iota beta.
    rewrite (span_digits_app _ _ Hd Hr). cbv iota beta.
    exact (parse_int_tail true c tl rest Hz Hr).
  - change ([] ++ (c :: tl) ++ rest) with (c :: tl ++ rest).
    cbv iota beta. replace (c =? 45) with false by (symmetry; apply N.eqb_neq; lia). cbv iota beta.
    change (c :: tl ++ rest) with ((c :: tl) ++ rest).
    rewrite (span_digits_app _ _ Hd Hr). cbv iota beta.
    exact (parse_int_tail false c tl rest Hz Hr).
Qed.

Lemma to_uint_fix n : N.to_uint n = Decimal.unorm (N.to_uint n).
Proof.
  pose proof (DecimalN.Unsigned.to_of (N.to_uint n)) as H.
  rewrite DecimalN.Unsigned.of_to in H. exact H.
Qed.

(* the digits of a natural: "0", or a non-zero digit followed by digits *)
Lemma to_uint_shape n :
  exists c tl, uint_bytes (N.to_uint n) = c :: tl /\ 48 <= c <= 57 /\ (c = 48 -> tl = []).
Proof.
  pose proof (to_uint_fix n) as H. set (u := N.to_uint n) in *. clearbody u.
  unfold Decimal.unorm in H.
  destruct (Decimal.nzhead u) eqn:E; rewrite H; cbn [uint_bytes];
    try (eexists; eexists; split; [reflexivity|split; [lia|intros; try reflexivity; discriminate]]).
  exfalso. exact (DecimalFacts.nzhead_nonzero _ _ E).
Qed.

Lemma parse_int_print z rest : delimb rest = true -> parse_int (num_bytes z ++ rest) = Some (z, rest).
Proof.
  intros Hr. unfold num_bytes. destruct (z <? 0)%Z eqn:Ez.
  - apply Z.ltb_lt in Ez.
    destruct (to_uint_shape (Z.to_N (- z))) as (c & tl & E & Hc & Hz).
    pose proof (uint_bytes_digits (N.to_uint (Z.to_N (- z)))) as Hd.
    pose proof (uint_of_digits_bytes (N.to_uint (Z.to_N (- z)))) as Hu.
    rewrite E in *.
    change ((45 :: c :: tl) ++ rest) with ([45] ++ (c :: tl) ++ rest).
    rewrite (parse_int_gen true c tl rest Hd Hz Hr). cbv zeta.
    rewrite Hu, DecimalN.Unsigned.of_to.
    replace (Z.to_N (- z) =? 0) with false by (symmetry; apply N.eqb_neq; lia).
    f_equal. f_equal. lia.
  - apply Z.ltb_ge in Ez.
    destruct (to_uint_shape (Z.to_N z)) as (c & tl & E & Hc & Hz).
    pose proof (uint_bytes_digits (N.to_uint (Z.to_N z))) as Hd.
    pose proof (uint_of_digits_bytes (N.to_uint (Z.to_N z))) as Hu.
    rewrite E in *.
    change ((c :: tl) ++ rest) with ([] ++ (c :: tl) ++ rest).
    rewrite (parse_int_gen false c tl rest Hd Hz Hr). cbv zeta.
    rewrite Hu, DecimalN.Unsigned.of_to. f_equal. f_equal. lia.
Qed.

(* first byte of a number *)
Lemma num_bytes_head z : exists c tl, num_bytes z = c :: tl /\ (c = 45 \/ 48 <= c <= 57).
Proof.
  unfold num_bytes. destruct (z <? 0)%Z.
  - eexists; eexists; split; [reflexivity|left; reflexivity].
  - destruct (to_uint_shape (Z.to_N z)) as (c & tl & E & Hc & _). exists c, tl. split; [exact E|right; exact Hc].
Qed.
(* ---------- an induction principle for the nested type jv ---------- *)
Lemma jv_ind' : forall (P : jv -> Prop),
  P JNull -> (forall b, P (JBool b)) -> (forall z, P (JNum z)) -> (forall s, P (JStr s)) ->
  (forall l, Forall P l -> P (JArr l)) ->
  (forall m, Forall (fun p => P (snd p)) m -> P (JObj m)) ->
  forall j, P j.
Proof.
  intros P Hnull Hbool Hnum Hstr Harr Hobj.
  exact (fix F (j : jv) : P j :=
    match j with
    | JNull => Hnull | JBool b => Hbool b | JNum z => Hnum z | JStr s => Hstr s
    | JArr l => Harr l ((fix go (l : list jv) : Forall P l :=
                           match l with
                           | [] => Forall_nil P
                           | x :: r => Forall_cons x (F x) (go r)
                           end) l)
    | JObj m => Hobj m ((fix go (m : list (string * jv)) : Forall (fun p => P (snd p)) m :=
                           match m with
                           | [] => Forall_nil _
                           | p :: r => Forall_cons p (match p as p0 return P (snd p0) with (k, x) => F x end) (go r)
                           end) m)
    end).
Qed.

(* ---------- the inner loops, named ---------- *)
Section Sp.
  Variable sp : bytes.
  Fixpoint print_elems (first : bool) (l : list jv) : bytes :=
    match l with
    | [] => [93]
    | x :: r => (if first then [] else 44 :: sp) ++ json_print_sp sp x ++ sp ++ print_elems false r
    end.
  Fixpoint print_members (first : bool) (m : list (string * jv)) : bytes :=
    match m with
    | [] => [125]
    | (k, x) :: r =>
      (if first then [] else 44 :: sp) ++ str_bytes (sbytes k) ++ sp ++ 58 :: sp
      ++ json_print_sp sp x ++ sp ++ print_members false r
    end.
End Sp.
Fixpoint cprint_elems (first : bool) (l : list jv) : bytes :=
  match l with
  | [] => [93]
  | x :: r => (if first then [] else [44]) ++ json_print x ++ cprint_elems false r
  end.
Fixpoint cprint_members (first : bool) (m : list (string * jv)) : bytes :=
  match m with
  | [] => [125]
  | (k, x) :: r => (if first then [] else [44]) ++ str_bytes (sbytes k) ++ [58] ++ json_print x ++ cprint_members false r
  end.
Fixpoint wf_list (l : list jv) : bool :=
  match l with [] => true | x :: r => json_wf x && wf_list r end.
Fixpoint wf_members (m : list (string * jv)) : bool :=
  match m with [] => true | (_, x) :: r => json_wf x && wf_members r end.
Fixpoint jsize (j : jv) : nat :=
  match j with
  | JArr l => S ((fix go (l : list jv) : nat := match l with [] => O | x :: r => S (jsize x + go r)%nat end) l)
  | JObj m => S ((fix go (m : list (string * jv)) : nat :=
                    match m with [] => O | (_, x) :: r => S (jsize x + go r)%nat end) m)
  | _ => 1%nat
  end.
Fixpoint jsizes (l : list jv) : nat :=
  match l with [] => O | x :: r => S (jsize x + jsizes r)%nat end.
Fixpoint jsizem (m : list (string * jv)) : nat :=
  match m with [] => O | (_, x) :: r => S (jsize x + jsizem r)%nat end.

Lemma print_sp_arr sp l : json_print_sp sp (JArr l) = 91 :: sp ++ print_elems sp true l.
Proof. reflexivity. Qed.
Lemma print_sp_obj sp m : json_print_sp sp (JObj m) = 123 :: sp ++ print_members sp true m.
Proof. reflexivity. Qed.
Lemma print_arr l : json_print (JArr l) = 91 :: cprint_elems true l.
Proof. reflexivity. Qed.
Lemma print_obj m : json_print (JObj m) = 123 :: cprint_members true m.
Proof. reflexivity. Qed.
Lemma wf_arr l : json_wf (JArr l) = wf_list l.
Proof. reflexivity. Qed.
Lemma wf_obj m : json_wf (JObj m) = wf_members m.
Proof. reflexivity. Qed.
Lemma jsize_arr l : jsize (JArr l) = S (jsizes l).
Proof. reflexivity. Qed.
Lemma jsize_obj m : jsize (JObj m) = S (jsizem m).
Proof. reflexivity. Qed.

Lemma json_print_sp_nil : forall j, json_print_sp [] j = json_print j.
Proof.
  apply jv_ind'; try reflexivity.
  - intros l H. rewrite print_sp_arr, print_arr. cbn [app]. f_equal.
    generalize true. induction H as [|x r Hx Hr IH]; intros first; [reflexivity|].
    cbn [print_elems cprint_elems app]. rewrite Hx, IH. reflexivity.
  - intros m H. rewrite print_sp_obj, print_obj. cbn [app]. f_equal.
    generalize true. induction H as [|[k x] r Hx Hr IH]; intros first; [reflexivity|].
    cbn [print_members cprint_members app snd] in *. rewrite Hx, IH. reflexivity.
Qed.

Lemma print_elems_false_cons sp x r rest :
  print_elems sp false (x :: r) ++ rest =
  44 :: sp ++ json_print_sp sp x ++ sp ++ print_elems sp false r ++ rest.
Proof. cbn [print_elems]. rewrite <- !app_assoc. reflexivity. Qed.
Lemma print_elems_true_cons sp x r rest :
  print_elems sp true (x :: r) ++ rest =
  json_print_sp sp x ++ sp ++ print_elems sp false r ++ rest.
Proof. cbn [print_elems]. rewrite <- !app_assoc. reflexivity. Qed.
Lemma print_members_false_cons sp k x r rest :
  print_members sp false ((k, x) :: r) ++ rest =
  44 :: sp ++ str_bytes (sbytes k) ++ sp ++ 58 :: sp ++ json_print_sp sp x ++ sp ++ print_members sp false r ++ rest.
Proof. cbn [print_members]. rewrite <- !app_assoc. cbn [app]. rewrite <- !app_assoc. reflexivity. Qed.
Lemma print_members_true_cons sp k x r rest :
  print_members sp true ((k, x) :: r) ++ rest =
  str_bytes (sbytes k) ++ sp ++ 58 :: sp ++ json_print_sp sp x ++ sp ++ print_members sp false r ++ rest.
Proof. cbn [print_members]. rewrite <- !app_assoc. cbn [app]. rewrite <- !app_assoc. reflexivity. Qed.

(* ---------- first byte of a printed value ---------- *)
Lemma print_head sp j : exists c tl, json_print_sp sp j = c :: tl /\ is_ws c = false /\ c <> 93 /\ c <> 125.
Proof.
  destruct j as [|b|z|s|l|m].
  - eexists; eexists; split; [reflexivity|]. repeat split; try reflexivity; discriminate.
  - destruct b; (eexists; eexists; split; [reflexivity|]); repeat split; try reflexivity; discriminate.
  - destruct (num_bytes_head z) as (c & tl & E & Hc). exists c, tl. split; [exact E|].
    split; [apply is_ws_false; lia|]. lia.
  - eexists; eexists; split; [reflexivity|]. repeat split; try reflexivity; discriminate.
  - eexists; eexists; split; [reflexivity|]. repeat split; try reflexivity; discriminate.
  - eexists; eexists; split; [reflexivity|]. repeat split; try reflexivity; discriminate.
Qed.

Lemma skip_ws_print sp pre j more : all_ws pre = true ->
  skip_ws (pre ++ json_print_sp sp j ++ more) = json_print_sp sp j ++ more.
Proof.
  intros H. rewrite (skip_ws_app _ _ H).
  destruct (print_head sp j) as (c & tl & E & Hw & _). rewrite E. cbn [app]. now apply skip_ws_nows.
Qed.

(* ---------- unfolding the parser ---------- *)
Lemma pv_S f bs : parse_value (S f) bs =
    match skip_ws bs with
    | [] => None
    | b :: r =>
      if b =? 110 then expect [117; 108; 108] r JNull
      else if b =? 116 then expect [114; 117; 101] r (JBool true)
      else if b =? 102 then expect [97; 108; 115; 101] r (JBool false)
      else if b =? 34 then
        match parse_str r with Some (s, rest) => Some (JStr s, rest) | None => None end
      else if b =? 91 then
        match skip_ws r with
        | c :: r' =>
          if c =? 93 then Some (JArr [], r')
          else match parse_elems f (skip_ws r) with
               | Some (vs, rest) => Some (JArr vs, rest)
               | None => None
               end
        | [] => None
        end
      else if b =? 123 then
        match skip_ws r with
        | c :: r' =>
          if c =? 125 then Some (JObj [], r')
          else match parse_members f (skip_ws r) with
               | Some (ms, rest) => Some (JObj ms, rest)
               | None => None
               end
        | [] => None
        end
      else
        match parse_int (b :: r) with
        | Some (z, rest) => Some (JNum z, rest)
        | None => None
        end
    end.
Proof. reflexivity. Qed.

Lemma pe_S f bs : parse_elems (S f) bs =
    match parse_value f bs with
    | None => None
    | Some (v, r) =>
      match skip_ws r with
      | c :: r' =>
        if c =? 44 then
          match parse_elems f r' with Some (vs, rest) => Some (v :: vs, rest) | None => None end
        else if c =? 93 then Some ([v], r')
        else None
      | [] => None
      end
    end.
Proof. reflexivity. Qed.

Lemma pm_S f bs : parse_members (S f) bs =
    match skip_ws bs with
    | q :: r0 =>
      if q =? 34 then
        match parse_str r0 with
        | None => None
        | Some (k, r1) =>
          match skip_ws r1 with
          | c :: r2 =>
            if c =? 58 then
              match parse_value f r2 with
              | None => None
              | Some (v, r3) =>
                match skip_ws r3 with
                | d :: r4 =>
                  if d =? 44 then
                    match parse_members f r4 with
                    | Some (ms, rest) => Some ((string_of_bytes k, v) :: ms, rest)
                    | None => None
                    end
                  else if d =? 125 then Some ([(string_of_bytes k, v)], r4)
                  else None
                | [] => None
                end
              end
            else None
          | [] => None
          end
        end
      else None
    | [] => None
    end.
Proof. reflexivity. Qed.

Lemma pv_ws f pre bs : all_ws pre = true -> parse_value f (pre ++ bs) = parse_value f bs.
Proof. intros H. destruct f; [reflexivity|]. rewrite !pv_S, (skip_ws_app _ _ H). reflexivity. Qed.

Lemma pv_arr f r : parse_value (S f) (91 :: r) =
  match skip_ws r with
  | c :: r' =>
    if c =? 93 then Some (JArr [], r')
    else match parse_elems f (skip_ws r) with
         | Some (vs, rest) => Some (JArr vs, rest)
         | None => None
         end
  | [] => None
  end.
Proof. reflexivity. Qed.
Lemma pv_obj f r : parse_value (S f) (123 :: r) =
  match skip_ws r with
  | c :: r' =>
    if c =? 125 then Some (JObj [], r')
    else match parse_members f (skip_ws r) with
         | Some (ms, rest) => Some (JObj ms, rest)
         | None => None
         end
  | [] => None
  end.
Proof. reflexivity. Qed.
Lemma pv_str f r : parse_value (S f) (34 :: r) =
  match parse_str r with Some (s, rest) => Some (JStr s, rest) | None => None end.
Proof. reflexivity. Qed.
Lemma pv_num f c tl : c = 45 \/ 48 <= c <= 57 ->
  parse_value (S f) (c :: tl) =
  match parse_int (c :: tl) with Some (z, rest) => Some (JNum z, rest) | None => None end.
Proof.
  intros H. rewrite pv_S, skip_ws_nows by (apply is_ws_false; lia).
  kill_eqb. reflexivity.
Qed.

Lemma pm_step f pre k Y : all_ws pre = true ->
  parse_members (S f) (pre ++ str_bytes (sbytes k) ++ Y) =
  match skip_ws Y with
  | c :: r2 =>
    if c =? 58 then
      match parse_value f r2 with
      | None => None
      | Some (v, r3) =>
        match skip_ws r3 with
        | d :: r4 =>
          if d =? 44 then
            match parse_members f r4 with
            | Some (ms, rest) => Some ((k, v) :: ms, rest)
            | None => None
            end
          else if d =? 125 then Some ([(k, v)], r4)
          else None
        | [] => None
        end
      end
    else None
  | [] => None
  end.
Proof.
  intros H. rewrite pm_S, (skip_ws_app _ _ H), str_bytes_app.
  rewrite skip_ws_nows by reflexivity. cbv iota beta. change (34 =? 34) with true. cbv iota.
  rewrite parse_str_print. cbv iota beta. rewrite string_of_sbytes. reflexivity.
Qed.
(* ---------- the core: parse_value on a printed value followed by a delimiter ---------- *)
Definition PV (j : jv) : Prop :=
  json_wf j = true -> forall sp rest fuel, all_ws sp = true -> delimb rest = true ->
  (jsize j <= fuel)%nat -> parse_value fuel (json_print_sp sp j ++ rest) = Some (j, rest).

Lemma nd_44 : nd 44 = true. Proof. reflexivity. Qed.
Lemma nd_93 : nd 93 = true. Proof. reflexivity. Qed.
Lemma nd_125 : nd 125 = true. Proof. reflexivity. Qed.

Lemma elems_ok sp : all_ws sp = true ->
  forall r x, PV x -> Forall PV r -> json_wf x = true -> wf_list r = true ->
  forall pre rest fuel, all_ws pre = true -> (S (jsize x + jsizes r) <= fuel)%nat ->
  parse_elems fuel (pre ++ json_print_sp sp x ++ sp ++ print_elems sp false r ++ rest) = Some (x :: r, rest).
Proof.
  intros Hsp. induction r as [|x' r IH]; intros x Px Pr Wx Wr pre rest fuel Hpre Hf;
    (destruct fuel as [|f]; [lia|]); rewrite pe_S, (pv_ws _ _ _ Hpre).
  - cbn [print_elems app].
    rewrite (Px Wx sp (sp ++ 93 :: rest) f Hsp (delimb_ws_app _ _ _ Hsp nd_93)) by (cbn [jsizes] in Hf; lia).
    rewrite (skip_ws_app _ _ Hsp). reflexivity.
  - rewrite print_elems_false_cons.
    rewrite (Px Wx sp (sp ++ 44 :: _) f Hsp (delimb_ws_app _ _ _ Hsp nd_44)) by (cbn [jsizes] in Hf; lia).
    rewrite (skip_ws_app _ _ Hsp). rewrite skip_ws_nows by reflexivity. cbv iota beta.
    change (44 =? 44) with true. cbv iota.
    cbn [wf_list] in Wr. apply andb_true_iff in Wr. destruct Wr as [Wx' Wr'].
    inversion Pr as [|? ? Px' Pr']; subst.
    rewrite (IH x' Px' Pr' Wx' Wr' sp rest f Hsp) by (cbn [jsizes] in Hf; lia).
    reflexivity.
Qed.

Lemma members_ok sp : all_ws sp = true ->
  forall r k x, PV x -> Forall (fun p => PV (snd p)) r -> json_wf x = true -> wf_members r = true ->
  forall pre rest fuel, all_ws pre = true -> (S (jsize x + jsizem r) <= fuel)%nat ->
  parse_members fuel (pre ++ str_bytes (sbytes k) ++ sp ++ 58 :: sp ++ json_print_sp sp x ++ sp
                      ++ print_members sp false r ++ rest) = Some ((k, x) :: r, rest).
Proof.
  intros Hsp. induction r as [|[k' x'] r IH]; intros k x Px Pr Wx Wr pre rest fuel Hpre Hf;
    (destruct fuel as [|f]; [lia|]); rewrite (pm_step _ _ _ _ Hpre), (skip_ws_app _ _ Hsp);
    (rewrite skip_ws_nows by reflexivity); cbv iota beta; change (58 =? 58) with true; cbv iota;
    rewrite (pv_ws _ _ _ Hsp).
  - cbn [print_members app].
    rewrite (Px Wx sp (sp ++ 125 :: rest) f Hsp (delimb_ws_app _ _ _ Hsp nd_125)) by (cbn [jsizem] in Hf; lia).
    rewrite (skip_ws_app _ _ Hsp). reflexivity.
  - rewrite print_members_false_cons.
    rewrite (Px Wx sp (sp ++ 44 :: _) f Hsp (delimb_ws_app _ _ _ Hsp nd_44)) by (cbn [jsizem] in Hf; lia).
    rewrite (skip_ws_app _ _ Hsp). rewrite skip_ws_nows by reflexivity. cbv iota beta.
    change (44 =? 44) with true. cbv iota.
    cbn [wf_members] in Wr. apply andb_true_iff in Wr. destruct Wr as [Wx' Wr'].
    inversion Pr as [|? ? Px' Pr']; subst. cbn [snd] in Px'.
    rewrite (IH k' x' Px' Pr' Wx' Wr' sp rest f Hsp) by (cbn [jsizem] in Hf; lia).
    reflexivity.
Qed.

Lemma parse_value_print : forall j, PV j.
Proof.
  apply jv_ind'.
  - intros _ sp rest fuel _ _ Hf. destruct fuel as [|f]; [cbn [jsize] in Hf; lia|]. reflexivity.
  - intros b _ sp rest fuel _ _ Hf. destruct fuel as [|f]; [cbn [jsize] in Hf; lia|]. destruct b; reflexivity.
  - intros z _ sp rest fuel _ Hr Hf. destruct fuel as [|f]; [cbn [jsize] in Hf; lia|].
    change (json_print_sp sp (JNum z)) with (num_bytes z).
    destruct (num_bytes_head z) as (c & tl & E & Hc).
    pose proof (parse_int_print z rest Hr) as Hp. rewrite E in *.
    change ((c :: tl) ++ rest) with (c :: tl ++ rest) in *.
    rewrite (pv_num _ _ _ Hc), Hp. reflexivity.
  - intros s _ sp rest fuel _ _ Hf. destruct fuel as [|f]; [cbn [jsize] in Hf; lia|].
    change (json_print_sp sp (JStr s)) with (str_bytes s).
    rewrite str_bytes_app, pv_str, parse_str_print. reflexivity.
  - intros l Hl W sp rest fuel Hsp Hr Hf. rewrite wf_arr in W. rewrite jsize_arr in Hf.
    destruct fuel as [|f]; [lia|].
    rewrite print_sp_arr. cbn [app]. rewrite <- app_assoc, pv_arr.
    destruct l as [|x r].
    + cbn [print_elems app]. rewrite (skip_ws_app _ _ Hsp). reflexivity.
    + rewrite print_elems_true_cons. rewrite (skip_ws_print sp sp x _ Hsp).
      cbn [wf_list] in W. apply andb_true_iff in W. destruct W as [Wx Wr].
      inversion Hl as [|? ? Px Pr]; subst.
      pose proof (elems_ok sp Hsp r x Px Pr Wx Wr [] rest f eq_refl ltac:(cbn [jsizes] in Hf; lia)) as He.
      cbn [app] in He.
      destruct (print_head sp x) as (c & tl & E & _ & H93 & _).
      remember (json_print_sp sp x ++ sp ++ print_elems sp false r ++ rest) as Z eqn:HZ.
      assert (HZ' : exists tl', Z = c :: tl') by (rewrite HZ, E; eexists; reflexivity).
      destruct HZ' as [tl' HZ']. rewrite HZ' in *.
      replace (c =? 93) with false by (symmetry; apply N.eqb_neq; exact H93).
      rewrite He. reflexivity.
  - intros m Hm W sp rest fuel Hsp Hr Hf. rewrite wf_obj in W. rewrite jsize_obj in Hf.
    destruct fuel as [|f]; [lia|].
    rewrite print_sp_obj. cbn [app]. rewrite <- app_assoc, pv_obj.
    destruct m as [|[k x] r].
    + cbn [print_members app]. rewrite (skip_ws_app _ _ Hsp). reflexivity.
    + rewrite print_members_true_cons.
      cbn [wf_members] in W. apply andb_true_iff in W. destruct W as [Wx Wr].
      inversion Hm as [|? ? Px Pr]; subst. cbn [snd] in Px.
      pose proof (members_ok sp Hsp r k x Px Pr Wx Wr [] rest f eq_refl ltac:(cbn [jsizem] in Hf; lia)) as He.
      cbn [app] in He.
      rewrite (skip_ws_app _ _ Hsp).
      remember (str_bytes (sbytes k) ++ sp ++ 58 :: sp ++ json_print_sp sp x ++ sp ++ print_members sp false r ++ rest) as Z eqn:HZ.
      assert (HZ' : exists tl', Z = 34 :: tl') by (rewrite HZ; unfold str_bytes; eexists; reflexivity).
      destruct HZ' as [tl' HZ']. rewrite HZ' in *.
      rewrite skip_ws_nows by reflexivity. cbv iota beta. change (34 =? 125) with false. cbv iota.
      rewrite He. reflexivity.
Qed.
(* ---------- fuel: the size measure is bounded by the length of the text ---------- *)
Lemma jsizes_le_false sp r :
  Forall (fun x => (jsize x <= length (json_print_sp sp x))%nat) r ->
  (jsizes r + 1 <= length (print_elems sp false r))%nat.
Proof.
  induction 1 as [|x r Hx Hr IH]; [cbn; lia|].
  cbn [jsizes print_elems]. rewrite ?app_length; cbn [length]; rewrite ?app_length. lia.
Qed.
Lemma jsizem_le_false sp r :
  Forall (fun p => (jsize (snd p) <= length (json_print_sp sp (snd p)))%nat) r ->
  (jsizem r + 1 <= length (print_members sp false r))%nat.
Proof.
  induction 1 as [|[k x] r Hx Hr IH]; [cbn; lia|]. cbn [snd] in Hx.
  cbn [jsizem print_members]. rewrite ?app_length; cbn [length]; rewrite ?app_length. lia.
Qed.

Lemma jsize_le sp : forall j, (jsize j <= length (json_print_sp sp j))%nat.
Proof.
  apply jv_ind'.
  - cbn. lia.
  - intros []; cbn; lia.
  - intros z. destruct (print_head sp (JNum z)) as (c & tl & E & _). rewrite E. cbn [jsize length]. lia.
  - intros s. destruct (print_head sp (JStr s)) as (c & tl & E & _). rewrite E. cbn [jsize length]. lia.
  - intros l H. rewrite jsize_arr, print_sp_arr. cbn [length]. rewrite app_length.
    destruct H as [|x r Hx Hr]; [cbn; lia|].
    pose proof (jsizes_le_false sp r Hr).
    cbn [jsizes print_elems]. rewrite ?app_length; cbn [length]; rewrite ?app_length. lia.
  - intros m H. rewrite jsize_obj, print_sp_obj. cbn [length]. rewrite app_length.
    destruct H as [|[k x] r Hx Hr]; [cbn; lia|]. cbn [snd] in Hx.
    pose proof (jsizem_le_false sp r Hr).
    cbn [jsizem print_members]. rewrite ?app_length; cbn [length]; rewrite ?app_length. lia.
Qed.

(* ---------- the text layer ---------- *)
Theorem json_text_roundtrip_ws : forall sp j, all_ws sp = true -> json_wf j = true ->
  json_parse (json_text_sp sp j) = Some j.
Proof.
  intros sp j Hsp W. unfold json_parse, json_text_sp.
  rewrite (pv_ws _ _ _ Hsp).
  rewrite (parse_value_print j W sp sp _ Hsp (delimb_ws _ Hsp)).
  - rewrite Hsp. reflexivity.
  - pose proof (jsize_le sp j). rewrite !app_length. lia.
Qed.

Lemma json_text_sp_nil j : json_text_sp [] j = json_print j.
Proof. unfold json_text_sp. cbn [app]. rewrite app_nil_r. apply json_print_sp_nil. Qed.

Theorem json_text_roundtrip : forall j, json_wf j = true -> json_parse (json_print j) = Some j.
Proof. intros j W. rewrite <- json_text_sp_nil. now apply json_text_roundtrip_ws. Qed.

(* ---------- trees produced by the encoder are well-formed ---------- *)
Lemma json_enc_list_wf e :
  (forall v j, conforms true e v -> json_enc e v = Some j -> json_wf j = true) ->
  forall l js, conforms_list true e l -> json_enc_list e l = Some js -> wf_list js = true.
Proof.
  intros IH. induction l as [|x r IHl]; intros js Hc E.
  - cbn in E. injection E as <-. reflexivity.
  - destruct Hc as [Hx Hr]. cbn [json_enc_list] in E.
    destruct (json_enc e x) as [j|] eqn:E1; [|discriminate].
    destruct (json_enc_list e r) as [js'|] eqn:E2; [|discriminate].
    cbn [ocons] in E. injection E as <-. cbn [wf_list].
    rewrite (IH _ _ Hx E1), (IHl _ Hr eq_refl). reflexivity.
Qed.

Lemma json_enc_wf_mut :
  (forall s v j, conforms true s v -> json_enc s v = Some j -> json_wf j = true) /\
  (forall fs l ms, conforms_fields true fs l -> json_enc_fields fs l = Some ms -> wf_members ms = true) /\
  (forall vs k p j, conforms_variant true vs k p -> json_enc_variant vs k p = Some j -> json_wf j = true) /\
  (forall kd vname p j, conforms_vkind true kd p -> json_enc_vkind kd vname p = Some j -> json_wf j = true).
Proof.
  apply shape_mutind.
  - (* SPrim *) intros ser de v j Hc E. cbn [conforms json_enc] in *.
    destruct v as [z|b| | |]; cbn [prim_conforms] in Hc; try contradiction; unfold json_enc_prim in E.
    + destruct ser; try discriminate; destruct (in_range _ z); try discriminate; injection E as <-; reflexivity.
    + destruct Hc as (-> & Hok & _). injection E as <-. exact Hok.
  - (* STuple *) intros n e IH v j Hc E. rewrite conforms_tuple_eq in Hc. rewrite json_enc_tuple_eq in E.
    destruct v; try contradiction. destruct Hc as [Hl Hc].
    destruct (Nat.eqb (length l) n); [|discriminate].
    destruct (json_enc_list e l) as [js|] eqn:EL; [|discriminate].
    cbn [omap] in E. injection E as <-. rewrite wf_arr. exact (json_enc_list_wf e IH l js Hc EL).
  - (* SNewtype *) intros name s IH v j Hc E. cbn [conforms json_enc] in *. eauto.
  - (* SStruct *) intros name fs IH v j Hc E. cbn [conforms json_enc] in *.
    destruct v; try contradiction.
    destruct (json_enc_fields fs l) as [ms|] eqn:EF; [|discriminate].
    cbn [omap] in E. injection E as <-. rewrite wf_obj. eauto.
  - (* SEnum *) intros name vs IH v j Hc E. cbn [conforms json_enc] in *.
    destruct v; try contradiction. eauto.
  - (* SBad *) intros why v j Hc. contradiction.
  - (* FNil *) intros l ms Hc E. destruct l; [|contradiction]. cbn in E. injection E as <-. reflexivity.
  - (* FCons *) intros fname d s IHs r IHr l ms Hc E.
    cbn [conforms_fields json_enc_fields] in *.
    destruct l as [|v l]; [contradiction|]. destruct Hc as [Hc1 Hc2].
    destruct (d && is_default v) eqn:Edv; [eauto|].
    assert (Hcv: conforms true s v).
    { destruct Hc1 as [[Hd ->]|Hc1]; [|assumption]. cbn [andb is_default] in *. rewrite Hd in Edv. discriminate. }
    destruct (json_enc s v) as [j|] eqn:E1; [|discriminate].
    destruct (json_enc_fields r l) as [ms'|] eqn:E2; [|discriminate].
    cbn [omap ocons] in E. injection E as <-. cbn [wf_members].
    rewrite (IHs _ _ Hcv E1), (IHr _ _ Hc2 E2). reflexivity.
  - (* VNil *) intros k p j Hc. contradiction.
  - (* VCons *) intros vn kd IHk r IHr k p j Hc E.
    cbn [conforms_variant json_enc_variant] in *. destruct k; eauto.
  - (* VkUnit *) intros vname p j Hc E. cbn [conforms_vkind json_enc_vkind] in *. subst p.
    injection E as <-. exact (sbytes_ok vname).
  - (* VkNewtype *) intros s IH vname p j Hc E. cbn [conforms_vkind json_enc_vkind] in *.
    destruct (json_enc s p) as [j0|] eqn:E1; [|discriminate].
    cbn [omap] in E. injection E as <-. rewrite wf_obj. cbn [wf_members].
    rewrite (IH _ _ Hc E1). reflexivity.
  - (* VkStruct *) intros fs IH vname p j Hc E. cbn [conforms_vkind json_enc_vkind] in *.
    destruct p; try contradiction.
    destruct (json_enc_fields fs l) as [ms|] eqn:E1; [|discriminate].
    cbn [omap] in E. injection E as <-. rewrite wf_obj. cbn [wf_members]. rewrite wf_obj.
    rewrite (IH _ _ Hc E1). reflexivity.
Qed.

Lemma json_enc_wf : forall s v j, conforms true s v -> json_enc s v = Some j -> json_wf j = true.
Proof. exact (proj1 json_enc_wf_mut). Qed.
(* ---------- whole messages as text ---------- *)
Lemma cm_json_wf m j : cm_wf m -> cm_json m = Some j -> json_wf j = true.
Proof. intros Hwf E. exact (json_enc_wf _ _ _ (proj1 (cm_conforms m Hwf)) E). Qed.
Lemma resp_json_wf r j : resp_wf r -> resp_json r = Some j -> json_wf j = true.
Proof.
  intros Hwf E. exact (json_enc_wf _ _ _ (conforms_false_true _ _ (resp_conforms r Hwf)) E).
Qed.

Theorem json_text_roundtrip_cm_ws : forall sp m, all_ws sp = true -> cm_wf m ->
  exists j, cm_json m = Some j /\ cm_of_json_text (json_text_sp sp j) = Some m.
Proof.
  intros sp m Hsp Hwf. destruct (json_tree_roundtrip_cm m Hwf) as (j & E & D).
  exists j. split; [exact E|]. unfold cm_of_json_text.
  rewrite (json_text_roundtrip_ws sp j Hsp (cm_json_wf m j Hwf E)). exact D.
Qed.

Theorem json_text_roundtrip_resp_ws : forall sp r, all_ws sp = true -> resp_wf r ->
  exists j, resp_json r = Some j /\ resp_of_json_text (json_text_sp sp j) = Some (degrade_resp r).
Proof.
  intros sp r Hsp Hwf. destruct (json_tree_roundtrip_resp r Hwf) as (j & E & D).
  exists j. split; [exact E|]. unfold resp_of_json_text.
  rewrite (json_text_roundtrip_ws sp j Hsp (resp_json_wf r j Hwf E)). exact D.
Qed.

Theorem json_text_roundtrip_cm : forall m, cm_wf m ->
  exists t, cm_json_text m = Some t /\ cm_of_json_text t = Some m.
Proof.
  intros m Hwf. destruct (json_text_roundtrip_cm_ws [] m eq_refl Hwf) as (j & E & D).
  exists (json_print j). unfold cm_json_text. rewrite E. split; [reflexivity|].
  rewrite <- json_text_sp_nil. exact D.
Qed.

Theorem json_text_roundtrip_resp : forall r, resp_wf r ->
  exists t, resp_json_text r = Some t /\ resp_of_json_text t = Some (degrade_resp r).
Proof.
  intros r Hwf. destruct (json_text_roundtrip_resp_ws [] r eq_refl Hwf) as (j & E & D).
  exists (json_print j). unfold resp_json_text. rewrite E. split; [reflexivity|].
  rewrite <- json_text_sp_nil. exact D.
Qed.

(* ---------- optional members omitted, as text ---------- *)
Theorem json_text_deadline_omitted : forall sp t id body,
  all_ws sp = true -> trace_wf t -> (id < u64_max1)%N -> body_wf body ->
  exists jt, json_enc trace_shape (trace_to_val t) = Some jt /\
  cm_of_json_text (json_text_sp sp
     (JObj [("Request"%string,
             JObj [("context"%string, JObj [("trace_context"%string, jt)]);
                   ("id"%string, JNum (Z.of_N id)); ("message"%string, JStr body)])]))
  = Some (CRequest {| r_ctx := {| c_deadline := DlOmitted; c_trace := t |}; r_id := id; r_body := body |}).
Proof.
  intros sp t id body Hsp Ht Hid Hb.
  destruct (optional_deadline t id body Ht Hid Hb) as (jt & E & D).
  exists jt. split; [exact E|]. unfold cm_of_json_text.
  rewrite json_text_roundtrip_ws; [exact D|exact Hsp|].
  pose proof (json_enc_wf _ _ _ (conf_trace true t Ht) E) as Wt.
  destruct Hb as [Hb _].
  rewrite !wf_obj. cbn [wf_members]. rewrite !wf_obj. cbn [wf_members]. rewrite !wf_obj. cbn [wf_members].
  rewrite Wt. cbn [json_wf]. rewrite Hb. reflexivity.
Qed.

Theorem json_text_cancel_no_trace : forall sp id, all_ws sp = true -> (id < u64_max1)%N ->
  cm_of_json_text (json_text_sp sp
     (JObj [("Cancel"%string, JObj [("request_id"%string, JNum (Z.of_N id))])]))
  = Some (CCancel default_trace id).
Proof.
  intros sp id Hsp Hid. unfold cm_of_json_text.
  rewrite json_text_roundtrip_ws; [exact (optional_cancel_trace id Hid)|exact Hsp|reflexivity].
Qed.

(* ---------- the parser rejects what is outside the grammar ---------- *)
Lemma json_parse_rejects :
  json_parse [48; 49]%N = None /\                      (* 01 *)
  json_parse [45; 48]%N = None /\                      (* -0 *)
  json_parse [49; 46; 53]%N = None /\                  (* 1.5 *)
  json_parse [91; 49; 44; 93]%N = None /\              (* [1,] *)
  json_parse [34; 92; 117; 100; 56; 48; 48; 34]%N = None /\   (* "\ud800" *)
  json_parse [123; 125; 32; 120]%N = None /\           (* {} x *)
  json_parse [34; 1; 34]%N = None.                     (* raw control character in a string *)
Proof. repeat split; vm_compute; reflexivity. Qed.
