(* Chain proofs, client side, part 1: which request contexts (deadline, trace number, body) a
   client can hold and put on its link.  Every call keeps the context it was created with; a
   queued request has the context of its call; a written request has the context of the queued
   one.  Over the link transport Chain.ctp. *)
From Coq Require Import List Bool Arith NArith Lia.
Import ListNotations.
From TarpcV Require Import Base Transport Client ClientLemmas ClientProofsG1Frames.
From TarpcV Require Server Chain.

Arguments N.modulo : simpl never.
Arguments N.add : simpl never.
Arguments N.mul : simpl never.
Arguments N.min : simpl never.
Arguments N.sub : simpl never.

Notation link := Chain.link.
Notation ctp := Chain.ctp.
Notation cst := (@cstate Chain.link).

Definition ckey (k : call) : N * N * N := (c_deadline k, Chain.trnum (c_tc k), c_body k).
Definition qkey (q : qitem) : N * N * N := (q_deadline q, Chain.trnum (q_tc q), q_body q).
Definition mkey (m : Server.cmsg) : list (N * N * N) :=
  match m with Server.MReq _ dl tr b => [(dl, tr, b)] | Server.MCancel _ _ => [] end.

Section Ctx.
  Variable Hs : list (N * N * N).
  Implicit Types s : cst.

  Definition link_ok (l : link) : Prop := incl (flat_map mkey (Chain.l_c2s l)) Hs.
  Record cok s : Prop := {
    ck_calls : incl (map ckey (calls s)) Hs;
    ck_queue : incl (map qkey (queue s)) Hs;
    ck_link : link_ok (tr s) }.

  Lemma cok_eq s s' :
    calls s' = calls s -> queue s' = queue s -> tr s' = tr s -> cok s -> cok s'.
  Proof. intros E1 E2 E3 [A B C]. constructor; rewrite ?E1, ?E2, ?E3; assumption. Qed.

  Lemma cok_T s s' : TFrame s s' -> cok s -> cok s'.
  Proof. intros F. apply cok_eq; [apply F|apply F|apply F]. Qed.

  (* ---------------------------------------------------------------- the call table *)
  Lemma map_ckey_set_nth l i k k' :
    nth_error l i = Some k -> ckey k' = ckey k -> map ckey (set_nth i k' l) = map ckey l.
  Proof.
    revert i; induction l as [|x r IH]; intros [|i]; cbn; try discriminate.
    - intros [= ->] E. rewrite E. reflexivity.
    - intros H E. f_equal. apply IH; assumption.
  Qed.

  Lemma ckeys_set_phase s i p : map ckey (calls (set_phase s i p)) = map ckey (calls s).
  Proof.
    unfold set_phase. destruct (nth_error (calls s) i) as [c|] eqn:E; [|reflexivity].
    cbn [calls upd_calls]. eapply map_ckey_set_nth; [exact E|reflexivity].
  Qed.
  Lemma queue_set_phase s i p : queue (set_phase s i p) = queue s.
  Proof. unfold set_phase. destruct (nth_error _ _); reflexivity. Qed.
  Lemma tr_set_phase s i p : tr (set_phase s i p) = tr s.
  Proof. unfold set_phase. destruct (nth_error _ _); reflexivity. Qed.

  Lemma cok_keys s s' :
    map ckey (calls s') = map ckey (calls s) -> queue s' = queue s -> tr s' = tr s ->
    cok s -> cok s'.
  Proof. intros E1 E2 E3 [A B C]. constructor; rewrite ?E1, ?E2, ?E3; assumption. Qed.

  Lemma cok_set_phase s i p : cok s -> cok (set_phase s i p).
  Proof. apply cok_keys; [apply ckeys_set_phase|apply queue_set_phase|apply tr_set_phase]. Qed.

  Lemma cok_release_permit s : cok s -> cok (release_permit s).
  Proof.
    intro H. unfold release_permit. destruct (waiters s) as [|w r].
    - eapply cok_eq; [..|exact H]; reflexivity.
    - apply cok_set_phase. eapply cok_eq; [..|exact H]; reflexivity.
  Qed.

  Lemma cok_fold_set_phase p (l : list nat) s :
    cok s -> cok (fold_left (fun acc w => set_phase acc w p) l s).
  Proof. revert s; induction l as [|w r IH]; intros s H; cbn; [exact H|]. apply IH, cok_set_phase, H. Qed.

  Lemma cok_q_close s : cok s -> cok (q_close s).
  Proof.
    intro H. unfold q_close. destruct (rx_closed s); [exact H|].
    pose proof (cok_fold_set_phase PAcqClosed (waiters s) s H) as H1.
    eapply cok_eq; [..|exact H1]; reflexivity.
  Qed.

  (* ---------------------------------------------------------------- the user side *)
  Lemma cok_add_call s k : cok s -> In (ckey k) Hs -> cok (upd_calls s (calls s ++ [k])).
  Proof.
    intros [A B C] Hk. constructor; cbn [calls queue tr upd_calls]; try assumption.
    rewrite map_app. apply incl_app; [exact A|]. intros x [<-|[]]. exact Hk.
  Qed.

  Lemma cok_poll_slot s i id : cok s -> cok (snd (poll_slot s i id)).
  Proof.
    intro H. unfold poll_slot. destruct (sl_val _); cbn [snd].
    - apply cok_set_phase. eapply cok_T; [apply TFrame_slot_rx_close|exact H].
    - destruct (sl_tx_gone _); cbn [snd]; [|exact H].
      apply cok_set_phase. eapply cok_T; [apply TFrame_slot_rx_close|exact H].
  Qed.

  Lemma cok_push_cancel s id : cok s -> cok (push_cancel s id).
  Proof.
    intro H. unfold push_cancel. destruct (dropped s); [exact H|].
    eapply cok_eq; [..|exact H]; reflexivity.
  Qed.

  Lemma cok_fail_shutdown s i id : cok s -> cok (snd (fail_shutdown s i id)).
  Proof.
    intro H. unfold fail_shutdown. cbn [snd]. apply cok_set_phase, cok_push_cancel.
    eapply cok_T; [apply TFrame_slot_rx_close|]. eapply cok_T; [apply TFrame_slot_tx_drop|exact H].
  Qed.

  Lemma cok_enqueue s i c id tc :
    cok s -> In (ckey c) Hs -> tc_tid tc = tc_tid (c_tc c) -> tc_sampled tc = tc_sampled (c_tc c) ->
    cok (snd (enqueue s i c id tc)).
  Proof.
    intros H Hc E1 E2. unfold enqueue. apply cok_poll_slot, cok_set_phase.
    destruct H as [A B C]. constructor; cbn [calls queue tr upd_q]; try assumption.
    rewrite map_app. apply incl_app; [exact B|]. intros x [<-|[]].
    unfold qkey, ckey in *. cbn [q_deadline q_tc q_body]. unfold Chain.trnum in *. rewrite E1, E2. exact Hc.
  Qed.

  Lemma ckeys_with_id s i c id :
    nth_error (calls s) i = Some c -> map ckey (calls (with_id s i c id)) = map ckey (calls s).
  Proof. intro E. unfold with_id. cbn [calls upd_calls]. eapply map_ckey_set_nth; [exact E|reflexivity]. Qed.

  Lemma cok_call_in s i c : cok s -> nth_error (calls s) i = Some c -> In (ckey c) Hs.
  Proof. intros [A _ _] E. apply A, in_map, (nth_error_In _ _ E). Qed.

  Lemma cok_poll_call s i : cok s -> cok (snd (poll_call s i)).
  Proof.
    intro H. unfold poll_call. destruct (nth_error (calls s) i) as [c|] eqn:E; [|exact H].
    pose proof (cok_call_in s i c H E) as Hc.
    destruct (c_phase c); try exact H.
    - (* PNew *)
      set (s0 := with_id _ i c (next_id s)). set (s1 := set_slot s0 (next_id s) slot0).
      assert (H1 : cok s1).
      { eapply cok_T; [apply TFrame_set_slot|]. unfold s0.
        eapply cok_keys; [apply ckeys_with_id; exact E|reflexivity|reflexivity|].
        eapply cok_eq; [..|exact H]; reflexivity. }
      destruct (rx_closed s1); [apply cok_fail_shutdown, H1|].
      destruct (permits s1) as [|p].
      + cbn [snd]. apply cok_set_phase. eapply cok_eq; [..|exact H1]; reflexivity.
      + apply cok_enqueue; [eapply cok_eq; [..|exact H1]; reflexivity|exact Hc|reflexivity|reflexivity].
    - (* PAssigned *)
      destruct (rx_closed s).
      + apply cok_fail_shutdown. eapply cok_eq; [..|exact H]; reflexivity.
      + apply cok_enqueue; [exact H|exact Hc|reflexivity|reflexivity].
    - apply cok_fail_shutdown, H.
    - apply cok_poll_slot, H.
  Qed.

  Lemma cok_guard_close s i : cok s -> cok (guard_close s i).
  Proof.
    intro H. unfold guard_close. destruct (nth_error (calls s) i) as [c|]; [|exact H].
    destruct (c_phase c); try exact H.
    - apply cok_set_phase, H.
    - apply cok_set_phase. eapply cok_T; [apply TFrame_slot_rx_close|].
      eapply cok_T; [apply TFrame_slot_tx_drop|]. eapply cok_eq; [..|exact H]; reflexivity.
    - eapply cok_T; [apply TFrame_slot_rx_close|]. eapply cok_T; [apply TFrame_slot_tx_drop|].
      pose proof (cok_set_phase s i PClosing H) as H1.
      destruct (rx_closed _); [eapply cok_eq; [..|exact H1]; reflexivity|apply cok_release_permit, H1].
    - apply cok_set_phase. eapply cok_T; [apply TFrame_slot_rx_close|].
      eapply cok_T; [apply TFrame_slot_tx_drop|exact H].
    - apply cok_set_phase. eapply cok_T; [apply TFrame_slot_rx_close|exact H].
  Qed.

  Lemma cok_guard_cancel s i : cok s -> cok (guard_cancel s i).
  Proof.
    intro H. unfold guard_cancel. destruct (nth_error (calls s) i) as [c|]; [|exact H].
    destruct (c_phase c); try exact H. apply cok_set_phase, cok_push_cancel, H.
  Qed.

  (* ---------------------------------------------------------------- the dispatch *)
  Lemma tr_do_ready s r s' : do_ready ctp s = (r, s') -> tr s' = tr s.
  Proof. unfold do_ready. cbn. intros [= <- <-]. reflexivity. Qed.
  Lemma tr_do_flush s r s' : do_flush ctp s = (r, s') -> tr s' = tr s.
  Proof. unfold do_flush. cbn. intros [= <- <-]. reflexivity. Qed.
  Lemma tr_do_close s r s' : do_close ctp s = (r, s') -> tr s' = tr s.
  Proof. unfold do_close. cbn. intros [= <- <-]. reflexivity. Qed.

  Lemma cok_X_same s s' : XFrame s s' -> tr s' = tr s -> cok s -> cok s'.
  Proof. intros F E. apply cok_eq; [apply F|apply F|exact E]. Qed.

  Lemma cok_do_ready s r s' : do_ready ctp s = (r, s') -> cok s -> cok s'.
  Proof. intro E. apply cok_X_same; [eapply XFrame_do_ready, E|eapply tr_do_ready, E]. Qed.
  Lemma cok_do_flush s r s' : do_flush ctp s = (r, s') -> cok s -> cok s'.
  Proof. intro E. apply cok_X_same; [eapply XFrame_do_flush, E|eapply tr_do_flush, E]. Qed.
  Lemma cok_do_close s r s' : do_close ctp s = (r, s') -> cok s -> cok s'.
  Proof. intro E. apply cok_X_same; [eapply XFrame_do_close, E|eapply tr_do_close, E]. Qed.

  Lemma cok_do_next s r s' : do_next ctp s = (r, s') -> cok s -> cok s'.
  Proof.
    intros E [A B C]. pose proof (XFrame_do_next ctp _ _ _ E) as F.
    constructor; [rewrite (xf_calls _ _ F); exact A|rewrite (xf_queue _ _ F); exact B|].
    unfold do_next in E. destruct (fused s); [injection E as <- <-; exact C|].
    cbn in E. destruct (Chain.l_s2c (tr s)); injection E as <- <-; exact C.
  Qed.

  Lemma cok_do_send s m r s' :
    do_send ctp s m = (r, s') -> incl (mkey (Chain.conv_msg m)) Hs -> cok s -> cok s'.
  Proof.
    intros E Hm [A B C]. pose proof (XFrame_do_send ctp _ _ _ _ E) as F.
    constructor; [rewrite (xf_calls _ _ F); exact A|rewrite (xf_queue _ _ F); exact B|].
    unfold do_send in E. cbn in E. destruct (Chain.l_sgone (tr s)); injection E as <- <-; [exact C|].
    unfold link_ok in *. cbn. rewrite flat_map_app. apply incl_app; [exact C|].
    cbn. rewrite app_nil_r. exact Hm.
  Qed.

  Lemma cok_ensure_writeable s r s' : ensure_writeable ctp s = (r, s') -> cok s -> cok s'.
  Proof.
    intros E H. apply ensure_writeable_inv in E.
    destruct E as [r1 s1 E1 _|s1 s2 E1 E2|s1 s2 E1 E2|s1 s2 r3 s3 E1 E2 E3].
    - eapply cok_do_ready; eassumption.
    - eapply cok_do_flush; [eassumption|]. eapply cok_do_ready; eassumption.
    - eapply cok_do_flush; [eassumption|]. eapply cok_do_ready; eassumption.
    - eapply cok_do_ready; [eassumption|]. eapply cok_do_flush; [eassumption|].
      eapply cok_do_ready; eassumption.
  Qed.

  (* the queue only shrinks *)
  Lemma cok_q_poll_recv s r s' :
    q_poll_recv s = (r, s') -> cok s ->
    cok s' /\ match r with RvSome q => In (qkey q) Hs | _ => True end.
  Proof.
    unfold q_poll_recv. destruct (queue s) as [|x rest] eqn:Q.
    - destruct (Nat.eqb _ _); [intros [= <- <-]; auto|].
      destruct (_ && _); intros [= <- <-]; auto.
    - intros [= <- <-] [A B C]. split.
      + apply cok_release_permit. constructor; cbn [calls queue tr upd_q]; try assumption.
        rewrite Q in B. intros y Hy. apply B. right. exact Hy.
      + apply B. rewrite Q. left. reflexivity.
  Qed.

  Lemma cok_next_request_loop f : forall s r s',
    next_request_loop f s = (r, s') -> cok s ->
    cok s' /\ match r with PSome q => In (qkey q) Hs | _ => True end.
  Proof.
    induction f as [|f IH]; intros s r s'; cbn [next_request_loop]; [intros [= <- <-]; auto|].
    destruct (q_poll_recv s) as [x s1] eqn:E. intros H0 H.
    destruct (cok_q_poll_recv _ _ _ E H) as [H1 Hq].
    destruct x as [q| |]; try (injection H0 as <- <-; auto).
    destruct (sl_rx_closed _).
    - eapply IH; [exact H0|]. eapply cok_T; [apply TFrame_slot_tx_drop|exact H1].
    - injection H0 as <- <-. auto.
  Qed.

  Lemma cok_poll_write_request s r s' : poll_write_request ctp s = (r, s') -> cok s -> cok s'.
  Proof.
    intros E H. apply poll_write_request_inv in E.
    destruct E as [_|r1 s1 _ E1 _|r1 s1 s2 _ E1 E2 _|s1 q s2 w s3 _ E1 E2 E3].
    - exact H.
    - eapply cok_ensure_writeable; eassumption.
    - eapply cok_next_request_loop; [eassumption|]. eapply cok_ensure_writeable; eassumption.
    - pose proof (cok_ensure_writeable _ _ _ E1 H) as H1.
      destruct (cok_next_request_loop _ _ _ _ E2 H1) as [H2 Hq].
      assert (H3 : cok s3).
      { eapply cok_do_send; [exact E3| |eapply cok_T; [apply TFrame_insert_request|exact H2]].
        unfold req_msg. cbn. intros x [<-|[]]. exact Hq. }
      destruct w; [exact H3|]. eapply cok_T; [apply TFrame_complete_request|exact H3].
  Qed.

  Lemma cok_next_cancel_loop f s : cok s -> cok (snd (next_cancel_loop f s)).
  Proof.
    intro H. pose proof (CFrame_next_cancel_loop f s) as F.
    eapply cok_eq; [apply F|apply F|apply F|exact H].
  Qed.

  Lemma cok_poll_write_cancel s r s' : poll_write_cancel ctp s = (r, s') -> cok s -> cok s'.
  Proof.
    intros E H. apply poll_write_cancel_inv in E.
    destruct E as [r1 s1 E1 _|r1 s1 s2 E1 E2 _|s1 id e s2 w s3 E1 E2 E3].
    - eapply cok_ensure_writeable; eassumption.
    - pose proof (cok_next_cancel_loop (S (length (cancels s1))) s1) as K. rewrite E2 in K.
      apply K. eapply cok_ensure_writeable; eassumption.
    - pose proof (cok_next_cancel_loop (S (length (cancels s1))) s1) as K. rewrite E2 in K.
      eapply cok_do_send; [exact E3|cbn; intros x []|].
      apply K. eapply cok_ensure_writeable; eassumption.
  Qed.

  Lemma cok_pump_write s r s' : pump_write ctp s = (r, s') -> cok s -> cok s'.
  Proof.
    intros E H. apply pump_write_inv in E.
    assert (PE : forall a e b, poll_expired a = (e, b) -> cok a -> cok b).
    { intros a e b Ee Ha. pose proof (TFrame_poll_expired a) as F. rewrite Ee in F.
      eapply cok_T; eassumption. }
    destruct E as [a s1 E1|u s1 E1|r1 s1 a s2 E1 _ E2|r1 s1 u s2 E1 _ E2
                  |r1 s1 r2 s2 id s3 E1 _ E2 _ E3|s1 s2 s3 c s4 E1 E2 E3 E4
                  |r1 s1 r2 s2 s3 f s4 E1 _ E2 _ _ E3 E4].
    - eapply cok_poll_write_request; eassumption.
    - eapply cok_poll_write_request; eassumption.
    - eapply cok_poll_write_cancel; [eassumption|]. eapply cok_poll_write_request; eassumption.
    - eapply cok_poll_write_cancel; [eassumption|]. eapply cok_poll_write_request; eassumption.
    - eapply PE; [eassumption|]. eapply cok_poll_write_cancel; [eassumption|].
      eapply cok_poll_write_request; eassumption.
    - eapply cok_do_close; [eassumption|]. eapply PE; [eassumption|].
      eapply cok_poll_write_cancel; [eassumption|]. eapply cok_poll_write_request; eassumption.
    - eapply cok_do_flush; [eassumption|]. eapply PE; [eassumption|].
      eapply cok_poll_write_cancel; [eassumption|]. eapply cok_poll_write_request; eassumption.
  Qed.

  Lemma cok_pump_read s r s' : pump_read ctp s = (r, s') -> cok s -> cok s'.
  Proof.
    intros E H. apply pump_read_inv in E. destruct E as (x & s1 & E1 & _ & ->).
    pose proof (cok_do_next _ _ _ E1 H) as H1.
    destruct x; try exact H1. eapply cok_T; [apply TFrame_complete|exact H1].
  Qed.

  Lemma cok_run_loop f : forall s r s', run_loop ctp f s = (r, s') -> cok s -> cok s'.
  Proof.
    induction f as [|f IH]; intros s r s' E H; [cbn in E; injection E as <- <-; exact H|].
    apply run_loop_inv in E.
    destruct E as [a s1 E1|rd s1 a s2 E1 _ E2|s1 wr s2 E1 E2 _|rd s1 s2 E1 _ E2 _
                  |s1 wr s2 E1 E2 _|rd s1 wr s2 r s3 E1 E2 _ E3].
    - eapply cok_pump_read; eassumption.
    - eapply cok_pump_write; [eassumption|]. eapply cok_pump_read; eassumption.
    - eapply cok_pump_write; [eassumption|]. eapply cok_pump_read; eassumption.
    - eapply cok_pump_write; [eassumption|]. eapply cok_pump_read; eassumption.
    - eapply cok_pump_write; [eassumption|]. eapply cok_pump_read; eassumption.
    - eapply IH; [eassumption|]. eapply cok_pump_write; [eassumption|]. eapply cok_pump_read; eassumption.
  Qed.

  Lemma cok_I_sub s s' :
    IFrame s s' -> map ckey (calls s') = map ckey (calls s) -> incl (queue s') (queue s) ->
    cok s -> cok s'.
  Proof.
    intros F E1 E2 [A B C]. constructor; [rewrite E1; exact A| |rewrite (if_tr _ _ F); exact C].
    intros x Hx. apply in_map_iff in Hx. destruct Hx as (q & <- & Hq). apply B, in_map, E2, Hq.
  Qed.

  Lemma cok_drain_loop f a : forall s, cok s -> cok (snd (drain_loop f a s)).
  Proof.
    induction f as [|f IH]; intros s H; cbn [drain_loop]; [exact H|].
    destruct (q_poll_recv s) as [x s1] eqn:E. destruct (cok_q_poll_recv _ _ _ E H) as [H1 _].
    destruct x; cbn [snd]; try exact H1.
    apply IH. eapply cok_T; [apply TFrame_slot_send|exact H1].
  Qed.

  Lemma cok_fold_slot_send {A} (g : A -> N) o (l : list A) s :
    cok s -> cok (fold_left (fun acc p => slot_send acc (g p) o) l s).
  Proof.
    revert s; induction l as [|x r IH]; intros s H; cbn; [exact H|].
    apply IH. eapply cok_T; [apply TFrame_slot_send|exact H].
  Qed.

  Lemma cok_shut_down s a : cok s -> cok (snd (shut_down s a)).
  Proof.
    intro H. unfold shut_down. apply cok_drain_loop. unfold complete_all.
    apply cok_fold_slot_send. eapply cok_T; [apply TFrame_upd_if|]. apply cok_q_close, H.
  Qed.

  Lemma cok_poll_dispatch f s r s' : poll_dispatch ctp f s = (r, s') -> cok s -> cok s'.
  Proof.
    unfold poll_dispatch. intros E H. destruct (terminal s) as [a|].
    - pose proof (cok_shut_down s a H) as K. destruct (shut_down s a) as [b s1].
      destruct b; injection E as <- <-; exact K.
    - destruct (run_loop ctp f s) as [rr s1] eqn:Er. pose proof (cok_run_loop _ _ _ _ Er H) as H1.
      destruct rr; try (injection E as <- <-; exact H1).
      assert (H2 : cok (upd_term s1 (Some a))) by (eapply cok_eq; [..|exact H1]; reflexivity).
      pose proof (cok_shut_down _ a H2) as K. destruct (shut_down _ a) as [b s3].
      destruct b; injection E as <- <-; exact K.
  Qed.

  Lemma cok_drop_dispatch s : cok s -> cok (drop_dispatch s).
  Proof.
    intro H. unfold drop_dispatch.
    set (s1 := q_close s).
    set (s2 := fold_left (fun acc q => slot_tx_drop acc (q_id q)) (queue s1) s1).
    set (s3 := fold_left (fun acc p => slot_tx_drop acc (fst p)) (inflight s2) s2).
    assert (FT : forall {A} (g : A -> N) (l : list A) x, cok x ->
                 cok (fold_left (fun acc p => slot_tx_drop acc (g p)) l x)).
    { intros A g l. induction l as [|y r IH]; intros x Hx; cbn; [exact Hx|].
      apply IH. eapply cok_T; [apply TFrame_slot_tx_drop|exact Hx]. }
    assert (H3 : cok s3) by (apply FT, FT, cok_q_close, H).
    destruct H3 as [A B C]. constructor; cbn; try assumption. intros x [].
  Qed.

  Variable fuel_of : cst -> nat.

  (* every op of the client model; a new call must carry a known context *)
  Lemma cok_step s o s' os :
    step ctp fuel_of s o = (s', os) ->
    (forall h d tid smp body, o = Call h d tid smp body ->
       In (now s + d, Chain.trnum {| tc_tid := tid; tc_sid := 0; tc_sampled := smp |}, body)%N Hs) ->
    (forall g, o <> Tr g) ->
    cok s -> cok s'.
  Proof.
    intros E HC HT H. destruct o; cbn [step] in E.
    - injection E as <- _. destruct (nth_error _ _) as [[|]|]; try exact H.
      eapply cok_eq; [..|exact H]; reflexivity.
    - injection E as <- _. destruct (nth_error _ _) as [[|]|]; try exact H.
      eapply cok_eq; [..|exact H]; reflexivity.
    - injection E as <- _. apply cok_add_call; [exact H|]. unfold ckey. cbn. eapply HC. reflexivity.
    - pose proof (cok_poll_call s i H) as K. destruct (poll_call s i) as [r s1].
      injection E as <- _. exact K.
    - injection E as <- _. destruct (option_map _ _) as [[]|];
        try apply cok_guard_cancel, cok_guard_close, H. exact H.
    - injection E as <- _. destruct (option_map _ _) as [[]|]; try apply cok_guard_close, H. exact H.
    - injection E as <- _. apply cok_guard_cancel, H.
    - destruct (finished s); [injection E as <- _; exact H|].
      destruct (dropped s); [injection E as <- _; exact H|].
      set (s0 := upd_tr s (tr s) (fused s) []) in *.
      assert (H0 : cok s0) by (eapply cok_eq; [..|exact H]; reflexivity).
      destruct (poll_dispatch ctp (fuel_of s0) s0) as [r s1] eqn:Ep.
      pose proof (cok_poll_dispatch _ _ _ _ Ep H0) as H1.
      injection E as <- _.
      eapply cok_eq; [..|exact H1]; destruct r; reflexivity.
    - injection E as <- _. destruct (dropped s); [exact H|apply cok_drop_dispatch, H].
    - injection E as <- _. eapply cok_eq; [..|exact H]; reflexivity.
    - exfalso. eapply HT. reflexivity.
  Qed.
End Ctx.

(* ------------------------------------------------------------------------------------------ *)
(* the clock of a client moves only with Advance *)
Section Now.
  Implicit Types s : cst.

  Lemma now_set_phase s i p : now (set_phase s i p) = now s.
  Proof. unfold set_phase. destruct (nth_error _ _); reflexivity. Qed.
  Lemma now_release_permit s : now (release_permit s) = now s.
  Proof. unfold release_permit. destruct (waiters s); [reflexivity|]. rewrite now_set_phase. reflexivity. Qed.
  Lemma now_T s s' : TFrame s s' -> now s' = now s.
  Proof. intro F. apply (pf_now _ _ (TFrame_P _ _ F)). Qed.
  Lemma now_push_cancel s id : now (push_cancel s id) = now s.
  Proof. unfold push_cancel. destruct (dropped s); reflexivity. Qed.
  Lemma now_poll_slot s i id : now (snd (poll_slot s i id)) = now s.
  Proof.
    unfold poll_slot. destruct (sl_val _); cbn [snd].
    - rewrite now_set_phase. apply now_T, TFrame_slot_rx_close.
    - destruct (sl_tx_gone _); cbn [snd]; [|reflexivity].
      rewrite now_set_phase. apply now_T, TFrame_slot_rx_close.
  Qed.
  Lemma now_fail_shutdown s i id : now (snd (fail_shutdown s i id)) = now s.
  Proof.
    unfold fail_shutdown. cbn [snd]. rewrite now_set_phase, now_push_cancel.
    rewrite (now_T _ _ (TFrame_slot_rx_close _ _)). apply now_T, TFrame_slot_tx_drop.
  Qed.
  Lemma now_enqueue s i c id tc : now (snd (enqueue s i c id tc)) = now s.
  Proof. unfold enqueue. rewrite now_poll_slot, now_set_phase. reflexivity. Qed.
  Lemma now_poll_call s i : now (snd (poll_call s i)) = now s.
  Proof.
    unfold poll_call. destruct (nth_error (calls s) i) as [c|]; [|reflexivity].
    destruct (c_phase c); try reflexivity.
    - set (s1 := set_slot _ _ _). assert (E : now s1 = now s) by reflexivity.
      destruct (rx_closed s1); [rewrite now_fail_shutdown; exact E|].
      destruct (permits s1); [cbn [snd]; rewrite now_set_phase; exact E|].
      rewrite now_enqueue. exact E.
    - destruct (rx_closed s); [rewrite now_fail_shutdown; reflexivity|apply now_enqueue].
    - apply now_fail_shutdown.
    - apply now_poll_slot.
  Qed.
  Lemma now_guard_close s i : now (guard_close s i) = now s.
  Proof.
    unfold guard_close. destruct (nth_error (calls s) i) as [c|]; [|reflexivity].
    destruct (c_phase c); try reflexivity; rewrite ?now_set_phase;
      rewrite ?(now_T _ _ (TFrame_slot_rx_close _ _)), ?(now_T _ _ (TFrame_slot_tx_drop _ _)); try reflexivity.
    destruct (rx_closed _); [cbn; apply now_set_phase|rewrite now_release_permit; apply now_set_phase].
  Qed.
  Lemma now_guard_cancel s i : now (guard_cancel s i) = now s.
  Proof.
    unfold guard_cancel. destruct (nth_error (calls s) i) as [c|]; [|reflexivity].
    destruct (c_phase c); try reflexivity. rewrite now_set_phase. apply now_push_cancel.
  Qed.
  Lemma now_poll_dispatch f s r s' : poll_dispatch ctp f s = (r, s') -> now s' = now s.
  Proof.
    unfold poll_dispatch. destruct (terminal s) as [a|].
    - pose proof (PFrame_shut_down s a) as F. destruct (shut_down s a) as [b s1].
      specialize (F _ _ eq_refl). destruct b; intros [= <- <-]; apply F.
    - destruct (run_loop ctp f s) as [rr s1] eqn:Er. pose proof (PFrame_run_loop _ _ _ _ _ Er) as F1.
      destruct rr; try (intros [= <- <-]; apply F1).
      pose proof (PFrame_shut_down (upd_term s1 (Some a)) a) as F. destruct (shut_down _ a) as [b s3].
      specialize (F _ _ eq_refl). destruct b; intros [= <- <-]; rewrite (pf_now _ _ F); apply F1.
  Qed.
  Lemma now_drop_dispatch s : now (drop_dispatch s) = now s.
  Proof.
    unfold drop_dispatch. cbn.
    assert (FT : forall {A} (g : A -> N) (l : list A) (x : cst),
                 now (fold_left (fun acc p => slot_tx_drop acc (g p)) l x) = now x).
    { intros A g l. induction l as [|y r IH]; intro x; cbn; [reflexivity|]. rewrite IH. reflexivity. }
    rewrite !FT. apply (pf_now _ _ (IFrame_P _ _ (IFrame_q_close s))).
  Qed.

  Variable fuel_of : cst -> nat.
  Lemma now_step s o s' os :
    step ctp fuel_of s o = (s', os) ->
    now s' = match o with Advance dt => (now s + dt)%N | _ => now s end.
  Proof.
    destruct o; cbn [step].
    - intros [= <- _]. destruct (nth_error _ _) as [[|]|]; reflexivity.
    - intros [= <- _]. destruct (nth_error _ _) as [[|]|]; reflexivity.
    - intros [= <- _]. reflexivity.
    - pose proof (now_poll_call s i) as E. destruct (poll_call s i). intros [= <- _]. exact E.
    - intros [= <- _]. destruct (option_map _ _) as [[]|]; rewrite ?now_guard_cancel, ?now_guard_close; reflexivity.
    - intros [= <- _]. destruct (option_map _ _) as [[]|]; rewrite ?now_guard_close; reflexivity.
    - intros [= <- _]. apply now_guard_cancel.
    - destruct (finished s); [intros [= <- _]; reflexivity|].
      destruct (dropped s); [intros [= <- _]; reflexivity|].
      destruct (poll_dispatch ctp _ _) as [r s1] eqn:Ep. apply now_poll_dispatch in Ep.
      intros [= <- _]. destruct r; cbn; exact Ep.
    - intros [= <- _]. destruct (dropped s); [reflexivity|apply now_drop_dispatch].
    - intros [= <- _]. reflexivity.
    - intros [= <- _]. reflexivity.
  Qed.
End Now.
