(* Chain proofs, cascade, server side: the two facts about one node's server that the chain
   induction uses (statements only; proved in ChainProofsSrv.v). *)
From Coq Require Import List Bool Arith NArith.
Import ListNotations.
From TarpcV Require Import Base Transport TimerWheel Chain ChainInv.
From TarpcV Require Client Server.

Definition sctl : link -> unit -> link := fun t _ => t.
Definition stfuel : link -> nat := fun t => length (l_c2s t).

(* an incarnation keeps its id and abort handle; the only change another party can make to it
   is to hand the permit of the response queue to its queued send *)
Definition hrel (hr hr' : Server.hrec) : Prop :=
  Server.h_id hr' = Server.h_id hr /\ Server.h_h hr' = Server.h_h hr /\
  (Server.h_st hr' = Server.h_st hr \/
   exists b, Server.h_st hr = Server.HWait b /\ Server.h_st hr' = Server.HPermit b).

(* one poll of the request stream *)
Definition stmt_srv_poll : Prop :=
  forall T (c : cstate) (s s' : sstate) obs,
    cross T [] c (Server.s_t s) s -> srv_inv s -> Server.s_now s = T ->
    Server.step stp sctl stfuel scfg s Server.OPoll = (s', obs) ->
    exists log X, obs = Server.OCalls log :: X :: Server.gauges s' /\
      match X with
      | Server.OYield k id dl tr body =>
        k = length (Server.s_handlers s) /\ (dl <= T + MAXT)%N /\
        exists hs1 h, Forall2 hrel (Server.s_handlers s) hs1 /\
          Server.s_handlers s' = hs1 ++ [{| Server.h_h := h; Server.h_id := id; Server.h_st := Server.HYielded |}] /\
          cross T [] c (Server.s_t s') s' /\ srv_inv s' /\ Server.s_now s' = T
      | Server.OPending =>
        Forall2 hrel (Server.s_handlers s) (Server.s_handlers s') /\
        cross T [] c (Server.s_t s') s' /\ srv_inv s' /\ Server.s_now s' = T /\
        l_c2s (Server.s_t s') = [] /\ Server.s_respq s' = [] /\
        (forall id w, In (id, w) (Server.s_timers s') -> (T < w)%N)
      | Server.OStreamEnd | Server.OStreamErr _ | Server.OFuel => True
      | _ => False
      end.

(* one poll of an execute() future *)
Definition stmt_srv_exec : Prop :=
  forall T (c : cstate) (s : sstate) k st s' obs,
    cross T [] c (Server.s_t s) s -> srv_inv s ->
    Server.execute_poll k st s = (s', obs) ->
    cross T [] c (Server.s_t s') s' /\ srv_inv s' /\ Server.s_t s' = Server.s_t s /\
    Server.s_now s' = Server.s_now s /\ Server.s_inflight s' = Server.s_inflight s /\
    Server.s_timers s' = Server.s_timers s /\
    length (Server.s_handlers s') = length (Server.s_handlers s) /\
    (forall j hr, j <> k -> nth_error (Server.s_handlers s) j = Some hr ->
       exists hr', nth_error (Server.s_handlers s') j = Some hr' /\ hrel hr hr') /\
    match nth_error (Server.s_handlers s) k with
    | None => s' = s /\ obs = []
    | Some hr =>
      exists hr', nth_error (Server.s_handlers s') k = Some hr' /\
        Server.h_id hr' = Server.h_id hr /\ Server.h_h hr' = Server.h_h hr /\
        match Server.h_st hr with
        | Server.HDone | Server.HGone => s' = s /\ obs = []
        | Server.HYielded | Server.HRunning =>
          if existsb (Nat.eqb (Server.h_h hr)) (Server.s_aborted s) then
            Server.h_st hr' = Server.HDone /\
            obs = (match Server.h_st hr with Server.HRunning => [Server.OHDropped k] | _ => [] end)
                  ++ [Server.OExecReady k]
          else
            match st with
            | Server.SRun => Server.h_st hr' = Server.HRunning /\ obs = [Server.OHPolled k; Server.OExecPending k]
            | Server.SFinish v =>
              (Server.h_st hr' = Server.HDone \/ Server.h_st hr' = Server.HWait (Server.BOk v)) /\
              exists tl, obs = Server.OHPolled k :: Server.OHDone k (Server.BOk v) :: tl
            | Server.SFail =>
              (Server.h_st hr' = Server.HDone \/ Server.h_st hr' = Server.HWait Server.BErr) /\
              exists tl, obs = Server.OHPolled k :: Server.OHDone k Server.BErr :: tl
            end
        | Server.HWait _ | Server.HPermit _ =>
          (Server.h_st hr' = Server.HDone /\ obs = [Server.OExecReady k]) \/
          (Server.h_st hr' = Server.h_st hr /\ obs = [Server.OExecPending k])
        end
    end.
