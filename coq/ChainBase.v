(* Chain proofs: structural lemmas about the chain (node lookup / update, the shape of every
   component poll) and about the monitor fold. *)
From Coq Require Import List Bool Arith NArith Lia.
Import ListNotations.
From TarpcV Require Import Base Transport TimerWheel Chain.
From TarpcV Require Client Server.

Lemma length_set_node i nd ch : length (set_node i nd ch) = length ch.
Proof. revert i; induction ch as [|x r IH]; intros [|i]; cbn; try reflexivity. f_equal. apply IH. Qed.

Lemma nth_set_node_same i nd ch : i < length ch -> nth_error (set_node i nd ch) i = Some nd.
Proof. revert i; induction ch as [|x r IH]; intros [|i] H; cbn in *; try lia; [reflexivity|apply IH; lia]. Qed.

Lemma nth_set_node_other i j nd ch : i <> j -> nth_error (set_node i nd ch) j = nth_error ch j.
Proof.
  revert i j; induction ch as [|x r IH]; intros [|i] [|j] H; cbn; try reflexivity; try congruence.
  apply IH. congruence.
Qed.

Lemma nth_error_lt {A} (l : list A) i x : nth_error l i = Some x -> i < length l.
Proof. intro H. apply nth_error_Some. congruence. Qed.

Lemma Forall_set_node (P : node -> Prop) i nd ch : Forall P ch -> P nd -> Forall P (set_node i nd ch).
Proof.
  revert i; induction ch as [|x r IH]; intros [|i] H Hn; cbn; try exact H.
  - inversion H; subst. constructor; assumption.
  - inversion H; subst. constructor; [assumption|apply IH; assumption].
Qed.

Lemma Forall_nth {A} (P : A -> Prop) l i x : Forall P l -> nth_error l i = Some x -> P x.
Proof. intros H E. rewrite Forall_forall in H. apply H. eapply nth_error_In, E. Qed.

Global Arguments set_node : simpl never.

(* (a, b) = (c, d) without any simplification of the components *)
Ltac pinj H :=
  apply pair_equal_spec in H; let a := fresh "Ea" in let b := fresh "Eb" in destruct H as [a b];
  try (match type of a with ?x = ?y => first [subst y | subst x] end);
  try (match type of b with ?x = ?y => first [subst y | subst x] end).

(* ------------------------------------------------------------------------------------------ *)
(* the monitor fold: what observations can change *)
Definition hkey (h : hcall) : N * N * N := (hc_dl h, hc_tr h, hc_body h).

Lemma hkeys_set_over j l : map hkey (set_over j l) = map hkey l.
Proof.
  unfold set_over. destruct (nth_error l j) as [h|] eqn:E; [|reflexivity].
  revert j E; induction l as [|x r IH]; intros [|j] E; cbn in *; try discriminate.
  - injection E as ->. reflexivity.
  - f_equal. apply IH, E.
Qed.

Lemma mon_wire_calls i m w : mo_calls (mon_wire i m w) = mo_calls m.
Proof. destruct w; reflexivity. Qed.
Lemma mon_wire_now i m w : mo_now (mon_wire i m w) = mo_now m.
Proof. destruct w; reflexivity. Qed.
Lemma mon_wire_c18 i m w : mo_c18 (mon_wire i m w) = mo_c18 m.
Proof. destruct w; reflexivity. Qed.
Lemma mon_wire_c07 i m w : mo_c07 (mon_wire i m w) = mo_c07 m.
Proof. destruct w; reflexivity. Qed.
Lemma mon_wire_c04 i m w : mo_c04 (mon_wire i m w) = mo_c04 m.
Proof. destruct w; reflexivity. Qed.
Lemma mon_wire_tainted i m w : mo_tainted (mon_wire i m w) = mo_tainted m.
Proof. destruct w; reflexivity. Qed.
Lemma mon_wire_started i m w : mo_started (mon_wire i m w) = mo_started m.
Proof. destruct w; reflexivity. Qed.
Lemma mon_wire_ended i m w : mo_ended (mon_wire i m w) = mo_ended m.
Proof. destruct w; reflexivity. Qed.

Lemma fold_mon_wire_inv {A} (f : mon -> A) i :
  (forall m w, f (mon_wire i m w) = f m) -> forall l m, f (fold_left (mon_wire i) l m) = f m.
Proof. intros H l. induction l as [|w r IH]; intro m; cbn; [reflexivity|]. rewrite IH. apply H. Qed.

Lemma mon_obs_hkeys m e : map hkey (mo_calls (mon_obs m e)) = map hkey (mo_calls m).
Proof.
  destruct e as [j r|i l|i r|i a b|i k id dl tr body|i r|i k|i k|i k b|i k|i k|i k|i a b|i| |];
    cbn [mon_obs]; try reflexivity.
  - destruct r; cbn; try reflexivity. apply hkeys_set_over.
  - rewrite (fold_mon_wire_inv mo_calls i (mon_wire_calls i)). reflexivity.
  - destruct r as [d| |]; reflexivity.
  - destruct r; reflexivity.
Qed.

Lemma mon_obs_now m e : mo_now (mon_obs m e) = mo_now m.
Proof.
  destruct e as [j r|i l|i r|i a b|i k id dl tr body|i r|i k|i k|i k b|i k|i k|i k|i a b|i| |];
    cbn [mon_obs]; try reflexivity.
  - destruct r; reflexivity.
  - apply (fold_mon_wire_inv mo_now i (mon_wire_now i)).
  - destruct r as [d| |]; reflexivity.
  - destruct r; reflexivity.
Qed.

Lemma fold_mon_obs_hkeys l : forall m, map hkey (mo_calls (fold_left mon_obs l m)) = map hkey (mo_calls m).
Proof. induction l as [|e r IH]; intro m; cbn; [reflexivity|]. rewrite IH. apply mon_obs_hkeys. Qed.
Lemma fold_mon_obs_now l : forall m, mo_now (fold_left mon_obs l m) = mo_now m.
Proof. induction l as [|e r IH]; intro m; cbn; [reflexivity|]. rewrite IH. apply mon_obs_now. Qed.

(* the yields of an observation list carry known contexts *)
Definition yields_ok (Hs : list (N * N * N)) (l : list cobs) : Prop :=
  forall i k id dl tr b, In (KYield i k id dl tr b) l -> In (dl, tr, b) Hs.

Lemma yields_ok_app Hs l1 l2 : yields_ok Hs l1 -> yields_ok Hs l2 -> yields_ok Hs (l1 ++ l2).
Proof. intros A B i k id dl tr b H. apply in_app_or in H. destruct H; [eapply A|eapply B]; eassumption. Qed.
Lemma yields_ok_nil Hs : yields_ok Hs [].
Proof. intros i k id dl tr b []. Qed.
Lemma yields_ok_filter Hs f l : yields_ok Hs l -> yields_ok Hs (filter f l).
Proof. intros A i k id dl tr b H. apply filter_In in H. eapply A, H. Qed.
Lemma yields_ok_incl Hs Hs' l : incl Hs Hs' -> yields_ok Hs l -> yields_ok Hs' l.
Proof. intros I A i k id dl tr b H. eapply I, A, H. Qed.

Lemma existsb_hkey_tr l dl tr b :
  In (dl, tr, b) (map hkey l) -> existsb (fun h => N.eqb (hc_body h) b && N.eqb (hc_tr h) tr) l = true.
Proof.
  intro H. apply in_map_iff in H. destruct H as (h & E & Hin). apply existsb_exists. exists h.
  split; [exact Hin|]. unfold hkey in E. injection E as _ -> ->. rewrite !N.eqb_refl. reflexivity.
Qed.
Lemma existsb_hkey_dl l dl tr b :
  In (dl, tr, b) (map hkey l) -> existsb (fun h => N.eqb (hc_body h) b && N.eqb (hc_dl h) dl) l = true.
Proof.
  intro H. apply in_map_iff in H. destruct H as (h & E & Hin). apply existsb_exists. exists h.
  split; [exact Hin|]. unfold hkey in E. injection E as -> _ ->. rewrite !N.eqb_refl. reflexivity.
Qed.

Lemma mon_obs_c18_c07 m e :
  yields_ok (map hkey (mo_calls m)) [e] -> mo_c18 m = true -> mo_c07 m = true ->
  mo_c18 (mon_obs m e) = true /\ mo_c07 (mon_obs m e) = true.
Proof.
  intros Y A B.
  destruct e as [j r|i l|i r|i a b|i k id dl tr body|i r|i k|i k|i k b|i k|i k|i k|i a b|i| |];
    cbn [mon_obs]; auto.
  - destruct r; cbn; auto.
  - rewrite (fold_mon_wire_inv mo_c18 i (mon_wire_c18 i)), (fold_mon_wire_inv mo_c07 i (mon_wire_c07 i)). auto.
  - destruct r as [d| |]; cbn; auto.
  - specialize (Y i k id dl tr body (or_introl eq_refl)). cbn.
    rewrite A, B, (existsb_hkey_tr _ _ _ _ Y), (existsb_hkey_dl _ _ _ _ Y). auto.
  - destruct r; cbn; auto.
Qed.

Lemma fold_mon_obs_c18_c07 l : forall m,
  yields_ok (map hkey (mo_calls m)) l -> mo_c18 m = true -> mo_c07 m = true ->
  mo_c18 (fold_left mon_obs l m) = true /\ mo_c07 (fold_left mon_obs l m) = true.
Proof.
  induction l as [|e r IH]; intros m Y A B; cbn; [auto|].
  destruct (mon_obs_c18_c07 m e) as [A1 B1]; try assumption.
  { intros i k id dl tr b [E|[]]. eapply Y. left. exact E. }
  apply IH; try assumption. rewrite mon_obs_hkeys.
  intros i k id dl tr b H. eapply Y. right. exact H.
Qed.
