(* C04, cascade clause.
   (1) The monitor used on REAL chains of depth 1..3 (harness/src/srv.rs `run_chain`: client::new +
       BaseChannel::requests() per node, each handler making a nested call with its context on the
       next node, wake-driven execution, virtual time).  No model is compared for chains (the
       client model is not part of this file); the monitor alone decides.
   (2) The abstract composition over which the cascade theorem is stated (ServerChainProofs). *)
From Coq Require Import List Bool Arith NArith.
Import ListNotations.

Inductive cop :=
| KCall | KHead | KAbandon | KWake | KLeaf
| KDispatch (i : nat) | KServer (i : nat) | KHandlers (i : nat) | KAdvance (dt : N).

Inductive cev :=
| CStart (i : nat)        (* the handler of node i was polled for the first time *)
| CDone (i : nat)         (* it completed *)
| CDrop (i : nat)         (* it was dropped before completing (aborted, or its owner was) *)
| CHeadOk | CHeadErr      (* the head call resolved *)
| CGauges (l : list nat). (* in-flight count of every server, after the op *)

(* monitor state: per node (1-based, index i-1) started / ended; whether the head call was
   abandoned (or resolved) and no new call issued since *)
Record chst := { ch_started : list nat; ch_ended : list nat; ch_over : bool; ch_bad : bool }.
Definition ch0 := {| ch_started := []; ch_ended := []; ch_over := false; ch_bad := false |}.

Definition mem (i : nat) (l : list nat) : bool := existsb (Nat.eqb i) l.

Definition ch_event (s : chst) (e : cev) : chst :=
  match e with
  | CStart i =>
    (* a handler starts only once, and never after the head call is over and the chain quiescent *)
    {| ch_started := i :: ch_started s; ch_ended := ch_ended s; ch_over := ch_over s;
       ch_bad := ch_bad s || mem i (ch_started s) |}
  | CDone i | CDrop i =>
    {| ch_started := ch_started s; ch_ended := i :: ch_ended s; ch_over := ch_over s;
       ch_bad := ch_bad s || negb (mem i (ch_started s)) || mem i (ch_ended s) |}
  | CHeadOk | CHeadErr =>
    {| ch_started := ch_started s; ch_ended := ch_ended s; ch_over := true; ch_bad := ch_bad s |}
  | CGauges _ => s
  end.

Definition gauges_zero (l : list cev) : bool :=
  forallb (fun e => match e with CGauges g => forallb (Nat.eqb 0) g | _ => true end) l.

(* after the head call was abandoned (or resolved) and the chain ran to quiescence with ready
   transports: every handler that started has ended, and nothing is in flight anywhere *)
Definition ch_quiescent_ok (s : chst) (l : list cev) : bool :=
  forallb (fun i => mem i (ch_ended s)) (ch_started s) && gauges_zero l.

Fixpoint ch_run (s : chst) (ops : list cop) (tr : list (list cev)) : bool :=
  match ops, tr with
  | [], [] => negb (ch_bad s)
  | o :: ops', l :: tr' =>
    let s1 := fold_left ch_event l s in
    let s2 := match o with
              | KAbandon => {| ch_started := ch_started s1; ch_ended := ch_ended s1; ch_over := true;
                               ch_bad := ch_bad s1 |}
              | KCall => {| ch_started := ch_started s1; ch_ended := ch_ended s1; ch_over := false;
                            ch_bad := ch_bad s1 |}
              | _ => s1 end in
    match o with
    | KWake => (negb (ch_over s2) || ch_quiescent_ok s2 l) && ch_run s2 ops' tr'
    | _ => ch_run s2 ops' tr'
    end
  | _, _ => false
  end.

Definition c04_chain_ok (depth : nat) (ops : list cop) (tr : list (list cev)) : bool :=
  ch_run ch0 ops tr.

(* ------------------------------------------------------------------------------------------ *)
(* The abstract composition: what is known about the final, quiescent state of an n-node chain
   after the head call was abandoned.  Node i (1..n) has a handler; handler i (i < n) owns the
   call into node i+1. *)
Inductive hfinal := HNotStarted | HFinished | HDroppedF | HUnfinished.
