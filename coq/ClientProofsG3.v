(* Client proofs, group G3: C09 (transport failures are contained and reported), C10 (orderly
   shutdown), C03 (cancellations on the wire).  Statements: ClientSpec.v. *)
From Coq Require Import List Bool Arith NArith Lia ZifyBool ZifyNat ZifyN.
Import ListNotations.
From TarpcV Require Import Base Transport Client ClientS ClientMon ClientSpec ClientLemmas
  ClientProofsG1Frames.
Local Open Scope N_scope.

Arguments N.modulo : simpl never.
Arguments N.add : simpl never.
Arguments N.min : simpl never.
Arguments N.sub : simpl never.

(* ================================================================== small general facts *)
Lemma Forall_app_iff {A} (P : A -> Prop) l1 l2 : Forall P (l1 ++ l2) <-> Forall P l1 /\ Forall P l2.
Proof. apply Forall_app. Qed.

Section G3.
  Context {T : Type}.
  Variable tp : transport T cmsg resp.
  Notation cstate := (@cstate T).
  Notation op := (@op T).
  Implicit Types s : cstate.

  (* ---------------------------------------------------------------- views of the call table *)
  Definition ph s (i : nat) : option phase := option_map c_phase (nth_error (calls s) i).
  Definition idc s (i : nat) : N := match nth_error (calls s) i with Some c => c_id c | None => 0 end.

  Lemma ph_calls_eq s s' : calls s' = calls s -> forall i, ph s' i = ph s i.
  Proof. intros H i. unfold ph. rewrite H. reflexivity. Qed.
  Lemma idc_calls_eq s s' : calls s' = calls s -> forall i, idc s' i = idc s i.
  Proof. intros H i. unfold idc. rewrite H. reflexivity. Qed.

  Lemma calls_set_phase s i p :
    calls (set_phase s i p) =
    match nth_error (calls s) i with
    | Some c => set_nth i {| c_handle := c_handle c; c_phase := p; c_id := c_id c; c_rel := c_rel c;
                             c_deadline := c_deadline c; c_tc := c_tc c; c_body := c_body c |} (calls s)
    | None => calls s end.
  Proof. unfold set_phase. destruct (nth_error (calls s) i); reflexivity. Qed.

  Lemma ph_set_phase s i p j :
    ph (set_phase s i p) j =
    if Nat.eqb j i then match ph s i with Some _ => Some p | None => None end else ph s j.
  Proof.
    unfold ph. rewrite calls_set_phase.
    destruct (nth_error (calls s) i) as [c|] eqn:E; cbn [option_map].
    - destruct (Nat.eqb j i) eqn:Eji.
      + apply Nat.eqb_eq in Eji; subst j.
        rewrite nth_error_set_nth_same; [reflexivity|]. apply nth_error_Some. congruence.
      + apply Nat.eqb_neq in Eji. rewrite nth_error_set_nth_other by congruence. reflexivity.
    - destruct (Nat.eqb j i) eqn:Eji; [|reflexivity].
      apply Nat.eqb_eq in Eji; subst j. rewrite E. reflexivity.
  Qed.

  Lemma idc_set_phase s i p j : idc (set_phase s i p) j = idc s j.
  Proof.
    unfold idc. rewrite calls_set_phase.
    destruct (nth_error (calls s) i) as [c|] eqn:E; [|reflexivity].
    destruct (Nat.eq_dec i j) as [->|Hn].
    - rewrite nth_error_set_nth_same; [rewrite E; reflexivity|]. apply nth_error_Some. congruence.
    - rewrite nth_error_set_nth_other by congruence. reflexivity.
  Qed.

  Lemma length_calls_set_phase s i p : length (calls (set_phase s i p)) = length (calls s).
  Proof. rewrite calls_set_phase. destruct (nth_error _ _); [apply set_nth_length|reflexivity]. Qed.

  Lemma ph_Some_lt s i p : ph s i = Some p -> (i < length (calls s))%nat.
  Proof. unfold ph. intro H. apply nth_error_Some. destruct (nth_error (calls s) i); [congruence|discriminate]. Qed.

  (* set_phase leaves everything but calls alone *)
  Record CFrame s s' : Prop := {
    cf_i : IFrame s s';
    cf_queue : queue s' = queue s;
    cf_cancels : cancels s' = cancels s;
    cf_permits : permits s' = permits s;
    cf_waiters : waiters s' = waiters s;
    cf_rxc : rx_closed s' = rx_closed s;
    cf_inflight : inflight s' = inflight s;
    cf_timers : timers s' = timers s;
    cf_slots : slots s' = slots s }.
  Lemma CFrame_set_phase s i p : CFrame s (set_phase s i p).
  Proof.
    unfold set_phase. destruct (nth_error _ _); repeat (constructor; try reflexivity).
  Qed.

  (* ---------------------------------------------------------------- slots *)
  Definition slot_done (x : slot) : Prop := sl_val x <> None \/ sl_tx_gone x = true.

  Lemma get_slot_slots_eq s s' : slots s' = slots s -> forall id, get_slot s' id = get_slot s id.
  Proof. intros H id. unfold get_slot. rewrite H. reflexivity. Qed.

  Lemma get_slot_set_slot s id x id' :
    get_slot (set_slot s id x) id' = if N.eqb id' id then x else get_slot s id'.
  Proof.
    unfold get_slot, set_slot. cbn [slots upd_slots]. rewrite alookup_aset.
    destruct (N.eqb id' id); reflexivity.
  Qed.

  Lemma get_slot_slot_send s id o id' :
    get_slot (slot_send s id o) id' =
    if N.eqb id' id then
      (if sl_rx_closed (get_slot s id)
       then {| sl_rx_closed := true; sl_val := sl_val (get_slot s id); sl_tx_gone := true |}
       else {| sl_rx_closed := false; sl_val := Some o; sl_tx_gone := true |})
    else get_slot s id'.
  Proof.
    unfold slot_send. destruct (sl_rx_closed (get_slot s id)); rewrite get_slot_set_slot;
      destruct (N.eqb id' id); reflexivity.
  Qed.
  Lemma get_slot_slot_tx_drop s id id' :
    get_slot (slot_tx_drop s id) id' =
    if N.eqb id' id then
      {| sl_rx_closed := sl_rx_closed (get_slot s id); sl_val := sl_val (get_slot s id); sl_tx_gone := true |}
    else get_slot s id'.
  Proof. unfold slot_tx_drop. apply get_slot_set_slot. Qed.
  Lemma get_slot_slot_rx_close s id id' :
    get_slot (slot_rx_close s id) id' =
    if N.eqb id' id then
      {| sl_rx_closed := true; sl_val := sl_val (get_slot s id); sl_tx_gone := sl_tx_gone (get_slot s id) |}
    else get_slot s id'.
  Proof. unfold slot_rx_close. apply get_slot_set_slot. Qed.

  (* monotonicity of "the receiver will not wait": only a fresh slot undoes it *)
  Lemma slot_done_slot_send s id o id' :
    slot_done (get_slot s id') -> slot_done (get_slot (slot_send s id o) id').
  Proof.
    rewrite get_slot_slot_send. destruct (N.eqb id' id) eqn:E; [|tauto].
    intros _. destruct (sl_rx_closed _); right; reflexivity.
  Qed.
  Lemma slot_done_slot_send_same s id o : slot_done (get_slot (slot_send s id o) id).
  Proof.
    rewrite get_slot_slot_send, N.eqb_refl. destruct (sl_rx_closed _); right; reflexivity.
  Qed.
  Lemma slot_done_slot_tx_drop s id id' :
    slot_done (get_slot s id') -> slot_done (get_slot (slot_tx_drop s id) id').
  Proof.
    rewrite get_slot_slot_tx_drop. destruct (N.eqb id' id) eqn:E; [|tauto].
    intros _. right; reflexivity.
  Qed.
  Lemma slot_done_slot_tx_drop_same s id : slot_done (get_slot (slot_tx_drop s id) id).
  Proof. rewrite get_slot_slot_tx_drop, N.eqb_refl. right; reflexivity. Qed.
  Lemma slot_done_slot_rx_close s id id' :
    slot_done (get_slot s id') -> slot_done (get_slot (slot_rx_close s id) id').
  Proof.
    rewrite get_slot_slot_rx_close. destruct (N.eqb id' id) eqn:E; [|tauto].
    apply N.eqb_eq in E; subst. unfold slot_done; cbn [sl_val sl_tx_gone]. tauto.
  Qed.

  (* where a stored value comes from *)
  Lemma val_slot_send s id o id' o' :
    sl_val (get_slot (slot_send s id o) id') = Some o' ->
    (id' = id /\ o' = o) \/ sl_val (get_slot s id') = Some o'.
  Proof.
    rewrite get_slot_slot_send. destruct (N.eqb id' id) eqn:E; [|tauto].
    apply N.eqb_eq in E; subst. destruct (sl_rx_closed _); cbn [sl_val]; [tauto|].
    intros [= <-]. left; split; reflexivity.
  Qed.
  Lemma val_slot_tx_drop s id id' o' :
    sl_val (get_slot (slot_tx_drop s id) id') = Some o' -> sl_val (get_slot s id') = Some o'.
  Proof.
    rewrite get_slot_slot_tx_drop. destruct (N.eqb id' id) eqn:E; [|tauto].
    apply N.eqb_eq in E; subst. cbn [sl_val]. tauto.
  Qed.
  Lemma val_slot_rx_close s id id' o' :
    sl_val (get_slot (slot_rx_close s id) id') = Some o' -> sl_val (get_slot s id') = Some o'.
  Proof.
    rewrite get_slot_slot_rx_close. destruct (N.eqb id' id) eqn:E; [|tauto].
    apply N.eqb_eq in E; subst. cbn [sl_val]. tauto.
  Qed.

End G3.
