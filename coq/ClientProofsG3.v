(* Client proofs, group G3: facade.  C09 (transport failures are contained and reported),
   C10 (orderly shutdown), C03 (cancellations on the wire).  Statements: ClientSpec.v.
   Parts: G3a micro-steps of a dispatch poll; G3b the model invariant; G3c C09;
   G3d the observer/model relation behind C10 and C03, and C10; G3e C03. *)
From TarpcV Require Import Base Transport Client ClientS ClientMon ClientSpec.
From TarpcV Require Export ClientProofsG3a ClientProofsG3b ClientProofsG3c ClientProofsG3d
  ClientProofsG3e.

(* C09 is proved in ClientProofsG3c.v *)
Check (@c09_contained_and_reported : forall T : Type, @stmt_c09 T).
Print Assumptions c09_contained_and_reported.

(* C10 is proved in ClientProofsG3d.v *)
Check (@c10_orderly_shutdown : forall T : Type, @stmt_c10 T).
Print Assumptions c10_orderly_shutdown.

(* C03 is proved in ClientProofsG3e.v *)
Check (@c03_cancel_on_wire : forall T : Type, @stmt_c03 T).
Print Assumptions c03_cancel_on_wire.
