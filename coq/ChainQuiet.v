(* Chain proofs, cascade: SettleAll.  (1) every component poll keeps the chain invariant unless
   the run is tainted; (2) a round without events, from a state in which every head call is
   over, leaves every node quiet: no live incarnation, nothing tracked. *)
From Coq Require Import List Bool Arith NArith Lia.
Import ListNotations.
From TarpcV Require Import Base Transport TimerWheel Chain ChainSpec ChainBase ChainInv ChainCross
     ChainSrvSpec ChainGood ChainProofsSrv ChainProofsBound.
From TarpcV Require Client Server ClientProofsG1Rec ChainCasc1u.

Definition small (m : mon) : Prop := (N.of_nat (length (mo_calls m)) + 1 < two64)%N.
Definition GU (m : mon) (ch : chain) : Prop := mo_tainted m = true \/ good m ch.

Lemma mon_obs_calls_len m e : length (mo_calls (mon_obs m e)) = length (mo_calls m).
Proof.
  destruct e as [j r|i l|i r|i a b|i k id dl tr body|i r|i k|i k|i k b|i k|i k|i k|i a b|i| |];
    cbn [mon_obs mo_calls]; try reflexivity.
  - destruct r; try reflexivity. apply length_set_over.
  - rewrite (fold_mon_wire_inv mo_calls i (mon_wire_calls i)). reflexivity.
  - destruct r as [d| |]; reflexivity.
  - destruct r; reflexivity.
Qed.
Lemma fold_calls_len l : forall m, length (mo_calls (fold_left mon_obs l m)) = length (mo_calls m).
Proof. induction l as [|e r IH]; intro m; cbn; [reflexivity|]. rewrite IH. apply mon_obs_calls_len. Qed.
Lemma small_fold l m : small m -> small (fold_left mon_obs l m).
Proof. unfold small. rewrite fold_calls_len. auto. Qed.

Lemma good_nowrap m ch i : good m ch -> small m -> nowrap_at ch i.
Proof.
  intros G S nd Hn. pose proof (next_id_le_calls m ch G i nd Hn). unfold small in S. lia.
Qed.

(* ------------------------------------------------------------------------------------------ *)
(* (1) the component polls, "good unless tainted" *)
Lemma gu_taint l m ch : mo_tainted m = true -> GU (fold_left mon_obs l m) ch.
Proof. intro H. left. apply fold_taint_mono, H. Qed.

Lemma gu_poll_head m ch j ch' l :
  GU m ch -> small m -> poll_head j ch = (ch', l) -> GU (fold_left mon_obs l m) ch'.
Proof.
  intros [T|G] S E; [apply gu_taint, T|]. right.
  apply (gd_poll_head m ch j ch' l G (good_nowrap _ _ 0 G S) E).
Qed.

Lemma gu_poll_dispatch m ch i ch' l :
  GU m ch -> Chain.poll_dispatch i ch = (ch', l) -> GU (fold_left mon_obs l m) ch'.
Proof.
  intros [T|G] E; [apply gu_taint, T|].
  destruct (gd_poll_dispatch m ch i ch' l G E) as [H _].
  destruct (mo_tainted (fold_left mon_obs l m)) eqn:ET; [left; exact ET|right; apply H; reflexivity].
Qed.

Lemma gu_poll_requests m ch i ch' l :
  GU m ch -> poll_requests i ch = (ch', l) -> GU (fold_left mon_obs l m) ch'.
Proof.
  intros [T|G] E; [apply gu_taint, T|].
  destruct (gd_poll_requests srv_poll m ch i ch' l G E) as [H _].
  destruct (mo_tainted (fold_left mon_obs l m)) eqn:ET; [left; exact ET|right; apply H; reflexivity].
Qed.

Lemma gu_poll_handler m ch i k st ch' l :
  GU m ch -> small m -> poll_handler i k st ch = (ch', l) -> GU (fold_left mon_obs l m) ch'.
Proof.
  intros [T|G] S E; [apply gu_taint, T|]. right.
  apply (gd_poll_handler srv_exec m ch i k st ch' l G (good_nowrap _ _ (Datatypes.S i) G S) E).
Qed.

(* the loops of SettleAll *)
Lemma gu_poll_heads n : forall j ch acc ch' l m,
  GU (fold_left mon_obs acc m) ch -> small m -> poll_heads j n ch acc = (ch', l) ->
  GU (fold_left mon_obs l m) ch'.
Proof.
  induction n as [|n IH]; intros j ch acc ch' l m G S E; cbn [poll_heads] in E; [pinj E; exact G|].
  match type of E with (if ?b then _ else _) = _ => destruct b end.
  - destruct (poll_head j ch) as [ch1 l1] eqn:EP.
    eapply IH; [|exact S|exact E]. rewrite fold_left_app.
    eapply gu_poll_head; [exact G|apply small_fold, S|exact EP].
  - eapply IH; eassumption.
Qed.

Lemma gu_poll_handlers i n : forall k ch acc ch' l m,
  GU (fold_left mon_obs acc m) ch -> small m -> poll_handlers i k n ch acc = (ch', l) ->
  GU (fold_left mon_obs l m) ch'.
Proof.
  induction n as [|n IH]; intros k ch acc ch' l m G S E; cbn [poll_handlers] in E; [pinj E; exact G|].
  destruct (poll_handler i k Server.SRun ch) as [ch1 l1] eqn:EP.
  eapply IH; [|exact S|exact E]. rewrite fold_left_app.
  eapply gu_poll_handler; [exact G|apply small_fold, S|exact EP].
Qed.

Lemma gu_settle_node m ch i ch' l :
  GU m ch -> small m -> settle_node i ch = (ch', l) -> GU (fold_left mon_obs l m) ch'.
Proof.
  intros G S E. unfold settle_node in E.
  destruct (Chain.poll_dispatch i ch) as [ch1 l1] eqn:E1.
  destruct (poll_requests i ch1) as [ch2 l2] eqn:E2.
  destruct (poll_handlers i 0 _ ch2 []) as [ch3 l3] eqn:E3. pinj E.
  rewrite !fold_left_app.
  eapply (gu_poll_handlers i _ 0 ch2 [] ch3 l3); [|apply small_fold, small_fold, S|exact E3].
  cbn [fold_left]. eapply gu_poll_requests; [|exact E2]. eapply gu_poll_dispatch; eassumption.
Qed.

Lemma gu_settle_nodes n : forall i ch acc ch' l m,
  GU (fold_left mon_obs acc m) ch -> small m -> settle_nodes i n ch acc = (ch', l) ->
  GU (fold_left mon_obs l m) ch'.
Proof.
  induction n as [|n IH]; intros i ch acc ch' l m G S E; cbn [settle_nodes] in E; [pinj E; exact G|].
  destruct (settle_node i ch) as [ch1 l1] eqn:EP.
  eapply IH; [|exact S|exact E]. rewrite fold_left_app.
  eapply gu_settle_node; [exact G|apply small_fold, S|exact EP].
Qed.

Lemma gu_round m ch ch' ev :
  GU m ch -> small m -> round ch = (ch', ev) -> GU (fold_left mon_obs ev m) ch'.
Proof.
  intros G S E. unfold round in E.
  destruct (poll_heads 0 _ ch []) as [ch1 l1] eqn:E1.
  destruct (settle_nodes 0 _ ch1 []) as [ch2 l2] eqn:E2. pinj E.
  rewrite fold_filter_event, fold_left_app.
  eapply (gu_settle_nodes _ 0 ch1 [] ch2 l2); [|apply small_fold, S|exact E2].
  cbn [fold_left]. eapply (gu_poll_heads _ 0 ch [] ch1 l1); [exact G|exact S|exact E1].
Qed.

(* the rounds: if the last round was quiet, it started from a good state and had no event *)
Lemma gu_settle n : forall ch acc ch' evs q m,
  GU (fold_left mon_obs acc m) ch -> small m -> settle n ch acc = (ch', evs, q) ->
  GU (fold_left mon_obs evs m) ch' /\
  (q = true -> exists chL, GU (fold_left mon_obs evs m) chL /\ round chL = (ch', [])).
Proof.
  induction n as [|n IH]; intros ch acc ch' evs q m G S E; cbn [settle] in E.
  - pinj E. match goal with H : (_, _) = (_, _) |- _ => pinj H end. split; [exact G|discriminate].
  - destruct (round ch) as [ch1 ev] eqn:ER.
    match type of E with (if ?b then _ else _) = _ => destruct b eqn:EB end.
    + pinj E. match goal with H : (_, _) = (_, _) |- _ => pinj H end.
      apply andb_true_iff in EB. destruct EB as [_ EB]. destruct ev; [|discriminate].
      pose proof (gu_round _ _ _ _ G (small_fold _ _ S) ER) as G1. cbn [fold_left] in G1.
      split; [exact G1|]. intros _. exists ch. auto.
    + eapply IH; [|exact S|exact E]. rewrite fold_left_app.
      eapply gu_round; [exact G|apply small_fold, S|exact ER].
Qed.

(* ------------------------------------------------------------------------------------------ *)
(* (2) a round without events *)
Definition calls_over (c : cstate) : Prop :=
  forall j, j < length (Client.calls c) -> ph_over c j = true.
Definition node_quiet (nd : node) : Prop :=
  (forall hr, In hr (Server.s_handlers (n_srv nd)) -> live_st (Server.h_st hr) = false) /\
  Server.s_inflight (n_srv nd) = [] /\ Server.s_timers (n_srv nd) = [].

Lemma fold_noevent l m : filter is_event l = [] -> fold_left mon_obs l m = m.
Proof. intro H. rewrite <- fold_filter_event, H. reflexivity. Qed.

Lemma filter_app_nil {A} (f : A -> bool) a b : filter f (a ++ b) = [] -> filter f a = [] /\ filter f b = [].
Proof. rewrite filter_app. intro H. apply app_eq_nil in H. exact H. Qed.

Lemma filter_nil_no {A} (f : A -> bool) l e : filter f l = [] -> In e l -> f e = true -> False.
Proof.
  intros H Hin Hf. assert (In e (filter f l)) by (apply filter_In; auto). rewrite H in H0. destruct H0.
Qed.

(* a finished incarnation is not polled *)
Lemma ph_dead i k st ch nd hr :
  nth_error ch i = Some nd -> nth_error (Server.s_handlers (n_srv nd)) k = Some hr ->
  live_st (Server.h_st hr) = false -> poll_handler i k st ch = (ch, []).
Proof.
  intros Ei Ek H. unfold poll_handler. rewrite Ei, Ek. destruct (Server.h_st hr); try discriminate; reflexivity.
Qed.

(* an aborted, unfinished incarnation ends at its next poll: an event *)
Lemma ph_aborted_event T i k st ch nd hr ch' l :
  node_ok T nd -> nth_error ch i = Some nd -> nth_error (Server.s_handlers (n_srv nd)) k = Some hr ->
  live_st (Server.h_st hr) = true -> is_aborted (n_srv nd) hr = true ->
  poll_handler i k st ch = (ch', l) -> In (KExecReady i k) l.
Proof.
  intros NO Ei Ek Hl EA E. unfold poll_handler in E. rewrite Ei, Ek in E.
  assert (Wait : forall b, Server.h_st hr = Server.HWait b \/ Server.h_st hr = Server.HPermit b ->
            forall nd1 l1, sstep nd (Server.OHandlerPoll k Server.SRun) = (nd1, l1) -> In (Server.OExecReady k) l1).
  { intros b Hb nd1 l1 ES. unfold sstep, Server.step in ES.
    destruct (Server.execute_poll k Server.SRun _) as [s1 obs] eqn:EE. pinj ES.
    apply in_or_app. left. unfold Server.execute_poll in EE. cbn [Server.s_handlers Server.set_t] in EE.
    rewrite Ek in EE. unfold is_aborted in EA. cbn [Server.s_aborted Server.set_t] in EE.
    destruct Hb as [Hb|Hb]; rewrite Hb, EA in EE; pinj EE; left; reflexivity. }
  assert (Tr : forall l1, In (Server.OExecReady k) l1 -> In (KExecReady i k) (flat_map (tr_sobs i) l1)).
  { intros l1 H. apply in_flat_map. eexists. split; [exact H|]. left. reflexivity. }
  destruct (Server.h_st hr) eqn:Est; try discriminate.
  - rewrite EA in E. destruct (sstep nd _) as [nd1 l1] eqn:ES. pinj E. apply Tr.
    destruct (exec_node srv_exec _ _ _ _ _ _ _ NO Ek ES) as (obs & hr' & -> & _ & _ & _ & _ & _ & _ & Hm).
    rewrite Est, EA in Hm. destruct Hm as [_ ->]. apply in_or_app. left. left. reflexivity.
  - rewrite EA in E. destruct (sstep nd _) as [nd1 l1] eqn:ES. pinj E. apply Tr.
    destruct (exec_node srv_exec _ _ _ _ _ _ _ NO Ek ES) as (obs & hr' & -> & _ & _ & _ & _ & _ & _ & Hm).
    rewrite Est, EA in Hm. destruct Hm as [_ ->]. apply in_or_app. left. right. left. reflexivity.
  - destruct (sstep nd _) as [nd1 l1] eqn:ES. pinj E. apply Tr. eapply (Wait b); [left; reflexivity|reflexivity].
  - destruct (sstep nd _) as [nd1 l1] eqn:ES. pinj E. apply Tr. eapply (Wait b); [right; reflexivity|reflexivity].
Qed.

(* once the dispatch has written every cancellation, the stream has read everything and no timer
   is due, a node all of whose client calls are over tracks nothing, and every unfinished
   incarnation is aborted *)
Lemma node_drained T nd :
  node_ok T nd -> Client.cancels (n_cli nd) = [] -> calls_over (n_cli nd) ->
  l_c2s (n_link nd) = [] ->
  (forall id w, In (id, w) (Server.s_timers (n_srv nd)) -> (T < w)%N) ->
  Server.s_inflight (n_srv nd) = [] /\ Server.s_timers (n_srv nd) = [] /\
  (forall hr, In hr (Server.s_handlers (n_srv nd)) -> live_st (Server.h_st hr) = true ->
     is_aborted (n_srv nd) hr = true).
Proof.
  intros [C X S Sn Ov Hl Hc] Hcan Hov Hq Hdue.
  assert (NoIfl : forall id, ~ In id (ifl (n_cli nd))).
  { apply ChainCasc1u.ifl_empty; [apply C|exact Hcan|exact Hov]. }
  assert (E1 : Server.s_inflight (n_srv nd) = []).
  { destruct (Server.s_inflight (n_srv nd)) as [|e r] eqn:EI; [reflexivity|exfalso].
    destruct (x_trk _ _ _ _ _ X e) as [A|[A|A]].
    - rewrite EI. left. reflexivity.
    - eapply NoIfl, A.
    - destruct A as (tr & A). rewrite Hq in A. destruct A.
    - destruct A as (w & A & B). specialize (Hdue _ _ A). lia. }
  split; [exact E1|]. split.
  - pose proof (x_keys _ _ _ _ _ X) as K. unfold tids in K. rewrite E1 in K. cbn in K.
    destruct (Server.s_timers (n_srv nd)); [reflexivity|discriminate].
  - intros hr Hin Hlive. destruct (sv_live _ S hr Hin Hlive) as [A|(e & He & _)].
    + unfold is_aborted. apply existsb_exists. exists (Server.h_h hr). split; [exact A|apply Nat.eqb_refl].
    + rewrite E1 in He. destruct He.
Qed.

Lemma poll_handlers_acc i n : forall k ch acc ch' l,
  poll_handlers i k n ch acc = (ch', l) -> exists r, l = acc ++ r.
Proof.
  induction n as [|n IH]; intros k ch acc ch' l E; cbn [poll_handlers] in E.
  - pinj E. exists []. rewrite app_nil_r. reflexivity.
  - destruct (poll_handler i k Server.SRun ch) as [ch1 l1]. destruct (IH _ _ _ _ _ E) as (r & ->).
    exists (l1 ++ r). rewrite app_assoc. reflexivity.
Qed.

(* every unfinished incarnation of the node being aborted, a sweep over its execute futures
   without an event means there was none left *)
Lemma quiet_poll_handlers T i nd n : forall k ch acc ch' l,
  nth_error ch i = Some nd -> node_ok T nd ->
  (forall hr, In hr (Server.s_handlers (n_srv nd)) -> live_st (Server.h_st hr) = true ->
     is_aborted (n_srv nd) hr = true) ->
  poll_handlers i k n ch acc = (ch', l) -> filter is_event l = [] ->
  ch' = ch /\
  forall k' hr, k <= k' < k + n -> nth_error (Server.s_handlers (n_srv nd)) k' = Some hr ->
                live_st (Server.h_st hr) = false.
Proof.
  induction n as [|n IH]; intros k ch acc ch' l Ei NO HA E Hev; cbn [poll_handlers] in E.
  - pinj E. split; [reflexivity|]. intros k' hr Hk. lia.
  - destruct (poll_handler i k Server.SRun ch) as [ch1 l1] eqn:EP.
    destruct (nth_error (Server.s_handlers (n_srv nd)) k) as [hr|] eqn:Ek.
    + destruct (live_st (Server.h_st hr)) eqn:EL.
      * exfalso. pose proof (HA hr (nth_error_In _ _ Ek) EL) as EA.
        pose proof (ph_aborted_event _ _ _ _ _ _ _ _ _ NO Ei Ek EL EA EP) as Hin.
        destruct (poll_handlers_acc _ _ _ _ _ _ _ E) as (r & ->).
        eapply (filter_nil_no is_event _ (KExecReady i k) Hev); [|reflexivity].
        apply in_or_app. left. apply in_or_app. right. exact Hin.
      * rewrite (ph_dead _ _ _ _ _ _ Ei Ek EL) in EP. pinj EP.
        destruct (IH _ _ _ _ _ Ei NO HA E Hev) as [E1 H1]. split; [exact E1|].
        intros k' hr' Hk Hr'. destruct (Nat.eq_dec k' k) as [->|Hne]; [congruence|].
        apply (H1 k' hr'); [lia|exact Hr'].
    + assert (EP' : poll_handler i k Server.SRun ch = (ch, [])).
      { unfold poll_handler. rewrite Ei, Ek. reflexivity. }
      rewrite EP' in EP. pinj EP.
      destruct (IH _ _ _ _ _ Ei NO HA E Hev) as [E1 H1]. split; [exact E1|].
      intros k' hr' Hk Hr'. destruct (Nat.eq_dec k' k) as [->|Hne]; [congruence|].
      apply (H1 k' hr'); [lia|exact Hr'].
Qed.

Lemma live_run st : live_st st = false -> run_st st = false.
Proof. destruct st; cbn; congruence. Qed.

(* one node of the final round *)
Lemma quiet_settle_node m ch i nd ch' l :
  good m ch -> mo_tainted m = false -> nth_error ch i = Some nd -> calls_over (n_cli nd) ->
  settle_node i ch = (ch', l) -> filter is_event l = [] ->
  good m ch' /\ length ch' = length ch /\ (forall j, j <> i -> nth_error ch' j = nth_error ch j) /\
  (exists nd', nth_error ch' i = Some nd' /\ node_quiet nd') /\
  (forall nx, nth_error ch (S i) = Some nx -> calls_over (n_cli nx)).
Proof.
  intros G UT Ei Hov E Hev. unfold settle_node in E.
  destruct (Chain.poll_dispatch i ch) as [ch1 l1] eqn:E1.
  destruct (poll_requests i ch1) as [ch2 l2] eqn:E2.
  destruct (poll_handlers i 0 _ ch2 []) as [ch3 l3] eqn:E3. pinj E.
  destruct (filter_app_nil _ _ _ Hev) as [Hev1 Hev23]. destruct (filter_app_nil _ _ _ Hev23) as [Hev2 Hev3].
  (* the dispatch *)
  destruct (gd_poll_dispatch m ch i ch1 l1 G E1) as (G1 & L1 & F1 & Q1).
  rewrite (fold_noevent _ _ Hev1) in G1. specialize (G1 UT).
  destruct (Q1 nd Ei Hev1) as (nd1 & Ei1 & NO1 & Hcan & Es1 & Eh1 & Ln1 & Po1).
  (* the request stream *)
  destruct (gd_poll_requests srv_poll m ch1 i ch2 l2 G1 E2) as (G2 & L2 & F2 & Q2).
  rewrite (fold_noevent _ _ Hev2) in G2. specialize (G2 UT).
  destruct (Q2 nd1 Ei1 Hev2) as (nd2 & Ei2 & NO2 & Ec2 & Eh2 & Fh2 & Hq & Hrq & Hdue).
  assert (Hov2 : calls_over (n_cli nd2)).
  { intros j Hj. rewrite Ec2, Po1. apply Hov. rewrite Ec2, Ln1 in Hj. exact Hj. }
  assert (Hcan2 : Client.cancels (n_cli nd2) = []) by (rewrite Ec2; exact Hcan).
  destruct (node_drained _ _ NO2 Hcan2 Hov2 Hq Hdue) as (D1 & D2 & D3).
  rewrite Ei2 in E3.
  destruct (quiet_poll_handlers _ _ _ _ _ _ _ _ _ Ei2 NO2 D3 E3 Hev3) as [E33 Hdead]. subst ch3.
  split; [exact G2|]. split; [congruence|]. split; [intros j Hj; rewrite F2, F1 by exact Hj; reflexivity|].
  assert (Dead : forall hr, In hr (Server.s_handlers (n_srv nd2)) -> live_st (Server.h_st hr) = false).
  { intros hr Hin. apply In_nth_error in Hin. destruct Hin as [k Hk]. apply (Hdead k hr); [|exact Hk].
    split; [lia|]. cbn. eapply nth_error_lt, Hk. }
  split; [exists nd2; split; [exact Ei2|]; split; [exact Dead|auto]|].
  intros nx Hx. assert (Hx2 : nth_error ch2 (S i) = Some nx) by (rewrite F2, F1 by lia; exact Hx).
  pose proof (gd_own _ _ G2 i nd2 nx Ei2 Hx2) as OW.
  intros j Hj. destruct (ow_owned _ _ OW j Hj) as (k & h & Hk & Hc).
  destruct (ow_call _ _ OW k h j Hk Hc) as [_ Hph].
  assert (Hex : exists hr, nth_error (Server.s_handlers (n_srv nd2)) k = Some hr).
  { destruct (nth_error (Server.s_handlers (n_srv nd2)) k) eqn:E0; [eauto|]. apply nth_error_None in E0.
    rewrite <- (no_hlen _ _ NO2) in E0. apply nth_error_None in E0. congruence. }
  destruct Hex as (hr & Hr). apply (Hph hr Hr). apply live_run, Dead. eapply nth_error_In, Hr.
Qed.

Lemma settle_nodes_acc n : forall i ch acc ch' l,
  settle_nodes i n ch acc = (ch', l) -> exists r, l = acc ++ r.
Proof.
  induction n as [|n IH]; intros i ch acc ch' l E; cbn [settle_nodes] in E.
  - pinj E. exists []. rewrite app_nil_r. reflexivity.
  - destruct (settle_node i ch) as [ch1 l1]. destruct (IH _ _ _ _ _ E) as (r & ->).
    exists (l1 ++ r). rewrite app_assoc. reflexivity.
Qed.

Lemma quiet_settle_nodes m n : forall i ch acc ch' l,
  good m ch -> mo_tainted m = false -> length ch = i + n ->
  (forall nd, nth_error ch i = Some nd -> calls_over (n_cli nd)) ->
  (forall j nd, j < i -> nth_error ch j = Some nd -> node_quiet nd) ->
  settle_nodes i n ch acc = (ch', l) -> filter is_event l = [] ->
  good m ch' /\ forall j nd, nth_error ch' j = Some nd -> node_quiet nd.
Proof.
  induction n as [|n IH]; intros i ch acc ch' l G UT EL Hov Hq E Hev; cbn [settle_nodes] in E.
  - pinj E. split; [exact G|]. intros j nd Hj. apply (Hq j nd); [|exact Hj].
    apply nth_error_lt in Hj. lia.
  - destruct (settle_node i ch) as [ch1 l1] eqn:ES.
    destruct (settle_nodes_acc _ _ _ _ _ _ E) as (r & ->).
    destruct (filter_app_nil _ _ _ Hev) as [Hev1 _]. destruct (filter_app_nil _ _ _ Hev1) as [_ Hevl1].
    assert (Hi : i < length ch) by lia.
    apply nth_error_Some in Hi. destruct (nth_error ch i) as [nd|] eqn:Ei; [|congruence].
    destruct (quiet_settle_node m ch i nd ch1 l1 G UT Ei (Hov nd eq_refl) ES Hevl1)
      as (G1 & L1 & F1 & (nd' & Ei' & Qn) & Hnext).
    eapply (IH (S i) ch1 _ ch' _ G1 UT); [lia| | |exact E|exact Hev].
    + intros nx Hx. apply Hnext. rewrite <- (F1 (S i)) by lia. exact Hx.
    + intros j x Hj Hx. destruct (Nat.eq_dec j i) as [->|Hne].
      * rewrite Ei' in Hx. injection Hx as <-. exact Qn.
      * rewrite F1 in Hx by exact Hne. apply (Hq j x); [lia|exact Hx].
Qed.

Lemma over_not_live (c : cstate) j :
  ph_over c j = true ->
  match nth_error (Client.calls c) j with Some k => live_phase (Client.c_phase k) | None => false end = false.
Proof.
  unfold ph_over, ChainCasc1u.ph_over, ClientProofsG1Rec.ph. destruct (nth_error (Client.calls c) j) as [k|]; cbn; [|reflexivity].
  destruct (Client.c_phase k); cbn; congruence.
Qed.

Lemma poll_heads_over nd0 n : forall j ch acc,
  nth_error ch 0 = Some nd0 -> calls_over (n_cli nd0) -> poll_heads j n ch acc = (ch, acc).
Proof.
  induction n as [|n IH]; intros j ch acc E0 Hov; cbn [poll_heads]; [reflexivity|].
  rewrite E0.
  assert (H : match nth_error (Client.calls (n_cli nd0)) j with
              | Some c => live_phase (Client.c_phase c) | None => false end = false).
  { destruct (nth_error (Client.calls (n_cli nd0)) j) as [k|] eqn:Ek; [|reflexivity].
    pose proof (over_not_live (n_cli nd0) j (Hov j (nth_error_lt _ _ _ Ek))) as H. rewrite Ek in H. exact H. }
  rewrite H. apply IH; assumption.
Qed.

(* the final round *)
Lemma quiet_round m ch ch' :
  good m ch -> mo_tainted m = false ->
  (forall nd0, nth_error ch 0 = Some nd0 -> calls_over (n_cli nd0)) ->
  round ch = (ch', []) ->
  good m ch' /\ forall j nd, nth_error ch' j = Some nd -> node_quiet nd.
Proof.
  intros G UT Hov E. unfold round in E.
  destruct (nth_error ch 0) as [nd0|] eqn:E0.
  - rewrite (poll_heads_over nd0 _ 0 ch [] E0 (Hov nd0 eq_refl)) in E.
    destruct (settle_nodes 0 (length ch) ch []) as [ch2 l2] eqn:E2. pinj E.
    cbn [app] in *. eapply (quiet_settle_nodes m _ 0 ch [] ch2 l2); try eassumption.
    + reflexivity.
    + intros nd Hn. rewrite E0 in Hn. injection Hn as <-. apply Hov. reflexivity.
    + intros j nd Hj. lia.
  - destruct ch; [|discriminate]. cbn in E. pinj E. split; [exact G|]. intros j nd Hj. destruct j; discriminate.
Qed.
