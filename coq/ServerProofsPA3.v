(* Server proofs, group A, part 3 (written by engineer C): the hypothesis-dependent invariant TopH
   (ServerProofsPA0.v) through a handler poll (OHandlerPoll k hs = one poll of execute()). *)
From Coq Require Import List Bool Arith NArith Lia.
Import ListNotations.
From TarpcV Require Import Base Transport TimerWheel Server ServerMon ServerFuel ServerContract
     ServerSim ServerSim2 ServerSim3 ServerSim4 ServerSim5 ServerSim6 ServerSim7 ServerProofsPA0.

Lemma lastk_upd : forall k0 (g : oinc -> oinc) l k id,
  (forall i, oi_id (g i) = oi_id i) -> lastk l k id -> lastk (upd_nth k0 g l) k id.
Proof.
  intros k0 g l k id Hg L k' oi' Hlt Hk'. destruct (Nat.eq_dec k0 k') as [->|Hne].
  - destruct (nth_error l k') as [y|] eqn:E.
    + rewrite (upd_nth_same _ _ _ _ E) in Hk'. inversion Hk'; subst. rewrite Hg. exact (L k' y Hlt E).
    + rewrite (upd_nth_none _ _ _ E) in Hk'. congruence.
  - rewrite (upd_nth_other _ _ _ _ Hne) in Hk'. exact (L k' oi' Hlt Hk').
Qed.

Lemma upd_nth_inv : forall k0 (g : oinc -> oinc) l j x,
  nth_error (upd_nth k0 g l) j = Some x ->
  exists y, nth_error l j = Some y /\ ((j = k0 /\ x = g y) \/ (j <> k0 /\ x = y)).
Proof.
  intros k0 g l j x H. destruct (Nat.eq_dec k0 j) as [->|Hne].
  - destruct (nth_error l j) as [y|] eqn:E.
    + rewrite (upd_nth_same _ _ _ _ E) in H. inversion H; subst. eauto.
    + rewrite (upd_nth_none _ _ _ E) in H. congruence.
  - rewrite (upd_nth_other _ _ _ _ Hne) in H. exists x. split; [exact H|right; split; auto].
Qed.

Lemma nth_map_hh : forall (l l' : list hrec) j hr',
  map h_h l' = map h_h l -> nth_error l' j = Some hr' ->
  exists hr, nth_error l j = Some hr /\ h_h hr = h_h hr'.
Proof.
  intros l l' j hr' Hm Hj.
  assert (E : nth_error (map h_h l) j = Some (h_h hr')) by (rewrite <- Hm, nth_error_map, Hj; reflexivity).
  rewrite nth_error_map in E. destruct (nth_error l j) as [hr|]; cbn in E; [|discriminate].
  inversion E. eauto.
Qed.

Section HPoll.
  Context {T : Type}.
  Notation st := (@sstate T).

  Lemma trk_hh : forall (s s' : st) k,
    map h_h (s_handlers s') = map h_h (s_handlers s) -> s_inflight s' = s_inflight s -> trk s k -> trk s' k.
  Proof.
    intros s s' k Hm Hi (hr & e & A & B & C).
    destruct (nth_map_hh (s_handlers s') (s_handlers s) k hr (eq_sym Hm) A) as (hr' & A' & E).
    exists hr', e. rewrite Hi. repeat split; auto. congruence.
  Qed.

  (* how a poll of execute() may change the handler table (ServerSim6.hshape) plus what it pushes *)
  Lemma Safe_hshape : forall (s s1 : st) k hr st',
    Safe s -> nth_error (s_handlers s) k = Some hr -> hshape k hr st' s s1 ->
    (over (h_st hr) -> over st') ->
    s_inflight s1 = s_inflight s -> s_aborted s1 = s_aborted s -> Safe s1.
  Proof.
    intros s s1 k hr st' HS Hk (Hm & Hsh) Hov Hi Ha j hr' Hj.
    destruct (nth_map_hh _ _ j hr' Hm Hj) as (hr0 & Hj0 & Ehh).
    destruct (HS j hr0 Hj0) as [Ht|[Hab|Ho]].
    - left. eapply trk_hh; eauto.
    - right; left. rewrite Ha, <- Ehh. exact Hab.
    - right; right. destruct (Hsh j hr' Hj) as [(-> & _ & Hst)|(Hne & hr0' & Hj0' & _ & Hst)].
      + rewrite Hk in Hj0. inversion Hj0; subst hr0. rewrite Hst. auto.
      + rewrite Hj0 in Hj0'. inversion Hj0'; subst hr0'.
        destruct Hst as [Hst|(b & H1 & _)]; [rewrite Hst; exact Ho|rewrite H1 in Ho; destruct Ho].
  Qed.

  Lemma InvH_hpoll : forall o o' (s s1 : st) k hr oi (g : oinc -> oinc) st' push,
    InvH o s -> InvU o s ->
    nth_error (s_handlers s) k = Some hr -> nth_error (o_incs o) k = Some oi -> unsent (h_st hr) ->
    o_incs o' = upd_nth k g (o_incs o) ->
    (forall i, oi_id (g i) = oi_id i /\ oi_wire (g i) = oi_wire i) ->
    hshape k hr st' s s1 ->
    s_inflight s1 = s_inflight s -> s_aborted s1 = s_aborted s -> s_cancels s1 = s_cancels s ->
    s_respq s1 = s_respq s ++ push ->
    ((push = [] /\ (unsent st' \/ st' = HDone))
     \/ (exists b, push = [mkresp (h_id hr) b] /\ st' = HDone /\ oi_done (g oi) = Some b)) ->
    InvH o' s1.
  Proof.
    intros o o' s s1 k hr oi g st' push [H1 H2 H3 H4 H5 H6 H7] HI Hk Hoi Hun Hi Hg Hsh Hinf Hab Hcan Hq Hpush.
    pose proof Hsh as (Hm & Hsh').
    destruct (u_hand _ _ HI k hr oi Hk Hoi) as (Eid & _).
    destruct (H3 k hr oi Hk Hoi Hun) as (Lk & Wk & Qk).
    assert (Hgid : forall i, oi_id (g i) = oi_id i) by (intros i; apply Hg).
    (* the handler at j in s1, back in s *)
    assert (Hback : forall j hr', nth_error (s_handlers s1) j = Some hr' ->
              exists hr0, nth_error (s_handlers s) j = Some hr0 /\ h_h hr0 = h_h hr'
                /\ ((j = k /\ hr0 = hr /\ h_st hr' = st')
                    \/ (j <> k /\ (h_st hr' = h_st hr0 \/ exists b, h_st hr0 = HWait b /\ h_st hr' = HPermit b)))).
    { intros j hr' Hj. destruct (nth_map_hh _ _ j hr' Hm Hj) as (hr0 & Hj0 & Ehh). exists hr0.
      split; [exact Hj0|split; [exact Ehh|]].
      destruct (Hsh' j hr' Hj) as [(-> & _ & Hst)|(Hne & hr0' & Hj0' & _ & Hst)].
      - left. rewrite Hk in Hj0. inversion Hj0. auto.
      - right. rewrite Hj0 in Hj0'. inversion Hj0'; subst hr0'. auto. }
    assert (Hfwd : forall j hr0, nth_error (s_handlers s) j = Some hr0 -> j <> k ->
              exists hr', nth_error (s_handlers s1) j = Some hr' /\ h_h hr' = h_h hr0
                /\ (h_st hr' = h_st hr0 \/ exists b, h_st hr0 = HWait b /\ h_st hr' = HPermit b)).
    { intros j hr0 Hj0 Hne.
      destruct (nth_map_hh (s_handlers s1) (s_handlers s) j hr0 (eq_sym Hm) Hj0) as (hr' & Hj & Ehh).
      exists hr'. split; [exact Hj|split; [exact Ehh|]].
      destruct (Hback j hr' Hj) as (hr0' & Hj0' & _ & [(-> & _)|(_ & Hst)]); [congruence|].
      rewrite Hj0 in Hj0'. inversion Hj0'; subst hr0'. exact Hst. }
    assert (Htrk : forall j, trk s j -> trk s1 j) by (intros j; apply trk_hh; auto).
    assert (Hlast : forall j id, lastk (o_incs o) j id -> lastk (upd_nth k g (o_incs o)) j id)
      by (intros j id; apply lastk_upd; exact Hgid).
    (* ids in the queue after the push *)
    assert (Hqids : forall id, In id (map resp_id (s_respq s1)) ->
              In id (map resp_id (s_respq s)) \/ (id = h_id hr /\ exists b, push = [mkresp (h_id hr) b])).
    { intros id Hin. rewrite Hq, map_app, in_app_iff in Hin. destruct Hin as [Hin|Hin]; [left; exact Hin|].
      destruct Hpush as [(-> & _)|(b & -> & _)]; [destruct Hin|].
      destruct Hin as [<-|[]]. right. split; [reflexivity|eauto]. }
    constructor; rewrite ?Hi, ?Hcan.
    - intros j x Hj Hw. destruct (upd_nth_inv _ _ _ _ _ Hj) as (y & Hy & [(-> & ->)|(_ & ->)]).
      + apply Htrk. apply (H1 k y Hy). destruct (Hg y) as (_ & E). congruence.
      + apply Htrk. exact (H1 j y Hy Hw).
    - intros j x Hj Hop. destruct (upd_nth_inv _ _ _ _ _ Hj) as (y & Hy & [(-> & ->)|(_ & ->)]).
      + destruct (Hg y) as (E1 & E2). rewrite E1. apply Hlast. apply (H2 k y Hy). congruence.
      + apply Hlast. exact (H2 j y Hy Hop).
    - intros j hr' x Hj Hx Hu.
      destruct (Hback j hr' Hj) as (hr0 & Hj0 & _ & D).
      destruct (upd_nth_inv _ _ _ _ _ Hx) as (y & Hy & Dy).
      assert (Hu0 : unsent (h_st hr0)).
      { destruct D as [(-> & -> & _)|(_ & [E|(b & E & _)])]; [exact Hun|rewrite <- E; exact Hu|rewrite E; exact I]. }
      destruct (H3 j hr0 y Hj0 Hy Hu0) as (L & W & Q).
      assert (Ex : oi_id x = oi_id y /\ oi_wire x = oi_wire y).
      { destruct Dy as [(_ & ->)|(_ & ->)]; [apply Hg|auto]. }
      destruct Ex as (Ex1 & Ex2). rewrite Ex1, Ex2. split; [apply Hlast; exact L|split; [exact W|]].
      intros Hin. destruct (Hqids _ Hin) as [Hin'|(Eq & b & Hp)]; [exact (Q Hin')|].
      (* a push: then j = k, which is HDone now *)
      destruct Hpush as [(Hp' & _)|(b' & _ & Hst' & _)]; [rewrite Hp' in Hp; discriminate|].
      assert (j = k).
      { assert (Eyo : oi_id oi = oi_id y) by congruence.
        apply (lastk_unique (o_incs o) j k y oi (oi_id y) Hy Hoi eq_refl Eyo L). rewrite <- Eyo. exact Lk. }
      subst j. destruct D as [(_ & _ & E)|(Hne & _)]; [|congruence]. rewrite E, Hst' in Hu. exact Hu.
    - rewrite Hq, map_app. destruct Hpush as [(-> & _)|(b & -> & _)]; [cbn; rewrite app_nil_r; exact H4|].
      cbn. apply NoDup_app_one; [exact H4|]. rewrite <- Eid. exact Qk.
    - intros m Hm'. rewrite Hq in Hm'. apply in_app_or in Hm'. destruct Hm' as [Hm'|Hm'].
      + destruct (H5 m Hm') as (k1 & hr1 & oi1 & A & B & C & D & E & F & G).
        assert (Hne : k1 <> k) by (intros ->; rewrite Hk in A; inversion A; subst hr1; rewrite E in Hun; exact Hun).
        destruct (Hfwd k1 hr1 A Hne) as (hr1' & A' & _ & St).
        exists k1, hr1', oi1. rewrite (upd_nth_other _ _ _ _ (not_eq_sym Hne)).
        repeat split; auto.
        destruct St as [St|(b & St & _)]; [congruence|congruence].
      + destruct Hpush as [(-> & _)|(b & -> & Hst' & Hdn)]; [destruct Hm'|]. destruct Hm' as [<-|[]].
        destruct (nth_map_hh (s_handlers s1) (s_handlers s) k hr (eq_sym Hm) Hk) as (hr' & A' & _).
        destruct (Hback k hr' A') as (_ & _ & _ & [(_ & _ & E)|(Hne & _)]); [|congruence].
        exists k, hr', (g oi). rewrite (upd_nth_same _ _ _ _ Hoi). cbn [resp_id resp_body].
        destruct (Hg oi) as (G1 & G2). rewrite G1, G2, <- Eid. repeat split; auto. congruence.
    - intros id Hin. destruct (H6 id Hin) as (k1 & hr1 & oi1 & A & B & C & D & E & F & G).
      assert (Hne : k1 <> k) by (intros ->; rewrite Hk in A; inversion A; subst hr1; rewrite E in Hun; exact Hun).
      destruct (Hfwd k1 hr1 A Hne) as (hr1' & A' & _ & St).
      exists k1, hr1', oi1. rewrite (upd_nth_other _ _ _ _ (not_eq_sym Hne)).
      repeat split; auto.
      destruct St as [St|(b & St & _)]; [congruence|congruence].
    - apply (Safe_hshape s s1 k hr st' H7 Hk Hsh); auto.
      intros Ho. exfalso. eapply unsent_not_over; eauto.
  Qed.
End HPoll.

(* ---------------------------------------------------------------- what one poll of execute() does *)
Section Summary.
  Context {T : Type}.
  Notation st := (@sstate T).

  Definition hp_change (k : nat) (s s1 : st) (body : list obs) (hr : hrec) : Prop :=
    exists st' push,
      unsent (h_st hr) /\ forallb (for_k k) body = true /\ hshape k hr st' s s1
      /\ s_inflight s1 = s_inflight s /\ s_aborted s1 = s_aborted s /\ s_cancels s1 = s_cancels s
      /\ s_dropped s1 = s_dropped s /\ s_respq s1 = s_respq s ++ push
      /\ ((push = [] /\ (unsent st' \/ st' = HDone))
          \/ (exists b, push = [mkresp (h_id hr) b] /\ st' = HDone
                /\ forall oi, done_ok (h_st hr) (oi_done oi) ->
                     oi_done (fold_left (fun x e => gstep e x) body oi) = Some b)).

  Lemma execute_poll_summary : forall k hs (s s1 : st) body hr,
    execute_poll k hs s = (s1, body) -> nth_error (s_handlers s) k = Some hr ->
    (s1 = s /\ (body = [] \/ body = [OExecPending k])) \/ hp_change k s s1 body hr.
  Proof.
    intros k hs s s1 body hr H Hk. unfold execute_poll in H. rewrite Hk in H.
    destruct (add_permit_shape s) as (P1 & P2 & P3 & P4 & P5 & P6 & P7 & P8 & P9 & P10 & P11 & P12 & P13).
    cbv zeta in *.
    assert (Hrel_s : forall j hr', nth_error (s_handlers s) j = Some hr' ->
               exists hr0, nth_error (s_handlers s) j = Some hr0 /\ h_h hr' = h_h hr0 /\ h_id hr' = h_id hr0
                 /\ (h_st hr' = h_st hr0 \/ exists b, h_st hr0 = HWait b /\ h_st hr' = HPermit b))
      by (apply hrel_refl).
    assert (Hrel_p : forall j hr', nth_error (s_handlers (add_permit s)) j = Some hr' ->
               exists hr0, nth_error (s_handlers s) j = Some hr0 /\ h_h hr' = h_h hr0 /\ h_id hr' = h_id hr0
                 /\ (h_st hr' = h_st hr0 \/ exists b, h_st hr0 = HWait b /\ h_st hr' = HPermit b)).
    { intros j hr' Hj. destruct (P2 j hr' Hj) as (hr0 & A & B & D & E). eauto. }
    assert (Hun : forall x, h_st hr = x -> match x with HDone | HGone => False | _ => True end -> unsent (h_st hr)).
    { intros x -> Hx. destruct x; try contradiction; exact I. }
    (* a leaf that changes the state of k to st', from table sx, pushing nothing *)
    assert (Leaf0 : forall (sx s0 : st) st' body0,
              (sx = s \/ sx = add_permit s) -> unsent (h_st hr) -> forallb (for_k k) body0 = true ->
              s_handlers s0 = set_hst k st' (s_handlers sx) ->
              s_inflight s0 = s_inflight s -> s_aborted s0 = s_aborted s -> s_cancels s0 = s_cancels s ->
              s_dropped s0 = s_dropped s -> s_respq s0 = s_respq s -> (unsent st' \/ st' = HDone) ->
              hp_change k s s0 body0 hr).
    { intros sx s0 st' body0 Hsx Hu Hb Hh Hi Ha Hc Hd Hq Hst. exists st', []. rewrite app_nil_r.
      repeat split; auto.
      - destruct Hsx as [->| ->]; [eapply (hshape_set s s); eauto|eapply (hshape_set s (add_permit s)); eauto].
      - destruct Hsx as [->| ->]; [eapply (hshape_set s s); eauto|eapply (hshape_set s (add_permit s)); eauto]. }
    (* a leaf that finishes k and pushes its response *)
    assert (Leaf1 : forall (s0 : st) b body0,
              unsent (h_st hr) -> forallb (for_k k) body0 = true ->
              s_handlers s0 = set_hst k HDone (s_handlers s) ->
              s_inflight s0 = s_inflight s -> s_aborted s0 = s_aborted s -> s_cancels s0 = s_cancels s ->
              s_dropped s0 = s_dropped s -> s_respq s0 = s_respq s ++ [mkresp (h_id hr) b] ->
              (forall oi, done_ok (h_st hr) (oi_done oi) ->
                 oi_done (fold_left (fun x e => gstep e x) body0 oi) = Some b) ->
              hp_change k s s0 body0 hr).
    { intros s0 b body0 Hu Hb Hh Hi Ha Hc Hd Hq Hdn. exists HDone, [mkresp (h_id hr) b].
      repeat split; auto; try (eapply (hshape_set s s); eauto; fail).
      right. exists b. auto. }
    destruct (h_st hr) eqn:Est.
    - (* HYielded *)
      pose proof (Hun _ eq_refl I) as Hu.
      destruct (existsb (Nat.eqb (h_h hr)) (s_aborted s)).
      + injection H as <- <-. right. apply (Leaf0 s _ HDone); auto; cbn; rewrite ?Nat.eqb_refl; reflexivity.
      + destruct hs as [|v|].
        * injection H as <- <-. right. apply (Leaf0 s _ HRunning); auto; cbn; rewrite ?Nat.eqb_refl; try reflexivity; try (left; exact I).
        * destruct (s_dropped s) eqn:ED; [|destruct (s_permits s) as [|p] eqn:EPm]; injection H as <- <-; right.
          -- apply (Leaf0 s _ HDone); auto; cbn; rewrite ?Nat.eqb_refl; reflexivity.
          -- apply (Leaf0 s _ (HWait (BOk v))); auto; cbn; rewrite ?Nat.eqb_refl; try reflexivity; try (left; exact I).
          -- apply (Leaf1 _ (BOk v)); auto; cbn; rewrite ?Nat.eqb_refl; reflexivity.
        * destruct (s_dropped s) eqn:ED; [|destruct (s_permits s) as [|p] eqn:EPm]; injection H as <- <-; right.
          -- apply (Leaf0 s _ HDone); auto; cbn; rewrite ?Nat.eqb_refl; reflexivity.
          -- apply (Leaf0 s _ (HWait BErr)); auto; cbn; rewrite ?Nat.eqb_refl; try reflexivity; try (left; exact I).
          -- apply (Leaf1 _ BErr); auto; cbn; rewrite ?Nat.eqb_refl; reflexivity.
    - (* HRunning *)
      pose proof (Hun _ eq_refl I) as Hu.
      destruct (existsb (Nat.eqb (h_h hr)) (s_aborted s)).
      + injection H as <- <-. right. apply (Leaf0 s _ HDone); auto; cbn; rewrite ?Nat.eqb_refl; reflexivity.
      + destruct hs as [|v|].
        * injection H as <- <-. right. apply (Leaf0 s _ HRunning); auto; cbn; rewrite ?Nat.eqb_refl; try reflexivity; try (left; exact I).
        * destruct (s_dropped s) eqn:ED; [|destruct (s_permits s) as [|p] eqn:EPm]; injection H as <- <-; right.
          -- apply (Leaf0 s _ HDone); auto; cbn; rewrite ?Nat.eqb_refl; reflexivity.
          -- apply (Leaf0 s _ (HWait (BOk v))); auto; cbn; rewrite ?Nat.eqb_refl; try reflexivity; try (left; exact I).
          -- apply (Leaf1 _ (BOk v)); auto; cbn; rewrite ?Nat.eqb_refl; reflexivity.
        * destruct (s_dropped s) eqn:ED; [|destruct (s_permits s) as [|p] eqn:EPm]; injection H as <- <-; right.
          -- apply (Leaf0 s _ HDone); auto; cbn; rewrite ?Nat.eqb_refl; reflexivity.
          -- apply (Leaf0 s _ (HWait BErr)); auto; cbn; rewrite ?Nat.eqb_refl; try reflexivity; try (left; exact I).
          -- apply (Leaf1 _ BErr); auto; cbn; rewrite ?Nat.eqb_refl; reflexivity.
    - (* HWait *)
      pose proof (Hun _ eq_refl I) as Hu.
      destruct (existsb (Nat.eqb (h_h hr)) (s_aborted s)); [|destruct (s_dropped s) eqn:ED]; injection H as <- <-.
      + right. apply (Leaf0 s _ HDone); auto; cbn; rewrite ?Nat.eqb_refl; reflexivity.
      + right. apply (Leaf0 s _ HDone); auto; cbn; rewrite ?Nat.eqb_refl; reflexivity.
      + left. auto.
    - (* HPermit *)
      pose proof (Hun _ eq_refl I) as Hu.
      destruct (existsb (Nat.eqb (h_h hr)) (s_aborted s)); [|destruct (s_dropped s) eqn:ED]; injection H as <- <-; right.
      + apply (Leaf0 (add_permit s) _ HDone); auto; cbn; rewrite ?Nat.eqb_refl; reflexivity.
      + apply (Leaf0 s _ HDone); auto; cbn; rewrite ?Nat.eqb_refl; reflexivity.
      + apply (Leaf1 _ b); auto; cbn; rewrite ?Nat.eqb_refl; try reflexivity; try (intros oi Hd; exact Hd).
    - injection H as <- <-. left. auto.
    - injection H as <- <-. left. auto.
  Qed.
End Summary.

(* ---------------------------------------------------------------- the observer on handler events *)
Definition hpolled_ev (e : obs) : bool := match e with OHPolled _ => true | _ => false end.

Lemma ohevents_flags : forall k body o oi,
  forallb (for_k k) body = true -> nth_error (o_incs o) k = Some oi ->
  (existsb hpolled_ev body = true -> oi_wire oi <> WCancelled) ->
  let o' := fold_left o_hevent body o in
  v08 (o_v o') = v08 (o_v o) /\ v04 (o_v o') = v04 (o_v o) /\ h_b1 (o_v o') = h_b1 (o_v o).
Proof.
  intros k body; induction body as [|e body IH]; intros o oi Hb Hk Hw; cbv zeta; cbn [fold_left]; [auto|].
  cbn [forallb] in Hb. apply andb_true_iff in Hb. destruct Hb as [He Hb].
  destruct (hevents_proj k [e] o oi) as (S1 & _); [cbn; rewrite He; reflexivity|exact Hk|].
  cbv zeta in S1. cbn [fold_left] in S1.
  assert (Hk' : nth_error (o_incs (o_hevent o e)) k = Some (gstep e oi)).
  { rewrite S1. apply upd_nth_same. exact Hk. }
  assert (Hw' : existsb hpolled_ev body = true -> oi_wire (gstep e oi) <> WCancelled).
  { intros Hx. assert (oi_wire (gstep e oi) = oi_wire oi) by (destruct e; reflexivity).
    rewrite H. apply Hw. cbn. rewrite Hx. apply orb_true_r. }
  destruct (IH (o_hevent o e) (gstep e oi) Hb Hk' Hw') as (I1 & I2 & I3). cbv zeta in *. rewrite I1, I2, I3.
  destruct e; cbn in He; try discriminate; apply Nat.eqb_eq in He; subst; cbn [o_hevent];
    rewrite ?Hk; oproj; rewrite ?andb_true_r; auto.
  assert (Hc : oi_wire oi <> WCancelled) by (apply Hw; reflexivity).
  destruct (oi_wire oi); try congruence; cbn; rewrite ?andb_true_r; auto.
Qed.

Lemma otail_flags : forall o1 g,
  o_incs (otail o1 g) = o_incs o1 /\ c_err (o_v (otail o1 g)) = c_err (o_v o1)
  /\ v08 (o_v (otail o1 g)) = v08 (o_v o1) /\ v04 (o_v (otail o1 g)) = v04 (o_v o1)
  /\ h_b1 (o_v (otail o1 g)) = h_b1 (o_v o1) /\ h_stop (o_v (otail o1 g)) = h_stop (o_v o1).
Proof.
  intros o1 g. unfold otail. destruct g as [[a b]|].
  - destruct (o_dropped o1); [unfold mark_bad; oproj; rewrite ?orb_false_r, ?andb_true_r; repeat split; reflexivity|].
    destruct (c_err (o_v o1)) eqn:EC; [repeat split; auto|].
    match goal with |- context [o_gauges ?a ?b ?x ?g1 ?g2] =>
      destruct (o_gauges_proj a b x g1 g2) as (G1 & _ & _ & _ & _ & G6 & G7 & _);
      destruct (o_gauges_flags a b x g1 g2) as (F1 & F2 & F3) end.
    cbv zeta in *. rewrite G1, G6, G7, F1, F2, F3. oproj. rewrite ?andb_true_r. repeat split; auto.
  - destruct (o_dropped o1); [repeat split; reflexivity|unfold mark_bad; oproj; rewrite ?orb_false_r, ?andb_true_r; repeat split; reflexivity].
Qed.

(* ---------------------------------------------------------------- the op *)
Section TopHPoll.
  Context {T C : Type}.
  Variable tp : transport T response cmsg.
  Variable ctl : T -> C -> T.
  Variable tfuel : T -> nat.
  Variable c : cfg.
  Notation st := (@sstate T).
  Notation lim := (cfg_limit c).

  Lemma execute_polled_live : forall k hs (s : st) s1 body hr,
    execute_poll k hs s = (s1, body) -> nth_error (s_handlers s) k = Some hr ->
    existsb hpolled_ev body = true ->
    ~ over (h_st hr) /\ ~ In (h_h hr) (s_aborted s).
  Proof.
    intros k hs s s1 body hr H Hk Hp. unfold execute_poll in H. rewrite Hk in H.
    destruct (existsb (Nat.eqb (h_h hr)) (s_aborted s)) eqn:EA.
    - exfalso. destruct (h_st hr); injection H as _ <-; cbn in Hp; discriminate.
    - assert (Hn : ~ In (h_h hr) (s_aborted s)).
      { intros Hin. assert (existsb (Nat.eqb (h_h hr)) (s_aborted s) = true).
        { apply existsb_exists. exists (h_h hr). split; [exact Hin|apply Nat.eqb_refl]. } congruence. }
      split; [|exact Hn]. intros Ho.
      destruct (h_st hr); try destruct Ho; injection H as _ <-; cbn in Hp; discriminate.
  Qed.

  (* a tracked handler's incarnation is open *)
  Lemma trk_open : forall o (s : st) k oi,
    InvU o s -> trk s k -> nth_error (o_incs o) k = Some oi -> is_open (oi_wire oi) = true.
  Proof.
    intros o s k oi HI (hr & e & A & B & Ch) Hoi.
    destruct (u_owner _ _ HI e B) as [(k' & Ho)|(_ & Hno)].
    - destruct Ho as (hr' & oi' & A' & B' & C' & D' & E' & _).
      assert (k' = k) by (eapply NoDup_map_nth_inj; [exact (u_hnodup _ _ HI)|exact A'|exact A|congruence]).
      subst k'. rewrite Hoi in B'. inversion B'; subst oi'. exact E'.
    - exfalso. apply (Hno hr); [eapply nth_error_In; eauto|symmetry; exact Ch].
  Qed.

  Theorem topH_handler_poll : forall o (s : st) k hs s' l,
    Top o s -> hb_ok s -> TopH o s -> step tp ctl tfuel c s (OHandlerPoll k hs) = (s', l) ->
    TopH (ostep lim o (@OHandlerPoll C k hs) l) s'.
  Proof.
    intros o s k hs s' l HT Hhb HH ES. unfold step in ES.
    destruct (execute_poll k hs s) as [s1 body] eqn:EE. injection ES as <- <-.
    destruct (h_stop (o_v o)) eqn:EH; [|unfold ostep; rewrite EH; cbn [negb]; intros Hf; congruence].
    rewrite (ostep_nonpoll c (@OHandlerPoll C k hs) o _ EH I).
    destruct (HT EH) as (HI & _ & _).
    (* nothing changes *)
    assert (Hsame : forall g, TopH (otail o g) s).
    { intros g Hs Hb. destruct (otail_flags o g) as (F1 & F2 & F3 & F4 & F5 & F6).
      rewrite F5 in Hb. destruct (HH EH Hb) as (Sf & OT & V8 & V4 & Hinv).
      split; [exact Sf|]. split; [intros j oi Hj; rewrite F1 in Hj; exact (OT j oi Hj)|].
      split; [congruence|]. split; [congruence|]. intros Hc. rewrite F2 in Hc.
      eapply InvH_frame; [exact (Hinv Hc)|exact F1|reflexivity..]. }
    destruct (nth_error (s_handlers s) k) as [hr|] eqn:Hk.
    2: { unfold execute_poll in EE. rewrite Hk in EE. injection EE as <- <-.
         cbn [app]. rewrite fst_split_nil'. cbn [fold_left]. apply Hsame. }
    destruct (execute_poll_body k hs s s1 body hr EE Hk) as (Hb & _ & _).
    assert (Hfst : fst (split_gauges (body ++ gauges s1)) = body).
    { destruct (s_dropped s1) eqn:ED.
      - unfold gauges. rewrite ED, app_nil_r, (split_gauges_plain _ (for_k_plain _ _ Hb)). reflexivity.
      - rewrite (split_gauges_app body s1 ED). reflexivity. }
    rewrite Hfst.
    destruct (execute_poll_summary k hs s s1 body hr EE Hk) as [(-> & Hbody)|Hch].
    { assert (Hf : fold_left o_hevent body o = o) by (destruct Hbody as [->| ->]; reflexivity).
      rewrite Hf. apply Hsame. }
    destruct Hch as (st' & push & Hun & _ & Hsh & Hinf & Hab & Hcan & Hdr & Hq & Hpush).
    assert (Hoi : exists oi, nth_error (o_incs o) k = Some oi).
    { assert (k < length (o_incs o)) by (rewrite (u_len _ _ HI); apply nth_error_Some; congruence).
      apply nth_error_Some in H. destruct (nth_error (o_incs o) k); [eauto|congruence]. }
    destruct Hoi as (oi & Hoi).
    destruct (hevents_proj k body o oi Hb Hoi) as (P1 & _ & _ & _ & _ & _ & P7 & P8). cbv zeta in *.
    set (o1 := fold_left o_hevent body o) in *.
    intros Hs Hbb. destruct (otail_flags o1 (snd (split_gauges (body ++ gauges s1)))) as (F1 & F2 & F3 & F4 & F5 & F6).
    (* the polled handler is tracked, so its incarnation is not cancelled *)
    assert (Hb1o1 : h_b1 (o_v o1) = true) by congruence.
    assert (Hpre : h_b1 (o_v o) = true -> Safe s /\ OpenTrk o s /\ v08 (o_v o) = true /\ v04 (o_v o) = true
                                          /\ (c_err (o_v o) = false -> InvH o s)) by (intros X; exact (HH EH X)).
    assert (Hwire : h_b1 (o_v o) = true -> existsb hpolled_ev body = true -> oi_wire oi <> WCancelled).
    { intros X Hp. destruct (Hpre X) as (Sf & _).
      destruct (execute_polled_live _ _ _ _ _ _ EE Hk Hp) as (Hno & Hna).
      destruct (Sf k hr Hk) as [Ht|[Ha|Ho]]; [|contradiction|contradiction].
      pose proof (trk_open o s k oi HI Ht Hoi) as Hop. intros E. rewrite E in Hop. discriminate. }
    (* h_b1 does not depend on the wire: get it first *)
    assert (Hb1 : h_b1 (o_v o) = true).
    { clear -Hb Hoi Hb1o1. subst o1. revert o oi Hoi Hb1o1. induction body as [|e body IH]; intros o oi Hoi H; [exact H|].
      cbn [forallb] in Hb. apply andb_true_iff in Hb. destruct Hb as [He Hb]. cbn [fold_left] in H.
      destruct (hevents_proj k [e] o oi) as (S1 & _); [cbn; rewrite He; reflexivity|exact Hoi|].
      cbv zeta in S1. cbn [fold_left] in S1.
      assert (Hk' : nth_error (o_incs (o_hevent o e)) k = Some (gstep e oi)) by (rewrite S1; apply upd_nth_same; exact Hoi).
      specialize (IH Hb (o_hevent o e) (gstep e oi) Hk' H).
      destruct e; cbn in He; try discriminate; apply Nat.eqb_eq in He; subst; cbn [o_hevent] in IH;
        rewrite ?Hoi in IH; oproj; exact IH. }
    destruct (Hpre Hb1) as (Sf & OT & V8 & V4 & Hinv).
    destruct (ohevents_flags k body o oi Hb Hoi (Hwire Hb1)) as (E8 & E4 & E1). cbv zeta in *. fold o1 in E8, E4, E1.
    pose proof Hsh as (Hm & _).
    split; [|split; [|split; [congruence|split; [congruence|]]]].
    - apply (Safe_hshape s s1 k hr st' Sf Hk Hsh); auto. intros Ho. exfalso. eapply unsent_not_over; eauto.
    - intros j x Hj Hw. rewrite F1, P1 in Hj.
      destruct (upd_nth_inv _ _ _ _ _ Hj) as (y & Hy & D).
      assert (oi_wire x = oi_wire y).
      { destruct D as [(_ & ->)|(_ & ->)]; [|reflexivity]. destruct (gfold_pres body y) as (_ & _ & W). exact W. }
      apply (trk_hh s s1 j Hm Hinf). apply (OT j y Hy). congruence.
    - intros Hc. rewrite F2, P7 in Hc.
      destruct (u_hand _ _ HI k hr oi Hk Hoi) as (_ & _ & Hdn & _).
      apply (InvH_hpoll o _ s s1 k hr oi (fun i => fold_left (fun x e => gstep e x) body i) st' push
               (Hinv Hc) HI Hk Hoi Hun); auto.
      + rewrite F1. exact P1.
      + intros i. destruct (gfold_pres body i) as (A & _ & W). cbv zeta in *. auto.
      + destruct Hpush as [Hp|(b & Hp & Hst & Hd)]; [left; exact Hp|right; exists b; auto].
  Qed.
End TopHPoll.
Print Assumptions topH_handler_poll.
