(* C02, server half, monitor proof, part 4: the five clauses of wm_check at the end of a settle,
   from the run invariant WI (ServerWakeMon3.v) and the quiet-round facts QEnd (ServerWakeMon2.v). *)
From Coq Require Import List Bool Arith NArith Lia.
Import ListNotations.
From TarpcV Require Import Base Transport TimerWheel Server ServerMon ServerFuel ServerContract
     ServerSim ServerSim2 ServerSim3 ServerSim4 ServerSim5 ServerSim6 ServerSim7 ServerProps ServerState
     ServerProofsPB0 ServerProofsPA0 ServerProofsPA1 ServerProofsPA2 ServerProofsPA3 ServerProofsPA4
     ServerProofsPA5 ServerProofsPC0 ServerProofsPC1 ServerProofsPC11
     ServerWake ServerWakeSpec ServerWakeSettles ServerWakeMon0 ServerWakeMon1 ServerWakeMon2 ServerWakeMon3.

Lemma existsb_false_forall {A} (f : A -> bool) l : (forall x, In x l -> f x = false) -> existsb f l = false.
Proof.
  intros H. destruct (existsb f l) eqn:E; [|reflexivity]. apply existsb_exists in E. destruct E as (x & Hx & Fx).
  rewrite (H x Hx) in Fx. discriminate.
Qed.

Lemma nperm_zero l : (forall h, In h l -> is_permit_st (h_st h) = false) -> nperm l = 0.
Proof.
  unfold nperm. induction l as [|x r IH]; intros H; cbn [filter]; [reflexivity|].
  rewrite (H x (or_introl eq_refl)). apply IH. intros h Hh. apply H. right. exact Hh.
Qed.

Ltac dW H :=
  destruct H as [wi_top0 wi_hb0 wi_toph0 wi_stop0 wi_hyp0 wi_rel0 wi_oi0 wi_invq0 wi_gone0 wi_pa0 wi_da0 wi_qp0
                 wi_tr0 wi_fused0 wi_alive0 wi_cerr0].

Section Clauses.
  Variable c : cfg.
  Variable cap : nat.
  Variable coupled : bool.
  Hypothesis Hbuf : 1 <= cfg_buf c.
  Variable w : WST.
  Variable m : wmon.
  Variable o : ostate.
  Hypothesis HW : WI c cap coupled w m o.
  Hypothesis HQ : QEnd c w.
  Notation s := (w_s w).

  Let HI : InvU o s.
  Proof. pose proof HW as HW'. dW HW'. destruct (wi_top0 wi_stop0) as (X & _). exact X. Qed.
  Let Hdrop : wm_dropped m = s_dropped s.
  Proof. pose proof HW as HW'. dW HW'. destruct wi_rel0 as (_ & _ & X & _). rewrite X. exact (u_dropped _ _ HI). Qed.
  Let Hnow : wm_now m = s_now s.
  Proof. pose proof HW as HW'. dW HW'. destruct wi_rel0 as (_ & X & _). rewrite X. exact (u_now _ _ HI). Qed.
  Let Hlen : length (wm_incs m) = length (s_handlers s).
  Proof. pose proof HW as HW'. dW HW'. destruct wi_rel0 as (X & _). rewrite X. exact (u_len _ _ HI). Qed.

  (* an incarnation of the monitor, with its images *)
  Lemma inc_at : forall k mi, nth_error (wm_incs m) k = Some mi ->
    exists oi hr, nth_error (o_incs o) k = Some oi /\ nth_error (s_handlers s) k = Some hr
                  /\ RelK (s_now s) (s_dropped s) mi oi.
  Proof.
    intros k mi A. pose proof HW as HW'. dW HW'. destruct wi_rel0 as (L & _ & _ & HR).
    assert (L1 : k < length (o_incs o)) by (rewrite <- L; apply nth_error_Some; congruence).
    assert (L2 : k < length (s_handlers s)) by (rewrite <- (u_len _ _ HI); exact L1).
    apply nth_error_Some in L1. apply nth_error_Some in L2.
    destruct (nth_error (o_incs o) k) as [oi|] eqn:B; [|congruence].
    destruct (nth_error (s_handlers s) k) as [hr|] eqn:D; [|congruence].
    exists oi, hr. split; [reflexivity|split; [reflexivity|]].
    rewrite <- (u_now _ _ HI), <- (u_dropped _ _ HI). exact (HR k mi oi A B).
  Qed.
  Lemma inc_of : forall k oi, nth_error (o_incs o) k = Some oi -> exists mi, nth_error (wm_incs m) k = Some mi.
  Proof.
    intros k oi A. pose proof HW as HW'. dW HW'. destruct wi_rel0 as (L & _).
    assert (L1 : k < length (wm_incs m)) by (rewrite L; apply nth_error_Some; congruence).
    apply nth_error_Some in L1. destruct (nth_error (wm_incs m) k); [eauto|congruence].
  Qed.

  (* a running incarnation at the end of a settle: its handler is stuck and tracked *)
  Lemma running_stuck : forall k mi oi hr,
    nth_error (wm_incs m) k = Some mi -> nth_error (o_incs o) k = Some oi -> nth_error (s_handlers s) k = Some hr ->
    mi_ended mi = false ->
    stuck s hr /\ trk s k.
  Proof.
    intros k mi oi hr A B D En. destruct HQ as (Hny & Hst & _).
    destruct (ended_over c cap coupled w m o k mi hr HW A D) as ((E1 & E2) & _).
    assert (Hno : ~ over (h_st hr)) by (intros X; specialize (E2 X); congruence).
    assert (Hl : h_live (h_st hr) = true) by (destruct (h_st hr); cbn in *; auto; exfalso; apply Hno; exact I).
    pose proof (Hst k hr D Hl) as S. split; [exact S|].
    pose proof HW as HW'. dW HW'. destruct (wi_toph0 wi_stop0 wi_hyp0) as (Sf & _).
    destruct (Sf k hr D) as [T|[X|X]]; [exact T| |contradiction]. destruct S as (N & _). contradiction.
  Qed.

  Definition alive_b : bool := wm_alive m && negb (wm_dropped m).
  Definition writable_b : bool :=
    wm_ready m && wm_flush m && negb (wm_tainted m) && (Nat.eqb cap 0 || coupled).
  Definition limited_b : bool := match cfg_limit c with Some _ => true | None => false end.

  Lemma alive_facts : alive_b = true -> s_dropped s = false /\ w_end w = None /\ c_err (o_v o) = false.
  Proof.
    unfold alive_b. intros H. apply andb_true_iff in H. destruct H as [A B]. apply negb_true_iff in B.
    rewrite Hdrop in B. pose proof HW as HW'. dW HW'. rewrite wi_alive0 in A. apply negb_true_iff in A.
    assert (E : w_end w = None) by (destruct (w_end w); [discriminate|reflexivity]).
    split; [exact B|split; [exact E|]]. destruct (c_err (o_v o)) eqn:X; [|reflexivity].
    specialize (wi_cerr0 eq_refl). congruence.
  Qed.

  Lemma writable_facts : writable_b = true -> Wt (s_t s).
  Proof.
    unfold writable_b. intros H. apply andb_true_iff in H. destruct H as [H D]. apply andb_true_iff in H. destruct H as [H T].
    apply andb_true_iff in H. destruct H as [A B]. pose proof HW as HW'. dW HW'. destruct wi_tr0 as [R1 R2 R3 R4 R5 R6 R7].
    unfold Wt. rewrite <- R1, <- R2, R3, R4. split; [exact A|split; [exact B|]].
    apply orb_true_iff in D. destruct D as [D|D]; [left; apply Nat.eqb_eq; exact D|right; exact D].
  Qed.

  Lemma read_ok : alive_b = true -> negb limited_b || writable_b = true -> ReadOk s.
  Proof.
    intros Ha Hl. destruct (alive_facts Ha) as (D & E & _). destruct HQ as (_ & _ & Hs). destruct (Hs D E) as (QW & QR).
    apply QR. apply orb_true_iff in Hl. destruct Hl as [Hl|Hl].
    - left. unfold limited_b in Hl. destruct (cfg_limit c); [discriminate|reflexivity].
    - right. exact (proj1 (QW (writable_facts Hl))).
  Qed.

  (* ---- (a) ---------------------------------------------------------------------------------- *)
  Lemma clause_a :
    existsb (fun i => negb (mi_ended i)
                      && (wm_dropped m || mi_cancelled i
                          || (alive_b && (negb limited_b || writable_b) && N.leb (mi_when i) (wm_now m))))
            (wm_incs m) = false.
  Proof.
    apply existsb_false_forall. intros mi Hin. apply In_nth_error in Hin. destruct Hin as (k & A).
    destruct (inc_at k mi A) as (oi & hr & B & D & RK).
    destruct (mi_ended mi) eqn:En; [reflexivity|]. cbn [negb andb].
    destruct (running_stuck k mi oi hr A B D En) as ((Nab & _) & Tk).
    pose proof HW as HW'. dW HW'.
    apply orb_false_iff. split; [apply orb_false_iff; split|].
    - (* dropped *)
      rewrite Hdrop. destruct (s_dropped s) eqn:Ed; [|reflexivity]. exfalso.
      destruct Tk as (hr' & e & X1 & X2 & X3). rewrite D in X1. inversion X1; subst hr'.
      apply Nab. rewrite <- X3. exact (wi_da0 Ed e X2).
    - (* cancelled *)
      destruct (mi_cancelled mi) eqn:Ec; [|reflexivity]. exfalso.
      pose proof (rk_cancelled _ _ _ _ RK Ec) as X. rewrite (trk_open o s k oi HI Tk B) in X. discriminate.
    - (* due *)
      destruct alive_b eqn:Ea; [|reflexivity]. destruct (negb limited_b || writable_b) eqn:El; [|reflexivity].
      cbn [andb]. destruct (N.leb (mi_when mi) (wm_now m)) eqn:Ew; [|reflexivity]. exfalso.
      destruct (alive_facts Ea) as (Ed & Ee & Ece).
      destruct (read_ok Ea El) as ((_ & Hdue) & _).
      destruct (wi_top0 wi_stop0) as (_ & _ & Hr). destruct (Hr Ece) as (Hh & _).
      destruct (trk_owns o s k HI (all_owned_of_handled o s HI Hh) Ece Tk) as (e & He & (hr' & oi' & Y1 & Y2 & Y3 & Y4 & Y5 & Y6 & _)).
      rewrite B in Y2. inversion Y2; subst oi'.
      assert (Hd : In (e_id e, oi_when oi) (due s)).
      { unfold due. apply filter_In. split; [exact Y6|]. cbn [snd]. rewrite <- (rk_when _ _ _ _ RK), <- Hnow. exact Ew. }
      rewrite Hdue in Hd. exact Hd.
  Qed.

  (* ---- a handler that finished and waits for a place in the queue ------------------------- *)
  Definition waiting_b : bool := existsb (fun i => mi_done i && negb (mi_ended i)) (wm_incs m).

  Lemma waiting_full : waiting_b = true -> s_dropped s = false /\ length (s_respq s) = cfg_buf c.
  Proof.
    unfold waiting_b. intros H. apply existsb_exists in H. destruct H as (mi & Hin & F).
    apply andb_true_iff in F. destruct F as [Fd Fe]. apply negb_true_iff in Fe.
    apply In_nth_error in Hin. destruct Hin as (k & A).
    destruct (inc_at k mi A) as (oi & hr & B & D & RK).
    destruct (running_stuck k mi oi hr A B D Fe) as ((Nab & St) & Tk).
    destruct (ended_over c cap coupled w m o k mi hr HW A D) as (_ & [Y|Ed]).
    { exfalso. destruct HQ as (Hny & _). apply (Hny k). exists hr. auto. }
    destruct St as [St|(b & St & Hd)]; [rewrite St in Ed; congruence|].
    split; [exact Hd|].
    pose proof HW as HW'. dW HW'. destruct wi_pa0 as (HS & (PA & PB & PD)).
    assert (Wk : In k (s_waiters s)).
    { apply PA. exists hr. split; [exact D|]. rewrite St. reflexivity. }
    assert (P0 : s_permits s = 0) by (apply PD; intros X; rewrite X in Wk; exact Wk).
    assert (N0 : nperm (s_handlers s) = 0).
    { apply nperm_zero. intros h Hh. apply In_nth_error in Hh. destruct Hh as (j & Hj).
      destruct (h_st h) eqn:Eh; try reflexivity. exfalso.
      destruct HQ as (_ & Hst & _). destruct (Hst j h Hj) as (_ & [X|(b' & X & _)]); [rewrite Eh; reflexivity|congruence|congruence]. }
    specialize (HS Hd). unfold PSum, PSumc in HS. lia.
  Qed.

  (* the responses in the queue belong to distinct incarnations that the monitor counts as buffered *)
  Lemma queue_counted :
    length (s_respq s)
    <= length (filter (fun i => mi_done i && mi_ended i && negb (mi_gone i) && negb (mi_written i)) (wm_incs m)).
  Proof.
    pose proof HW as HW'. dW HW'. destruct wi_invq0 as [_ Q2 Q3].
    rewrite <- (map_length resp_id (s_respq s)).
    rewrite <- (map_length mi_id (filter _ (wm_incs m))).
    apply NoDup_incl_length; [exact Q2|].
    intros id Hin. apply in_map_iff in Hin. destruct Hin as (mm & <- & Hm).
    destruct (Q3 mm Hm) as (k & hr & oi & A & B & Eid & _ & Hd & Hdn & Hw).
    destruct (inc_of k oi B) as (mi & Ami).
    destruct (inc_at k mi Ami) as (oi' & hr' & B' & D' & RK). rewrite B in B'. inversion B'; subst oi'.
    rewrite A in D'. inversion D'; subst hr'.
    apply in_map_iff. exists mi. split; [rewrite (rk_id _ _ _ _ RK); exact Eid|].
    apply filter_In. split; [eapply nth_error_In; exact Ami|].
    destruct (ended_over c cap coupled w m o k mi hr HW Ami A) as ((_ & E2) & _).
    rewrite (rk_done _ _ _ _ RK), Hdn. cbn [isome]. rewrite E2 by (rewrite Hd; exact I). cbn [andb].
    assert (G : mi_gone mi = false).
    { destruct (mi_gone mi) eqn:X; [|reflexivity]. apply (wi_gone0 k mi hr Ami A) in X. congruence. }
    assert (Wr : mi_written mi = false).
    { destruct (mi_written mi) eqn:X; [|reflexivity]. exfalso. apply Hw. exact (rk_written _ _ _ _ RK X). }
    rewrite G, Wr. reflexivity.
  Qed.

  (* ---- (b) ---------------------------------------------------------------------------------- *)
  Lemma clause_b :
    negb waiting_b
    || (negb (wm_dropped m)
        && Nat.leb (cfg_buf c)
             (length (filter (fun i => mi_done i && mi_ended i && negb (mi_gone i) && negb (mi_written i)) (wm_incs m))))
    = true.
  Proof.
    destruct waiting_b eqn:Ew; [|reflexivity]. cbn [negb orb].
    destruct (waiting_full Ew) as (Hd & Hf). rewrite Hdrop, Hd. cbn [negb andb].
    apply Nat.leb_le. rewrite <- Hf. exact queue_counted.
  Qed.

  (* ---- (c) ---------------------------------------------------------------------------------- *)
  Lemma clause_c :
    negb (alive_b && negb (wm_tainted m) && (negb limited_b || writable_b))
    || Nat.eqb (wm_delivered m) (wm_read m) = true.
  Proof.
    destruct (alive_b && negb (wm_tainted m) && (negb limited_b || writable_b)) eqn:E; [|reflexivity]. cbn [negb orb].
    apply andb_true_iff in E. destruct E as [E El]. apply andb_true_iff in E. destruct E as [Ea _].
    destruct (read_ok Ea El) as (_ & HIb).
    pose proof HW as HW'. dW HW'.
    assert (Hin : st_inbox (s_t s) = []).
    { destruct HIb as [F|(X & _)]; [exact (proj1 (wi_fused0 F))|exact X]. }
    apply Nat.eqb_eq. rewrite (tr_inbox _ _ _ _ wi_tr0), Hin. cbn. lia.
  Qed.

  (* ---- (d) ---------------------------------------------------------------------------------- *)
  Lemma clause_d :
    negb (alive_b && writable_b)
    || (negb waiting_b
        && negb (existsb (fun i => mi_done i && mi_ended i && negb (mi_gone i) && negb (mi_written i)
                                    && negb (mi_cancelled i) && negb (N.leb (mi_when i) (wm_now m)))
                         (wm_incs m))) = true.
  Proof.
    destruct (alive_b && writable_b) eqn:E; [|reflexivity]. cbn [negb orb].
    apply andb_true_iff in E. destruct E as [Ea Ewr].
    destruct (alive_facts Ea) as (Ed & Ee & Ece).
    assert (Hq : s_respq s = []).
    { destruct HQ as (_ & _ & Hs). destruct (Hs Ed Ee) as (QW & _). exact (proj2 (QW (writable_facts Ewr))). }
    apply andb_true_iff. split.
    - destruct waiting_b eqn:Ew; [|reflexivity]. exfalso. destruct (waiting_full Ew) as (_ & Hf).
      rewrite Hq in Hf. cbn in Hf. lia.
    - apply negb_true_iff. apply existsb_false_forall. intros mi Hin. apply In_nth_error in Hin. destruct Hin as (k & A).
      destruct (inc_at k mi A) as (oi & hr & B & D & RK).
      match goal with |- ?x = false => destruct x eqn:F end; [|reflexivity]. exfalso.
      apply andb_true_iff in F. destruct F as [F F6]. apply andb_true_iff in F. destruct F as [F F5].
      apply andb_true_iff in F. destruct F as [F F4]. apply andb_true_iff in F. destruct F as [F F3].
      apply andb_true_iff in F. destruct F as [F1 F2].
      assert (Wo : wopen (s_now s) mi = true).
      { unfold wopen. rewrite F3, F5, F4. cbn [andb]. rewrite <- Hnow. exact F6. }
      pose proof (rk_wopen _ _ _ _ RK Wo) as Hwire.
      pose proof HW as HW'. dW HW'. destruct (wi_toph0 wi_stop0 wi_hyp0) as (_ & OT & _).
      destruct (OT k oi B Hwire) as (hr' & e & X1 & X2 & X3). rewrite D in X1. inversion X1; subst hr'.
      destruct (ended_over c cap coupled w m o k mi hr HW A D) as ((E1 & _) & _).
      assert (Hdn : h_st hr = HDone).
      { specialize (E1 F2). destruct (h_st hr) eqn:X; cbn in E1; try contradiction; [reflexivity|].
        exfalso. apply negb_true_iff in F3. assert (mi_gone mi = true) by (apply (wi_gone0 k mi hr A D); exact X). congruence. }
      destruct (wi_qp0 k hr e D Hdn X2 X3) as [Y|[Y|Y]].
      + destruct (u_aborted _ _ HI k hr oi D B Y) as [Z|Z]; congruence.
      + congruence.
      + unfold qids in Y. rewrite Hq in Y. exact Y.
  Qed.

  (* ---- (e) ---------------------------------------------------------------------------------- *)
  Lemma clause_e_eq :
    Nat.eqb (if s_dropped s then 0 else length (s_inflight s)) (if s_dropped s then 0 else length (s_timers s)) = true.
  Proof. destruct (s_dropped s); [reflexivity|]. apply Nat.eqb_eq. symmetry. exact (gauge_timers o s HI). Qed.

  Lemma clause_e_bound :
    negb (alive_b && (negb limited_b || writable_b))
    || Nat.leb (if s_dropped s then 0 else length (s_inflight s))
               (length (filter (fun i => negb (mi_gone i) && negb (mi_cancelled i) && negb (mi_written i)
                                         && negb (N.leb (mi_when i) (wm_now m))) (wm_incs m))) = true.
  Proof.
    destruct (alive_b && (negb limited_b || writable_b)) eqn:E; [|reflexivity]. cbn [negb orb].
    apply andb_true_iff in E. destruct E as [Ea El].
    destruct (alive_facts Ea) as (Ed & Ee & Ece). rewrite Ed.
    destruct (read_ok Ea El) as ((Hcan & Hdue) & _).
    pose proof HW as HW'. dW HW'.
    destruct (wi_top0 wi_stop0) as (_ & _ & Hr). destruct (Hr Ece) as (Hh & _).
    pose proof (all_owned_of_handled o s HI Hh Ece) as Hown.
    apply Nat.leb_le.
    rewrite <- (map_length e_id (s_inflight s)).
    rewrite <- (map_length mi_id (filter _ (wm_incs m))).
    apply NoDup_incl_length; [exact (u_idnodup _ _ HI)|].
    intros id Hin. apply in_map_iff in Hin. destruct Hin as (e & <- & He).
    destruct (Hown e He) as (k & Ho). pose proof Ho as (hr & oi & A & B & Y3 & Y4 & Y5 & Y6 & _).
    destruct (inc_of k oi B) as (mi & Ami).
    destruct (inc_at k mi Ami) as (oi' & hr' & B' & D' & RK). rewrite B in B'. inversion B'; subst oi'.
    apply in_map_iff. exists mi. split; [rewrite (rk_id _ _ _ _ RK); exact Y4|].
    apply filter_In. split; [eapply nth_error_In; exact Ami|].
    (* the owner is surely open: nothing is due, no server cancel is queued *)
    assert (Hwire : oi_wire oi = WOpen).
    { destruct (oi_wire oi) eqn:X; try discriminate; [reflexivity|]. exfalso.
      destruct (u_maybe _ _ HI k e oi He Ho B X) as [Z|Z].
      - assert (Hd : In (e_id e, oi_when oi) (due s)).
        { unfold due. apply filter_In. split; [exact Y6|]. cbn [snd]. apply N.leb_le. exact Z. }
        rewrite Hdue in Hd. exact Hd.
      - rewrite Hcan in Z. exact Z. }
    assert (G : mi_gone mi = false) by exact (rk_gone_open _ _ _ _ RK Ed Hwire).
    assert (Cc : mi_cancelled mi = false).
    { destruct (mi_cancelled mi) eqn:X; [|reflexivity]. pose proof (rk_cancelled _ _ _ _ RK X) as Z. rewrite Hwire in Z. discriminate. }
    assert (Wr : mi_written mi = false).
    { destruct (mi_written mi) eqn:X; [|reflexivity]. pose proof (rk_written _ _ _ _ RK X) as Z. congruence. }
    assert (Yg : N.leb (mi_when mi) (wm_now m) = false).
    { apply N.leb_gt. rewrite (rk_when _ _ _ _ RK), Hnow. exact (rk_young _ _ _ _ RK Hwire). }
    rewrite G, Cc, Wr, Yg. reflexivity.
  Qed.

  (* ---- all of them ---------------------------------------------------------------------------- *)
  Theorem check_ok :
    wm_check c cap coupled m (if s_dropped s then 0 else length (s_inflight s))
                             (if s_dropped s then 0 else length (s_timers s)) = true.
  Proof.
    unfold wm_check.
    fold alive_b. fold writable_b. fold limited_b. fold waiting_b.
    rewrite clause_a, clause_b, clause_c, clause_d, clause_e_eq, clause_e_bound. reflexivity.
  Qed.
End Clauses.
